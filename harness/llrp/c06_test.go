//go:build verif

package llrp

import (
	"bytes"
	"context"
	"encoding/binary"
	"encoding/hex"
	"fmt"
	"io"
	"net"
	"strconv"
	"strings"
	"sync"
	"testing"
	"time"
)

// C06 — version negotiation.  One request line per session:
//
//	<sid> <cmax> <r1> <r2> [T<ms>] [C] [K1] [K2] [D1:<n>|D1:<pattern>] [D2:<n>|D2:<pattern>] [LA] [V<g><n><l>] [EN0|ES0|EN1|ES1|EN2|ES2] [P=<step>,<step>,…]
//
// cmax: 1|2 (WithVersion).  r1/r2: how the scripted reader answers GET_SUPPORTED_VERSION /
// SET_PROTOCOL_VERSION:
//
//	R:<cb>:<mb>:<st>  proper response type (cb, mb = the two version bytes, st = LLRPStatus code;
//	                  cb, mb are not sent in a SetProtocolVersionResponse)
//	E:<st>            ERROR_MESSAGE with LLRPStatus st
//	W:<typ>           header-only frame of type typ, same message id
//	W:<typ>:<st>      frame of type typ carrying an LLRPStatus st (after two version bytes for type 56)
//	O                 proper response type, payload MaxBufferedPayloadSz+1 bytes
//	G1|G2|G3          proper response type, payload the decoders reject (truncated / wrong TLV
//	                  type / TLV longer than the message)
//	N                 no reply, and nothing else either (a client with a timeout loses the link)
//	S                 no reply, but the link stays alive: from the moment the message arrives the
//	                  reader sends a KEEPALIVE every quarter of the client's timeout (every 20 ms for
//	                  a client without one), waiting for each acknowledgement
//	L<pct>:<cb>:<mb>:<st>  like S, and pct % of the client's timeout (of 40 ms for a client without one) after
//	                  the message arrived the reader does send R:<cb>:<mb>:<st>: below 100 a slow answer in
//	                  time; the answer line ends with l<ms>,… = the measured latencies of these answers
//	L:<cb>:<mb>:<st>  = L150:…: like S, and after one and a half client timeouts (60 ms for a client without
//	                  one) the reader does send R:<cb>:<mb>:<st> — too late for a client with a
//	                  timeout, merely slow for one without
//
// T<ms>: the client is built WithTimeout(ms).  C: on N the reader closes the connection.
// K1: the reader sends a KEEPALIVE when it has received GET_SUPPORTED_VERSION and answers the
// query only after the KEEPALIVE_ACK has arrived; K2: the same for SET_PROTOCOL_VERSION.
// D1:<n>: a reader that stops reading for a while.  When it has received GET_SUPPORTED_VERSION (and,
// with K1, the acknowledgement of that KEEPALIVE) it sends n KEEPALIVEs and then its answer to the
// query WITHOUT reading anything, waits until the client has acted on the answer (Connect has gone
// on / returned, or the client's version has changed, or 25 ms), and only then reads again.  The
// client's write loop is blocked in the first acknowledgement meanwhile (net.Pipe), the other n-1
// wait in its queue: they are WRITTEN after the answer took effect.  D2:<n>: the same around the
// answer to SET_PROTOCOL_VERSION.  If Connect has failed meanwhile the reader stops for good.
// D1:<pattern> (letters k, r) is the general form (D1:<n> = k…k): k = send a KEEPALIVE, r = read one
// whole frame (the acknowledgement under way), all before the answer goes out.  Whenever a write of
// the client must be under way (a KEEPALIVE sent while none was outstanding; a frame read while
// more were outstanding) the reader takes its first byte — the one with the version bits — so
// that "the write loop has taken and stamped the next acknowledgement" is observed, not timed.
// LA: the traffic after negotiation starts with a KEEPALIVE (see below).
// V<g><n><l>: header version bits (0..7 each) the reader puts on its greeting, on what it sends
// during negotiation (replies, keep-alives) and on what it sends afterwards (default 1, 2, and
// echo of the request's version / 1 for keep-alives).
// E..: an early caller: SendNoWait(ENABLE_EVENTS_AND_REPORTS) (EN) or SendMessage(SET_READER_CONFIG)
// (ES) issued before Connect (0), while GET_SUPPORTED_VERSION is unanswered (1), while
// SET_PROTOCOL_VERSION is unanswered (2).  The reader goes on reading while it waits before an
// answer, so a frame written too early is recorded before the answer goes out.
//
// P=…: the traffic after negotiation is this script instead of the default one.  step ::= a (the
// reader sends a KEEPALIVE and waits for the ack) | <api><answer>: the k-th request (type 21+k%5 =
// DELETE/START/STOP/ENABLE/DISABLE_ROSPEC, payload = be32(k+1)) is sent through api M (SendMessage),
// F (SendFor with the generated structs) or N (SendNoWait) and the reader answers it with
// S (expected response, status 0) | X<st> (expected response, status st) | E<st> (ERROR_MESSAGE,
// status st) | W (a response of another type) | N (nothing: the caller's context ends the wait).
//
// When Connect proceeds: GET_READER_CONFIG (header only, SendMessage), KEEPALIVE from the reader,
// GET_READER_CAPABILITIES (1 byte payload, SendMessage); with LA: KEEPALIVE, GET_READER_CONFIG,
// KEEPALIVE, GET_READER_CAPABILITIES.  Each step waits for the previous one to complete.  The
// reader records every frame it receives.
//
// Answer line:
//
//	<sid> <proceeds|fails|panic|hang|waits> <cver> <frames before the outcome> <frames after> <req1> <req2> <ack> <early> <cver at the end> h<held>
//
// waits: a client WITHOUT a timeout had neither gone on nor returned 300 ms after the session began although
// a negotiation message is (S) never answered — it is still waiting.  In sessions with S / L
// reactions nothing read after the outcome is reported for a Connect that does not proceed.
// "before": for a Connect that proceeds, the frames the reader had read when it sent its last answer
// to a negotiation message (none without negotiation); otherwise all frames read when Connect ended.
// frames ::= - | f,f,…  f = <version bits>:<type>:<hex payload>.  cver = Client.version when
// Connect proceeded / returned; then Client.version at the end of the session.  req1/req2 = ok|err|- ; ack = ok|missing|-.
// held = number of KEEPALIVEs the reader sent, without reading, together with its LAST negotiation
// answer (D1/D2): their acknowledgements are the first frames "after"; the write of the first of
// them was under way when that answer was sent.
//
// The scripted reader builds and parses frames with its own code (c06Put/c06Read).

type c06Frame struct {
	ver     int
	typ     int
	id      uint32
	payload []byte
}

func (f c06Frame) String() string {
	return fmt.Sprintf("%d:%d:%s", f.ver, f.typ, hex.EncodeToString(f.payload))
}

func c06Frames(fs []c06Frame) string {
	if len(fs) == 0 {
		return "-"
	}
	s := make([]string, len(fs))
	for i, f := range fs {
		s[i] = f.String()
	}
	return strings.Join(s, ",")
}

// 10-byte header: [ver<<2 | typ>>8, typ&255, be32 total length, be32 id]
func c06Put(w io.Writer, ver, typ int, id uint32, payload []byte) error {
	b := make([]byte, 10+len(payload))
	b[0] = byte(ver<<2) | byte(typ>>8&3)
	b[1] = byte(typ)
	binary.BigEndian.PutUint32(b[2:], uint32(10+len(payload)))
	binary.BigEndian.PutUint32(b[6:], id)
	copy(b[10:], payload)
	_, err := w.Write(b)
	return err
}

func c06Read(r io.Reader) (c06Frame, error) {
	h := make([]byte, 10)
	if _, err := io.ReadFull(r, h); err != nil {
		return c06Frame{}, err
	}
	f := c06Frame{ver: int(h[0] >> 2 & 7), typ: int(h[0]&3)<<8 | int(h[1]), id: binary.BigEndian.Uint32(h[6:])}
	n := binary.BigEndian.Uint32(h[2:])
	if n < 10 || n > 1<<20 {
		return f, fmt.Errorf("bad length %d", n)
	}
	f.payload = make([]byte, n-10)
	_, err := io.ReadFull(r, f.payload)
	return f, err
}

// LLRPStatus TLV: type 287, length, status code, description length (+ description)
func c06Status(st int) []byte {
	desc := ""
	if st != 0 {
		desc = "no"
	}
	b := []byte{0x01, 0x1F, 0, byte(8 + len(desc)), byte(st >> 8), byte(st), 0, byte(len(desc))}
	return append(b, desc...)
}

type c06Peer struct {
	conn           net.Conn
	r1, r2         string
	closeOnSilence bool
	k1, k2         bool
	d1, d2         string                  // what a reader that has stopped reading does before its answer to the query / the switch (k: KEEPALIVE, r: read one frame)
	settled        func(mayGoOn bool) bool // waits until the client has acted on the answer just sent; false: Connect has failed
	pre            []byte                  // bytes of the next frame already taken off the connection (read loop only)
	timeout        time.Duration           // the client's timeout (0: none)
	unanswered     int                     // negotiation messages received and (S, L: not yet) answered; under mu
	kaAcked        chan struct{}           // one token per acknowledgement of a KEEPALIVE sent while a message is left unanswered
	lat            []int                   // ms from a negotiation message's arrival to the client having read its delayed answer (L); under mu
	quit           chan struct{}           // closed when the outcome of Connect has been observed: no more KEEPALIVEs in place of an answer
	vg, vn, vl     int                     // header versions: greeting, during negotiation, afterwards (-1: echo / 1)
	early          func()                  // starts the early caller (once)
	earlyAt        int                     // 1: when GET_SUPPORTED_VERSION arrives, 2: when SET_PROTOCOL_VERSION arrives
	appReact       []string                // answers to the application requests of a traffic script, in order
	appSeen        chan struct{}           // one token per application request of a traffic script read
	replyType2     int                     // if non-zero, GET_READER_CONFIG is answered with a header-only frame of this type

	pmu       sync.Mutex
	pendingID uint32
	pending   func()

	mu      sync.Mutex
	wmu     sync.Mutex
	frames  []c06Frame
	marker  int  // number of frames read when the reader last answered a negotiation message
	held    int  // KEEPALIVEs sent without reading together with that answer
	holding int  // KEEPALIVEs sent without reading since the reader stopped reading
	stop    bool // set by the read loop itself: Connect failed while the reader was not reading
	acks    chan c06Frame
	done    chan struct{}
}

func (p *c06Peer) seen() []c06Frame {
	p.mu.Lock()
	defer p.mu.Unlock()
	return append([]c06Frame(nil), p.frames...)
}

func (p *c06Peer) put(ver, typ int, id uint32, payload []byte) {
	p.wmu.Lock()
	defer p.wmu.Unlock()
	_ = c06Put(p.conn, ver, typ, id, payload)
}

// c06Settle is how long the reader waits before it answers a negotiation message: long enough
// for the client's write loop to have finished with the frame it just wrote and to be parked
// again, so that what the loop holds across its blocking point is what it held BEFORE the answer
// changed the client's version (the observed order is then the script order).
const c06Settle = 1500 * time.Microsecond

func (p *c06Peer) react(f c06Frame, r string, respType int, versions bool) {
	if r == "S" || strings.HasPrefix(r, "L") {
		p.leaveUnanswered(f, r, respType, versions)
		return
	}
	p.mu.Lock()
	p.marker = len(p.frames)
	p.held, p.holding = p.holding, 0
	p.mu.Unlock()
	parts := strings.Split(r, ":")
	num := func(i int) int { n, _ := strconv.Atoi(parts[i]); return n }
	switch parts[0] {
	case "R":
		var pl []byte
		if versions {
			pl = []byte{byte(num(1)), byte(num(2))}
		}
		p.put(p.vn, respType, f.id, append(pl, c06Status(num(3))...))
	case "E":
		p.put(p.vn, 100, f.id, c06Status(num(1)))
	case "W":
		var pl []byte
		if len(parts) > 2 { // another type that does carry an LLRPStatus
			pl = c06Status(num(2))
			if num(1) == 56 {
				pl = append([]byte{0x40, 0x40}, pl...)
			}
		}
		p.put(p.vn, num(1), f.id, pl)
	case "O":
		p.put(p.vn, respType, f.id, make([]byte, int(MaxBufferedPayloadSz)+1))
	case "G1": // truncated: shorter than the fixed part
		p.put(p.vn, respType, f.id, []byte{0x40, 0x40, 0x01, 0x1F, 0x00})
	case "G2": // a well-formed TLV of the wrong type (288 FieldError) where LLRPStatus must be
		pl := []byte{0x01, 0x20, 0x00, 0x08, 0, 0, 0, 0}
		if versions {
			pl = append([]byte{0x40, 0x40}, pl...)
		}
		p.put(p.vn, respType, f.id, pl)
	case "G3": // LLRPStatus TLV that claims more bytes than the message has
		pl := []byte{0x01, 0x1F, 0x00, 0x40, 0, 0, 0, 0}
		if versions {
			pl = append([]byte{0x40, 0x40}, pl...)
		}
		p.put(p.vn, respType, f.id, pl)
	case "N":
		if p.closeOnSilence {
			p.conn.Close()
		}
	}
}

// leaveUnanswered: the message gets no answer (S) or a late one (L) while the link is kept alive:
// KEEPALIVEs at a period well below the client's timeout, each sent when the previous one has been
// acknowledged (so that none is outstanding when the late answer goes out).
func (p *c06Peer) leaveUnanswered(f c06Frame, r string, respType int, versions bool) {
	p.mu.Lock()
	p.unanswered++
	p.mu.Unlock()
	// L<pct>:… = the answer goes out pct % of the client's timeout (of 40 ms for a client without one)
	// after the message arrived; L:… = L150:…
	pct, rest := 150, ""
	if r != "S" {
		i := strings.Index(r, ":")
		if i > 1 {
			pct, _ = strconv.Atoi(r[1:i])
		}
		rest = r[i:]
	}
	period, base := 20*time.Millisecond, 40*time.Millisecond
	if p.timeout > 0 {
		period, base = p.timeout/4, p.timeout
	}
	delay := base * time.Duration(pct) / 100
	start := time.Now().Add(-c06Settle) // react runs c06Settle after the message was read
	go func() {
		tick := time.NewTicker(period)
		defer tick.Stop()
		var late <-chan time.Time
		if r != "S" {
			late = time.After(delay)
		}
		id := uint32(950)
		for {
			select {
			case <-p.done:
				return
			case <-p.quit:
				return
			case <-late:
				p.mu.Lock()
				p.unanswered--
				p.mu.Unlock()
				p.react(f, "R"+rest, respType, versions)
				p.mu.Lock()
				p.lat = append(p.lat, int(time.Since(start)/time.Millisecond)) // the client has read the answer
				p.mu.Unlock()
				return
			case <-tick.C:
				if id++; id > 998 {
					id = 951
				}
				p.put(p.vn, 62, id, nil)
				select {
				case <-p.kaAcked:
				case <-p.done:
					return
				case <-time.After(time.Second):
				}
			}
		}
	}()
}

// maybeKeepAlive answers a negotiation message: directly, or (ka) by first sending a KEEPALIVE
// and answering when its acknowledgement has been read (or after 1 s, so that a missing ack shows
// up as a missing frame, not as a stuck session)
func (p *c06Peer) maybeKeepAlive(ka bool, id uint32, stage int, answer func()) {
	if p.early != nil && p.earlyAt == stage {
		p.early()
	}
	// the answer goes out c06Settle later, from a timer goroutine: the read loop keeps reading
	later := func() { time.AfterFunc(c06Settle, answer) }
	if d := map[int]string{1: p.d1, 2: p.d2}[stage]; d != "" {
		// a reader that stops reading: runs in the read loop itself (maybeKeepAlive and the
		// runPending that follows the acknowledgement are both called from it)
		later = func() { p.stall(stage, d, answer) }
	}
	if !ka {
		later()
		return
	}
	p.pmu.Lock()
	p.pendingID, p.pending = id, later
	p.pmu.Unlock()
	p.put(p.vn, 62, id, nil)
	time.AfterFunc(time.Second, func() {
		// the acknowledgement never came: answer anyway (without stalling: this is not the read loop)
		p.pmu.Lock()
		if p.pending != nil && p.pendingID == id {
			p.pending = func() { time.AfterFunc(c06Settle, answer) }
		}
		p.pmu.Unlock()
		p.runPending(id)
	})
}

// c06HeldID: ids of the KEEPALIVEs a stalled reader sends (stage 1: 911.., stage 2: 921..)
func c06HeldID(stage, i int) uint32 { return uint32(900 + 10*stage + 1 + i) }

// stall: d KEEPALIVEs and the answer go out while nothing is read; reading resumes (by returning
// to the read loop) when the client has acted on the answer.  That the client's write loop has
// begun to write the first acknowledgement before the answer goes out is OBSERVED, not timed: the
// reader takes the first byte of whatever the client writes next (the byte with the version bits)
// and leaves the rest — on net.Pipe the client's Write stays blocked until the rest is read too.
func (p *c06Peer) stall(stage int, pattern string, answer func()) {
	time.Sleep(c06Settle)
	sent, outstanding := 0, 0
	underWay := func() { // a write of the client must be under way: take its first byte
		first := make([]byte, 1)
		if _, err := io.ReadFull(p.conn, first); err == nil {
			p.pre = first
		}
	}
	for _, c := range pattern {
		switch c {
		case 'k':
			p.put(p.vn, 62, c06HeldID(stage, sent), nil)
			sent++
			outstanding++
			if outstanding == 1 {
				underWay()
			}
		case 'r':
			if outstanding == 0 {
				continue
			}
			f, err := c06Read(io.MultiReader(bytes.NewReader(p.pre), p.conn))
			p.pre = nil
			if err != nil {
				p.stop = true
				return
			}
			p.mu.Lock()
			p.frames = append(p.frames, f)
			p.mu.Unlock()
			outstanding--
			if outstanding > 0 {
				underWay()
			}
		}
	}
	d := outstanding
	p.mu.Lock()
	p.holding = d
	p.mu.Unlock()
	answer()
	// after the answer to the query another negotiation message may follow only if the answer was
	// a successful response; in every other case (and after the answer to the switch) the client
	// can only go on or fail, and that is waited for
	mayGoOn := stage == 1 && strings.HasPrefix(p.r1, "R:") && strings.HasSuffix(p.r1, ":0")
	if p.settled != nil && !p.settled(mayGoOn) {
		p.stop = true
	}
}

func (p *c06Peer) runPending(id uint32) bool {
	p.pmu.Lock()
	fn := p.pending
	if fn == nil || p.pendingID != id {
		p.pmu.Unlock()
		return false
	}
	p.pending = nil
	p.pmu.Unlock()
	fn()
	return true
}

// lver: header version of what the reader sends after negotiation
func (p *c06Peer) lver(dflt int) int {
	if p.vl >= 0 {
		return p.vl
	}
	return dflt
}

func (p *c06Peer) run() {
	defer close(p.done)
	// ReaderEventNotification: ReaderEventNotificationData{UTCTimestamp, ConnectionAttemptEvent=Success}
	ren, _ := hex.DecodeString("00f60016" + "0080000c" + "0005a738133c2c9e" + "01000006" + "0000")
	p.put(p.vg, 63, 0, ren)
	for {
		if p.stop {
			return
		}
		var rd io.Reader = p.conn
		if len(p.pre) > 0 {
			rd, p.pre = io.MultiReader(bytes.NewReader(p.pre), p.conn), nil
		}
		f, err := c06Read(rd)
		if err != nil {
			return
		}
		p.mu.Lock()
		p.frames = append(p.frames, f)
		p.mu.Unlock()
		switch f.typ {
		case 46:
			f := f
			p.maybeKeepAlive(p.k1, 801, 1, func() { p.react(f, p.r1, 56, true) })
		case 47:
			f := f
			p.maybeKeepAlive(p.k2, 802, 2, func() { p.react(f, p.r2, 57, false) })
		case 72:
			if f.id > 900 && f.id < 930 {
				break // acknowledgement of a KEEPALIVE sent while the reader was not reading: recorded, nobody waits for it
			}
			if f.id > 950 && f.id < 999 {
				select {
				case p.kaAcked <- struct{}{}:
				default:
				}
				break
			}
			if !p.runPending(f.id) {
				select {
				case p.acks <- f:
				default:
				}
			}
		case 1:
			p.put(p.lver(f.ver), 11, f.id, c06Status(0))
		case 2:
			if p.replyType2 != 0 {
				p.put(p.lver(f.ver), p.replyType2, f.id, nil)
			} else {
				p.put(p.lver(f.ver), 12, f.id, c06Status(0))
			}
		case 3:
			p.put(p.lver(f.ver), 13, f.id, c06Status(0))
		case 64: // ENABLE_EVENTS_AND_REPORTS has no response
		case 21, 22, 23, 24, 25:
			p.mu.Lock()
			r := "S"
			if len(p.appReact) > 0 {
				r, p.appReact = p.appReact[0], p.appReact[1:]
			}
			p.mu.Unlock()
			st := 0
			if len(r) > 1 {
				st, _ = strconv.Atoi(r[1:])
			}
			switch r[0] {
			case 'S', 'X':
				p.put(p.lver(f.ver), f.typ+10, f.id, c06Status(st))
			case 'E':
				p.put(p.lver(f.ver), 100, f.id, c06Status(st))
			case 'W':
				p.put(p.lver(f.ver), 12, f.id, c06Status(0))
			}
			select {
			case p.appSeen <- struct{}{}:
			default:
			}
		default:
			p.put(p.lver(f.ver), 100, f.id, c06Status(109))
		}
	}
}

func c06Session(line string) string {
	f := strings.Fields(line)
	if len(f) < 4 {
		return "error bad request"
	}
	sid := f[0]
	cmax, _ := strconv.Atoi(f[1])
	timeout := time.Duration(0)
	closeOnSilence := false
	k1, k2, ackFirst := false, false, false
	d1, d2 := "", ""
	pattern := func(o string) string {
		if n, err := strconv.Atoi(o); err == nil {
			return strings.Repeat("k", n)
		}
		return o
	}
	earlyKind, earlyAt := "", 0
	vg, vn, vl := 1, 2, -1
	var traffic []string
	for _, o := range f[4:] {
		switch o {
		case "K1":
			k1 = true
		case "K2":
			k2 = true
		case "LA":
			ackFirst = true
		case "EN0", "ES0", "EN1", "ES1", "EN2", "ES2":
			earlyKind, earlyAt = o[:2], int(o[2]-'0')
		}
		if strings.HasPrefix(o, "P=") {
			traffic = strings.Split(o[2:], ",")
		}
		if strings.HasPrefix(o, "D1:") {
			d1 = pattern(o[3:])
		}
		if strings.HasPrefix(o, "D2:") {
			d2 = pattern(o[3:])
		}
		if len(o) == 4 && o[0] == 'V' {
			vg, vn, vl = int(o[1]-'0'), int(o[2]-'0'), int(o[3]-'0')
		}
		if strings.HasPrefix(o, "T") {
			ms, _ := strconv.Atoi(o[1:])
			timeout = time.Duration(ms) * time.Millisecond
		} else if o == "C" {
			closeOnSilence = true
		}
	}

	cConn, pConn := net.Pipe()
	// nothing the scripted reader does may block for good, whatever the client does
	_ = pConn.SetDeadline(time.Now().Add(10 * time.Second))
	peer := &c06Peer{conn: pConn, r1: f[2], r2: f[3], closeOnSilence: closeOnSilence, k1: k1, k2: k2, d1: d1, d2: d2, vg: vg, vn: vn, vl: vl,
		acks: make(chan c06Frame, 4), done: make(chan struct{}), appSeen: make(chan struct{}, 64),
		timeout: timeout, kaAcked: make(chan struct{}, 8), quit: make(chan struct{})}
	silent := func(r string) bool { return r == "S" || strings.HasPrefix(r, "L") }
	quiet := silent(f[2]) || silent(f[3]) // a session in which a negotiation message may be left unanswered

	opts := []ClientOpt{WithVersion(VersionNum(cmax)), WithLogger(nil)}
	if timeout > 0 {
		opts = append(opts, WithTimeout(timeout))
	}
	client := NewClient(opts...)

	// the early caller: runs once, from the harness (before Connect) or from the reader's loop
	earlyDone := make(chan string, 1)
	var earlyOnce sync.Once
	startEarly := func() {
		earlyOnce.Do(func() {
			go func() {
				ctx, cancel := context.WithTimeout(context.Background(), 4*time.Second)
				defer cancel()
				if earlyKind == "EN" {
					if err := client.SendNoWait(ctx, NewHdrOnlyMsg(MsgEnableEventsAndReports)); err != nil {
						earlyDone <- "err"
					} else {
						earlyDone <- "ok"
					}
					return
				}
				typ, _, err := client.SendMessage(ctx, MsgSetReaderConfig, nil)
				if err != nil || typ != MsgSetReaderConfigResponse {
					earlyDone <- "err"
				} else {
					earlyDone <- "ok"
				}
			}()
		})
	}
	if earlyKind != "" {
		peer.early, peer.earlyAt = startEarly, earlyAt
		if earlyAt == 0 {
			startEarly()
			time.Sleep(c06Settle) // let it reach the gate
		}
	}
	connReturned := make(chan struct{})
	// a reader that has stopped reading waits here after an answer: until the client has acted
	// on it.  Connect going on (ready) or returning is final; an answer that leads to the next
	// negotiation message shows, if at all, as a change of Client.version (negotiate assigns it
	// before it sends SET_PROTOCOL_VERSION, which cannot be written while the reader does not
	// read); if the version stays what it was, the held acknowledgements carry the same version
	// whenever they are stamped, and 25 ms are waited.  Where no further negotiation message can
	// follow (mayGoOn false) only ready / Connect's return is waited for.
	peer.settled = func(mayGoOn bool) bool {
		v0 := cmax
		wait := 3 * time.Second
		if mayGoOn {
			wait = 25 * time.Millisecond
		}
		deadline := time.After(wait)
		tick := time.NewTicker(100 * time.Microsecond)
		defer tick.Stop()
		for {
			select {
			case <-connReturned:
				return false
			case <-client.ready:
				return true
			case <-deadline:
				return true
			case <-tick.C:
				if v := int(client.version); mayGoOn && v != v0 {
					// the version has been assigned; leave the client the time to go on to
					// whatever follows (ready, or handing over SET_PROTOCOL_VERSION)
					select {
					case <-connReturned:
						return false
					case <-client.ready:
					case <-time.After(c06Settle):
					}
					return true
				}
			}
		}
	}
	go peer.run()

	connDone := make(chan string, 1)
	go func() {
		defer close(connReturned)
		defer func() {
			if r := recover(); r != nil {
				connDone <- "panic"
			}
		}()
		if err := client.Connect(cConn); err != nil {
			connDone <- "fails"
		} else {
			connDone <- "returned-nil"
		}
	}()

	outcome := ""
	returned := false
	select {
	case outcome = <-connDone:
		returned = true
	case <-client.ready:
		// checkInitialMessage also closes ready when it fails: look at Connect once more
		select {
		case outcome = <-connDone:
			returned = true
		case <-time.After(2 * time.Millisecond):
			outcome = "proceeds"
		}
	case <-time.After(func() time.Duration {
		if timeout == 0 && (f[2] == "S" || f[3] == "S") {
			return 300 * time.Millisecond
		}
		return 3 * time.Second
	}()):
		outcome = "hang"
		if timeout == 0 && (f[2] == "S" || f[3] == "S") {
			outcome = "waits"
		}
	}
	close(peer.quit)
	before := peer.seen()
	cverNeg := int(client.version) // ready is closed or Connect has returned: negotiate's write happened before
	held := 0
	if outcome == "proceeds" {
		// negotiation is over, on the wire, when the reader has sent its last answer to a
		// negotiation message: what it had read by then came before, whatever it reads later came
		// after (without negotiation: everything comes after)
		peer.mu.Lock()
		if peer.unanswered == 0 {
			before = before[:peer.marker]
		} // else: Connect has gone on although a negotiation message is unanswered: all of it came before
		held = peer.held
		peer.mu.Unlock()
	}

	req1, req2, ack, early := "-", "-", "-", "-"
	if outcome == "proceeds" {
		ctx, cancel := context.WithTimeout(context.Background(), 3*time.Second)
		cls := func(typ MessageType, want MessageType, err error) string {
			if err != nil || typ != want {
				return "err"
			}
			return "ok"
		}
		keepAlive := func(id uint32) {
			if ack == "missing" || ack == "wrong-id" {
				return
			}
			peer.put(peer.lver(1), 62, id, nil)
			select {
			case a := <-peer.acks:
				if a.id == id {
					ack = "ok"
				} else {
					ack = "wrong-id"
				}
			case <-time.After(3 * time.Second):
				ack = "missing"
			}
		}
		if earlyKind != "" {
			startEarly() // a stage that was never reached: the call is made now
			select {
			case early = <-earlyDone:
			case <-time.After(5 * time.Second):
				early = "blocked"
			}
		}
		if traffic != nil {
			req1 = strconv.Itoa(c06Traffic(client, peer, traffic, keepAlive))
			cancel()
			goto afterTraffic
		}
		if ackFirst {
			keepAlive(776)
		}
		t1, _, err := client.SendMessage(ctx, MsgGetReaderConfig, nil)
		req1 = cls(t1, MsgGetReaderConfigResponse, err)
		keepAlive(777)
		t2, _, err := client.SendMessage(ctx, MsgGetReaderCapabilities, []byte{0})
		req2 = cls(t2, MsgGetReaderCapabilitiesResponse, err)
		cancel()
	}
afterTraffic:
	all := peer.seen()
	if quiet && outcome != "proceeds" {
		all = before
	}

	_ = client.Close()
	cConn.Close()
	pConn.Close()
	if !returned {
		select {
		case <-connDone:
		case <-time.After(3 * time.Second):
		}
	}
	select {
	case <-peer.done:
	case <-time.After(3 * time.Second):
	}
	// Connect has returned or the client is closed and both loops have lost their connection
	cver := int(client.version)
	peer.mu.Lock()
	lat := "l"
	for i, ms := range peer.lat {
		if i > 0 {
			lat += ","
		}
		lat += strconv.Itoa(ms)
	}
	peer.mu.Unlock()
	return fmt.Sprintf("%s %s %d %s %s %s %s %s %s %d h%d "+lat, sid, outcome, cverNeg, c06Frames(before),
		c06Frames(all[len(before):]), req1, req2, ack, early, cver, held)
}

// c06Traffic runs a traffic script (see the header comment); returns the number of steps done
func c06Traffic(client *Client, peer *c06Peer, script []string, keepAlive func(uint32)) int {
	k := 0
	for i, st := range script {
		if st == "a" {
			keepAlive(uint32(770 + i))
			continue
		}
		if len(st) < 2 {
			return i
		}
		typ, id := 21+k%5, uint32(k+1)
		k++
		payload := []byte{byte(id >> 24), byte(id >> 16), byte(id >> 8), byte(id)}
		peer.mu.Lock()
		peer.appReact = append(peer.appReact, st[1:])
		peer.mu.Unlock()
		wait := 3 * time.Second
		if st[1] == 'N' {
			wait = 40 * time.Millisecond
		}
		ctx, cancel := context.WithTimeout(context.Background(), wait)
		switch st[0] {
		case 'M':
			_, _, _ = client.SendMessage(ctx, MessageType(typ), payload)
		case 'F':
			var out Outgoing
			var in Incoming
			switch typ {
			case 21:
				out, in = &DeleteROSpec{ROSpecID: id}, &DeleteROSpecResponse{}
			case 22:
				out, in = &StartROSpec{ROSpecID: id}, &StartROSpecResponse{}
			case 23:
				out, in = &StopROSpec{ROSpecID: id}, &StopROSpecResponse{}
			case 24:
				out, in = &EnableROSpec{ROSpecID: id}, &EnableROSpecResponse{}
			default:
				out, in = &DisableROSpec{ROSpecID: id}, &DisableROSpecResponse{}
			}
			_ = client.SendFor(ctx, out, in)
		case 'N':
			m, _ := NewByteMessage(MessageType(typ), payload)
			_ = client.SendNoWait(ctx, m)
		}
		cancel()
		// the request has been read by the reader (or never will be)
		select {
		case <-peer.appSeen:
		case <-time.After(3 * time.Second):
			return i
		}
	}
	return len(script)
}

// c06Delivered reports whether a header-only frame of type typ that carries the id of an
// outstanding request is handed to the caller as its reply (differential probe of the tree)
func c06Delivered(typ int) bool {
	cConn, pConn := net.Pipe()
	_ = pConn.SetDeadline(time.Now().Add(10 * time.Second))
	peer := &c06Peer{conn: pConn, r1: "N", r2: "N", replyType2: typ, vg: 1, vn: 2, vl: -1, acks: make(chan c06Frame, 4), done: make(chan struct{})}
	go peer.run()
	client := NewClient(WithVersion(Version1_0_1), WithLogger(nil))
	connDone := make(chan struct{})
	go func() {
		defer close(connDone)
		defer func() { _ = recover() }()
		_ = client.Connect(cConn)
	}()
	ctx, cancel := context.WithTimeout(context.Background(), 400*time.Millisecond)
	got, _, err := client.SendMessage(ctx, MsgGetReaderConfig, nil)
	cancel()
	_ = client.Close()
	cConn.Close()
	pConn.Close()
	select {
	case <-connDone:
	case <-time.After(3 * time.Second):
	}
	return err == nil && int(got) == typ
}

func TestVerifC06(t *testing.T) {
	lines, w, done := verifIO(t)
	defer done()
	if len(lines) > 0 && lines[0] == "probe" {
		// what newMessage puts into a fresh message (recorded, not judged)
		never := []string{}
		for _, typ := range []int{61, 62, 63} {
			if !c06Delivered(typ) {
				never = append(never, strconv.Itoa(typ))
			}
		}
		// control: an ordinary type must be delivered, or the probe itself is broken
		fmt.Fprintf(w, "probe prestamp=%d neverreply=%s control=%v\n", NewHdrOnlyMsg(MsgKeepAliveAck).version,
			strings.Join(never, ","), c06Delivered(12))
		lines = lines[1:]
	}
	out := make([]string, len(lines))
	const workers = 16
	var wg sync.WaitGroup
	next := make(chan int)
	for k := 0; k < workers; k++ {
		wg.Add(1)
		go func() {
			defer wg.Done()
			for i := range next {
				out[i] = c06Session(lines[i])
			}
		}()
	}
	for i := range lines {
		next <- i
	}
	close(next)
	wg.Wait()
	for _, o := range out {
		fmt.Fprintln(w, o)
	}
}
