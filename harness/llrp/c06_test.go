//go:build verif

package llrp

import (
	"context"
	"encoding/binary"
	"encoding/hex"
	"fmt"
	"io"
	"net"
	"strconv"
	"strings"
	"sync"
	"testing"
	"time"
)

// C06 — version negotiation.  One request line per session:
//
//	<sid> <cmax> <r1> <r2> [T<ms>] [C]
//
// cmax: 1|2 (WithVersion).  r1/r2: how the scripted reader answers GET_SUPPORTED_VERSION /
// SET_PROTOCOL_VERSION:
//
//	R:<cb>:<mb>:<st>  proper response type (cb, mb = the two version bytes, st = LLRPStatus code;
//	                  cb, mb are not sent in a SetProtocolVersionResponse)
//	E:<st>            ERROR_MESSAGE with LLRPStatus st
//	W:<typ>           header-only frame of type typ, same message id
//	O                 proper response type, payload MaxBufferedPayloadSz+1 bytes
//	G1|G2|G3          proper response type, payload the decoders reject (truncated / wrong TLV
//	                  type / TLV longer than the message)
//	N                 no reply
//
// T<ms>: the client is built WithTimeout(ms).  C: on N the reader closes the connection.
//
// When Connect proceeds the harness sends GET_READER_CONFIG (header only) and
// GET_READER_CAPABILITIES (1 byte payload) through SendMessage and the reader sends one
// KEEPALIVE; the reader records every frame it receives.
//
// Answer line:
//
//	<sid> <proceeds|fails|panic|hang> <cver> <frames before the outcome> <frames after> <req1> <req2> <ack>
//
// frames ::= - | f,f,…  f = <version bits>:<type>:<hex payload>.  cver = Client.version at
// the end.  req1/req2 = ok|err|- ; ack = ok|missing|-.
//
// The scripted reader builds and parses frames with its own code (c06Put/c06Read).

type c06Frame struct {
	ver     int
	typ     int
	id      uint32
	payload []byte
}

func (f c06Frame) String() string {
	return fmt.Sprintf("%d:%d:%s", f.ver, f.typ, hex.EncodeToString(f.payload))
}

func c06Frames(fs []c06Frame) string {
	if len(fs) == 0 {
		return "-"
	}
	s := make([]string, len(fs))
	for i, f := range fs {
		s[i] = f.String()
	}
	return strings.Join(s, ",")
}

// 10-byte header: [ver<<2 | typ>>8, typ&255, be32 total length, be32 id]
func c06Put(w io.Writer, ver, typ int, id uint32, payload []byte) error {
	b := make([]byte, 10+len(payload))
	b[0] = byte(ver<<2) | byte(typ>>8&3)
	b[1] = byte(typ)
	binary.BigEndian.PutUint32(b[2:], uint32(10+len(payload)))
	binary.BigEndian.PutUint32(b[6:], id)
	copy(b[10:], payload)
	_, err := w.Write(b)
	return err
}

func c06Read(r io.Reader) (c06Frame, error) {
	h := make([]byte, 10)
	if _, err := io.ReadFull(r, h); err != nil {
		return c06Frame{}, err
	}
	f := c06Frame{ver: int(h[0] >> 2 & 7), typ: int(h[0]&3)<<8 | int(h[1]), id: binary.BigEndian.Uint32(h[6:])}
	n := binary.BigEndian.Uint32(h[2:])
	if n < 10 || n > 1<<20 {
		return f, fmt.Errorf("bad length %d", n)
	}
	f.payload = make([]byte, n-10)
	_, err := io.ReadFull(r, f.payload)
	return f, err
}

// LLRPStatus TLV: type 287, length, status code, description length (+ description)
func c06Status(st int) []byte {
	desc := ""
	if st != 0 {
		desc = "no"
	}
	b := []byte{0x01, 0x1F, 0, byte(8 + len(desc)), byte(st >> 8), byte(st), 0, byte(len(desc))}
	return append(b, desc...)
}

type c06Peer struct {
	conn   net.Conn
	r1, r2 string
	closeOnSilence bool

	mu     sync.Mutex
	wmu    sync.Mutex
	frames []c06Frame
	acks   chan c06Frame
	done   chan struct{}
}

func (p *c06Peer) seen() []c06Frame {
	p.mu.Lock()
	defer p.mu.Unlock()
	return append([]c06Frame(nil), p.frames...)
}

func (p *c06Peer) put(ver, typ int, id uint32, payload []byte) {
	p.wmu.Lock()
	defer p.wmu.Unlock()
	_ = c06Put(p.conn, ver, typ, id, payload)
}

func (p *c06Peer) react(f c06Frame, r string, respType int, versions bool) {
	parts := strings.Split(r, ":")
	num := func(i int) int { n, _ := strconv.Atoi(parts[i]); return n }
	switch parts[0] {
	case "R":
		var pl []byte
		if versions {
			pl = []byte{byte(num(1)), byte(num(2))}
		}
		p.put(2, respType, f.id, append(pl, c06Status(num(3))...))
	case "E":
		p.put(2, 100, f.id, c06Status(num(1)))
	case "W":
		p.put(2, num(1), f.id, nil)
	case "O":
		p.put(2, respType, f.id, make([]byte, int(MaxBufferedPayloadSz)+1))
	case "G1": // truncated: shorter than the fixed part
		p.put(2, respType, f.id, []byte{0x40, 0x40, 0x01, 0x1F, 0x00})
	case "G2": // a well-formed TLV of the wrong type (288 FieldError) where LLRPStatus must be
		pl := []byte{0x01, 0x20, 0x00, 0x08, 0, 0, 0, 0}
		if versions {
			pl = append([]byte{0x40, 0x40}, pl...)
		}
		p.put(2, respType, f.id, pl)
	case "G3": // LLRPStatus TLV that claims more bytes than the message has
		pl := []byte{0x01, 0x1F, 0x00, 0x40, 0, 0, 0, 0}
		if versions {
			pl = append([]byte{0x40, 0x40}, pl...)
		}
		p.put(2, respType, f.id, pl)
	case "N":
		if p.closeOnSilence {
			p.conn.Close()
		}
	}
}

func (p *c06Peer) run() {
	defer close(p.done)
	// ReaderEventNotification: ReaderEventNotificationData{UTCTimestamp, ConnectionAttemptEvent=Success}
	ren, _ := hex.DecodeString("00f60016" + "0080000c" + "0005a738133c2c9e" + "01000006" + "0000")
	p.put(1, 63, 0, ren)
	for {
		f, err := c06Read(p.conn)
		if err != nil {
			return
		}
		p.mu.Lock()
		p.frames = append(p.frames, f)
		p.mu.Unlock()
		switch f.typ {
		case 46:
			p.react(f, p.r1, 56, true)
		case 47:
			p.react(f, p.r2, 57, false)
		case 72:
			select {
			case p.acks <- f:
			default:
			}
		case 1:
			p.put(f.ver, 11, f.id, c06Status(0))
		case 2:
			p.put(f.ver, 12, f.id, c06Status(0))
		default:
			p.put(f.ver, 100, f.id, c06Status(109))
		}
	}
}

func c06Session(line string) string {
	f := strings.Fields(line)
	if len(f) < 4 {
		return "error bad request"
	}
	sid := f[0]
	cmax, _ := strconv.Atoi(f[1])
	timeout := time.Duration(0)
	closeOnSilence := false
	for _, o := range f[4:] {
		if strings.HasPrefix(o, "T") {
			ms, _ := strconv.Atoi(o[1:])
			timeout = time.Duration(ms) * time.Millisecond
		} else if o == "C" {
			closeOnSilence = true
		}
	}

	cConn, pConn := net.Pipe()
	// nothing the scripted reader does may block for good, whatever the client does
	_ = pConn.SetDeadline(time.Now().Add(10 * time.Second))
	peer := &c06Peer{conn: pConn, r1: f[2], r2: f[3], closeOnSilence: closeOnSilence,
		acks: make(chan c06Frame, 4), done: make(chan struct{})}
	go peer.run()

	opts := []ClientOpt{WithVersion(VersionNum(cmax)), WithLogger(nil)}
	if timeout > 0 {
		opts = append(opts, WithTimeout(timeout))
	}
	client := NewClient(opts...)
	connDone := make(chan string, 1)
	go func() {
		defer func() {
			if r := recover(); r != nil {
				connDone <- "panic"
			}
		}()
		if err := client.Connect(cConn); err != nil {
			connDone <- "fails"
		} else {
			connDone <- "returned-nil"
		}
	}()

	outcome := ""
	returned := false
	select {
	case outcome = <-connDone:
		returned = true
	case <-client.ready:
		// checkInitialMessage also closes ready when it fails: look at Connect once more
		select {
		case outcome = <-connDone:
			returned = true
		case <-time.After(2 * time.Millisecond):
			outcome = "proceeds"
		}
	case <-time.After(3 * time.Second):
		outcome = "hang"
	}
	before := peer.seen()

	req1, req2, ack := "-", "-", "-"
	if outcome == "proceeds" {
		ctx, cancel := context.WithTimeout(context.Background(), 3*time.Second)
		cls := func(typ MessageType, want MessageType, err error) string {
			if err != nil || typ != want {
				return "err"
			}
			return "ok"
		}
		t1, _, err := client.SendMessage(ctx, MsgGetReaderConfig, nil)
		req1 = cls(t1, MsgGetReaderConfigResponse, err)
		t2, _, err := client.SendMessage(ctx, MsgGetReaderCapabilities, []byte{0})
		req2 = cls(t2, MsgGetReaderCapabilitiesResponse, err)
		cancel()
		peer.put(1, 62, 777, nil)
		select {
		case a := <-peer.acks:
			if a.id == 777 {
				ack = "ok"
			} else {
				ack = "wrong-id"
			}
		case <-time.After(3 * time.Second):
			ack = "missing"
		}
	}
	all := peer.seen()

	_ = client.Close()
	cConn.Close()
	pConn.Close()
	if !returned {
		select {
		case <-connDone:
		case <-time.After(3 * time.Second):
		}
	}
	select {
	case <-peer.done:
	case <-time.After(3 * time.Second):
	}
	// Connect has returned or the client is closed and both loops have lost their connection
	cver := int(client.version)
	return fmt.Sprintf("%s %s %d %s %s %s %s %s", sid, outcome, cver, c06Frames(before),
		c06Frames(all[len(before):]), req1, req2, ack)
}

func TestVerifC06(t *testing.T) {
	lines, w, done := verifIO(t)
	defer done()
	if len(lines) > 0 && lines[0] == "probe" {
		// what newMessage puts into a fresh message (recorded, not judged)
		fmt.Fprintf(w, "probe prestamp=%d\n", NewHdrOnlyMsg(MsgKeepAliveAck).version)
		lines = lines[1:]
	}
	out := make([]string, len(lines))
	const workers = 8
	var wg sync.WaitGroup
	next := make(chan int)
	for k := 0; k < workers; k++ {
		wg.Add(1)
		go func() {
			defer wg.Done()
			for i := range next {
				out[i] = c06Session(lines[i])
			}
		}()
	}
	for i := range lines {
		next <- i
	}
	close(next)
	wg.Wait()
	for _, o := range out {
		fmt.Fprintln(w, o)
	}
}
