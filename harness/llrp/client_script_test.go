//go:build verif

package llrp

// Generic script runner for the LLRP Client (used by C03, C05, C07; meant for C08, C09, ... too).
//
//   TestVerifClientScript : one JSON script per request line -> one JSON observation per line
//   TestVerifClientStress : one JSON stress request per line -> one JSON trace per line
//
// A script drives a real *Client over net.Pipe() against a scripted peer. The peer builds and
// parses frames with ITS OWN code (vsBuildFrame / vsParseHeader below), never with the library's.
// After every step the runner waits until the whole process is quiescent (every other goroutine
// is parked on a channel / select / mutex: vsQuiescent), so a step's observable effect has
// happened — or cannot happen — before the next step starts, and the observed order is the
// script order. No step waits on a timer for something that is not going to happen; every wait
// has a time limit and reports "timeout" in the observation instead of hanging; each script runs
// under a watchdog. Scripts must run one at a time per process (quiescence is process-wide).
//
// The script language is documented in /verif/notes/client-core.md.

import (
	"context"
	"crypto/sha256"
	"encoding/binary"
	"encoding/hex"
	"encoding/json"
	"errors"
	"fmt"
	"io"
	"math/rand"
	"net"
	"os"
	"runtime"
	"sort"
	"strconv"
	"strings"
	"sync"
	"sync/atomic"
	"testing"
	"time"
)

// ------------------------------------------------------------------ independent frame code

// 10-byte header: [ver<<2 | typ>>8, typ&255, be32 total length, be32 id]
func vsBuildFrame(ver, typ int, id uint32, lenField uint32, payload []byte) []byte {
	b := make([]byte, 10, 10+len(payload))
	b[0] = byte(ver&7)<<2 | byte(typ>>8)&3
	b[1] = byte(typ & 255)
	b[2], b[3], b[4], b[5] = byte(lenField>>24), byte(lenField>>16), byte(lenField>>8), byte(lenField)
	b[6], b[7], b[8], b[9] = byte(id>>24), byte(id>>16), byte(id>>8), byte(id)
	return append(b, payload...)
}

type vsHdr struct {
	Rsvd     int
	Ver, Typ int
	LenField uint32
	ID       uint32
}

func vsParseHeader(b []byte) vsHdr {
	return vsHdr{
		Rsvd:     int(b[0] >> 5),
		Ver:      int(b[0]>>2) & 7,
		Typ:      int(b[0]&3)<<8 | int(b[1]),
		LenField: uint32(b[2])<<24 | uint32(b[3])<<16 | uint32(b[4])<<8 | uint32(b[5]),
		ID:       uint32(b[6])<<24 | uint32(b[7])<<16 | uint32(b[8])<<8 | uint32(b[9]),
	}
}

// payload bytes standing for (len, tag): block i (32 bytes) = sha256(le64(tag) || le64(i)).
// Literal tags: tag >= 2^32 and len == 1 is the single byte tag-2^32.
func vsPayload(n uint64, tag uint64) []byte {
	if n == 0 {
		return nil
	}
	if tag >= 1<<32 && n == 1 {
		return []byte{byte(tag - 1<<32)}
	}
	out := make([]byte, 0, n+32)
	var seed [16]byte
	binary.LittleEndian.PutUint64(seed[0:8], tag)
	for i := uint64(0); uint64(len(out)) < n; i++ {
		binary.LittleEndian.PutUint64(seed[8:16], i)
		h := sha256.Sum256(seed[:])
		out = append(out, h[:]...)
	}
	return out[:n]
}

func vsHash(b []byte) string {
	h := sha256.Sum256(b)
	return hex.EncodeToString(h[:8])
}

// payload specification of a frame the peer sends
type vsPl struct {
	K      string `json:"k"` // tag | conn | noconn | gsvr | status | raw
	Len    uint64 `json:"len"`
	Tag    uint64 `json:"tag"`
	Status int    `json:"status"`
	Cur    int    `json:"cur"`
	Max    int    `json:"max"`
	Code   int    `json:"code"`
	Hex    string `json:"hex"`
}

func vsStatusTLV(code int) []byte { // LLRPStatus TLV 287: status u16, error description length 0
	return []byte{0x01, 0x1F, 0x00, 0x08, byte(code >> 8), byte(code), 0, 0}
}

func (p *vsPl) bytes() []byte {
	if p == nil {
		return nil
	}
	switch p.K {
	case "", "tag":
		return vsPayload(p.Len, p.Tag)
	case "conn": // ReaderEventNotificationData{UTCTimestamp, ConnectionAttemptEvent(status)}
		return []byte{0x00, 0xF6, 0x00, 0x16, 0x00, 0x80, 0x00, 0x0C, 0, 0, 0, 0, 0, 0, 0, 1,
			0x01, 0x00, 0x00, 0x06, byte(p.Status >> 8), byte(p.Status)}
	case "noconn": // ReaderEventNotificationData{UTCTimestamp} only
		return []byte{0x00, 0xF6, 0x00, 0x10, 0x00, 0x80, 0x00, 0x0C, 0, 0, 0, 0, 0, 0, 0, 1}
	case "gsvr": // GetSupportedVersionResponse: versions sit in the top 3 bits (as this library decodes them)
		return append([]byte{byte(p.Cur) << 5, byte(p.Max) << 5}, vsStatusTLV(p.Status)...)
	case "status":
		return vsStatusTLV(p.Code)
	case "raw":
		b, _ := hex.DecodeString(p.Hex)
		return b
	}
	return nil
}

// ------------------------------------------------------------------ instrumentation

// vsConn wraps the client's end of the pipe: counts bytes, tells whether a Write is pending,
// can make the next Write fail after k bytes.
type vsConn struct {
	net.Conn
	inWrite   int32
	inRead    int32
	nRead     int64
	nWritten  int64
	nWCalls   int64 // number of Write calls the client made (C08: must be 0 before the first message is accepted)
	failArmed int32
	failAfter int32
	failTimeout int32 // 1: the injected failure is a timeout-class net.Error and the connection stays usable
	failInPay   int32 // 1: the failure waits for a Write that starts inside a payload
	holdMu      sync.Mutex
	failHold    chan struct{} // non-nil: the Write the armed failure hits parks here first (write_fail hold) until release_write
	held        int32         // 1 while that Write is parked

	// outbound frame tracker: where in the frame stream the next Write call starts
	tmu      sync.Mutex
	hdrHave  int // header bytes of the current frame seen so far (0..9)
	hdrBuf   [10]byte
	payLeft  uint32        // payload bytes of the current frame still to be written
	gate     chan struct{} // non-nil: the next Write that starts inside a payload parks here until released
	gated    int32         // 1 while a Write is parked at the gate
	active   int32         // Write calls in progress (a parked one included)
	overlaps int64         // Write calls that started while another one was in progress: a second writer
}

// track advances the frame tracker by the bytes of one Write
func (c *vsConn) track(p []byte) {
	c.tmu.Lock()
	defer c.tmu.Unlock()
	for len(p) > 0 {
		if c.payLeft > 0 {
			n := uint32(len(p))
			if n > c.payLeft {
				n = c.payLeft
			}
			c.payLeft -= n
			p = p[n:]
			continue
		}
		c.hdrBuf[c.hdrHave] = p[0]
		c.hdrHave++
		p = p[1:]
		if c.hdrHave == 10 {
			c.hdrHave = 0
			if lf := vsParseHeader(c.hdrBuf[:]).LenField; lf >= 10 {
				c.payLeft = lf - 10
			}
		}
	}
}

// enter is called at the start of every Write: counts overlapping Writes and parks a Write that
// starts inside a payload at the gate, if one is set
func (c *vsConn) enter() {
	if atomic.AddInt32(&c.active, 1) > 1 {
		atomic.AddInt64(&c.overlaps, 1)
	}
	c.tmu.Lock()
	g := c.gate
	inPayload := c.payLeft > 0
	if g != nil && inPayload {
		c.gate = nil
	}
	c.tmu.Unlock()
	if g != nil && inPayload {
		atomic.StoreInt32(&c.inWrite, 1)
		atomic.StoreInt32(&c.gated, 1)
		<-g
		atomic.StoreInt32(&c.gated, 0)
	}
}

func (c *vsConn) Read(p []byte) (int, error) {
	atomic.StoreInt32(&c.inRead, 1)
	n, err := c.Conn.Read(p)
	atomic.AddInt64(&c.nRead, int64(n))
	atomic.StoreInt32(&c.inRead, 0)
	return n, err
}

func (c *vsConn) Write(p []byte) (int, error) {
	atomic.AddInt64(&c.nWCalls, 1)
	c.enter()
	defer atomic.AddInt32(&c.active, -1)
	c.tmu.Lock()
	startsInPayload := c.payLeft > 0
	c.tmu.Unlock()
	if (atomic.LoadInt32(&c.failInPay) == 1) == startsInPayload && atomic.CompareAndSwapInt32(&c.failArmed, 1, 2) {
		k := int(atomic.LoadInt32(&c.failAfter))
		if k > len(p) {
			k = len(p)
		}
		c.holdMu.Lock()
		hold := c.failHold
		c.failHold = nil
		c.holdMu.Unlock()
		if hold != nil {
			// the Write blocks (a peer whose receive side is stalled) and only then fails: whoever waits for
			// this frame's consequences is parked by the time the failure happens
			atomic.StoreInt32(&c.held, 1)
			<-hold
			atomic.StoreInt32(&c.held, 0)
		}
		n := 0
		if k > 0 {
			atomic.StoreInt32(&c.inWrite, 1)
			n, _ = c.Conn.Write(p[:k])
			atomic.StoreInt32(&c.inWrite, 0)
			atomic.AddInt64(&c.nWritten, int64(n))
			c.track(p[:n])
		}
		if atomic.LoadInt32(&c.failTimeout) == 1 {
			atomic.StoreInt32(&c.failArmed, 0) // the connection is still usable
			return n, vsTimeoutErr{}
		}
		return n, errors.New("verif: injected write failure")
	}
	if atomic.LoadInt32(&c.failArmed) == 2 {
		return 0, errors.New("verif: connection broken by injected write failure")
	}
	atomic.StoreInt32(&c.inWrite, 1)
	n, err := c.Conn.Write(p)
	atomic.AddInt64(&c.nWritten, int64(n))
	c.track(p[:n])
	if atomic.LoadInt32(&c.active) <= 1 {
		atomic.StoreInt32(&c.inWrite, 0)
	}
	return n, err
}

// vsTimeoutErr is what a Write that ran into its deadline returns
type vsTimeoutErr struct{}

func (vsTimeoutErr) Error() string   { return "verif: injected i/o timeout" }
func (vsTimeoutErr) Timeout() bool   { return true }
func (vsTimeoutErr) Temporary() bool { return true }

type vsLogEv struct {
	Kind string // recv | send | handled | unhandled | panic
	Typ  int
	ID   uint32
	Len  uint32
	Ver  int
}

type vsLogger struct {
	mu          sync.Mutex
	evs         []vsLogEv
	slowHandled time.Duration // MsgHandled takes this long (connect option slow_handled_ms): widens the window
	// between passToHandler's reply hand-over / return and whatever the read loop does next
}

func (l *vsLogger) add(k string, h Header) {
	l.mu.Lock()
	l.evs = append(l.evs, vsLogEv{k, int(h.typ), uint32(h.id), h.payloadLen, int(h.version)})
	l.mu.Unlock()
}
func (l *vsLogger) ReceivedMsg(h Header, _ VersionNum) { l.add("recv", h) }
func (l *vsLogger) SendingMsg(h Header)                { l.add("send", h) }
func (l *vsLogger) MsgHandled(h Header) {
	l.add("handled", h)
	if l.slowHandled > 0 {
		time.Sleep(l.slowHandled)
	}
}
func (l *vsLogger) MsgUnhandled(h Header)              { l.add("unhandled", h) }
func (l *vsLogger) HandlerPanic(h Header, _ error)     { l.add("panic", h) }

// vsQuiescent reports whether every goroutine other than the caller is parked.
var vsStackBuf = make([]byte, 1<<20)
var vsStackMu sync.Mutex

func vsQuiescent() bool {
	vsStackMu.Lock()
	defer vsStackMu.Unlock()
	for {
		n := runtime.Stack(vsStackBuf, true)
		if n < len(vsStackBuf) {
			return vsAllParked(vsStackBuf[:n])
		}
		vsStackBuf = make([]byte, 2*len(vsStackBuf))
	}
}

func vsAllParked(dump []byte) bool {
	first := true
	for len(dump) > 0 {
		nl := 0
		for nl < len(dump) && dump[nl] != '\n' {
			nl++
		}
		line := dump[:nl]
		if nl < len(dump) {
			dump = dump[nl+1:]
		} else {
			dump = nil
		}
		if len(line) < 12 || string(line[:10]) != "goroutine " || line[len(line)-1] != ':' {
			continue
		}
		lb := strings.IndexByte(string(line), '[')
		if lb < 0 {
			continue
		}
		st := string(line[lb+1 : len(line)-2])
		if i := strings.IndexByte(st, ','); i >= 0 {
			st = st[:i]
		}
		if first { // the first goroutine in the dump is the calling one
			first = false
			continue
		}
		switch {
		case st == "chan receive", st == "chan send", st == "select", st == "semacquire", st == "IO wait",
			st == "syscall", st == "select (no cases)", st == "chan receive (nil chan)", st == "chan send (nil chan)",
			st == "finalizer wait", strings.HasPrefix(st, "sync."),
			st == "GC worker (idle)", st == "GC sweep wait", st == "GC scavenge wait",
			st == "force gc (idle)", st == "trace reader (blocked)":
			// parked. NOT in this list on purpose: "GC assist wait" / "GC assist marking" (a user goroutine
			// paying allocation debt, e.g. while allocating a 640 KiB reply buffer), "sleep", "runnable", "running"
		default:
			return false // running, runnable, sleep, anything unknown
		}
	}
	return true
}

// vsSettle waits for quiescence; false = not reached within the limit
func vsSettle(limit time.Duration) bool {
	deadline := time.Now().Add(limit)
	for i := 0; ; i++ {
		runtime.Gosched()
		if vsQuiescent() {
			// twice in a row, with a yield in between: a goroutine that was made runnable by the
			// very last action of the one that just parked shows up in the second look
			runtime.Gosched()
			if vsQuiescent() {
				return true
			}
		}
		if time.Now().After(deadline) {
			return false
		}
		if i > 20 {
			time.Sleep(100 * time.Microsecond)
		}
	}
}

// ------------------------------------------------------------------ script data

type vsHandlerSpec struct {
	Typ  int    `json:"typ"`
	Mode string `json:"mode"` // all | none | part | panic
	K    int    `json:"k"`
}

type vsStep struct {
	Op      string          `json:"op"`
	Caller  int             `json:"caller"`
	Api     string          `json:"api"` // SendMessage (default) | send | SendNoWait
	Typ     int             `json:"typ"`
	Len     uint64          `json:"len"`
	Tag     uint64          `json:"tag"`
	MsgID   uint32          `json:"msgid"`
	Ver     int             `json:"ver"`
	ID      uint32          `json:"id"`
	To      int             `json:"to"`
	Pl      *vsPl           `json:"pl"`
	Version int             `json:"version"`
	Timeout int             `json:"client_timeout_ms"`
	Hs      []vsHandlerSpec `json:"handlers"`
	Default *vsHandlerSpec  `json:"default_handler"`
	NoAck   bool            `json:"no_ack_handler"`
	NoFirst bool            `json:"no_first"`
	SlowHandled int         `json:"slow_handled_ms"` // connect: the logger's MsgHandled sleeps this long
	Kind    string          `json:"kind"`            // write_fail: "" = error (connection broken), "timeout" = net.Error with Timeout(), connection stays usable
	InPayload bool          `json:"in_payload"`      // write_fail: hit the next Write that starts inside a payload instead of the next header Write
	N       int             `json:"n"`               // peer_read: number of raw bytes
	Ms      int             `json:"ms"`              // sleep
	First   *struct {
		Typ      int    `json:"typ"`
		ID       uint32 `json:"id"`
		Ver      int    `json:"ver"`
		Pl       *vsPl  `json:"pl"`
		LenField *int64 `json:"lenfield"` // claimed length field (default 10+len(payload))
	} `json:"first"`
	After    int    `json:"after"`
	LenField *int64 `json:"lenfield"`
	Cut      *int   `json:"cut"`  // peer_send: write only the first cut bytes of the frame
	Skip     *int   `json:"skip"` // peer_send: write the frame from byte skip on (the rest of a frame sent with cut=skip before)
	Form     string   `json:"form"`   // send (api send / SendNoWait): the form of the outgoing Message: "" fresh from the constructor |
	// "inspected1" / "inspected2": the application looked at it once / twice with the exported UnmarshalTo before sending |
	// "twice": the same Message value is submitted by a second SendNoWait as well (probe only, see notes/C05.md)
	Hold     bool     `json:"hold"`   // write_fail: the Write that fails parks first, until release_write
	Frames   []vsStep `json:"frames"` // peer_batch: the frames (each written like a peer_send / keepalive / reply step, field "op")
	Segs     []int    `json:"segs"`   // peer_batch: byte offsets at which the concatenated frames are split into separate Writes
}

type vsScript struct {
	ID     string   `json:"id"`
	StepMs int      `json:"step_ms"`  // limit for one wait (default 3000)
	WdMs   int      `json:"watchdog"` // whole script (default 30000)
	Procs  int      `json:"procs"`    // GOMAXPROCS for this script (0 = leave as it is)
	Steps  []vsStep `json:"steps"`
}

type vsObs map[string]interface{}

// vsOutgoing / vsIncoming: minimal Outgoing / Incoming implementations for the SendFor api
type vsOutgoing struct {
	typ  MessageType
	data []byte
}

func (o vsOutgoing) MarshalBinary() ([]byte, error) { return o.data, nil }
func (o vsOutgoing) Type() MessageType               { return o.typ }

type vsIncoming struct {
	typ  MessageType
	data []byte
}

func (i *vsIncoming) UnmarshalBinary(b []byte) error { i.data = b; return nil }
func (i *vsIncoming) Type() MessageType               { return i.typ }

type vsCaller struct {
	done   chan struct{}
	cancel context.CancelFunc
	res    vsObs
	// the []byte SendMessage returned is kept as it is: its length and hash are computed whenever the
	// caller is observed (wait_caller, cancel, final), i.e. possibly after later replies were delivered
	data    []byte
	hasData bool
}

type vsHandled struct {
	Kind string `json:"kind"` // typed | default
	Typ  int    `json:"typ"`
	ID   uint32 `json:"id"`
	Len  uint32 `json:"len"`
	Mode string `json:"mode"`
	Read int    `json:"read"`
	Hash string `json:"hash"`
}

type vsSess struct {
	c       *Client
	cc      *vsConn
	peer    net.Conn
	log     *vsLogger
	limit   time.Duration
	callers map[int]*vsCaller
	seen    []vsObs // frames the peer has read, in order
	connRes chan error
	connObs vsObs
	peerQ   chan []byte
	peerN   int64 // frames handed to the peer writer
	peerW   int64 // frames completely written by the peer
	hmu     sync.Mutex
	handled []vsHandled
	panics  []string
	broken  string // set when the outbound stream could not be parsed: later steps are not attempted
	raw     []byte // bytes taken by peer_read / drain_raw, in order
	pending *vsHdr // expect_header read a header whose payload expect_rest has still to read
	gateCh  chan struct{}
	holdCh  chan struct{} // write_fail hold: closed by release_write
	awaitHeld bool        // hold_await: the script holds c.awaitMu (the write loop stops between accepting a request and handing out its token)
}

func vsClassify(err error) string {
	switch {
	case err == nil:
		return "nil"
	case errors.Is(err, ErrClientClosed):
		return "closed"
	case errors.Is(err, context.Canceled), errors.Is(err, context.DeadlineExceeded):
		return "ctx"
	}
	return "other"
}

func (s *vsSess) handler(kind string, spec vsHandlerSpec) MessageHandler {
	return MessageHandlerFunc(func(_ *Client, msg Message) {
		rec := vsHandled{Kind: kind, Typ: int(msg.typ), ID: uint32(msg.id), Len: msg.payloadLen, Mode: spec.Mode}
		var data []byte
		switch spec.Mode {
		case "all":
			data, _ = io.ReadAll(msg.payload)
		case "part":
			data = make([]byte, spec.K)
			n, _ := io.ReadFull(msg.payload, data)
			data = data[:n]
		}
		rec.Read = len(data)
		rec.Hash = vsHash(data)
		s.hmu.Lock()
		s.handled = append(s.handled, rec)
		s.hmu.Unlock()
		if spec.Mode == "panic" {
			panic("verif: scripted handler panic")
		}
	})
}

func (s *vsSess) settle() bool { return vsSettle(s.limit) }

// the peer writes through one goroutine so that a client that stops reading blocks the peer
// writer, not the script
func (s *vsSess) peerWriter() {
	for b := range s.peerQ {
		if _, err := s.peer.Write(b); err != nil {
			return
		}
		atomic.AddInt64(&s.peerW, 1)
	}
}

func (s *vsSess) peerSend(b []byte) vsObs {
	if s.peer == nil {
		return vsObs{"st": "noconn"}
	}
	n := atomic.AddInt64(&s.peerN, 1)
	select {
	case s.peerQ <- b:
	default:
		return vsObs{"st": "peer-queue-full"}
	}
	if !s.settle() {
		return vsObs{"st": "timeout"}
	}
	if atomic.LoadInt64(&s.peerW) >= n {
		return vsObs{"st": "ok"}
	}
	return vsObs{"st": "blocked"} // the client is not reading (or the peer end is closed)
}

// newClient builds the Client from the option fields of a connect / new_client step
func (s *vsSess) newClient(st vsStep) {
	s.log = &vsLogger{slowHandled: time.Duration(st.SlowHandled) * time.Millisecond}
	opts := []ClientOpt{WithLogger(s.log)}
	if st.Version == 1 {
		opts = append(opts, WithVersion(Version1_0_1))
	} else {
		opts = append(opts, WithVersion(Version1_1))
	}
	if st.Timeout > 0 {
		opts = append(opts, WithTimeout(time.Duration(st.Timeout)*time.Millisecond))
	}
	for _, h := range st.Hs {
		opts = append(opts, WithMessageHandler(MessageType(h.Typ), s.handler("typed", h)))
	}
	if st.Default != nil {
		opts = append(opts, WithDefaultHandler(s.handler("default", *st.Default)))
	}
	s.c = NewClient(opts...)
	if st.NoAck {
		delete(s.c.handlers, MsgKeepAlive)
		for _, h := range st.Hs { // a scripted KeepAlive handler replaces the ackHandler
			if h.Typ == int(MsgKeepAlive) {
				s.c.handlers[MsgKeepAlive] = s.handler("typed", h)
			}
		}
	}
}

func (s *vsSess) connect(st vsStep) vsObs {
	if s.c != nil && s.connRes != nil {
		return vsObs{"st": "already"}
	}
	if s.c == nil { // otherwise: a client made by new_client (callers may already be waiting on it)
		s.newClient(st)
	}
	cli, peer := net.Pipe()
	s.cc = &vsConn{Conn: cli}
	s.peer = peer
	s.peerQ = make(chan []byte, 4096)
	go s.peerWriter()
	s.connRes = make(chan error, 1)
	go func() {
		defer func() {
			if r := recover(); r != nil {
				s.hmu.Lock()
				s.panics = append(s.panics, fmt.Sprint("Connect: ", r))
				s.hmu.Unlock()
				s.connRes <- errors.New("panic")
			}
		}()
		s.connRes <- s.c.Connect(s.cc)
	}()
	if st.NoFirst {
		if !s.settle() {
			return vsObs{"st": "timeout"}
		}
		return vsObs{"st": "ok"}
	}
	typ, id, ver := int(MsgReaderEventNotification), uint32(0), st.Version
	if ver == 0 {
		ver = 2
	}
	pl := &vsPl{K: "conn", Status: 0}
	if st.First != nil {
		typ, id, pl = st.First.Typ, st.First.ID, st.First.Pl
		if st.First.Ver != 0 {
			ver = st.First.Ver
		}
	}
	b := pl.bytes()
	lf := uint32(10 + len(b))
	if st.First != nil && st.First.LenField != nil {
		lf = uint32(*st.First.LenField)
	}
	return s.peerSend(vsBuildFrame(ver, typ, id, lf, b))
}

func (s *vsSess) startCaller(st vsStep, shutdown bool) vsObs {
	if s.c == nil {
		return vsObs{"st": "noclient"}
	}
	if _, dup := s.callers[st.Caller]; dup {
		return vsObs{"st": "duplicate-caller"}
	}
	ctx, cancel := context.WithCancel(context.Background())
	cr := &vsCaller{done: make(chan struct{}), cancel: cancel}
	s.callers[st.Caller] = cr
	payload := vsPayload(st.Len, st.Tag)
	go func() {
		defer close(cr.done)
		defer func() {
			if r := recover(); r != nil {
				cr.res = vsObs{"res": "panic"}
				s.hmu.Lock()
				s.panics = append(s.panics, fmt.Sprint("caller ", st.Caller, ": ", r))
				s.hmu.Unlock()
			}
		}()
		if shutdown {
			err := s.c.Shutdown(ctx)
			cr.res = vsObs{"res": vsClassify(err)}
			return
		}
		switch st.Api {
		case "", "SendMessage":
			typ, data, err := s.c.SendMessage(ctx, MessageType(st.Typ), payload)
			if err != nil {
				cr.res = vsObs{"res": vsClassify(err)}
			} else {
				cr.data, cr.hasData = data, true
				cr.res = vsObs{"res": "ok", "typ": int(typ)}
			}
		case "SendFor":
			// the third exported way to submit a message: an Outgoing whose Type() is whatever the script says
			in := &vsIncoming{typ: MessageType(st.Typ)}
			err := s.c.SendFor(ctx, vsOutgoing{typ: MessageType(st.Typ), data: payload}, in)
			cr.res = vsObs{"res": vsClassify(err)}
			if err == nil {
				cr.data, cr.hasData = in.data, true
				cr.res = vsObs{"res": "ok", "typ": st.Typ}
			}
		case "send", "SendNoWait":
			var m Message
			if len(payload) == 0 {
				m = NewHdrOnlyMsg(MessageType(st.Typ))
			} else {
				var err error
				if m, err = NewByteMessage(MessageType(st.Typ), payload); err != nil {
					cr.res = vsObs{"res": "other"}
					return
				}
			}
			for k := 0; (st.Form == "inspected1" && k < 1) || (st.Form == "inspected2" && k < 2); k++ {
				// legal use of the exported API: log / validate the payload before sending it
				_ = m.UnmarshalTo(&vsIncoming{typ: MessageType(st.Typ)})
			}
			m.id = messageID(st.MsgID)
			if st.Ver >= 0 {
				m.version = VersionNum(st.Ver) // 0 = unset: the write loop fills in the client's version
			}
			if st.Api == "SendNoWait" {
				if err := s.c.SendNoWait(ctx, m); err != nil {
					cr.res = vsObs{"res": vsClassify(err)}
				} else {
					cr.res = vsObs{"res": "sent"}
					if st.Form == "twice" {
						if err := s.c.SendNoWait(ctx, m); err != nil {
							cr.res = vsObs{"res": vsClassify(err)}
						}
					}
				}
				return
			}
			resp, err := s.c.send(ctx, m)
			if err != nil {
				cr.res = vsObs{"res": vsClassify(err)}
				return
			}
			data, err := resp.data()
			if err != nil {
				cr.res = vsObs{"res": "other"}
			} else {
				cr.data, cr.hasData = data, true
				cr.res = vsObs{"res": "ok", "typ": int(resp.typ)}
			}
		default:
			cr.res = vsObs{"res": "bad-api"}
		}
	}()
	if !s.settle() {
		return vsObs{"st": "timeout"}
	}
	return vsObs{"st": "ok"}
}

func (s *vsSess) callerState(id int) vsObs {
	cr := s.callers[id]
	if cr == nil {
		return vsObs{"res": "unknown-caller"}
	}
	select {
	case <-cr.done:
		o := vsObs{}
		for k, v := range cr.res {
			o[k] = v
		}
		if cr.hasData {
			o["len"] = len(cr.data)
			o["hash"] = vsHash(cr.data)
		}
		return o
	default:
		return vsObs{"res": "blocked"}
	}
}

// read one frame if (and only if) the client has a Write pending
func (s *vsSess) expectFrame() vsObs {
	if s.peer == nil {
		return vsObs{"st": "noconn"}
	}
	if !s.settle() {
		return vsObs{"st": "timeout"}
	}
	if atomic.LoadInt32(&s.cc.inWrite) == 0 {
		return vsObs{"st": "none"}
	}
	_ = s.peer.SetReadDeadline(time.Now().Add(s.limit))
	defer s.peer.SetReadDeadline(time.Time{})
	hb := make([]byte, 10)
	if n, err := io.ReadFull(s.peer, hb); err != nil {
		s.broken = "short-header"
		return vsObs{"st": "short-header", "got": n}
	}
	h := vsParseHeader(hb)
	o := vsObs{"st": "ok", "rsvd": h.Rsvd, "ver": h.Ver, "typ": h.Typ, "id": h.ID, "lenfield": h.LenField}
	if h.LenField < 10 {
		o["st"] = "bad-lenfield"
		s.seen = append(s.seen, o)
		s.broken = "bad-lenfield"
		return o
	}
	pl := make([]byte, h.LenField-10)
	if n, err := io.ReadFull(s.peer, pl); err != nil {
		o["st"] = "short-payload"
		o["got"] = n
		s.seen = append(s.seen, o)
		s.broken = "short-payload"
		return o
	}
	o["len"] = len(pl)
	o["hash"] = vsHash(pl)
	s.seen = append(s.seen, o)
	if !s.settle() {
		o["st"] = "timeout-after"
	}
	return o
}

// expect_header / expect_rest: the peer reads a frame in two parts (used with gate_payload)
func (s *vsSess) expectHeader() vsObs {
	if s.peer == nil {
		return vsObs{"st": "noconn"}
	}
	if s.pending != nil {
		return vsObs{"st": "header-pending"}
	}
	if !s.settle() {
		return vsObs{"st": "timeout"}
	}
	if atomic.LoadInt32(&s.cc.inWrite) == 0 {
		return vsObs{"st": "none"}
	}
	_ = s.peer.SetReadDeadline(time.Now().Add(s.limit))
	defer s.peer.SetReadDeadline(time.Time{})
	hb := make([]byte, 10)
	if n, err := io.ReadFull(s.peer, hb); err != nil {
		s.broken = "short-header"
		return vsObs{"st": "short-header", "got": n}
	}
	h := vsParseHeader(hb)
	o := vsObs{"st": "ok", "rsvd": h.Rsvd, "ver": h.Ver, "typ": h.Typ, "id": h.ID, "lenfield": h.LenField}
	if h.LenField < 10 {
		o["st"] = "bad-lenfield"
		s.broken = "bad-lenfield"
		return o
	}
	s.pending = &h
	if !s.settle() {
		o["st"] = "timeout-after"
	}
	return o
}

func (s *vsSess) expectRest() vsObs {
	if s.pending == nil {
		return vsObs{"st": "no-header"}
	}
	h := *s.pending
	s.pending = nil
	o := vsObs{"st": "ok", "rsvd": h.Rsvd, "ver": h.Ver, "typ": h.Typ, "id": h.ID, "lenfield": h.LenField}
	_ = s.peer.SetReadDeadline(time.Now().Add(s.limit))
	defer s.peer.SetReadDeadline(time.Time{})
	pl := make([]byte, h.LenField-10)
	if n, err := io.ReadFull(s.peer, pl); err != nil {
		o["st"] = "short-payload"
		o["got"] = n
		s.seen = append(s.seen, o)
		s.broken = "short-payload"
		return o
	}
	o["len"] = len(pl)
	o["hash"] = vsHash(pl)
	s.seen = append(s.seen, o)
	if !s.settle() {
		o["st"] = "timeout-after"
	}
	return o
}

func (s *vsSess) state() vsObs {
	o := vsObs{}
	if s.c == nil {
		return o
	}
	if s.awaitHeld {
		o["awaiting"] = len(s.c.awaiting)
	} else {
		s.c.awaitMu.Lock()
		o["awaiting"] = len(s.c.awaiting)
		s.c.awaitMu.Unlock()
	}
	o["ackq"] = len(s.c.ackQueue)
	if s.cc == nil { // a client that is not connected (new_client)
		o["writing"] = false
		o["wcalls"] = 0
		o["nwritten"] = 0
	} else {
		o["writing"] = atomic.LoadInt32(&s.cc.inWrite) == 1
		o["wcalls"] = atomic.LoadInt64(&s.cc.nWCalls)
		o["nwritten"] = atomic.LoadInt64(&s.cc.nWritten)
		o["overlapping_writes"] = atomic.LoadInt64(&s.cc.overlaps)
		o["gated"] = atomic.LoadInt32(&s.cc.gated) == 1
		o["held"] = atomic.LoadInt32(&s.cc.held) == 1
	}
	o["closed"] = atomic.LoadUint32(&s.c.isClosed) == 1
	select {
	case <-s.c.ready:
		o["ready"] = true
	default:
		o["ready"] = false
	}
	return o
}

func (s *vsSess) connectState() vsObs {
	if s.connObs != nil {
		return vsObs{"res": s.connObs["res"]}
	}
	if s.connRes == nil {
		return vsObs{"res": "not-started"}
	}
	select {
	case err := <-s.connRes:
		s.connObs = vsObs{"res": vsClassify(err)}
		return vsObs{"res": s.connObs["res"]}
	default:
		return vsObs{"res": "blocked"}
	}
}

// peerFrame builds the bytes of one frame the peer sends (peer_send / keepalive / reply step, or an element of peer_batch)
func (s *vsSess) peerFrame(st vsStep) ([]byte, uint32, vsObs) {
	typ, id, ver := st.Typ, st.ID, st.Ver
	if st.Op == "keepalive" {
		typ = int(MsgKeepAlive)
	}
	if st.Op == "reply" {
		if st.To < 0 || st.To >= len(s.seen) {
			return nil, 0, vsObs{"st": "bad-reply-index"}
		}
		id = s.seen[st.To]["id"].(uint32)
	}
	if ver == 0 {
		ver = 1
	}
	b := st.Pl.bytes()
	lf := uint32(10 + len(b))
	if st.LenField != nil {
		lf = uint32(*st.LenField)
	}
	fr := vsBuildFrame(ver, typ, id, lf, b)
	if st.Cut != nil && *st.Cut < len(fr) {
		fr = fr[:*st.Cut]
	}
	if st.Skip != nil && *st.Skip <= len(fr) {
		fr = fr[*st.Skip:]
	}
	return fr, id, nil
}

func (s *vsSess) step(st vsStep) vsObs {
	if s.broken != "" {
		return vsObs{"st": "broken", "res": "broken", "why": s.broken}
	}
	switch st.Op {
	case "connect":
		return s.connect(st)
	case "peer_send", "keepalive", "reply":
		fr, id, bad := s.peerFrame(st)
		if bad != nil {
			return bad
		}
		o := s.peerSend(fr)
		o["id"] = id
		return o
	case "peer_batch":
		// several frames concatenated and handed to the connection in as few Writes as the script says: one Write
		// for all of them (what a TCP segment carrying several small messages looks like to the client), or split
		// at arbitrary byte offsets (segs) — frame boundaries and Write boundaries are unrelated
		if s.peer == nil {
			return vsObs{"st": "noconn"}
		}
		var all []byte
		ids := []uint32{}
		for _, f := range st.Frames {
			fr, id, bad := s.peerFrame(f)
			if bad != nil {
				return bad
			}
			all = append(all, fr...)
			ids = append(ids, id)
		}
		var parts [][]byte
		prev := 0
		for _, k := range st.Segs {
			if k > prev && k < len(all) {
				parts = append(parts, all[prev:k])
				prev = k
			}
		}
		parts = append(parts, all[prev:])
		n := atomic.AddInt64(&s.peerN, int64(len(parts)))
		for _, p := range parts {
			select {
			case s.peerQ <- p:
			default:
				return vsObs{"st": "peer-queue-full"}
			}
		}
		o := vsObs{"ids": ids, "writes": len(parts)}
		switch {
		case !s.settle():
			o["st"] = "timeout"
		case atomic.LoadInt64(&s.peerW) >= n:
			o["st"] = "ok"
		default:
			o["st"] = "blocked"
			o["written"] = int64(len(parts)) - (n - atomic.LoadInt64(&s.peerW))
		}
		return o
	case "send":
		return s.startCaller(st, false)
	case "shutdown":
		return s.startCaller(st, true)
	case "expect_frame":
		return s.expectFrame()
	case "drain":
		var fs []vsObs
		for i := 0; i < 10000; i++ {
			o := s.expectFrame()
			if o["st"] != "ok" {
				return vsObs{"st": o["st"], "frames": fs}
			}
			fs = append(fs, o)
		}
		return vsObs{"st": "too-many", "frames": fs}
	case "cancel":
		cr := s.callers[st.Caller]
		if cr == nil {
			return vsObs{"res": "unknown-caller"}
		}
		cr.cancel()
		if !s.settle() {
			return vsObs{"res": "timeout"}
		}
		return s.callerState(st.Caller)
	case "wait_caller":
		if !s.settle() {
			return vsObs{"res": "timeout"}
		}
		return s.callerState(st.Caller)
	case "close":
		if s.c == nil {
			return vsObs{"st": "noclient"}
		}
		err := s.c.Close()
		o := vsObs{"res": vsClassify(err)}
		if !s.settle() {
			o["res"] = "timeout"
		}
		return o
	case "peer_close":
		if s.peer == nil {
			return vsObs{"st": "noconn"}
		}
		_ = s.peer.Close()
		if !s.settle() {
			return vsObs{"st": "timeout"}
		}
		return vsObs{"st": "ok"}
	case "wait_connect":
		if !s.settle() {
			return vsObs{"res": "timeout"}
		}
		return s.connectState()
	case "wait_ready", "state":
		if !s.settle() {
			return vsObs{"st": "timeout"}
		}
		return s.state()
	case "gate_payload":
		// the next Write of the client that starts inside a payload (i.e. the write loop's io.Copy after a
		// header) parks until release_payload: the write loop is then stalled BETWEEN its two Writes
		if s.cc == nil {
			return vsObs{"st": "noconn"}
		}
		s.gateCh = make(chan struct{})
		s.cc.tmu.Lock()
		s.cc.gate = s.gateCh
		s.cc.tmu.Unlock()
		return vsObs{"st": "ok"}
	case "release_payload":
		if s.gateCh == nil {
			return vsObs{"st": "no-gate"}
		}
		was := atomic.LoadInt32(&s.cc.gated) == 1
		s.cc.tmu.Lock()
		s.cc.gate = nil
		s.cc.tmu.Unlock()
		close(s.gateCh)
		s.gateCh = nil
		if !s.settle() {
			return vsObs{"st": "timeout"}
		}
		return vsObs{"st": "ok", "was_parked": was}
	case "expect_header":
		return s.expectHeader()
	case "expect_rest":
		return s.expectRest()
	case "write_fail":
		if s.cc == nil {
			return vsObs{"st": "noconn"}
		}
		atomic.StoreInt32(&s.cc.failAfter, int32(st.After))
		tk, ip := int32(0), int32(0)
		if st.Kind == "timeout" {
			tk = 1
		}
		if st.InPayload {
			ip = 1
		}
		atomic.StoreInt32(&s.cc.failTimeout, tk)
		atomic.StoreInt32(&s.cc.failInPay, ip)
		if st.Hold {
			s.holdCh = make(chan struct{})
			s.cc.holdMu.Lock()
			s.cc.failHold = s.holdCh
			s.cc.holdMu.Unlock()
		}
		atomic.StoreInt32(&s.cc.failArmed, 1)
		return vsObs{"st": "ok"}
	case "hold_await":
		// in-package: the script takes the await-map lock. The write loop, having received a request from the send queue,
		// stops where it registers the reply channel — after accepting the request, before handing the token to the sender
		if s.c == nil || s.awaitHeld {
			return vsObs{"st": "noclient"}
		}
		s.c.awaitMu.Lock()
		s.awaitHeld = true
		return vsObs{"st": "ok"}
	case "release_await":
		if !s.awaitHeld {
			return vsObs{"st": "no-hold"}
		}
		s.awaitHeld = false
		s.c.awaitMu.Unlock()
		if !s.settle() {
			return vsObs{"st": "timeout"}
		}
		return vsObs{"st": "ok"}
	case "release_write":
		// the Write parked by write_fail hold now fails
		if s.holdCh == nil {
			return vsObs{"st": "no-hold"}
		}
		was := atomic.LoadInt32(&s.cc.held) == 1
		close(s.holdCh)
		s.holdCh = nil
		if !s.settle() {
			return vsObs{"st": "timeout"}
		}
		o := s.state() // the state after the failed Write (compared with the model's)
		o["st"] = "ok"
		o["was_parked"] = was
		return o
	case "peer_read":
		// the peer takes exactly n raw bytes off the wire (recorded in final.raw_hex)
		if s.peer == nil {
			return vsObs{"st": "noconn"}
		}
		if !s.settle() {
			return vsObs{"st": "timeout"}
		}
		buf := make([]byte, st.N)
		_ = s.peer.SetReadDeadline(time.Now().Add(s.limit))
		n, _ := io.ReadFull(s.peer, buf)
		_ = s.peer.SetReadDeadline(time.Time{})
		s.raw = append(s.raw, buf[:n]...)
		o := vsObs{"st": "ok", "got": n}
		if n < st.N {
			o["st"] = "short"
		}
		if !s.settle() {
			o["st"] = "timeout-after"
		}
		return o
	case "drain_raw":
		// the peer takes raw bytes for as long as the client has a Write pending
		if s.peer == nil {
			return vsObs{"st": "noconn"}
		}
		total := 0
		buf := make([]byte, 1<<16)
		for i := 0; i < 100000; i++ {
			if !s.settle() {
				return vsObs{"st": "timeout", "got": total}
			}
			if atomic.LoadInt32(&s.cc.inWrite) == 0 || atomic.LoadInt32(&s.cc.gated) == 1 {
				break
			}
			_ = s.peer.SetReadDeadline(time.Now().Add(s.limit))
			n, err := s.peer.Read(buf)
			_ = s.peer.SetReadDeadline(time.Time{})
			if len(s.raw) < 1<<22 {
				s.raw = append(s.raw, buf[:n]...)
			}
			total += n
			if err != nil {
				break
			}
		}
		return vsObs{"st": "ok", "got": total}
	case "sleep":
		time.Sleep(time.Duration(st.Ms) * time.Millisecond)
		if !s.settle() {
			return vsObs{"st": "timeout"}
		}
		return vsObs{"st": "ok"}
	case "new_client": // a Client that is never connected (callers before Connect)
		if s.c != nil {
			return vsObs{"st": "already"}
		}
		if st.Version == 0 && len(st.Hs) == 0 && st.Default == nil && !st.NoAck && st.Timeout == 0 {
			s.log = &vsLogger{}
			s.c = NewClient(WithLogger(s.log))
		} else {
			s.newClient(st) // same option fields as connect; a later connect step starts Connect on this client
		}
		return vsObs{"st": "ok"}
	}
	return vsObs{"st": "unknown-op"}
}

func (s *vsSess) finish() vsObs {
	fin := vsObs{}
	if s.c != nil {
		fin["state"] = s.state()
	}
	if s.gateCh != nil { // a gate left closed would keep the write loop parked during the cleanup
		close(s.gateCh)
		s.gateCh = nil
	}
	if s.holdCh != nil {
		close(s.holdCh)
		s.holdCh = nil
	}
	if s.awaitHeld {
		s.awaitHeld = false
		s.c.awaitMu.Unlock()
	}
	for _, cr := range s.callers {
		cr.cancel()
	}
	if s.c != nil {
		_ = s.c.Close()
	}
	if s.peer != nil {
		_ = s.peer.Close()
		_ = s.cc.Conn.Close()
		close(s.peerQ)
	}
	vsSettle(s.limit)
	if len(s.raw) > 0 {
		if len(s.raw) <= 1<<19 {
			fin["raw_hex"] = hex.EncodeToString(s.raw)
		}
		fin["raw_len"] = len(s.raw)
		fin["raw_hash"] = vsHash(s.raw)
	}
	cs := map[string]vsObs{}
	for id := range s.callers {
		cs[strconv.Itoa(id)] = s.callerState(id)
	}
	fin["callers"] = cs
	fin["connect"] = s.connectState()
	s.hmu.Lock()
	fin["handled"] = append([]vsHandled(nil), s.handled...)
	if len(s.panics) > 0 {
		fin["panics"] = append([]string(nil), s.panics...)
	}
	s.hmu.Unlock()
	if s.log != nil {
		s.log.mu.Lock()
		var sent, ackIDs, recvKA []uint32
		cnt := map[string]int{}
		for _, e := range s.log.evs {
			cnt[e.Kind]++
			if e.Kind == "send" {
				sent = append(sent, e.ID)
				if e.Typ == int(MsgKeepAliveAck) {
					ackIDs = append(ackIDs, e.ID)
				}
			}
			if e.Kind == "recv" && e.Typ == int(MsgKeepAlive) {
				recvKA = append(recvKA, e.ID)
			}
		}
		s.log.mu.Unlock()
		fin["log"] = cnt
		fin["log_send_ids"] = sent
		fin["log_ack_ids"] = ackIDs
		fin["log_keepalive_ids"] = recvKA
	}
	return fin
}

func vsRunScript(sc vsScript) (out vsObs) {
	out = vsObs{"id": sc.ID}
	if sc.Procs > 0 {
		defer runtime.GOMAXPROCS(runtime.GOMAXPROCS(sc.Procs))
	}
	s := &vsSess{callers: map[int]*vsCaller{}, limit: 3 * time.Second}
	if sc.StepMs > 0 {
		s.limit = time.Duration(sc.StepMs) * time.Millisecond
	}
	var obs []vsObs
	defer func() {
		if r := recover(); r != nil {
			out["harness_panic"] = fmt.Sprint(r)
		}
		out["obs"] = obs
	}()
	for _, st := range sc.Steps {
		o := s.step(st)
		o["op"] = st.Op
		obs = append(obs, o)
	}
	out["final"] = s.finish()
	return out
}

func TestVerifClientScript(t *testing.T) {
	lines, w, done := verifIO(t)
	defer done()
	enc := json.NewEncoder(w)
	poisoned := false
	for _, line := range lines {
		var sc vsScript
		if err := json.Unmarshal([]byte(line), &sc); err != nil {
			_ = enc.Encode(vsObs{"error": "bad script: " + err.Error()})
			continue
		}
		if poisoned { // an earlier script overran its watchdog: its goroutines may still run
			_ = enc.Encode(vsObs{"id": sc.ID, "st": "skipped"})
			continue
		}
		wd := 30 * time.Second
		if sc.WdMs > 0 {
			wd = time.Duration(sc.WdMs) * time.Millisecond
		}
		res := make(chan vsObs, 1)
		go func() { res <- vsRunScript(sc) }()
		select {
		case o := <-res:
			_ = enc.Encode(o)
		case <-time.After(wd):
			_ = enc.Encode(vsObs{"id": sc.ID, "st": "watchdog"})
			poisoned = true
		}
		w.Flush()
	}
}

// ------------------------------------------------------------------ stress mode
//
// request: {"id","seed","callers","per_caller","unsolicited","collide","version","keepalives","max_len"}
// Many concurrent callers each send per_caller requests with unique tags; the peer answers in random
// order (keeping up to `window` requests outstanding), interleaves unsolicited KeepAlive/ROAccessReport/
// ReaderEventNotification frames (ids random, or equal to an outstanding request id when collide is
// set) and records everything it reads and writes. No step-by-step waiting. The trace is judged by
// the property predicates in checks/client_common.py.

type vsStressReq struct {
	ID          string `json:"id"`
	Seed        int64  `json:"seed"`
	Callers     int    `json:"callers"`
	PerCaller   int    `json:"per_caller"`
	Unsolicited int    `json:"unsolicited"` // per hundred replies
	Collide     bool   `json:"collide"`
	Version     int    `json:"version"`
	Window      int    `json:"window"`
	MaxLen      int    `json:"max_len"`
	LimitMs     int    `json:"limit_ms"`
}

type vsStressFrame struct {
	Dir  string `json:"dir"` // r = read by the peer, w = written by the peer
	Ver  int    `json:"ver"`
	Typ  int    `json:"typ"`
	ID   uint32 `json:"id"`
	LenF uint32 `json:"lenfield"`
	Len  int    `json:"len"`
	Hash string `json:"hash"`
	Uns  bool   `json:"uns,omitempty"` // written as an unsolicited frame
}

type vsStressCall struct {
	Caller int    `json:"caller"`
	K      int    `json:"k"`
	Typ    int    `json:"typ"`
	Len    int    `json:"len"`
	Tag    uint64 `json:"tag"`
	Hash   string `json:"hash"`
	Res    string `json:"res"`
	RTyp   int    `json:"rtyp"`
	RLen   int    `json:"rlen"`
	RHash  string `json:"rhash"`
}

func vsRunStress(rq vsStressReq) vsObs {
	out := vsObs{"id": rq.ID}
	limit := 20 * time.Second
	if rq.LimitMs > 0 {
		limit = time.Duration(rq.LimitMs) * time.Millisecond
	}
	if rq.Window <= 0 {
		rq.Window = 8
	}
	if rq.MaxLen <= 0 {
		rq.MaxLen = 300
	}
	rnd := rand.New(rand.NewSource(rq.Seed))
	opts := []ClientOpt{WithLogger(nil)}
	if rq.Version == 1 {
		opts = append(opts, WithVersion(Version1_0_1))
	}
	c := NewClient(opts...)
	cli, peer := net.Pipe()
	connRes := make(chan error, 1)
	go func() { connRes <- c.Connect(cli) }()
	_ = peer.SetWriteDeadline(time.Now().Add(limit))

	var tmu sync.Mutex
	var trace []vsStressFrame
	var wmu sync.Mutex // peer writes whole frames
	write := func(ver, typ int, id uint32, pl []byte, uns bool) error {
		wmu.Lock()
		defer wmu.Unlock()
		tmu.Lock()
		trace = append(trace, vsStressFrame{"w", ver, typ, id, uint32(10 + len(pl)), len(pl), vsHash(pl), uns})
		tmu.Unlock()
		_, err := peer.Write(vsBuildFrame(ver, typ, id, uint32(10+len(pl)), pl))
		return err
	}
	errIdle := errors.New("idle")
	// read one frame; wait at most `wait` for its header (errIdle if none comes)
	read := func(wait time.Duration) (vsHdr, []byte, error) {
		hb := make([]byte, 10)
		_ = peer.SetReadDeadline(time.Now().Add(wait))
		if n, err := io.ReadFull(peer, hb); err != nil {
			if n == 0 && os.IsTimeout(err) {
				return vsHdr{}, nil, errIdle
			}
			return vsHdr{}, nil, err
		}
		_ = peer.SetReadDeadline(time.Now().Add(limit))
		h := vsParseHeader(hb)
		if h.LenField < 10 {
			return h, nil, errors.New("bad length field")
		}
		pl := make([]byte, h.LenField-10)
		if _, err := io.ReadFull(peer, pl); err != nil {
			return h, nil, err
		}
		tmu.Lock()
		trace = append(trace, vsStressFrame{"r", h.Ver, h.Typ, h.ID, h.LenField, len(pl), vsHash(pl), false})
		tmu.Unlock()
		return h, pl, nil
	}
	ver := 2
	if rq.Version == 1 {
		ver = 1
	}
	if err := write(ver, int(MsgReaderEventNotification), 0, (&vsPl{K: "conn"}).bytes(), false); err != nil {
		out["error"] = "first frame: " + err.Error()
		return out
	}
	if rq.Version != 1 { // negotiation: already at 1.1
		h, _, err := read(limit)
		if err != nil || h.Typ != int(MsgGetSupportedVersion) {
			out["error"] = fmt.Sprint("negotiation: ", h, err)
			return out
		}
		_ = write(2, int(MsgGetSupportedVersionResponse), h.ID, (&vsPl{K: "gsvr", Cur: 2, Max: 2}).bytes(), false)
	}

	total := rq.Callers * rq.PerCaller
	calls := make([]vsStressCall, total)
	kept := make([][]byte, total) // what SendMessage returned, untouched until the end of the run
	var wg sync.WaitGroup
	ctx, cancel := context.WithTimeout(context.Background(), limit)
	defer cancel()
	for ci := 0; ci < rq.Callers; ci++ {
		seeds := rnd.Int63()
		wg.Add(1)
		go func(ci int, seed int64) {
			defer wg.Done()
			r := rand.New(rand.NewSource(seed))
			for k := 0; k < rq.PerCaller; k++ {
				idx := ci*rq.PerCaller + k
				n := 0
				switch r.Intn(4) {
				case 0:
				case 1:
					n = 1 + r.Intn(8)
				default:
					n = 1 + r.Intn(rq.MaxLen)
				}
				tag := uint64(idx + 1)
				pl := vsPayload(uint64(n), tag)
				typ := []int{1, 2, 3, 20, 21, 22, 40, 44, 1023}[r.Intn(9)]
				cl := vsStressCall{Caller: ci, K: k, Typ: typ, Len: n, Tag: tag, Hash: vsHash(pl)}
				rt, data, err := c.SendMessage(ctx, MessageType(typ), pl)
				cl.Res = vsClassify(err)
				if err == nil {
					cl.Res, cl.RTyp = "ok", int(rt)
					kept[idx] = data
				}
				calls[idx] = cl
			}
		}(ci, seeds)
	}

	// the peer: read requests, answer them in random order, inject unsolicited frames
	peerDone := make(chan struct{})
	go func() {
		defer close(peerDone)
		type pend struct {
			h  vsHdr
			pl []byte
		}
		var outstanding []pend
		answered := 0
		unsTypes := []int{int(MsgKeepAlive), int(MsgROAccessReport), int(MsgReaderEventNotification)}
		for answered < total {
			// read until the window is full or nothing more can come
			for len(outstanding) < rq.Window && answered+len(outstanding) < total {
				wait := limit
				if len(outstanding) > 0 {
					wait = 2 * time.Millisecond
				}
				h, pl, err := read(wait)
				if err == errIdle && len(outstanding) > 0 {
					break
				}
				if err != nil {
					return
				}
				if h.Typ == int(MsgKeepAliveAck) {
					continue
				}
				outstanding = append(outstanding, pend{h, pl})
				if rnd.Intn(3) == 0 {
					break
				}
			}
			if len(outstanding) == 0 {
				continue
			}
			if rnd.Intn(100) < rq.Unsolicited {
				ut := unsTypes[rnd.Intn(3)]
				id := rnd.Uint32()
				if rq.Collide && rnd.Intn(2) == 0 {
					id = outstanding[rnd.Intn(len(outstanding))].h.ID
				}
				var pl []byte
				if ut != int(MsgKeepAlive) {
					pl = vsPayload(uint64(4+rnd.Intn(40)), uint64(1<<31)+uint64(rnd.Intn(1<<20)))
				}
				if write(ver, ut, id, pl, true) != nil {
					return
				}
			}
			i := rnd.Intn(len(outstanding))
			p := outstanding[i]
			outstanding = append(outstanding[:i], outstanding[i+1:]...)
			// the reply: type = request type + 10 (arbitrary but recognisable), payload derived from the request's
			rl := rnd.Intn(rq.MaxLen)
			if len(p.pl) == 0 {
				rl++ // a header-only request is told apart by its reply, whose content depends on the id
			}
			rpl := vsPayload(uint64(rl), uint64(1<<40)+uint64(p.h.ID))
			if write(ver, (p.h.Typ+10)%1024, p.h.ID, rpl, false) != nil {
				return
			}
			answered++
		}
	}()

	// the client writes KeepAliveAcks while the peer may be blocked writing: keep reading acks
	// in the peer goroutine above only between requests; a dedicated drain is not needed because
	// the window loop reads whenever requests are expected. After all replies, read leftovers.
	waitCh := make(chan struct{})
	go func() { wg.Wait(); close(waitCh) }()
	select {
	case <-waitCh:
	case <-time.After(limit):
		out["stuck"] = true
	}
	// leftovers (acks) until the client is idle
	select {
	case <-peerDone:
	case <-time.After(3 * time.Second):
	}
	for {
		if _, _, err := read(50 * time.Millisecond); err != nil {
			break
		}
	}
	_ = c.Close()
	_ = peer.Close()
	_ = cli.Close()
	select {
	case err := <-connRes:
		out["connect"] = vsClassify(err)
	case <-time.After(3 * time.Second):
		out["connect"] = "blocked"
	}
	select {
	case <-peerDone:
	case <-time.After(3 * time.Second):
	}
	cancel()
	select {
	case <-waitCh:
	case <-time.After(3 * time.Second):
	}
	tmu.Lock()
	out["trace"] = append([]vsStressFrame(nil), trace...)
	tmu.Unlock()
	for i := range calls { // reply bytes are looked at only now, after every later reply was delivered
		if calls[i].Res == "ok" {
			calls[i].RLen, calls[i].RHash = len(kept[i]), vsHash(kept[i])
		}
	}
	sort.SliceStable(calls, func(i, j int) bool { return calls[i].Tag < calls[j].Tag })
	out["calls"] = calls
	return out
}

func TestVerifClientStress(t *testing.T) {
	lines, w, done := verifIO(t)
	defer done()
	enc := json.NewEncoder(w)
	for _, line := range lines {
		var rq vsStressReq
		if err := json.Unmarshal([]byte(line), &rq); err != nil {
			_ = enc.Encode(vsObs{"error": "bad request: " + err.Error()})
			continue
		}
		res := make(chan vsObs, 1)
		go func() { res <- vsRunStress(rq) }()
		select {
		case o := <-res:
			_ = enc.Encode(o)
		case <-time.After(90 * time.Second):
			_ = enc.Encode(vsObs{"id": rq.ID, "st": "watchdog"})
		}
		w.Flush()
	}
	_ = os.Stdout
}
