//go:build verif

package llrp

// C09 — byte-level fault enumeration on the real Client.
//
// One request line = one run of a fixed reference session (connect, negotiate 1.0.1 -> 1.1, request 1 with a
// keep-alive while it is in flight, request 2, Shutdown) against a peer that VANISHES (closes its end) at a
// given point: action index + byte offset inside that action, in either direction. Variants: the in-flight
// callers' contexts are cancelled first; Close() is called locally instead of the peer vanishing; a second
// Shutdown races. After the fault the runner waits until the whole process is quiescent (vsSettle, shared with
// client_script_test.go): whatever has not returned by then is parked for good — no time budget is involved in
// the verdict "stuck". Then: Close again (twice), a late SendMessage, and the peer's count of bytes it saw
// after the CloseConnection frame.
//
// The peer builds and parses frames with its own code (vsBuildFrame / vsParseHeader).

import (
	"context"
	"encoding/json"
	"fmt"
	"io"
	"net"
	"runtime"
	"sync"
	"sync/atomic"
	"testing"
	"time"
)

type c09Req struct {
	ID      string `json:"id"`
	Version int    `json:"version"`
	Action  int    `json:"action"`  // peer action at which it vanishes; len(actions) = never
	Off     int    `json:"off"`     // bytes of that action still performed
	Variant string `json:"variant"` // plain | cancel | close | shutdown
}

type c09Act struct {
	write bool
	n     int    // bytes (reads)
	typ   int    // frame type (writes)
	pl    []byte // payload (writes)
	reply int    // writes: index of the read action whose id is echoed (-1: use id)
	id    uint32
}

func c09Actions(version int) []c09Act {
	a := []c09Act{{write: true, typ: int(MsgReaderEventNotification), pl: (&vsPl{K: "conn"}).bytes(), reply: -1}}
	if version >= 2 {
		a = append(a,
			c09Act{n: 10}, // GetSupportedVersion
			c09Act{write: true, typ: int(MsgGetSupportedVersionResponse), pl: (&vsPl{K: "gsvr", Cur: 1, Max: 2}).bytes(), reply: 1},
			c09Act{n: 11}, // SetProtocolVersion
			c09Act{write: true, typ: int(MsgSetProtocolVersionResponse), pl: vsStatusTLV(0), reply: 3})
	}
	base := len(a)
	a = append(a,
		c09Act{n: 40}, // request 1: type 20, 30 bytes
		c09Act{write: true, typ: int(MsgKeepAlive), reply: -1, id: 77},
		c09Act{n: 10}, // KeepAliveAck
		c09Act{write: true, typ: 30, pl: vsPayload(12, 501), reply: base},
		c09Act{n: 10}, // request 2: type 2, header only
		c09Act{write: true, typ: 12, pl: vsPayload(300, 502), reply: base + 4},
		c09Act{n: 10}, // CloseConnection
		c09Act{write: true, typ: int(MsgCloseConnectionResponse), pl: vsStatusTLV(0), reply: base + 6})
	return a
}

func c09Run(rq c09Req) (out vsObs) {
	out = vsObs{"id": rq.ID}
	var pmu sync.Mutex
	var panics []string
	guard := func(what string) {
		if r := recover(); r != nil {
			pmu.Lock()
			panics = append(panics, fmt.Sprint(what, ": ", r))
			pmu.Unlock()
		}
	}
	limit := 2 * time.Second
	acts := c09Actions(rq.Version)
	opts := []ClientOpt{WithLogger(nil)}
	if rq.Version == 1 {
		opts = append(opts, WithVersion(Version1_0_1))
	}
	c := NewClient(opts...)
	cli, peer := net.Pipe()
	connRes := make(chan error, 1)
	go func() {
		defer guard("Connect")
		connRes <- c.Connect(cli)
	}()

	// ---- the peer
	atFault := make(chan struct{})
	release := make(chan struct{})
	peerDone := make(chan struct{})
	var extra int
	var peerNote string
	finalRead := false // the session ran to its end
	go func() {
		defer close(peerDone)
		ids := map[int]uint32{}
		sawClose := false
		ver := rq.Version
		if ver == 0 {
			ver = 2
		}
		for i, a := range acts {
			full := a.n
			var frame []byte
			if a.write {
				id := a.id
				if a.reply >= 0 {
					id = ids[a.reply]
				}
				frame = vsBuildFrame(ver, a.typ, id, uint32(10+len(a.pl)), a.pl)
				full = len(frame)
			}
			n := full
			fault := i == rq.Action
			if fault && rq.Off < full {
				n = rq.Off
			}
			_ = peer.SetDeadline(time.Now().Add(limit))
			if a.write {
				if n > 0 {
					if _, err := peer.Write(frame[:n]); err != nil {
						peerNote = fmt.Sprintf("action %d: write: %v", i, err)
						break
					}
				}
			} else {
				buf := make([]byte, n)
				if _, err := io.ReadFull(peer, buf); err != nil {
					peerNote = fmt.Sprintf("action %d: read: %v", i, err)
					break
				}
				if n >= 10 {
					h := vsParseHeader(buf)
					ids[i] = h.ID
					if h.Typ == int(MsgCloseConnection) && n == full {
						sawClose = true
					}
				}
			}
			if fault && n < full {
				break
			}
			if fault && n == full && i == rq.Action {
				// off >= full: the fault is at the boundary after this action
				break
			}
		}
		if rq.Action < len(acts) || peerNote != "" {
			close(atFault)
			<-release
			_ = peer.Close()
			return
		}
		finalRead = true
		close(atFault)
		<-release
		// the session ran to its end: whatever else the client has written by now counts, then the reader closes
		// the connection (as readers do after CloseConnectionResponse)
		buf := make([]byte, 256)
		for {
			_ = peer.SetReadDeadline(time.Now().Add(20 * time.Millisecond))
			n, err := peer.Read(buf)
			if sawClose {
				extra += n
			}
			if err != nil {
				break
			}
		}
		_ = peer.Close()
	}()

	// ---- the callers: request 1, then request 2, then Shutdown, one after the other
	names := []string{"req1", "req2", "shutdown"}
	res := make([]string, 3)
	for i := range res {
		res[i] = "notstarted"
	}
	var rmu sync.Mutex
	ctx, cancel := context.WithCancel(context.Background())
	defer cancel()
	callersDone := make(chan struct{})
	go func() {
		defer close(callersDone)
		defer guard("callers")
		set := func(i int, v string) { rmu.Lock(); res[i] = v; rmu.Unlock() }
		set(0, "stuck")
		_, _, err := c.SendMessage(ctx, MessageType(20), vsPayload(30, 401))
		set(0, vsClassify(err))
		if err == nil {
			set(0, "ok")
		}
		set(1, "stuck")
		_, _, err = c.SendMessage(ctx, MessageType(2), nil)
		set(1, vsClassify(err))
		if err == nil {
			set(1, "ok")
		}
		set(2, "stuck")
		err = c.Shutdown(ctx)
		set(2, vsClassify(err))
	}()

	// ---- the fault
	select {
	case <-atFault:
	case <-time.After(3 * limit):
		out["error"] = "peer never reached the fault point"
	}
	vsSettle(limit)
	extraShut := "none"
	shutDone := make(chan struct{})
	switch rq.Variant {
	case "cancel":
		cancel()
		vsSettle(limit)
	case "close":
		func() {
			defer guard("Close")
			out["close1"] = vsClassify(c.Close())
		}()
		vsSettle(limit)
	case "shutdown":
		extraShut = "stuck"
		go func() {
			defer close(shutDone)
			defer guard("Shutdown2")
			e := vsClassify(c.Shutdown(ctx))
			rmu.Lock()
			extraShut = e
			rmu.Unlock()
		}()
		vsSettle(limit)
	}
	close(release) // the peer closes its end now
	<-peerDone
	quiet := vsSettle(limit)

	// ---- what has returned?
	snapshot := func() vsObs {
		o := vsObs{}
		select {
		case err := <-connRes:
			connRes <- err
			o["connect"] = vsClassify(err)
		default:
			o["connect"] = "stuck"
		}
		rmu.Lock()
		o["callers"] = append([]string(nil), res...)
		o["shutdown2"] = extraShut
		rmu.Unlock()
		return o
	}
	first := snapshot()
	out["quiet"] = quiet
	out["connect"] = first["connect"]
	out["callers"] = first["callers"]
	out["shutdown2"] = first["shutdown2"]
	out["names"] = names
	if !finalRead {
		out["peer_note"] = peerNote
	}

	// ---- Close again, twice; a late send
	func() {
		defer guard("Close2")
		out["close2"] = vsClassify(c.Close())
	}()
	vsSettle(limit)
	out["after_close"] = snapshot()
	func() {
		defer guard("Close3")
		out["close3"] = vsClassify(c.Close())
	}()
	late := "stuck"
	lateDone := make(chan struct{})
	go func() {
		defer close(lateDone)
		defer guard("late send")
		_, _, err := c.SendMessage(context.Background(), MessageType(21), vsPayload(4, 402))
		rmu.Lock()
		late = vsClassify(err)
		if err == nil {
			late = "ok"
		}
		rmu.Unlock()
	}()
	vsSettle(limit)
	rmu.Lock()
	out["late"] = late
	rmu.Unlock()

	// ---- cleanup
	cancel()
	_ = cli.Close()
	select {
	case <-peerDone:
	case <-time.After(limit):
		_ = peer.Close()
		<-peerDone
	}
	vsSettle(limit)
	out["extra_after_close_conn"] = extra
	pmu.Lock()
	if len(panics) > 0 {
		out["panics"] = panics
	}
	pmu.Unlock()
	return out
}

func TestVerifC09(t *testing.T) {
	lines, w, done := verifIO(t)
	defer done()
	enc := json.NewEncoder(w)
	for _, line := range lines {
		var rq c09Req
		if err := json.Unmarshal([]byte(line), &rq); err != nil {
			_ = enc.Encode(vsObs{"error": "bad request: " + err.Error()})
			continue
		}
		resCh := make(chan vsObs, 1)
		go func() { resCh <- c09Run(rq) }()
		select {
		case o := <-resCh:
			_ = enc.Encode(o)
		case <-time.After(60 * time.Second):
			_ = enc.Encode(vsObs{"id": rq.ID, "st": "watchdog"})
		}
		w.Flush()
	}
}

// ------------------------------------------------------------------ overlapping Close calls (TestVerifC09Race)
//
// "closing again reports 'already closed' instead of panicking" also when the calls OVERLAP. N goroutines are
// released together (spin barrier) and call Close on a fresh Client: exactly one returns nil, the others an error
// of the ErrClientClosed class, nobody panics. Mode "connected": a served 1.0.1 connection fails (the peer closes:
// Connect's own `_ = c.Close()` and its deferred Close) at the moment the owner calls Close (several times) and
// Shutdown. Many rounds for a given number of milliseconds. Panics are recovered in the calling goroutines and
// reported; the check runs this test in a process of its own so that even a crash is attributed.

type c09RaceReq struct {
	ID     string `json:"id"`
	Mode   string `json:"mode"` // fresh | connected
	N      int    `json:"n"`
	Millis int    `json:"millis"`
}

func c09RaceRun(rq c09RaceReq) vsObs {
	out := vsObs{"id": rq.ID, "mode": rq.Mode}
	var mu sync.Mutex
	var panics, bad []string
	note := func(l *[]string, s string) {
		mu.Lock()
		if len(*l) < 5 {
			*l = append(*l, s)
		}
		mu.Unlock()
	}
	npanic, nbad := 0, 0
	rounds := 0
	deadline := time.Now().Add(time.Duration(rq.Millis) * time.Millisecond)
	n := rq.N
	if n < 2 {
		n = 2
	}
	for time.Now().Before(deadline) {
		rounds++
		c := NewClient(WithLogger(nil), WithVersion(Version1_0_1))
		var start int32
		res := make([]string, n)
		var wg sync.WaitGroup
		guard := func(what string) {
			if r := recover(); r != nil {
				mu.Lock()
				npanic++
				mu.Unlock()
				note(&panics, fmt.Sprint(what, ": ", r))
			}
		}
		var peer net.Conn
		connDone := make(chan string, 1)
		if rq.Mode == "connected" {
			var cli net.Conn
			cli, peer = net.Pipe()
			go func() {
				defer func() {
					if r := recover(); r != nil {
						mu.Lock()
						npanic++
						mu.Unlock()
						note(&panics, fmt.Sprint("Connect: ", r))
						connDone <- "panic"
					}
				}()
				connDone <- vsClassify(c.Connect(cli))
			}()
			b := (&vsPl{K: "conn"}).bytes()
			_ = peer.SetDeadline(time.Now().Add(2 * time.Second))
			if _, err := peer.Write(vsBuildFrame(1, int(MsgReaderEventNotification), 0, uint32(10+len(b)), b)); err != nil {
				note(&bad, "first frame: "+err.Error())
				break
			}
			select {
			case <-c.ready:
			case <-time.After(2 * time.Second):
				note(&bad, "client never became ready")
			}
		}
		for i := 0; i < n; i++ {
			wg.Add(1)
			go func(i int) {
				defer wg.Done()
				res[i] = "panic"
				defer guard("Close")
				for atomic.LoadInt32(&start) == 0 {
				}
				res[i] = vsClassify(c.Close())
			}(i)
		}
		shut := "none"
		if rq.Mode == "connected" {
			wg.Add(2)
			go func() {
				defer wg.Done()
				for atomic.LoadInt32(&start) == 0 {
				}
				_ = peer.Close() // the connection fails: Connect closes the client itself
			}()
			go func() {
				defer wg.Done()
				defer guard("Shutdown")
				for atomic.LoadInt32(&start) == 0 {
				}
				ctx, cancel := context.WithTimeout(context.Background(), 300*time.Millisecond)
				defer cancel()
				shut = vsClassify(c.Shutdown(ctx))
			}()
		}
		runtime.Gosched()
		atomic.StoreInt32(&start, 1)
		wg.Wait()
		nils := 0
		for _, r := range res {
			switch r {
			case "nil":
				nils++
			case "closed":
			default:
				nbad++
				note(&bad, fmt.Sprintf("round %d: a Close call returned class %s", rounds, r))
			}
		}
		if rq.Mode == "fresh" && nils != 1 {
			nbad++
			note(&bad, fmt.Sprintf("round %d: %d of %d overlapping Close calls returned nil", rounds, nils, n))
		}
		if rq.Mode == "connected" {
			if nils > 1 {
				nbad++
				note(&bad, fmt.Sprintf("round %d: %d overlapping Close calls returned nil", rounds, nils))
			}
			select {
			case r := <-connDone:
				if r == "nil" || r == "panic" {
					nbad++
					note(&bad, fmt.Sprintf("round %d: Connect returned %s", rounds, r))
				}
			case <-time.After(3 * time.Second):
				nbad++
				note(&bad, fmt.Sprintf("round %d: Connect did not return", rounds))
			}
			_ = shut
		}
	}
	out["rounds"] = rounds
	out["n"] = n
	out["npanic"] = npanic
	out["nbad"] = nbad
	out["panics"] = panics
	out["bad"] = bad
	return out
}

func TestVerifC09Race(t *testing.T) {
	lines, w, done := verifIO(t)
	defer done()
	enc := json.NewEncoder(w)
	for _, line := range lines {
		var rq c09RaceReq
		if err := json.Unmarshal([]byte(line), &rq); err != nil {
			_ = enc.Encode(vsObs{"error": "bad request: " + err.Error()})
			continue
		}
		_ = enc.Encode(c09RaceRun(rq))
		w.Flush()
	}
}

// ------------------------------------------------------------------ a reader that never goes quiet (TestVerifC09Stream)
//
// The peer answers requests and, from its first message on, keeps sending reader-initiated frames (KeepAlive, ROAccessReport)
// every period_us; it NEVER closes the connection. Local Close / Shutdown / cancellation happen while the stream flows. Since
// the process never becomes quiescent here, the verdict uses a time budget: every call must have returned within budget_ms.

type c09StreamReq struct {
	ID       string `json:"id"`
	Version  int    `json:"version"`
	Scenario string `json:"scenario"` // close | shutdown | cancel | close-unanswered-negotiation
	PeriodUs int    `json:"period_us"`
	BudgetMs int    `json:"budget_ms"`
}

func c09StreamRun(rq c09StreamReq) vsObs {
	out := vsObs{"id": rq.ID, "scenario": rq.Scenario}
	budget := time.Duration(rq.BudgetMs) * time.Millisecond
	period := time.Duration(rq.PeriodUs) * time.Microsecond
	var pmu sync.Mutex
	var panics []string
	guard := func(what string) {
		if r := recover(); r != nil {
			pmu.Lock()
			panics = append(panics, fmt.Sprint(what, ": ", r))
			pmu.Unlock()
		}
	}
	opts := []ClientOpt{WithLogger(nil)}
	ver := 2
	if rq.Version == 1 {
		opts = append(opts, WithVersion(Version1_0_1))
		ver = 1
	}
	c := NewClient(opts...)
	cli, peer := net.Pipe()
	connRes := make(chan string, 1)
	go func() {
		defer guard("Connect")
		connRes <- vsClassify(c.Connect(cli))
	}()

	// ---- the peer
	var wmu sync.Mutex
	stop := make(chan struct{})
	var streamed, acks int64
	write := func(typ int, id uint32, pl []byte) error {
		wmu.Lock()
		defer wmu.Unlock()
		_ = peer.SetWriteDeadline(time.Now().Add(300 * time.Millisecond))
		_, err := peer.Write(vsBuildFrame(ver, typ, id, uint32(10+len(pl)), pl))
		return err
	}
	var pwg sync.WaitGroup
	pwg.Add(2)
	go func() { // reads and answers
		defer pwg.Done()
		hb := make([]byte, 10)
		for {
			_ = peer.SetReadDeadline(time.Now().Add(4 * budget))
			if _, err := io.ReadFull(peer, hb); err != nil {
				return
			}
			h := vsParseHeader(hb)
			if h.LenField < 10 {
				return
			}
			pl := make([]byte, h.LenField-10)
			if _, err := io.ReadFull(peer, pl); err != nil {
				return
			}
			switch h.Typ {
			case int(MsgKeepAliveAck):
				atomic.AddInt64(&acks, 1)
			case int(MsgGetSupportedVersion):
				if rq.Scenario != "close-unanswered-negotiation" {
					_ = write(int(MsgGetSupportedVersionResponse), h.ID, (&vsPl{K: "gsvr", Cur: 2, Max: 2}).bytes())
				}
			case int(MsgSetProtocolVersion):
				_ = write(int(MsgSetProtocolVersionResponse), h.ID, vsStatusTLV(0))
			case int(MsgCloseConnection):
				_ = write(int(MsgCloseConnectionResponse), h.ID, vsStatusTLV(0))
			case 21: // never answered
			default:
				_ = write((h.Typ+10)%1024, h.ID, vsPayload(5, uint64(h.ID)+900))
			}
		}
	}()
	b := (&vsPl{K: "conn"}).bytes()
	wmu.Lock()
	_ = peer.SetWriteDeadline(time.Now().Add(budget))
	_, ferr := peer.Write(vsBuildFrame(ver, int(MsgReaderEventNotification), 0, uint32(10+len(b)), b))
	wmu.Unlock()
	if ferr != nil {
		out["error"] = "first frame: " + ferr.Error()
	}
	go func() { // the stream
		defer pwg.Done()
		for i := uint32(1); ; i++ {
			select {
			case <-stop:
				return
			case <-time.After(period):
			}
			var err error
			if i%3 == 0 {
				err = write(int(MsgROAccessReport), 5000+i, vsPayload(24, uint64(i)))
			} else {
				err = write(int(MsgKeepAlive), 5000+i, nil)
			}
			if err != nil {
				// the client does not read any more (both loops gone): keep trying slowly, never hang up
				select {
				case <-stop:
					return
				case <-time.After(10 * time.Millisecond):
				}
				continue
			}
			atomic.AddInt64(&streamed, 1)
		}
	}()

	// ---- callers
	type call struct {
		done chan string
	}
	start := func(ctx context.Context, typ int) *call {
		cl := &call{done: make(chan string, 1)}
		go func() {
			defer guard(fmt.Sprint("caller typ ", typ))
			_, _, err := c.SendMessage(ctx, MessageType(typ), vsPayload(6, uint64(typ)))
			if err == nil {
				cl.done <- "ok"
			} else {
				cl.done <- vsClassify(err)
			}
		}()
		return cl
	}
	wait := func(ch chan string) string {
		select {
		case r := <-ch:
			return r
		case <-time.After(budget):
			return "stuck"
		}
	}
	callers := vsObs{}
	bg := context.Background()
	t0 := time.Now()
	switch rq.Scenario {
	case "close":
		callers["served"] = wait(start(bg, 20).done)
		inflight := start(bg, 21)
		time.Sleep(10 * period)
		func() { defer guard("Close"); out["close"] = vsClassify(c.Close()) }()
		t0 = time.Now()
		callers["inflight"] = wait(inflight.done)
	case "shutdown":
		callers["served"] = wait(start(bg, 20).done)
		time.Sleep(10 * period)
		sd := make(chan string, 1)
		go func() { defer guard("Shutdown"); sd <- vsClassify(c.Shutdown(bg)) }()
		t0 = time.Now()
		callers["shutdown"] = wait(sd)
	case "cancel":
		ctx, cancel := context.WithCancel(bg)
		inflight := start(ctx, 21)
		callers["served"] = wait(start(bg, 22).done)
		time.Sleep(5 * period)
		cancel()
		callers["cancelled"] = wait(inflight.done)
		callers["after"] = wait(start(bg, 23).done)
		func() { defer guard("Close"); out["close"] = vsClassify(c.Close()) }()
		t0 = time.Now()
	case "close-unanswered-negotiation":
		gate := start(bg, 20)
		time.Sleep(10 * period)
		func() { defer guard("Close"); out["close"] = vsClassify(c.Close()) }()
		t0 = time.Now()
		callers["at-gate"] = wait(gate.done)
	}
	out["connect"] = wait(connRes)
	out["connect_ms"] = time.Since(t0).Milliseconds()
	out["callers"] = callers
	out["streamed"] = atomic.LoadInt64(&streamed)
	out["acks"] = atomic.LoadInt64(&acks)
	func() { defer guard("Close again"); out["close_again"] = vsClassify(c.Close()) }()

	// ---- cleanup (only now does anybody hang up)
	close(stop)
	_ = cli.Close()
	_ = peer.Close()
	pwg.Wait()
	pmu.Lock()
	if len(panics) > 0 {
		out["panics"] = panics
	}
	pmu.Unlock()
	return out
}

func TestVerifC09Stream(t *testing.T) {
	lines, w, done := verifIO(t)
	defer done()
	enc := json.NewEncoder(w)
	for _, line := range lines {
		var rq c09StreamReq
		if err := json.Unmarshal([]byte(line), &rq); err != nil {
			_ = enc.Encode(vsObs{"error": "bad request: " + err.Error()})
			continue
		}
		_ = enc.Encode(c09StreamRun(rq))
		w.Flush()
	}
}

// ------------------------------------------------------------------ keep-alive flood into a stalled peer (TestVerifC09Flood)
//
// The peer reads nothing any more and floods k KeepAlives (k well past the ack queue's bound), optionally with reports or
// the reply to an in-flight request behind the flood; then the connection ends by one of: eof (the peer hangs up), close
// (local Close, the peer hangs up a moment later), shutdown (a Shutdown that cannot complete, its context ends, then Close),
// deadline (client built WithTimeout: its pending Write and its reads time out by themselves). Time-budget verdicts.

type c09FloodReq struct {
	ID        string `json:"id"`
	K         int    `json:"k"`
	Cause     string `json:"cause"`  // eof | close | shutdown | deadline
	Behind    string `json:"behind"` // none | reports | reply
	TimeoutMs int    `json:"timeout_ms"`
	BudgetMs  int    `json:"budget_ms"`
}

func c09FloodRun(rq c09FloodReq) vsObs {
	out := vsObs{"id": rq.ID}
	budget := time.Duration(rq.BudgetMs) * time.Millisecond
	var pmu sync.Mutex
	var panics []string
	guard := func(what string) {
		if r := recover(); r != nil {
			pmu.Lock()
			panics = append(panics, fmt.Sprint(what, ": ", r))
			pmu.Unlock()
		}
	}
	opts := []ClientOpt{WithLogger(nil), WithVersion(Version1_0_1)}
	if rq.Cause == "deadline" {
		opts = append(opts, WithTimeout(time.Duration(rq.TimeoutMs)*time.Millisecond))
	}
	c := NewClient(opts...)
	cli, peer := net.Pipe()
	connRes := make(chan string, 1)
	go func() {
		defer guard("Connect")
		connRes <- vsClassify(c.Connect(cli))
	}()
	write := func(typ int, id uint32, pl []byte) error {
		_ = peer.SetWriteDeadline(time.Now().Add(400 * time.Millisecond))
		_, err := peer.Write(vsBuildFrame(1, typ, id, uint32(10+len(pl)), pl))
		return err
	}
	start := func(ctx context.Context, typ int) chan string {
		ch := make(chan string, 1)
		go func() {
			defer guard(fmt.Sprint("caller typ ", typ))
			_, _, err := c.SendMessage(ctx, MessageType(typ), vsPayload(6, uint64(typ)))
			if err == nil {
				ch <- "ok"
			} else {
				ch <- vsClassify(err)
			}
		}()
		return ch
	}
	wait := func(ch chan string, d time.Duration) string {
		select {
		case r := <-ch:
			return r
		case <-time.After(d):
			return "stuck"
		}
	}
	if err := write(int(MsgReaderEventNotification), 0, (&vsPl{K: "conn"}).bytes()); err != nil {
		out["error"] = "first frame: " + err.Error()
		return out
	}
	callers := vsObs{}
	bg := context.Background()
	var first chan string
	var reqID uint32
	if rq.Behind == "reply" {
		first = start(bg, 20)
		buf := make([]byte, 16)
		_ = peer.SetReadDeadline(time.Now().Add(budget))
		if _, err := io.ReadFull(peer, buf); err != nil {
			out["error"] = "request not received: " + err.Error()
			return out
		}
		reqID = vsParseHeader(buf).ID
	}
	// ---- from here on the peer reads nothing
	blockedAt := -1
	for i := 0; i < rq.K; i++ {
		if err := write(int(MsgKeepAlive), uint32(6000+i), nil); err != nil {
			blockedAt = i
			break
		}
	}
	behindOK := true
	if blockedAt < 0 {
		switch rq.Behind {
		case "reports":
			for i := 0; i < 3; i++ {
				if write(int(MsgROAccessReport), uint32(7000+i), vsPayload(30, uint64(i))) != nil {
					behindOK = false
				}
			}
		case "reply":
			if write(30, reqID, vsPayload(12, 432)) != nil {
				behindOK = false
			}
			callers["served"] = wait(first, budget)
		}
	}
	out["flood_blocked_at"] = blockedAt
	out["behind_taken"] = behindOK
	queued := start(bg, 21) // waits behind the write loop's blocked Write
	time.Sleep(5 * time.Millisecond)
	t0 := time.Now()
	switch rq.Cause {
	case "eof":
		_ = peer.Close()
	case "close":
		func() { defer guard("Close"); out["close"] = vsClassify(c.Close()) }()
		callers["queued"] = wait(queued, budget) // released by Close itself, before anybody hangs up
		_ = peer.Close()
	case "shutdown":
		ctx, cancel := context.WithTimeout(bg, 100*time.Millisecond)
		sd := make(chan string, 1)
		go func() { defer guard("Shutdown"); sd <- vsClassify(c.Shutdown(ctx)) }()
		callers["shutdown"] = wait(sd, budget)
		cancel()
		func() { defer guard("Close"); out["close"] = vsClassify(c.Close()) }()
		_ = peer.Close()
	case "deadline":
	}
	out["connect"] = wait(connRes, budget)
	out["connect_ms"] = time.Since(t0).Milliseconds()
	if _, ok := callers["queued"]; !ok {
		callers["queued"] = wait(queued, budget)
	}
	out["callers"] = callers
	func() { defer guard("Close again"); out["close_again"] = vsClassify(c.Close()) }()
	_ = cli.Close()
	_ = peer.Close()
	time.Sleep(2 * time.Millisecond)
	pmu.Lock()
	if len(panics) > 0 {
		out["panics"] = panics
	}
	pmu.Unlock()
	return out
}

func TestVerifC09Flood(t *testing.T) {
	lines, w, done := verifIO(t)
	defer done()
	enc := json.NewEncoder(w)
	for _, line := range lines {
		var rq c09FloodReq
		if err := json.Unmarshal([]byte(line), &rq); err != nil {
			_ = enc.Encode(vsObs{"error": "bad request: " + err.Error()})
			continue
		}
		_ = enc.Encode(c09FloodRun(rq))
		w.Flush()
	}
}

// ------------------------------------------------------------------ sends after close, many times, every API (TestVerifC09LateSend)
//
// "later sends fail immediately": on a client that WAS connected (so its ready gate is open) and is closed now, every exported
// send — SendMessage, SendFor, SendNoWait — must return an error of the ErrClientClosed class at once. A select between two
// ready channels picks at random, so one try proves little: `tries` calls per API, each in its own goroutine with a background
// context; a call that has not returned within per_call_ms is reported (and the API is abandoned, so goroutines do not pile up).

type c09LateReq struct {
	ID        string `json:"id"`
	Tries     int    `json:"tries"`
	PerCallMs int    `json:"per_call_ms"`
	How       string `json:"how"` // close | shutdown | eof : how the client got closed
}

type c09Out struct {
	typ  MessageType
	data []byte
}

func (o c09Out) MarshalBinary() ([]byte, error) { return o.data, nil }
func (o c09Out) Type() MessageType              { return o.typ }

type c09In struct{ typ MessageType }

func (i *c09In) UnmarshalBinary([]byte) error { return nil }
func (i *c09In) Type() MessageType            { return i.typ }

func c09LateRun(rq c09LateReq) vsObs {
	out := vsObs{"id": rq.ID, "how": rq.How}
	var pmu sync.Mutex
	var panics []string
	guard := func(what string) {
		if r := recover(); r != nil {
			pmu.Lock()
			panics = append(panics, fmt.Sprint(what, ": ", r))
			pmu.Unlock()
		}
	}
	c := NewClient(WithLogger(nil), WithVersion(Version1_0_1))
	cli, peer := net.Pipe()
	connRes := make(chan string, 1)
	go func() { defer guard("Connect"); connRes <- vsClassify(c.Connect(cli)) }()
	b := (&vsPl{K: "conn"}).bytes()
	_ = peer.SetDeadline(time.Now().Add(2 * time.Second))
	if _, err := peer.Write(vsBuildFrame(1, int(MsgReaderEventNotification), 0, uint32(10+len(b)), b)); err != nil {
		out["error"] = "first frame: " + err.Error()
		return out
	}
	select {
	case <-c.ready:
	case <-time.After(2 * time.Second):
		out["error"] = "client never became ready"
		return out
	}
	switch rq.How {
	case "close":
		_ = c.Close()
		_ = peer.Close()
	case "eof":
		_ = peer.Close()
	case "shutdown":
		go func() { // the reader accepts CloseConnection and hangs up
			hb := make([]byte, 10)
			if _, err := io.ReadFull(peer, hb); err == nil {
				h := vsParseHeader(hb)
				_, _ = peer.Write(vsBuildFrame(1, int(MsgCloseConnectionResponse), h.ID, 18, vsStatusTLV(0)))
			}
			_ = peer.Close()
		}()
		ctx, cancel := context.WithTimeout(context.Background(), 2*time.Second)
		out["shutdown"] = vsClassify(c.Shutdown(ctx))
		cancel()
	}
	select {
	case r := <-connRes:
		out["connect"] = r
	case <-time.After(2 * time.Second):
		out["connect"] = "stuck"
	}
	per := time.Duration(rq.PerCallMs) * time.Millisecond
	apis := []string{"SendMessage", "SendFor", "SendNoWait"}
	res := vsObs{}
	for _, api := range apis {
		counts := map[string]int{}
		for i := 0; i < rq.Tries; i++ {
			ch := make(chan string, 1)
			go func(i int) {
				defer guard(api)
				var err error
				bg := context.Background()
				switch api {
				case "SendMessage":
					_, _, err = c.SendMessage(bg, MessageType(20), vsPayload(uint64(i%3), 7))
				case "SendFor":
					err = c.SendFor(bg, c09Out{MessageType(21), vsPayload(uint64(i%3), 8)}, &c09In{MessageType(21)})
				case "SendNoWait":
					var m Message
					if i%3 == 0 {
						m = NewHdrOnlyMsg(MessageType(22))
					} else {
						m, _ = NewByteMessage(MessageType(22), vsPayload(uint64(i%3), 9))
					}
					err = c.SendNoWait(bg, m)
				}
				if err == nil {
					ch <- "nil"
				} else {
					ch <- vsClassify(err)
				}
			}(i)
			select {
			case r := <-ch:
				counts[r]++
			case <-time.After(per):
				counts["stuck"]++
			}
			if counts["stuck"] > 0 {
				break
			}
		}
		res[api] = counts
	}
	out["results"] = res
	_ = cli.Close()
	_ = peer.Close()
	pmu.Lock()
	if len(panics) > 0 {
		out["panics"] = panics
	}
	pmu.Unlock()
	return out
}

func TestVerifC09LateSend(t *testing.T) {
	lines, w, done := verifIO(t)
	defer done()
	enc := json.NewEncoder(w)
	for _, line := range lines {
		var rq c09LateReq
		if err := json.Unmarshal([]byte(line), &rq); err != nil {
			_ = enc.Encode(vsObs{"error": "bad request: " + err.Error()})
			continue
		}
		_ = enc.Encode(c09LateRun(rq))
		w.Flush()
	}
}
