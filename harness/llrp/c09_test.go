//go:build verif

package llrp

// C09 — byte-level fault enumeration on the real Client.
//
// One request line = one run of a fixed reference session (connect, negotiate 1.0.1 -> 1.1, request 1 with a
// keep-alive while it is in flight, request 2, Shutdown) against a peer that VANISHES (closes its end) at a
// given point: action index + byte offset inside that action, in either direction. Variants: the in-flight
// callers' contexts are cancelled first; Close() is called locally instead of the peer vanishing; a second
// Shutdown races. After the fault the runner waits until the whole process is quiescent (vsSettle, shared with
// client_script_test.go): whatever has not returned by then is parked for good — no time budget is involved in
// the verdict "stuck". Then: Close again (twice), a late SendMessage, and the peer's count of bytes it saw
// after the CloseConnection frame.
//
// The peer builds and parses frames with its own code (vsBuildFrame / vsParseHeader).

import (
	"context"
	"encoding/json"
	"fmt"
	"io"
	"net"
	"sync"
	"testing"
	"time"
)

type c09Req struct {
	ID      string `json:"id"`
	Version int    `json:"version"`
	Action  int    `json:"action"`  // peer action at which it vanishes; len(actions) = never
	Off     int    `json:"off"`     // bytes of that action still performed
	Variant string `json:"variant"` // plain | cancel | close | shutdown
}

type c09Act struct {
	write bool
	n     int    // bytes (reads)
	typ   int    // frame type (writes)
	pl    []byte // payload (writes)
	reply int    // writes: index of the read action whose id is echoed (-1: use id)
	id    uint32
}

func c09Actions(version int) []c09Act {
	a := []c09Act{{write: true, typ: int(MsgReaderEventNotification), pl: (&vsPl{K: "conn"}).bytes(), reply: -1}}
	if version >= 2 {
		a = append(a,
			c09Act{n: 10}, // GetSupportedVersion
			c09Act{write: true, typ: int(MsgGetSupportedVersionResponse), pl: (&vsPl{K: "gsvr", Cur: 1, Max: 2}).bytes(), reply: 1},
			c09Act{n: 11}, // SetProtocolVersion
			c09Act{write: true, typ: int(MsgSetProtocolVersionResponse), pl: vsStatusTLV(0), reply: 3})
	}
	base := len(a)
	a = append(a,
		c09Act{n: 40}, // request 1: type 20, 30 bytes
		c09Act{write: true, typ: int(MsgKeepAlive), reply: -1, id: 77},
		c09Act{n: 10}, // KeepAliveAck
		c09Act{write: true, typ: 30, pl: vsPayload(12, 501), reply: base},
		c09Act{n: 10}, // request 2: type 2, header only
		c09Act{write: true, typ: 12, pl: vsPayload(300, 502), reply: base + 4},
		c09Act{n: 10}, // CloseConnection
		c09Act{write: true, typ: int(MsgCloseConnectionResponse), pl: vsStatusTLV(0), reply: base + 6})
	return a
}

func c09Run(rq c09Req) (out vsObs) {
	out = vsObs{"id": rq.ID}
	var pmu sync.Mutex
	var panics []string
	guard := func(what string) {
		if r := recover(); r != nil {
			pmu.Lock()
			panics = append(panics, fmt.Sprint(what, ": ", r))
			pmu.Unlock()
		}
	}
	limit := 2 * time.Second
	acts := c09Actions(rq.Version)
	opts := []ClientOpt{WithLogger(nil)}
	if rq.Version == 1 {
		opts = append(opts, WithVersion(Version1_0_1))
	}
	c := NewClient(opts...)
	cli, peer := net.Pipe()
	connRes := make(chan error, 1)
	go func() {
		defer guard("Connect")
		connRes <- c.Connect(cli)
	}()

	// ---- the peer
	atFault := make(chan struct{})
	release := make(chan struct{})
	peerDone := make(chan struct{})
	var extra int
	var peerNote string
	finalRead := false // the session ran to its end
	go func() {
		defer close(peerDone)
		ids := map[int]uint32{}
		sawClose := false
		ver := rq.Version
		if ver == 0 {
			ver = 2
		}
		for i, a := range acts {
			full := a.n
			var frame []byte
			if a.write {
				id := a.id
				if a.reply >= 0 {
					id = ids[a.reply]
				}
				frame = vsBuildFrame(ver, a.typ, id, uint32(10+len(a.pl)), a.pl)
				full = len(frame)
			}
			n := full
			fault := i == rq.Action
			if fault && rq.Off < full {
				n = rq.Off
			}
			_ = peer.SetDeadline(time.Now().Add(limit))
			if a.write {
				if n > 0 {
					if _, err := peer.Write(frame[:n]); err != nil {
						peerNote = fmt.Sprintf("action %d: write: %v", i, err)
						break
					}
				}
			} else {
				buf := make([]byte, n)
				if _, err := io.ReadFull(peer, buf); err != nil {
					peerNote = fmt.Sprintf("action %d: read: %v", i, err)
					break
				}
				if n >= 10 {
					h := vsParseHeader(buf)
					ids[i] = h.ID
					if h.Typ == int(MsgCloseConnection) && n == full {
						sawClose = true
					}
				}
			}
			if fault && n < full {
				break
			}
			if fault && n == full && i == rq.Action {
				// off >= full: the fault is at the boundary after this action
				break
			}
		}
		if rq.Action < len(acts) || peerNote != "" {
			close(atFault)
			<-release
			_ = peer.Close()
			return
		}
		finalRead = true
		close(atFault)
		<-release
		// the session ran to its end: whatever else the client has written by now counts, then the reader closes
		// the connection (as readers do after CloseConnectionResponse)
		buf := make([]byte, 256)
		for {
			_ = peer.SetReadDeadline(time.Now().Add(20 * time.Millisecond))
			n, err := peer.Read(buf)
			if sawClose {
				extra += n
			}
			if err != nil {
				break
			}
		}
		_ = peer.Close()
	}()

	// ---- the callers: request 1, then request 2, then Shutdown, one after the other
	names := []string{"req1", "req2", "shutdown"}
	res := make([]string, 3)
	for i := range res {
		res[i] = "notstarted"
	}
	var rmu sync.Mutex
	ctx, cancel := context.WithCancel(context.Background())
	defer cancel()
	callersDone := make(chan struct{})
	go func() {
		defer close(callersDone)
		defer guard("callers")
		set := func(i int, v string) { rmu.Lock(); res[i] = v; rmu.Unlock() }
		set(0, "stuck")
		_, _, err := c.SendMessage(ctx, MessageType(20), vsPayload(30, 401))
		set(0, vsClassify(err))
		if err == nil {
			set(0, "ok")
		}
		set(1, "stuck")
		_, _, err = c.SendMessage(ctx, MessageType(2), nil)
		set(1, vsClassify(err))
		if err == nil {
			set(1, "ok")
		}
		set(2, "stuck")
		err = c.Shutdown(ctx)
		set(2, vsClassify(err))
	}()

	// ---- the fault
	select {
	case <-atFault:
	case <-time.After(3 * limit):
		out["error"] = "peer never reached the fault point"
	}
	vsSettle(limit)
	extraShut := "none"
	shutDone := make(chan struct{})
	switch rq.Variant {
	case "cancel":
		cancel()
		vsSettle(limit)
	case "close":
		func() {
			defer guard("Close")
			out["close1"] = vsClassify(c.Close())
		}()
		vsSettle(limit)
	case "shutdown":
		extraShut = "stuck"
		go func() {
			defer close(shutDone)
			defer guard("Shutdown2")
			e := vsClassify(c.Shutdown(ctx))
			rmu.Lock()
			extraShut = e
			rmu.Unlock()
		}()
		vsSettle(limit)
	}
	close(release) // the peer closes its end now
	<-peerDone
	quiet := vsSettle(limit)

	// ---- what has returned?
	snapshot := func() vsObs {
		o := vsObs{}
		select {
		case err := <-connRes:
			connRes <- err
			o["connect"] = vsClassify(err)
		default:
			o["connect"] = "stuck"
		}
		rmu.Lock()
		o["callers"] = append([]string(nil), res...)
		o["shutdown2"] = extraShut
		rmu.Unlock()
		return o
	}
	first := snapshot()
	out["quiet"] = quiet
	out["connect"] = first["connect"]
	out["callers"] = first["callers"]
	out["shutdown2"] = first["shutdown2"]
	out["names"] = names
	if !finalRead {
		out["peer_note"] = peerNote
	}

	// ---- Close again, twice; a late send
	func() {
		defer guard("Close2")
		out["close2"] = vsClassify(c.Close())
	}()
	vsSettle(limit)
	out["after_close"] = snapshot()
	func() {
		defer guard("Close3")
		out["close3"] = vsClassify(c.Close())
	}()
	late := "stuck"
	lateDone := make(chan struct{})
	go func() {
		defer close(lateDone)
		defer guard("late send")
		_, _, err := c.SendMessage(context.Background(), MessageType(21), vsPayload(4, 402))
		rmu.Lock()
		late = vsClassify(err)
		if err == nil {
			late = "ok"
		}
		rmu.Unlock()
	}()
	vsSettle(limit)
	rmu.Lock()
	out["late"] = late
	rmu.Unlock()

	// ---- cleanup
	cancel()
	_ = cli.Close()
	select {
	case <-peerDone:
	case <-time.After(limit):
		_ = peer.Close()
		<-peerDone
	}
	vsSettle(limit)
	out["extra_after_close_conn"] = extra
	pmu.Lock()
	if len(panics) > 0 {
		out["panics"] = panics
	}
	pmu.Unlock()
	return out
}

func TestVerifC09(t *testing.T) {
	lines, w, done := verifIO(t)
	defer done()
	enc := json.NewEncoder(w)
	for _, line := range lines {
		var rq c09Req
		if err := json.Unmarshal([]byte(line), &rq); err != nil {
			_ = enc.Encode(vsObs{"error": "bad request: " + err.Error()})
			continue
		}
		resCh := make(chan vsObs, 1)
		go func() { resCh <- c09Run(rq) }()
		select {
		case o := <-resCh:
			_ = enc.Encode(o)
		case <-time.After(60 * time.Second):
			_ = enc.Encode(vsObs{"id": rq.ID, "st": "watchdog"})
		}
		w.Flush()
	}
}
