//go:build verif

package retry

import (
	"context"
	"errors"
	"fmt"
	"math/rand"
	"os"
	"os/signal"
	"strconv"
	"strings"
	"sync"
	"sync/atomic"
	"syscall"
	"testing"
	"time"
)

// request lines (one answer line each):
//
//	nw <jit> <base> <max> <n0> <cnt> <seed>
//	    nextWait(n) for n = n0 .. n0+cnt-1 -> "r:w r:w ..." where r is the value rand.Int63n(1<<n)
//	    yields for the same seed (0 when n is outside 1..62) and w the result ("panic" if it panicked)
//	run|prun <api> <retries> <keep> <backoff> <max> <jit> <ctxkind> <k> <p> <outcome>*
//	    api: ctx (RetryWithCtx) | some (RetrySome) | retry (Retry);  outcome: o | r<id> | f<id>
//	    outcome "r*N" = N recoverable failures (ids cycle 0..7)
//	    ctxkind may carry a flavour "kind/flavour": which of Go's context constructors makes the context
//	    (see c18CancelCtx, c18DeadlineCtx); the 14th is-bit is errors.Is(failure, ctx.Err())
//	    ctxkind: none | precancel | predeadline | inF (cancel inside call k) |
//	             dl (context.WithDeadline(start+p), math/rand seeded with k when jitter is on) |
//	             midwait (cancel p ns after call k returned) | midwaitDL (same, a context whose Err is
//	             DeadlineExceeded and that reports no deadline) | deadline (context.WithDeadline(start+p))
//	             sigF/INT | sigF/TERM (the process receives SIGINT / SIGTERM inside call k; RetrySome and Retry end like a
//	             cancelled context; the harness keeps its own handler registered so that the process survives)
//	    -> "<calls> <nil|err|more|nonferror> <main> <is-bits> <n others> <others...>"
//	    prun lines are run concurrently (they mostly sleep), before all other lines
//	draws <seed> <cnt>    the values rand.Int63n(1<<a) yields for a = 1..cnt after rand.Seed(seed)
//	tie <trials> <mode>   cancel inside call 1, every call fails recoverably, retries=4;
//	    mode 0: BackOff=Max=1ns, mode 1: retry.Quick  -> "<trials> <trials in which f ran again> <max calls>"
//	timing <backoff> <max> <jit> <seed> <retries>   every call fails recoverably
//	    -> "r:gap r:gap ..." draw mirrored as for nw, gap in ns between return of call i and start of call i+1
var (
	c18User      [8]error
	c18Unrelated = errors.New("unrelated")
	c18Overrun   = errors.New("history exhausted")
)

// the harness's own handler for the signals RetrySome listens to: registered for the life of the process, so that a signal
// raised by a sigF scenario is never left to the default action
var c18SigKeep = make(chan os.Signal, 64)

func c18Raise(which string) {
	sig := syscall.SIGINT
	if which == "TERM" {
		sig = syscall.SIGTERM
	}
	for len(c18SigKeep) > 0 {
		<-c18SigKeep
	}
	_ = syscall.Kill(os.Getpid(), sig)
	select { // the runtime has delivered it to every registered channel once ours has it
	case <-c18SigKeep:
	case <-time.After(2 * time.Second):
	}
}

func init() {
	signal.Notify(c18SigKeep, syscall.SIGINT, syscall.SIGTERM)
	for i := range c18User {
		c18User[i] = fmt.Errorf("user error %d", i)
	}
}

func c18Name(e error) string {
	switch e {
	case ErrRetriesExceeded:
		return "retries"
	case ErrWaitExceedsDeadline:
		return "waitdl"
	case context.Canceled:
		return "canceled"
	case context.DeadlineExceeded:
		return "deadline"
	case c18Unrelated:
		return "unrelated"
	case c18Overrun:
		return "overrun"
	}
	for i, u := range c18User {
		if e == u {
			return "u" + strconv.Itoa(i)
		}
	}
	for i, x := range c18Exotic {
		if e == x {
			return "x" + strconv.Itoa(i)
		}
	}
	return "other"
}

// a context under the harness's control: no deadline reported, ends when told, with the error told
type c18Ctx struct {
	done chan struct{}
	err  atomic.Value
	once sync.Once
}

func (c *c18Ctx) Deadline() (time.Time, bool) { return time.Time{}, false }
func (c *c18Ctx) Done() <-chan struct{}       { return c.done }
func (c *c18Ctx) Value(any) any               { return nil }
func (c *c18Ctx) Err() error {
	if e, ok := c.err.Load().(error); ok {
		return e
	}
	return nil
}
func (c *c18Ctx) end(e error) {
	c.once.Do(func() { c.err.Store(e); close(c.done) })
}

var c18Foreign = errors.New("a cause that wraps nothing")

type c18HideDeadline struct{ context.Context }

func (c18HideDeadline) Deadline() (time.Time, bool) { return time.Time{}, false }

// the kinds of cancellable context Go offers; end() ends it (Err() == context.Canceled in every flavour)
func c18CancelCtx(flavour string) (ctx context.Context, end func(), cleanup func()) {
	bg := context.Background()
	switch flavour {
	case "cause": // WithCancelCause, cancelled with a cause that does not wrap context.Canceled
		c, cc := context.WithCancelCause(bg)
		return c, func() { cc(c18Foreign) }, func() { cc(nil) }
	case "child": // child of a parent that gets cancelled
		par, pc := context.WithCancel(bg)
		c, cc := context.WithCancel(par)
		return c, pc, func() { cc(); pc() }
	case "childcause": // child of a parent cancelled with a foreign cause
		par, pc := context.WithCancelCause(bg)
		c, cc := context.WithCancel(par)
		return c, func() { pc(c18Foreign) }, func() { cc(); pc(nil) }
	case "value": // value context over a cancellable one
		c, cc := context.WithCancel(bg)
		return context.WithValue(c, c18HideDeadline{}, 1), cc, cc
	case "detached": // WithoutCancel of an already cancelled parent, then made cancellable again
		par, pc := context.WithCancel(bg)
		pc()
		c, cc := context.WithCancelCause(context.WithoutCancel(par))
		return c, func() { cc(c18Foreign) }, func() { cc(nil) }
	case "timeoutchild": // cancellable child of a far deadline set with a foreign cause
		par, pc := context.WithTimeoutCause(bg, time.Hour*24*365, c18Foreign)
		c, cc := context.WithCancel(par)
		return c, cc, func() { cc(); pc() }
	case "own": // an implementation of context.Context that is not from the standard library
		fc := &c18Ctx{done: make(chan struct{})}
		return fc, func() { fc.end(context.Canceled) }, func() {}
	}
	c, cc := context.WithCancel(bg)
	return c, cc, cc
}

// contexts that end by time, d from now (Err() == context.DeadlineExceeded in every flavour)
func c18DeadlineCtx(flavour string, d time.Duration) (context.Context, func()) {
	bg := context.Background()
	switch flavour {
	case "timeout":
		return context.WithTimeout(bg, d)
	case "deadlinecause":
		return context.WithDeadlineCause(bg, time.Now().Add(d), c18Foreign)
	case "timeoutcause":
		return context.WithTimeoutCause(bg, d, c18Foreign)
	case "child":
		par, pc := context.WithTimeoutCause(bg, d, c18Foreign)
		c, cc := context.WithCancel(par)
		return c, func() { cc(); pc() }
	}
	return context.WithDeadline(bg, time.Now().Add(d))
}

// outcome tokens: o | r<id> | f<id>; "r*N" in a request stands for N recoverable failures with ids 0,1,..,7,0,..
func c18Expand(toks []string) []string {
	var out []string
	for _, t := range toks {
		if strings.HasPrefix(t, "r*") {
			n, _ := strconv.Atoi(t[2:])
			for i := 0; i < n; i++ {
				out = append(out, "r"+strconv.Itoa(len(out)%8))
			}
		} else {
			out = append(out, t)
		}
	}
	return out
}

// failure VALUES an operation may well return and that mean something to the retry package itself:
// the errors of (other) contexts, bare and wrapped, the package's own sentinels, and the *FError of
// an inner retry. Whether the operation is re-run is decided by the bool it returns, never by these.
var c18Exotic = []error{
	context.Canceled,
	context.DeadlineExceeded,
	fmt.Errorf("dial tcp: %w", context.DeadlineExceeded),
	fmt.Errorf("request: %w", context.Canceled),
	ErrRetriesExceeded,
	ErrWaitExceedsDeadline,
	&FError{MainErr: ErrRetriesExceeded, Attempts: 2},
	&FError{MainErr: context.Canceled, Attempts: 1},
	// the failure of an inner retry that collected errors of its own (Quick inside Slow in the device service)
	&FError{MainErr: ErrRetriesExceeded, Attempts: 5, Others: []error{c18User[0], c18User[1], c18User[2], c18User[3], c18User[4]}},
	&FError{MainErr: ErrRetriesExceeded, Attempts: 2, Others: []error{c18User[5], c18User[6]}},
}

func c18Outcome(tok string) (bool, error) {
	if tok == "o" {
		return true, nil
	}
	id, _ := strconv.Atoi(tok[1:])
	if tok[0] == 'R' || tok[0] == 'F' {
		return tok[0] == 'R', c18Exotic[id%len(c18Exotic)]
	}
	return tok[0] == 'r', c18User[id%len(c18User)]
}

// c18Run with a budget: a call that has not returned after 5 s is reported as "hang" (its goroutine is
// abandoned); after 4 of those the remaining scenarios are answered "skipped" to keep the run bounded.
var c18Hangs int32

func c18Run(f []string) string {
	if atomic.LoadInt32(&c18Hangs) >= 4 {
		return "skipped"
	}
	ch := make(chan string, 1)
	go func() {
		defer func() {
			if r := recover(); r != nil {
				ch <- "panic"
			}
		}()
		ch <- c18Run1(f)
	}()
	select {
	case a := <-ch:
		return a
	case <-time.After(5 * time.Second):
		atomic.AddInt32(&c18Hangs, 1)
		return "hang"
	}
}

func c18Run1(f []string) string {
	api := f[1]
	retries, _ := strconv.Atoi(f[2])
	keep, _ := strconv.Atoi(f[3])
	backoff, _ := strconv.ParseInt(f[4], 10, 64)
	max, _ := strconv.ParseInt(f[5], 10, 64)
	ebo := ExpBackOff{BackOff: time.Duration(backoff), Max: time.Duration(max), KeepErrs: keep, Jitter: f[6] == "1"}
	kind := f[7]
	k, _ := strconv.Atoi(f[8])
	p, _ := strconv.ParseInt(f[9], 10, 64)
	outs := c18Expand(f[10:])

	var ctx context.Context = context.Background()
	cancel := func() {}
	var endCtx func()
	flavour := ""
	if i := strings.IndexByte(kind, '/'); i >= 0 {
		kind, flavour = kind[:i], kind[i+1:]
	}
	switch kind {
	case "precancel", "inF", "midwait":
		ctx, endCtx, cancel = c18CancelCtx(flavour)
		if kind == "precancel" {
			endCtx()
		}
	case "predeadline":
		ctx, cancel = c18DeadlineCtx(flavour, -time.Second)
	case "midwaitDL":
		if strings.HasPrefix(flavour, "hidden") { // a real deadline p ns after the start that Deadline() does not report
			var inner context.Context
			inner, cancel = c18DeadlineCtx(strings.TrimPrefix(flavour, "hidden-"), time.Duration(p))
			ctx = c18HideDeadline{inner}
		} else {
			fc := &c18Ctx{done: make(chan struct{})}
			ctx = fc
			endCtx = func() { fc.end(context.DeadlineExceeded) }
		}
	case "deadline":
		ctx, cancel = c18DeadlineCtx(flavour, time.Duration(p))
	case "dl": // deadline p ns away; k seeds math/rand (jitter runs are not run concurrently)
		if ebo.Jitter {
			rand.Seed(int64(k))
		}
		ctx, cancel = c18DeadlineCtx(flavour, time.Duration(p))
	}
	defer cancel()

	calls := 0
	overrun := false
	op := func(context.Context) (bool, error) {
		calls++
		if calls > len(outs) {
			overrun = true
			return false, nil // ends every API, also Retry (which marks all errors recoverable)
		}
		rec, err := c18Outcome(outs[calls-1])
		if calls == k {
			switch kind {
			case "inF":
				endCtx()
			case "sigF":
				c18Raise(flavour)
			case "midwait", "midwaitDL":
				if endCtx != nil {
					time.AfterFunc(time.Duration(p), endCtx)
				}
			}
		}
		return rec, err
	}

	var err error
	switch api {
	case "ctx":
		err = ebo.RetryWithCtx(ctx, retries, op)
	case "some":
		err = ebo.RetrySome(retries, func() (bool, error) { return op(nil) })
	case "retry":
		err = ebo.Retry(retries, func() error { _, e := op(nil); return e })
	}
	if overrun {
		return fmt.Sprintf("%d more", calls-1)
	}
	if err == nil {
		return fmt.Sprintf("%d nil", calls)
	}
	var fe *FError
	if !errors.As(err, &fe) || fe != err {
		return fmt.Sprintf("%d nonferror", calls)
	}
	var sb strings.Builder
	fmt.Fprintf(&sb, "%d err %s ", calls, c18Name(errors.Unwrap(err)))
	targets := []error{ErrRetriesExceeded, ErrWaitExceedsDeadline, context.Canceled, context.DeadlineExceeded, c18Unrelated}
	targets = append(targets, c18User[:]...)
	for _, t := range targets {
		if errors.Is(err, t) {
			sb.WriteByte('1')
		} else {
			sb.WriteByte('0')
		}
	}
	// 14th position: errors.Is(failure, ctx.Err()) when the context has ended by now
	if ce := ctx.Err(); ce == nil {
		sb.WriteByte('-')
	} else if errors.Is(err, ce) {
		sb.WriteByte('1')
	} else {
		sb.WriteByte('0')
	}
	fmt.Fprintf(&sb, " %d", len(fe.Others))
	for _, o := range fe.Others {
		sb.WriteByte(' ')
		sb.WriteString(c18Name(o))
	}
	return sb.String()
}

func c18NextWait(ebo ExpBackOff, n int) (res string) {
	defer func() {
		if r := recover(); r != nil {
			res = "panic"
		}
	}()
	return strconv.FormatInt(int64(ebo.nextWait(n)), 10)
}

func c18Draw(seed int64, n int) int64 {
	if n < 1 || n > 62 {
		return 0
	}
	rand.Seed(seed)
	return rand.Int63n(int64(1) << uint(n))
}

func TestVerifC18(t *testing.T) {
	lines, w, done := verifIO(t)
	defer done()
	ans := make([]string, len(lines))

	// phase 1: timing-sensitive runs, concurrently (each has its own context; they mostly sleep)
	sem := make(chan struct{}, 48)
	var wg sync.WaitGroup
	for i, line := range lines {
		if !strings.HasPrefix(line, "prun ") {
			continue
		}
		wg.Add(1)
		sem <- struct{}{}
		go func(i int, f []string) {
			defer func() { <-sem; wg.Done() }()
			ans[i] = c18Run(f)
		}(i, strings.Fields(line))
	}
	wg.Wait()

	// phase 2: everything else, sequentially
	for i, line := range lines {
		f := strings.Fields(line)
		switch f[0] {
		case "prun":
		case "run":
			ans[i] = c18Run(f)
		case "nw":
			base, _ := strconv.ParseInt(f[2], 10, 64)
			max, _ := strconv.ParseInt(f[3], 10, 64)
			n0, _ := strconv.Atoi(f[4])
			cnt, _ := strconv.Atoi(f[5])
			seed, _ := strconv.ParseInt(f[6], 10, 64)
			jit := f[1] == "1"
			ebo := ExpBackOff{BackOff: time.Duration(base), Max: time.Duration(max), Jitter: jit}
			var sb strings.Builder
			for j := 0; j < cnt; j++ {
				n := n0 + j
				r := int64(0)
				if jit {
					r = c18Draw(seed+int64(j), n)
					rand.Seed(seed + int64(j))
				}
				if j > 0 {
					sb.WriteByte(' ')
				}
				sb.WriteString(strconv.FormatInt(r, 10))
				sb.WriteByte(':')
				sb.WriteString(c18NextWait(ebo, n))
			}
			ans[i] = sb.String()
		case "draws":
			seed, _ := strconv.ParseInt(f[1], 10, 64)
			cnt, _ := strconv.Atoi(f[2])
			rand.Seed(seed)
			var sb strings.Builder
			for a := 1; a <= cnt && a <= 62; a++ {
				if a > 1 {
					sb.WriteByte(' ')
				}
				sb.WriteString(strconv.FormatInt(rand.Int63n(int64(1)<<uint(a)), 10))
			}
			ans[i] = sb.String()
		case "tie":
			trials, _ := strconv.Atoi(f[1])
			reran, maxCalls := 0, 0
			for tr := 0; tr < trials; tr++ {
				ebo := ExpBackOff{BackOff: 1, Max: 1}
				if f[2] == "1" {
					ebo = Quick
				}
				ctx, cancel := context.WithCancel(context.Background())
				calls := 0
				_ = ebo.RetryWithCtx(ctx, 4, func(context.Context) (bool, error) {
					calls++
					if calls == 1 {
						cancel()
					}
					return true, c18User[0]
				})
				cancel()
				if calls > 1 {
					reran++
				}
				if calls > maxCalls {
					maxCalls = calls
				}
			}
			ans[i] = fmt.Sprintf("%d %d %d", trials, reran, maxCalls)
		case "timing":
			base, _ := strconv.ParseInt(f[1], 10, 64)
			max, _ := strconv.ParseInt(f[2], 10, 64)
			jit := f[3] == "1"
			seed, _ := strconv.ParseInt(f[4], 10, 64)
			retries, _ := strconv.Atoi(f[5])
			ebo := ExpBackOff{BackOff: time.Duration(base), Max: time.Duration(max), Jitter: jit}
			// how long each run of the operation takes before it fails (a dial or send that times out)
			var opDur time.Duration
			if len(f) > 6 {
				d, _ := strconv.ParseInt(f[6], 10, 64)
				opDur = time.Duration(d)
			}
			draws := make([]int64, retries+8)
			if jit {
				rand.Seed(seed)
				for a := 1; a < retries; a++ {
					draws[a] = rand.Int63n(int64(1) << uint(a))
				}
				rand.Seed(seed)
			}
			var starts, ends []time.Time
			tctx, tcancel := context.WithTimeout(context.Background(), 3*time.Second)
			_ = ebo.RetryWithCtx(tctx, retries, func(context.Context) (bool, error) {
				starts = append(starts, time.Now())
				defer func() { ends = append(ends, time.Now()) }()
				if opDur > 0 {
					time.Sleep(opDur)
				}
				return true, c18User[1]
			})
			tcancel()
			var sb strings.Builder
			fmt.Fprintf(&sb, "%d", len(starts))
			for a := 1; a < len(starts) && a < len(draws); a++ {
				fmt.Fprintf(&sb, " %d:%d", draws[a], starts[a].Sub(ends[a-1]).Nanoseconds())
			}
			ans[i] = sb.String()
		default:
			ans[i] = "error bad request"
		}
	}
	for _, a := range ans {
		fmt.Fprintln(w, a)
	}
}
