//go:build verif

package retry

import (
	"bufio"
	"os"
	"strings"
	"testing"
)

// verifIO opens the request file named by VERIF_IN and the result file named by VERIF_OUT.
// Tests that use it are skipped when VERIF_IN is not set, so that a plain `go test -tags verif`
// does nothing.
func verifIO(t *testing.T) ([]string, *bufio.Writer, func()) {
	in := os.Getenv("VERIF_IN")
	outp := os.Getenv("VERIF_OUT")
	if in == "" || outp == "" {
		t.Skip("VERIF_IN/VERIF_OUT not set")
	}
	b, err := os.ReadFile(in)
	if err != nil {
		t.Fatal(err)
	}
	f, err := os.Create(outp)
	if err != nil {
		t.Fatal(err)
	}
	w := bufio.NewWriterSize(f, 1<<20)
	var lines []string
	for _, l := range strings.Split(string(b), "\n") {
		l = strings.TrimSpace(l)
		if l != "" {
			lines = append(lines, l)
		}
	}
	return lines, w, func() { w.Flush(); f.Close() }
}
