//go:build verif

package driver

// C10, device-service level — a hostile or broken peer cannot crash or wedge the service that
// consumes the client's messages.
//
// The property's anchors name internal/driver/device.go: the goroutines the device's message
// handlers start (newReaderEventHandler / newROHandler -> processReport, onConnect, sendEdgeXEvent)
// run OUTSIDE the client's handleGuarded, on bytes a peer sent; a panic there takes the whole
// service down.  Here a real LLRPDevice (Driver.NewLLRPDevice: its own dial / Connect / reconnect
// loop, its own handlers) is connected over loopback TCP to a scripted reader that builds and
// parses frames with the code in this file only.
//
// One JSON request line = one scenario: the payload of the connection's first message, how the
// reader answers the device's own SetReaderConfig, and a list of frames (type, payload) the
// reader sends once the connection is set up, followed by a sentinel event (a well-formed,
// UTC-stamped ReaderEventNotification with a GPIEvent on port 0x7E57).  Observed: the values
// published on the asynchronous-values channel (count per resource, whether the sentinel came
// out), whether the device re-dials after the reader closed the stream (its serving call
// returned), and — by the supervisor, checks/c10.py — whether the process survived: a panic in
// any goroutine kills the test binary, the scenario without an answer line is the culprit.

import (
	"context"
	"encoding/binary"
	"encoding/hex"
	"encoding/json"
	"fmt"
	"io"
	"net"
	"os"
	"sync"
	"sync/atomic"
	"testing"
	"time"

	"github.com/edgexfoundry/device-sdk-go/v4/pkg/interfaces"
	dsModels "github.com/edgexfoundry/device-sdk-go/v4/pkg/models"
	"github.com/edgexfoundry/go-mod-core-contracts/v4/clients/logger"
	"github.com/edgexfoundry/go-mod-core-contracts/v4/models"

	"github.com/edgexfoundry/device-rfid-llrp-go/pkg/llrp"
)

type c10dFrame struct {
	Typ  int    `json:"typ"`
	ID   uint32 `json:"id"`
	PHex string `json:"phex"`
	// Rep > 0: the payload is PHex repeated Rep times (large reports)
	Rep int `json:"rep"`
}

type c10dScenario struct {
	Name  string `json:"name"`
	First string `json:"first"` // hex payload of the first message (a ReaderEventNotification)
	// how the reader answers the device's SetReaderConfig: "" = success; "status-error" = an
	// LLRPStatus with an error code; "garbage" = a response whose payload is not a parameter;
	// "wrong-type" = a GetReaderConfigResponse; "close" = the reader closes instead
	SRC      string      `json:"src"`
	Frames   []c10dFrame `json:"frames"`
	SettleMS int         `json:"settle_ms"` // how long to wait for the sentinel (default 4000)
	// status codes the reader uses on the FIRST connection (0 = success): in its SetProtocolVersionResponse
	// (Connect fails with that status), its SetReaderConfigResponse (onConnect fails with it) and its
	// CloseConnectionResponse (the Shutdown of resetConn / Stop fails with it)
	// First1: payload of the first message of the FIRST connection only (later connections get First)
	First1      string `json:"first1"`
	SPVStatus   int    `json:"spv_status"`
	SRCStatus   int    `json:"src_status"`
	CloseStatus int    `json:"close_status"`
	// Reconnect: after the reader closed the stream, wait for the device to dial again
	Reconnect bool `json:"reconnect"`
	// AbsOnly: do not run anything, only report what the library's decoder makes of the messages
	AbsOnly bool `json:"abs_only"`
}

type c10dResult struct {
	Name      string   `json:"name"`
	Setup     bool     `json:"setup"`  // the device connected, negotiated and sent its SetReaderConfig
	Sent      int      `json:"sent"`   // frames written completely
	DecOK     []bool   `json:"dec_ok"` // per frame: the library's decoder for its type accepts the payload
	Expect    int      `json:"expect"` // values that should come out: first + accepted in-limit reports/events + sentinel
	Reports   int      `json:"reports"`
	Events    int      `json:"events"`
	Sentinel  bool     `json:"sentinel"`
	Abs       []string `json:"abs"`       // first message, then each frame, as the model sees them
	Rewritten bool     `json:"rewritten"` // a published report had its FirstSeenUTC recomputed from the Uptime
	Conns     int      `json:"conns"`
	Redialed  bool     `json:"redialed"`
	Note      string   `json:"note"`
	MS        int64    `json:"ms"`
}

// c10dBudget: a family that takes far longer than it does on a healthy tree (≈ 15 s) stops here; the
// remaining scenarios are answered "skipped" (what was observed up to then is judged as usual)
const c10dBudget = 90 * time.Second

type c10dSDK struct{ interfaces.DeviceServiceSDK }

func (c10dSDK) UpdateDeviceOperatingState(string, models.OperatingState) error { return nil }

// ---- the reader's own frame code

func c10dMsg(ver, typ int, id uint32, payload []byte) []byte {
	b := make([]byte, 10, 10+len(payload))
	binary.BigEndian.PutUint16(b[0:2], uint16(ver)<<10|uint16(typ))
	binary.BigEndian.PutUint32(b[2:6], uint32(10+len(payload)))
	binary.BigEndian.PutUint32(b[6:10], id)
	return append(b, payload...)
}

func c10dStatus(code int) []byte {
	return []byte{0x01, 0x1f, 0x00, 0x08, byte(code >> 8), byte(code), 0x00, 0x00}
}

const c10dSentinelPort = 0x7E57

func c10dSentinel() []byte {
	body := []byte{0x00, 0x80, 0x00, 0x0C, 0, 0x05, 0xF5, 0xE1, 0, 0, 0, 1}                       // UTCTimestamp
	body = append(body, 0x00, 0xF8, 0x00, 0x07, c10dSentinelPort>>8, c10dSentinelPort&0xFF, 0x80) // GPIEvent
	return append([]byte{0x00, 0xF6, 0x00, byte(4 + len(body))}, body...)
}

type c10dReader struct {
	ln     net.Listener
	sc     *c10dScenario
	first  []byte
	conns  atomic.Int64
	setups atomic.Int64 // connections on which the device's SetReaderConfig arrived
	setup  chan struct{}
	once   sync.Once
	wmu    sync.Mutex
	cmu    sync.Mutex
	conn   net.Conn // the first connection
	closed atomic.Bool
}

func (r *c10dReader) write(conn net.Conn, b []byte) error {
	r.wmu.Lock()
	defer r.wmu.Unlock()
	_ = conn.SetWriteDeadline(time.Now().Add(10 * time.Second))
	_, err := conn.Write(b)
	return err
}

func (r *c10dReader) serve() {
	for {
		conn, err := r.ln.Accept()
		if err != nil {
			return
		}
		n := int(r.conns.Add(1))
		if n == 1 {
			r.cmu.Lock()
			r.conn = conn
			r.cmu.Unlock()
		}
		go r.handle(conn, n)
	}
}

func (r *c10dReader) handle(conn net.Conn, n int) {
	defer conn.Close()
	first := r.first
	if n == 1 && r.sc.First1 != "" {
		first, _ = hex.DecodeString(r.sc.First1)
	}
	if err := r.write(conn, c10dMsg(1, 63, 0, first)); err != nil {
		return
	}
	ver := 1
	hb := make([]byte, 10)
	for {
		if _, err := io.ReadFull(conn, hb); err != nil {
			return
		}
		typ := int(binary.BigEndian.Uint16(hb[0:2]) & 0x3ff)
		ln := binary.BigEndian.Uint32(hb[2:6])
		id := binary.BigEndian.Uint32(hb[6:10])
		if ln < 10 {
			return
		}
		if _, err := io.CopyN(io.Discard, conn, int64(ln-10)); err != nil {
			return
		}
		switch typ {
		case 46: // GetSupportedVersion: current 1.0.1, supported up to 1.1
			_ = r.write(conn, c10dMsg(1, 56, id, append([]byte{1 << 5, 2 << 5}, c10dStatus(0)...)))
		case 47: // SetProtocolVersion
			if n == 1 && r.sc.SPVStatus != 0 {
				_ = r.write(conn, c10dMsg(2, 57, id, c10dStatus(r.sc.SPVStatus)))
				time.Sleep(2 * time.Millisecond)
				return // negotiation refused: the reader ends the stream
			}
			_ = r.write(conn, c10dMsg(2, 57, id, c10dStatus(0)))
			ver = 2
		case 3: // SetReaderConfig (the device's onConnect)
			r.setups.Add(1)
			mode := r.sc.SRC
			if n > 1 {
				mode = ""
			} else if r.sc.SRCStatus != 0 {
				mode = "status-code"
			}
			switch mode {
			case "status-code":
				_ = r.write(conn, c10dMsg(ver, 13, id, c10dStatus(r.sc.SRCStatus)))
			case "status-error":
				_ = r.write(conn, c10dMsg(ver, 13, id, c10dStatus(100)))
			case "garbage":
				_ = r.write(conn, c10dMsg(ver, 13, id, []byte{0xff, 0xee, 0x00, 0x03, 0x01, 0x02, 0x03}))
			case "wrong-type":
				_ = r.write(conn, c10dMsg(ver, 12, id, c10dStatus(0)))
			case "close":
				r.once.Do(func() { close(r.setup) })
				return
			default:
				_ = r.write(conn, c10dMsg(ver, 13, id, c10dStatus(0)))
			}
			if n == 1 || r.sc.SPVStatus != 0 || r.sc.First1 != "" {
				r.once.Do(func() { close(r.setup) })
			}
		case 14: // CloseConnection
			if n == 1 && r.sc.CloseStatus != 0 {
				_ = r.write(conn, c10dMsg(ver, 4, id, c10dStatus(r.sc.CloseStatus)))
				continue // refused: the connection stays up until the device closes it
			}
			_ = r.write(conn, c10dMsg(ver, 4, id, c10dStatus(0)))
			return
		}
	}
}

func c10dDecodes(typ int, payload []byte) bool {
	return c10dAbstract(typ, payload) != "X"
}

// c10dAbstract: the message as the model of coq/Client/DeviceHostile.v sees it, through the
// library's own decoder: "E:<utc>:<uptime>" for an event, "R:<tag>,<tag>.." for a report (per
// tag four 0/1: FirstSeenUTC, FirstSeenUptime, LastSeenUTC, LastSeenUptime present), "X" for a
// message the handler drops (not decodable, or beyond the buffering limit: Message.data refuses).
func c10dAbstract(typ int, payload []byte) string {
	if len(payload) > int(llrp.MaxBufferedPayloadSz) {
		return "X"
	}
	b := func(p bool) byte {
		if p {
			return '1'
		}
		return '0'
	}
	switch typ {
	case 61:
		r := &llrp.ROAccessReport{}
		if r.UnmarshalBinary(payload) != nil {
			return "X"
		}
		out := []byte("R:")
		for i, t := range r.TagReportData {
			if i > 0 {
				out = append(out, ',')
			}
			out = append(out, b(t.FirstSeenUTC != nil), b(t.FirstSeenUptime != nil), b(t.LastSeenUTC != nil), b(t.LastSeenUptime != nil))
		}
		return string(out)
	case 63:
		e := &llrp.ReaderEventNotification{}
		if e.UnmarshalBinary(payload) != nil {
			return "X"
		}
		// (values reduced to 48 bits, zero-ness of the UTC stamp kept: that is all the handlers branch on)
		utc := uint64(e.ReaderEventNotificationData.UTCTimestamp)
		if utc != 0 {
			utc = utc&(1<<48-1) | 1
		}
		return fmt.Sprintf("E:%d:%d", utc, uint64(e.ReaderEventNotificationData.Uptime)&(1<<48-1))
	}
	return "X"
}

func runC10Device(sc c10dScenario) c10dResult {
	res := c10dResult{Name: sc.Name}
	settle := 4 * time.Second
	if sc.SettleMS > 0 {
		settle = time.Duration(sc.SettleMS) * time.Millisecond
	}
	first, err := hex.DecodeString(sc.First)
	if err != nil {
		res.Note = "bad first"
		return res
	}
	payloads := make([][]byte, len(sc.Frames))
	sentFirstUTC := map[uint64]bool{}
	res.DecOK = make([]bool, len(sc.Frames))
	res.Expect = 1 // the sentinel
	if c10dDecodes(63, first) {
		res.Expect++
	}
	res.Abs = append(res.Abs, c10dAbstract(63, first))
	for i, f := range sc.Frames {
		p, err := hex.DecodeString(f.PHex)
		if err != nil {
			res.Note = "bad frame"
			return res
		}
		if f.Rep > 1 {
			q := make([]byte, 0, len(p)*f.Rep)
			for k := 0; k < f.Rep; k++ {
				q = append(q, p...)
			}
			p = q
		}
		payloads[i] = p
		abs := c10dAbstract(f.Typ, p)
		res.Abs = append(res.Abs, abs)
		if f.Typ == 61 && abs != "X" {
			r := &llrp.ROAccessReport{}
			if r.UnmarshalBinary(p) == nil {
				for _, t := range r.TagReportData {
					if t.FirstSeenUTC != nil {
						sentFirstUTC[uint64(*t.FirstSeenUTC)] = true
					}
				}
			}
		}
		res.DecOK[i] = abs != "X" || (f.Rep > 1 && len(p) > int(llrp.MaxBufferedPayloadSz) && c10dAbstract(f.Typ, p[:len(p)/f.Rep]) != "X")
		if abs != "X" {
			res.Expect++
		}
	}

	if sc.AbsOnly {
		return res
	}
	ln, err := net.Listen("tcp4", "127.0.0.1:0")
	if err != nil {
		res.Note = "listen: " + err.Error()
		return res
	}
	defer ln.Close()
	rd := &c10dReader{ln: ln, sc: &sc, first: first, setup: make(chan struct{})}
	go rd.serve()

	asyncCh := make(chan *dsModels.AsyncValues, 1)
	d := &Driver{lc: logger.MockLogger{}, asyncCh: asyncCh, svc: c10dSDK{},
		activeDevices: make(map[string]*LLRPDevice), done: make(chan struct{}), config: &ServiceConfig{}}

	// the SDK's side of the channel
	var mu sync.Mutex
	reports, events := 0, 0
	sentinel := false
	rewritten := false
	changed := make(chan struct{}, 1)
	stopCollect := make(chan struct{})
	go func() {
		for {
			select {
			case v := <-asyncCh:
				mu.Lock()
				for _, cv := range v.CommandValues {
					switch cv.DeviceResourceName {
					case ResourceROAccessReport:
						reports++
						// a published FirstSeenUTC (of a tag that also has FirstSeenUptime) that no scripted
						// report carried was recomputed from the Uptime by processReport
						if rp, ok := cv.Value.(*llrp.ROAccessReport); ok && rp != nil {
							for _, t := range rp.TagReportData {
								if t.FirstSeenUptime != nil && t.FirstSeenUTC != nil && !sentFirstUTC[uint64(*t.FirstSeenUTC)] {
									rewritten = true
								}
							}
						}
					case ResourceReaderNotification:
						events++
						if ev, ok := cv.Value.(*llrp.ReaderEventNotification); ok && ev != nil {
							if g := ev.ReaderEventNotificationData.GPIEvent; g != nil && g.Port == c10dSentinelPort {
								sentinel = true
							}
						}
					}
				}
				mu.Unlock()
				select {
				case changed <- struct{}{}:
				default:
				}
			case <-stopCollect:
				return
			}
		}
	}()
	defer close(stopCollect)

	name := "c10d-" + sc.Name
	dev := d.NewLLRPDevice(name, ln.Addr(), models.Up)
	d.devicesMu.Lock()
	d.activeDevices[name] = dev
	d.devicesMu.Unlock()

	select {
	case <-rd.setup:
		res.Setup = true
	case <-time.After(8 * time.Second):
		res.Note = "device did not get as far as SetReaderConfig"
	}

	if res.Setup && sc.SRC != "close" {
		rd.cmu.Lock()
		conn := rd.conn
		rd.cmu.Unlock()
		ok := true
		for i, f := range sc.Frames {
			if err := rd.write(conn, c10dMsg(2, f.Typ, f.ID, payloads[i])); err != nil {
				ok = false
				break
			}
			res.Sent++
		}
		if ok {
			_ = rd.write(conn, c10dMsg(2, 63, 0x7E57, c10dSentinel()))
		}
		// wait until everything that should come out has come out (or the time is up)
		deadline := time.After(settle)
	wait:
		for {
			mu.Lock()
			done := sentinel && reports+events >= res.Expect
			mu.Unlock()
			if done {
				break
			}
			select {
			case <-changed:
			case <-deadline:
				break wait
			}
		}
		// stray goroutines get a moment to fall over before the scenario is declared survived
		time.Sleep(15 * time.Millisecond)
	} else if res.Setup {
		time.Sleep(30 * time.Millisecond)
	}
	if res.Setup && sc.Reconnect {
		// the stream ends here: the device's serving call must return and the device dial again
		rd.cmu.Lock()
		conn := rd.conn
		rd.cmu.Unlock()
		_ = conn.Close()
		t0 := time.Now()
		for time.Since(t0) < 5*time.Second && rd.setups.Load() < 2 {
			time.Sleep(2 * time.Millisecond)
		}
		res.Redialed = rd.setups.Load() >= 2
	}

	ctx, cancel := context.WithTimeout(context.Background(), time.Second)
	_ = dev.Stop(ctx)
	cancel()
	ln.Close()
	// (the device's management goroutine winds down on its own: removeThisDevice gives the fresh,
	// never-connected client shutdownGrace = 1 s; TestVerifC10Driver waits for the last one)
	mu.Lock()
	res.Reports, res.Events, res.Sentinel, res.Rewritten = reports, events, sentinel, rewritten
	mu.Unlock()
	res.Conns = int(rd.conns.Load())
	return res
}

func TestVerifC10Driver(t *testing.T) {
	lines, w, closeIO := verifIO(t)
	defer closeIO()
	notSetUp := 0
	started := time.Now()
	for _, l := range lines {
		var sc c10dScenario
		if err := json.Unmarshal([]byte(l), &sc); err != nil {
			fmt.Fprintf(w, "{\"error\":%q}\n", err.Error())
			w.Flush()
			continue
		}
		// tell the supervisor which scenario is running, should the process die
		if (notSetUp >= 3 || time.Since(started) > c10dBudget) && !sc.AbsOnly {
			w.WriteString("{\"skipped\":true}\n")
			continue
		}
		fmt.Fprintf(os.Stderr, "C10-RUNNING %s\n", sc.Name)
		t0 := time.Now()
		r := runC10Device(sc)
		if !r.Setup && !sc.AbsOnly {
			notSetUp++
		}
		r.MS = time.Since(t0).Milliseconds()
		b, _ := json.Marshal(r)
		w.Write(b)
		w.WriteString("\n")
		w.Flush()
	}
	time.Sleep(1200 * time.Millisecond)
}

// ---------------------------------------------------------------------------------------------
// Discovery level: probe() (internal/driver/discover.go) is the other consumer of the client in
// the driver; it runs in autoDiscover's ipWorker goroutines, which nothing recovers: a panic on
// what a host on the scanned subnet sends ends the service.  One JSON line = one scripted host:
// it greets and negotiates like a proper Reader, answers GetReaderConfig and
// GetReaderCapabilities as the scenario says, and treats CloseConnection as the scenario says.

type c10pReply struct {
	// ok: answer with message type Typ and payload PHex (repeated Rep times if Rep > 1), length
	// field = Claimed if > 0; None: do not answer (the stream stays open); Close: close the stream
	Typ     int    `json:"typ"`
	PHex    string `json:"phex"`
	Rep     int    `json:"rep"`
	Claimed int64  `json:"claimed"`
	None    bool   `json:"none"`
	Close   bool   `json:"close"`
}

type c10pScenario struct {
	Name    string    `json:"name"`
	First   string    `json:"first"`
	Config  c10pReply `json:"config"`   // answer to GetReaderConfig (type 2)
	Caps    c10pReply `json:"caps"`     // answer to GetReaderCapabilities (type 1)
	OnClose string    `json:"on_close"` // "answer" | "ignore" | "error-status" | "drop"
	// SPVStatus != 0: SetProtocolVersion is refused with this status (Connect fails with it), the host ends
	// the stream; CloseStatus: the status of "error-status" (default 100)
	SPVStatus   int `json:"spv_status"`
	CloseStatus int `json:"close_status"`
	TimeoutMS   int `json:"timeout_ms"`
}

type c10pResult struct {
	Name     string `json:"name"`
	Returned bool   `json:"returned"`
	Err      string `json:"err"` // "nil" | "error"
	Device   string `json:"device"`
	SawGRC   bool   `json:"saw_config_request"`
	SawCaps  bool   `json:"saw_caps_request"`
	SawClose bool   `json:"saw_close_request"`
	Note     string `json:"note"`
	MS       int64  `json:"ms"`
}

func (r c10pReply) bytes(ver int, id uint32) []byte {
	p, _ := hex.DecodeString(r.PHex)
	if r.Rep > 1 {
		q := make([]byte, 0, len(p)*r.Rep)
		for k := 0; k < r.Rep; k++ {
			q = append(q, p...)
		}
		p = q
	}
	b := c10dMsg(ver, r.Typ, id, p)
	if r.Claimed > 0 {
		binary.BigEndian.PutUint32(b[2:6], uint32(r.Claimed))
	}
	return b
}

func runC10Probe(sc c10pScenario) c10pResult {
	res := c10pResult{Name: sc.Name}
	first, err := hex.DecodeString(sc.First)
	if err != nil {
		res.Note = "bad first"
		return res
	}
	ln, err := net.Listen("tcp4", "127.0.0.1:0")
	if err != nil {
		res.Note = "listen: " + err.Error()
		return res
	}
	defer ln.Close()
	var mu sync.Mutex
	hostDone := make(chan struct{})
	go func() {
		defer close(hostDone)
		conn, err := ln.Accept()
		if err != nil {
			return
		}
		defer conn.Close()
		_ = conn.SetDeadline(time.Now().Add(15 * time.Second))
		if _, err := conn.Write(c10dMsg(1, 63, 0, first)); err != nil {
			return
		}
		ver := 1
		hb := make([]byte, 10)
		answer := func(r c10pReply, id uint32) bool { // false: stop serving
			if r.Close {
				return false
			}
			if r.None {
				return true
			}
			_, err := conn.Write(r.bytes(ver, id))
			return err == nil
		}
		for {
			if _, err := io.ReadFull(conn, hb); err != nil {
				return
			}
			typ := int(binary.BigEndian.Uint16(hb[0:2]) & 0x3ff)
			ln := binary.BigEndian.Uint32(hb[2:6])
			id := binary.BigEndian.Uint32(hb[6:10])
			if ln < 10 {
				return
			}
			if _, err := io.CopyN(io.Discard, conn, int64(ln-10)); err != nil {
				return
			}
			switch typ {
			case 46:
				_, _ = conn.Write(c10dMsg(1, 56, id, append([]byte{1 << 5, 2 << 5}, c10dStatus(0)...)))
			case 47:
				if sc.SPVStatus != 0 {
					_, _ = conn.Write(c10dMsg(2, 57, id, c10dStatus(sc.SPVStatus)))
					time.Sleep(2 * time.Millisecond)
					return
				}
				_, _ = conn.Write(c10dMsg(2, 57, id, c10dStatus(0)))
				ver = 2
			case 2:
				mu.Lock()
				res.SawGRC = true
				mu.Unlock()
				if !answer(sc.Config, id) {
					return
				}
			case 1:
				mu.Lock()
				res.SawCaps = true
				mu.Unlock()
				if !answer(sc.Caps, id) {
					return
				}
			case 14:
				mu.Lock()
				res.SawClose = true
				mu.Unlock()
				switch sc.OnClose {
				case "ignore":
				case "error-status":
					code := sc.CloseStatus
					if code == 0 {
						code = 100
					}
					_, _ = conn.Write(c10dMsg(ver, 4, id, c10dStatus(code)))
				case "drop":
					return
				default:
					_, _ = conn.Write(c10dMsg(ver, 4, id, c10dStatus(0)))
				}
			}
		}
	}()

	timeout := 300 * time.Millisecond
	if sc.TimeoutMS > 0 {
		timeout = time.Duration(sc.TimeoutMS) * time.Millisecond
	}
	addr := ln.Addr().(*net.TCPAddr)
	type pr struct {
		info *discoveryInfo
		err  error
	}
	done := make(chan pr, 1)
	go func() {
		info, err := probe("127.0.0.1", fmt.Sprint(addr.Port), timeout)
		done <- pr{info, err}
	}()
	select {
	case r := <-done:
		res.Returned = true
		res.Err = "nil"
		if r.err != nil {
			res.Err = "error"
		}
		if r.info != nil {
			res.Device = r.info.deviceName
		}
	case <-time.After(30 * time.Second):
		res.Note = "probe did not return within 30 s"
	}
	ln.Close()
	select {
	case <-hostDone:
	case <-time.After(2 * time.Second):
	}
	// stray goroutines get a moment to fall over before the scenario is declared survived
	time.Sleep(10 * time.Millisecond)
	mu.Lock()
	defer mu.Unlock()
	return res
}

func TestVerifC10Probe(t *testing.T) {
	lines, w, closeIO := verifIO(t)
	defer closeIO()
	wedged := 0
	started := time.Now()
	for _, l := range lines {
		var sc c10pScenario
		if err := json.Unmarshal([]byte(l), &sc); err != nil {
			fmt.Fprintf(w, "{\"error\":%q}\n", err.Error())
			w.Flush()
			continue
		}
		if wedged >= 3 || time.Since(started) > c10dBudget {
			// enough evidence that probe does not come back on this tree; do not spend 30 s on each remaining host
			w.WriteString("{\"skipped\":true}\n")
			continue
		}
		fmt.Fprintf(os.Stderr, "C10-RUNNING %s\n", sc.Name)
		t0 := time.Now()
		r := runC10Probe(sc)
		if !r.Returned {
			wedged++
		}
		r.MS = time.Since(t0).Milliseconds()
		b, _ := json.Marshal(r)
		w.Write(b)
		w.WriteString("\n")
		w.Flush()
	}
}
