//go:build verif

package driver

// C09 at the driver layer (TestVerifC09Driver): "Close as the fallback". The driver ends a connection through
// LLRPDevice.closeLocked (Stop, UpdateAddr with a new address, resetConn): graceful Shutdown first, and whenever that does not
// succeed the client must be closed all the same. A scripted reader (own frame code, net.Pipe) REFUSES CloseConnection in each
// way it can — CloseConnectionResponse with an error status, an ErrorMessage (error status, success status), a reply of another
// type, an undecodable CloseConnectionResponse, no answer until the context runs out — or accepts it (control). After the driver
// call has returned the OLD client must be closed: sends on it fail at once with ErrClientClosed (several tries, background
// context), and once the reader says anything more (a KeepAlive) its Connect has returned.

import (
	"context"
	"encoding/json"
	"errors"
	"fmt"
	"io"
	"net"
	"sync"
	"testing"
	"time"

	"github.com/edgexfoundry/go-mod-core-contracts/v4/clients/logger"

	"github.com/edgexfoundry/device-rfid-llrp-go/pkg/llrp"
)

type c09dReq struct {
	ID       string `json:"id"`
	Op       string `json:"op"`     // stop | update_addr | reset
	Refuse   string `json:"refuse"` // ccr-error | errmsg-error | errmsg-success | wrong-type | ccr-garbage | silent | accept
	CtxMs    int    `json:"ctx_ms"` // context given to Stop / UpdateAddr
	BudgetMs int    `json:"budget_ms"`
}

type c09dAddr string

func (a c09dAddr) Network() string { return "tcp" }
func (a c09dAddr) String() string  { return string(a) }

func c09dFrame(typ int, id uint32, payload []byte) []byte {
	n := uint32(10 + len(payload))
	b := []byte{byte(1<<2) | byte(typ>>8)&3, byte(typ), byte(n >> 24), byte(n >> 16), byte(n >> 8), byte(n),
		byte(id >> 24), byte(id >> 16), byte(id >> 8), byte(id)}
	return append(b, payload...)
}

func c09dStatus(code int) []byte { return []byte{0x01, 0x1F, 0, 8, byte(code >> 8), byte(code), 0, 0} }

func c09dClass(err error) string {
	switch {
	case err == nil:
		return "nil"
	case errors.Is(err, llrp.ErrClientClosed):
		return "closed"
	case errors.Is(err, context.Canceled), errors.Is(err, context.DeadlineExceeded):
		return "ctx"
	}
	return "other"
}

func c09dRun(rq c09dReq) map[string]interface{} {
	out := map[string]interface{}{"id": rq.ID}
	budget := time.Duration(rq.BudgetMs) * time.Millisecond
	var pmu sync.Mutex
	var panics []string
	guard := func(what string) {
		if r := recover(); r != nil {
			pmu.Lock()
			panics = append(panics, fmt.Sprint(what, ": ", r))
			pmu.Unlock()
		}
	}
	c := llrp.NewClient(llrp.WithLogger(nil), llrp.WithVersion(llrp.Version1_0_1))
	cli, peer := net.Pipe()
	connRes := make(chan string, 1)
	go func() { defer guard("Connect"); connRes <- c09dClass(c.Connect(cli)) }()

	// ---- the reader
	connEvent := []byte{0x00, 0xF6, 0x00, 0x16, 0x00, 0x80, 0x00, 0x0C, 0, 0, 0, 0, 0, 0, 0, 1, 0x01, 0x00, 0x00, 0x06, 0, 0}
	_ = peer.SetDeadline(time.Now().Add(4 * budget))
	if _, err := peer.Write(c09dFrame(63, 0, connEvent)); err != nil {
		out["error"] = "first frame: " + err.Error()
		return out
	}
	sawClose := make(chan struct{})
	speak := make(chan struct{})
	var rwg sync.WaitGroup
	rwg.Add(1)
	go func() {
		defer rwg.Done()
		hb := make([]byte, 10)
		seen := false
		for {
			if _, err := io.ReadFull(peer, hb); err != nil {
				return
			}
			n := int(hb[2])<<24 | int(hb[3])<<16 | int(hb[4])<<8 | int(hb[5])
			typ := int(hb[0]&3)<<8 | int(hb[1])
			id := uint32(hb[6])<<24 | uint32(hb[7])<<16 | uint32(hb[8])<<8 | uint32(hb[9])
			if n < 10 {
				return
			}
			if _, err := io.ReadFull(peer, make([]byte, n-10)); err != nil {
				return
			}
			if typ != 14 { // any other request: answered with its response type and a success status
				_, _ = peer.Write(c09dFrame(typ+10, id, c09dStatus(0)))
				continue
			}
			if !seen {
				seen = true
				close(sawClose)
			}
			switch rq.Refuse {
			case "ccr-error":
				_, _ = peer.Write(c09dFrame(4, id, c09dStatus(101)))
			case "errmsg-error":
				_, _ = peer.Write(c09dFrame(100, id, c09dStatus(100)))
			case "errmsg-success":
				_, _ = peer.Write(c09dFrame(100, id, c09dStatus(0)))
			case "wrong-type":
				_, _ = peer.Write(c09dFrame(12, id, c09dStatus(0)))
			case "ccr-garbage":
				_, _ = peer.Write(c09dFrame(4, id, []byte{0xDE, 0xAD, 0xBE}))
			case "accept":
				_, _ = peer.Write(c09dFrame(4, id, c09dStatus(0)))
			case "silent":
			}
		}
	}()
	go func() { // once told to, the reader says something more (readers send keep-alives) but never hangs up
		<-speak
		for i := 0; i < 3; i++ {
			_ = peer.SetWriteDeadline(time.Now().Add(200 * time.Millisecond))
			if _, err := peer.Write(c09dFrame(62, uint32(900+i), nil)); err != nil {
				return
			}
			time.Sleep(5 * time.Millisecond)
		}
	}()

	// the connection serves: one request goes through
	ctx0, cancel0 := context.WithTimeout(context.Background(), budget)
	_, _, err := c.SendMessage(ctx0, llrp.MessageType(2), nil)
	cancel0()
	out["served"] = c09dClass(err)

	// ---- the driver ends the connection
	l := &LLRPDevice{name: "c09-" + rq.ID, lc: logger.MockLogger{}, client: c, address: c09dAddr("10.9.9.1:5084")}
	ctx, cancel := context.WithTimeout(context.Background(), time.Duration(rq.CtxMs)*time.Millisecond)
	opDone := make(chan string, 1)
	t0 := time.Now()
	go func() {
		defer guard("driver " + rq.Op)
		switch rq.Op {
		case "stop":
			opDone <- c09dClass(l.Stop(ctx))
		case "update_addr":
			opDone <- c09dClass(l.UpdateAddr(ctx, c09dAddr("10.9.9.2:5084")))
		case "reset":
			l.resetConn()
			opDone <- "nil"
		default:
			opDone <- "bad-op"
		}
	}()
	select {
	case r := <-opDone:
		out["op_result"] = r
	case <-time.After(budget + time.Duration(rq.CtxMs)*time.Millisecond):
		out["op_result"] = "stuck"
	}
	cancel()
	out["op_ms"] = time.Since(t0).Milliseconds()
	select {
	case <-sawClose:
		out["close_connection_seen"] = true
	default:
		out["close_connection_seen"] = false
	}

	// ---- the OLD client must be closed: sends fail at once
	sends := map[string]int{}
	for i := 0; i < 6; i++ {
		ch := make(chan string, 1)
		go func(i int) {
			defer guard("send on the old client")
			var e error
			if i%2 == 0 {
				_, _, e = c.SendMessage(context.Background(), llrp.MessageType(2), nil)
			} else {
				e = c.SendNoWait(context.Background(), llrp.NewHdrOnlyMsg(llrp.MessageType(64)))
			}
			ch <- c09dClass(e)
		}(i)
		select {
		case r := <-ch:
			sends[r]++
		case <-time.After(budget / 4):
			sends["blocked"]++
		}
		if sends["blocked"] > 0 {
			break
		}
	}
	out["sends_on_old_client"] = sends
	// ... and its Connect returns as soon as the reader says anything more
	close(speak)
	select {
	case r := <-connRes:
		out["connect"] = r
	case <-time.After(budget):
		out["connect"] = "blocked"
	}
	_ = c.Close()
	_ = cli.Close()
	_ = peer.Close()
	rwg.Wait()
	pmu.Lock()
	if len(panics) > 0 {
		out["panics"] = panics
	}
	pmu.Unlock()
	return out
}

func TestVerifC09Driver(t *testing.T) {
	lines, w, done := verifIO(t)
	defer done()
	enc := json.NewEncoder(w)
	for _, line := range lines {
		var rq c09dReq
		if err := json.Unmarshal([]byte(line), &rq); err != nil {
			_ = enc.Encode(map[string]interface{}{"error": "bad request: " + err.Error()})
			continue
		}
		_ = enc.Encode(c09dRun(rq))
		w.Flush()
	}
}
