//go:build verif

package driver

// C09 at the driver layer (TestVerifC09Driver): "Close as the fallback". The driver ends a connection through
// LLRPDevice.closeLocked (Stop, UpdateAddr with a new address, resetConn): graceful Shutdown first, and whenever that does not
// succeed the client must be closed all the same. A scripted reader (own frame code, net.Pipe) REFUSES CloseConnection in each
// way it can — CloseConnectionResponse with an error status, an ErrorMessage (error status, success status), a reply of another
// type, an undecodable CloseConnectionResponse, no answer until the context runs out — or accepts it (control). After the driver
// call has returned the OLD client must be closed: sends on it fail at once with ErrClientClosed (several tries, background
// context), and once the reader says anything more (a KeepAlive) its Connect has returned.

import (
	"context"
	"encoding/json"
	"errors"
	"fmt"
	"io"
	"net"
	"sync"
	"sync/atomic"
	"testing"
	"time"

	"github.com/edgexfoundry/device-sdk-go/v4/pkg/interfaces"
	dsModels "github.com/edgexfoundry/device-sdk-go/v4/pkg/models"
	"github.com/edgexfoundry/go-mod-core-contracts/v4/clients/logger"
	"github.com/edgexfoundry/go-mod-core-contracts/v4/models"

	"github.com/edgexfoundry/device-rfid-llrp-go/pkg/llrp"
)

type c09dReq struct {
	ID       string `json:"id"`
	Op       string `json:"op"`     // stop | update_addr | reset
	Refuse   string `json:"refuse"` // ccr-error | errmsg-error | errmsg-success | wrong-type | ccr-garbage | silent | accept
	CtxMs    int    `json:"ctx_ms"` // context given to Stop / UpdateAddr
	BudgetMs int    `json:"budget_ms"`
}

type c09dAddr string

func (a c09dAddr) Network() string { return "tcp" }
func (a c09dAddr) String() string  { return string(a) }

func c09dFrame(typ int, id uint32, payload []byte) []byte {
	n := uint32(10 + len(payload))
	b := []byte{byte(1<<2) | byte(typ>>8)&3, byte(typ), byte(n >> 24), byte(n >> 16), byte(n >> 8), byte(n),
		byte(id >> 24), byte(id >> 16), byte(id >> 8), byte(id)}
	return append(b, payload...)
}

func c09dStatus(code int) []byte { return []byte{0x01, 0x1F, 0, 8, byte(code >> 8), byte(code), 0, 0} }

func c09dClass(err error) string {
	switch {
	case err == nil:
		return "nil"
	case errors.Is(err, llrp.ErrClientClosed):
		return "closed"
	case errors.Is(err, context.Canceled), errors.Is(err, context.DeadlineExceeded):
		return "ctx"
	}
	return "other"
}

func c09dRun(rq c09dReq) map[string]interface{} {
	out := map[string]interface{}{"id": rq.ID}
	budget := time.Duration(rq.BudgetMs) * time.Millisecond
	var pmu sync.Mutex
	var panics []string
	guard := func(what string) {
		if r := recover(); r != nil {
			pmu.Lock()
			panics = append(panics, fmt.Sprint(what, ": ", r))
			pmu.Unlock()
		}
	}
	c := llrp.NewClient(llrp.WithLogger(nil), llrp.WithVersion(llrp.Version1_0_1))
	cli, peer := net.Pipe()
	connRes := make(chan string, 1)
	go func() { defer guard("Connect"); connRes <- c09dClass(c.Connect(cli)) }()

	// ---- the reader
	connEvent := []byte{0x00, 0xF6, 0x00, 0x16, 0x00, 0x80, 0x00, 0x0C, 0, 0, 0, 0, 0, 0, 0, 1, 0x01, 0x00, 0x00, 0x06, 0, 0}
	_ = peer.SetDeadline(time.Now().Add(4 * budget))
	if _, err := peer.Write(c09dFrame(63, 0, connEvent)); err != nil {
		out["error"] = "first frame: " + err.Error()
		return out
	}
	sawClose := make(chan struct{})
	speak := make(chan struct{})
	var rwg sync.WaitGroup
	rwg.Add(1)
	go func() {
		defer rwg.Done()
		hb := make([]byte, 10)
		seen := false
		for {
			if _, err := io.ReadFull(peer, hb); err != nil {
				return
			}
			n := int(hb[2])<<24 | int(hb[3])<<16 | int(hb[4])<<8 | int(hb[5])
			typ := int(hb[0]&3)<<8 | int(hb[1])
			id := uint32(hb[6])<<24 | uint32(hb[7])<<16 | uint32(hb[8])<<8 | uint32(hb[9])
			if n < 10 {
				return
			}
			if _, err := io.ReadFull(peer, make([]byte, n-10)); err != nil {
				return
			}
			if typ != 14 { // any other request: answered with its response type and a success status
				_, _ = peer.Write(c09dFrame(typ+10, id, c09dStatus(0)))
				continue
			}
			if !seen {
				seen = true
				close(sawClose)
			}
			switch rq.Refuse {
			case "ccr-error":
				_, _ = peer.Write(c09dFrame(4, id, c09dStatus(101)))
			case "errmsg-error":
				_, _ = peer.Write(c09dFrame(100, id, c09dStatus(100)))
			case "errmsg-success":
				_, _ = peer.Write(c09dFrame(100, id, c09dStatus(0)))
			case "wrong-type":
				_, _ = peer.Write(c09dFrame(12, id, c09dStatus(0)))
			case "ccr-garbage":
				_, _ = peer.Write(c09dFrame(4, id, []byte{0xDE, 0xAD, 0xBE}))
			case "accept":
				_, _ = peer.Write(c09dFrame(4, id, c09dStatus(0)))
			case "silent":
			}
		}
	}()
	go func() { // once told to, the reader says something more (readers send keep-alives) but never hangs up
		<-speak
		for i := 0; i < 3; i++ {
			_ = peer.SetWriteDeadline(time.Now().Add(200 * time.Millisecond))
			if _, err := peer.Write(c09dFrame(62, uint32(900+i), nil)); err != nil {
				return
			}
			time.Sleep(5 * time.Millisecond)
		}
	}()

	// the connection serves: one request goes through
	ctx0, cancel0 := context.WithTimeout(context.Background(), budget)
	_, _, err := c.SendMessage(ctx0, llrp.MessageType(2), nil)
	cancel0()
	out["served"] = c09dClass(err)

	// ---- the driver ends the connection
	l := &LLRPDevice{name: "c09-" + rq.ID, lc: logger.MockLogger{}, client: c, address: c09dAddr("10.9.9.1:5084")}
	ctx, cancel := context.WithTimeout(context.Background(), time.Duration(rq.CtxMs)*time.Millisecond)
	opDone := make(chan string, 1)
	t0 := time.Now()
	go func() {
		defer guard("driver " + rq.Op)
		switch rq.Op {
		case "stop":
			opDone <- c09dClass(l.Stop(ctx))
		case "update_addr":
			opDone <- c09dClass(l.UpdateAddr(ctx, c09dAddr("10.9.9.2:5084")))
		case "reset":
			l.resetConn()
			opDone <- "nil"
		default:
			opDone <- "bad-op"
		}
	}()
	select {
	case r := <-opDone:
		out["op_result"] = r
	case <-time.After(budget + time.Duration(rq.CtxMs)*time.Millisecond):
		out["op_result"] = "stuck"
	}
	cancel()
	out["op_ms"] = time.Since(t0).Milliseconds()
	select {
	case <-sawClose:
		out["close_connection_seen"] = true
	default:
		out["close_connection_seen"] = false
	}

	// ---- the OLD client must be closed: sends fail at once
	sends := map[string]int{}
	for i := 0; i < 6; i++ {
		ch := make(chan string, 1)
		go func(i int) {
			defer guard("send on the old client")
			var e error
			if i%2 == 0 {
				_, _, e = c.SendMessage(context.Background(), llrp.MessageType(2), nil)
			} else {
				e = c.SendNoWait(context.Background(), llrp.NewHdrOnlyMsg(llrp.MessageType(64)))
			}
			ch <- c09dClass(e)
		}(i)
		select {
		case r := <-ch:
			sends[r]++
		case <-time.After(budget / 4):
			sends["blocked"]++
		}
		if sends["blocked"] > 0 {
			break
		}
	}
	out["sends_on_old_client"] = sends
	// ... and its Connect returns as soon as the reader says anything more
	close(speak)
	select {
	case r := <-connRes:
		out["connect"] = r
	case <-time.After(budget):
		out["connect"] = "blocked"
	}
	_ = c.Close()
	_ = cli.Close()
	_ = peer.Close()
	rwg.Wait()
	pmu.Lock()
	if len(panics) > 0 {
		out["panics"] = panics
	}
	pmu.Unlock()
	return out
}

func TestVerifC09Driver(t *testing.T) {
	lines, w, done := verifIO(t)
	defer done()
	enc := json.NewEncoder(w)
	for _, line := range lines {
		var rq c09dReq
		if err := json.Unmarshal([]byte(line), &rq); err != nil {
			_ = enc.Encode(map[string]interface{}{"error": "bad request: " + err.Error()})
			continue
		}
		_ = enc.Encode(c09dRun(rq))
		w.Flush()
	}
}

// ------------------------------------------------------------------ C09 at the level of the device (TestVerifC09Device)
//
// "The serving call returns once the connection ends" for the client the DEVICE SERVICE runs: the supervisor goroutine of an
// LLRPDevice sits in Client.Connect and can only redial (or wind the device down) once Connect has returned. The llrp.Client runs
// its message handlers on the read loop, so whether the handlers the driver registers (ROAccessReport, ReaderEventNotification:
// both forward to EdgeX through the asynchronous-values channel) can keep Connect from returning is a fact about
// internal/driver/device.go. A REAL LLRPDevice (Driver.NewLLRPDevice) is run against a scripted loopback reader (own frame code)
// with the consumer of the asynchronous-values channel stalled (or keeping up: control); the reader sends more tag reports /
// reader events than the channel holds, and then the connection ends in each way it can:
//   eof          the reader hangs up                          -> the supervisor must redial (a second connection arrives, negotiation starts)
//   close        Close() on the current client, then the reader says one more thing (a keep-alive)   -> redial
//   reset        LLRPDevice.resetConn()  (Shutdown; the reader answers and hangs up)                 -> redial
//   update_addr  LLRPDevice.UpdateAddr(ctx, second listener)                                         -> redial at the new address
//   stop         LLRPDevice.Stop(ctx)                                                                -> the supervisor ends: the device is removed from the driver's table
// one answer line: {"id","setup","redialed":bool,"redial_ms":n,"removed":bool,"op_result":..,"op_ms":n,"published":n,"sent":n}

type c09vSDK struct{ interfaces.DeviceServiceSDK }

func (c09vSDK) UpdateDeviceOperatingState(string, models.OperatingState) error { return nil }

type c09vReq struct {
	ID       string `json:"id"`
	Cap      int    `json:"cap"`
	Consumer string `json:"consumer"` // stalled | keeping-up
	Flood    string `json:"flood"`    // report | report-empty | event | both
	Extra    int    `json:"extra"`    // messages beyond the channel's capacity
	Cause    string `json:"cause"`
	CtxMs    int    `json:"ctx_ms"`
	BudgetMs int    `json:"budget_ms"`
}

var c09vConnEvent = []byte{0x00, 0xF6, 0x00, 0x16, 0x00, 0x80, 0x00, 0x0C, 0, 0x05, 0xa7, 0x38, 0x13, 0x3c, 0x2c, 0x9e, 0x01, 0x00, 0x00, 0x06, 0, 0}
var c09vGPIEvent = []byte{0x00, 0xF6, 0x00, 0x17, 0x00, 0x80, 0x00, 0x0C, 0, 0x05, 0xa7, 0x38, 0x13, 0x3c, 0x2c, 0x9f, 0x00, 0xF8, 0x00, 0x07, 0x00, 0x02, 0x80}
var c09vTagReport = []byte{0x00, 0xF0, 0x00, 0x11, 0x8D, 1, 2, 3, 4, 5, 6, 7, 8, 9, 10, 11, 12}

func c09vFrame(typ int, id uint32, payload []byte) []byte {
	b := c09dFrame(typ, id, payload)
	b[0] = byte(2<<2) | byte(typ>>8)&3
	return b
}

type c09vConn struct {
	conn   net.Conn
	which  int // listener index
	setup  chan struct{}
	sawGSV chan struct{}
	wmu    sync.Mutex
}

func (p *c09vConn) write(b []byte) error {
	p.wmu.Lock()
	defer p.wmu.Unlock()
	_ = p.conn.SetWriteDeadline(time.Now().Add(2 * time.Second))
	_, err := p.conn.Write(b)
	return err
}

// serve one connection of the scripted reader: greet, answer negotiation / SetReaderConfig; CloseConnection is answered and
// the reader hangs up (as readers do)
func (p *c09vConn) serve() {
	if p.write(c09vFrame(63, 0, c09vConnEvent)) != nil {
		return
	}
	hb := make([]byte, 10)
	once, onceG := false, false
	for {
		if _, err := io.ReadFull(p.conn, hb); err != nil {
			return
		}
		typ := int(hb[0]&3)<<8 | int(hb[1])
		n := int(hb[2])<<24 | int(hb[3])<<16 | int(hb[4])<<8 | int(hb[5])
		id := uint32(hb[6])<<24 | uint32(hb[7])<<16 | uint32(hb[8])<<8 | uint32(hb[9])
		if n < 10 || n > 1<<20 {
			return
		}
		if _, err := io.ReadFull(p.conn, make([]byte, n-10)); err != nil {
			return
		}
		switch typ {
		case 46:
			if !onceG {
				onceG = true
				close(p.sawGSV)
			}
			_ = p.write(c09vFrame(56, id, append([]byte{2 << 5, 2 << 5}, c09dStatus(0)...)))
		case 47:
			_ = p.write(c09vFrame(57, id, c09dStatus(0)))
		case 3:
			_ = p.write(c09vFrame(13, id, c09dStatus(0)))
			if !once {
				once = true
				close(p.setup)
			}
		case 14:
			_ = p.write(c09vFrame(4, id, c09dStatus(0)))
			time.Sleep(2 * time.Millisecond)
			_ = p.conn.Close()
			return
		}
	}
}

func c09vRun(rq c09vReq) map[string]interface{} {
	out := map[string]interface{}{"id": rq.ID}
	budget := time.Duration(rq.BudgetMs) * time.Millisecond
	pok := (&llrp.ROAccessReport{}).UnmarshalBinary(c09vTagReport) == nil &&
		(&llrp.ReaderEventNotification{}).UnmarshalBinary(c09vGPIEvent) == nil
	out["payload_ok"] = pok

	var lns [2]net.Listener
	for i := range lns {
		ln, err := net.Listen("tcp", "127.0.0.1:0")
		if err != nil {
			out["setup"] = "listen: " + err.Error()
			return out
		}
		lns[i] = ln
		defer ln.Close()
	}
	conns := make(chan *c09vConn, 16)
	for i := range lns {
		go func(i int) {
			for {
				c, err := lns[i].Accept()
				if err != nil {
					return
				}
				p := &c09vConn{conn: c, which: i, setup: make(chan struct{}), sawGSV: make(chan struct{})}
				conns <- p
				go p.serve()
			}
		}(i)
	}

	asyncCh := make(chan *dsModels.AsyncValues, rq.Cap)
	var published int64
	var consume int32 // 0 stalled, 2 as fast as possible
	if rq.Consumer == "keeping-up" {
		consume = 2
	}
	stopConsumer := make(chan struct{})
	consumerDone := make(chan struct{})
	go func() {
		defer close(consumerDone)
		for {
			if atomic.LoadInt32(&consume) == 0 {
				select {
				case <-stopConsumer:
					return
				case <-time.After(time.Millisecond):
				}
				continue
			}
			select {
			case <-stopConsumer:
				return
			case <-asyncCh:
				atomic.AddInt64(&published, 1)
			}
		}
	}()

	d := &Driver{lc: logger.MockLogger{}, asyncCh: asyncCh, svc: c09vSDK{},
		activeDevices: make(map[string]*LLRPDevice), done: make(chan struct{}), config: &ServiceConfig{}}
	const name = "c09dev"
	dev := d.NewLLRPDevice(name, lns[0].Addr(), models.Up)
	d.devicesMu.Lock()
	d.activeDevices[name] = dev
	d.devicesMu.Unlock()
	var all []*c09vConn
	defer func() {
		atomic.StoreInt32(&consume, 2) // let everything parked on the channel go, then stop the device
		ctx, cancel := context.WithTimeout(context.Background(), time.Second)
		_ = dev.Stop(ctx)
		cancel()
		for _, p := range all {
			_ = p.conn.Close()
		}
	drain:
		for {
			select {
			case p := <-conns:
				_ = p.conn.Close()
			default:
				break drain
			}
		}
		time.Sleep(20 * time.Millisecond)
		close(stopConsumer)
		<-consumerDone
		out["published"] = atomic.LoadInt64(&published)
	}()

	var first *c09vConn
	select {
	case first = <-conns:
		all = append(all, first)
	case <-time.After(5 * time.Second):
		out["setup"] = "the device did not dial"
		return out
	}
	select {
	case <-first.setup:
		out["setup"] = "ok"
	case <-time.After(5 * time.Second):
		out["setup"] = "no SetReaderConfig from the device"
		return out
	}
	time.Sleep(5 * time.Millisecond)

	// ---- more reports / events than the channel holds
	sent := 0
	for i := 0; i < rq.Cap+rq.Extra; i++ {
		var fr []byte
		switch {
		case rq.Flood == "event" || (rq.Flood == "both" && i%2 == 1):
			fr = c09vFrame(63, uint32(7000+i), c09vGPIEvent)
		case rq.Flood == "report-empty":
			fr = c09vFrame(61, uint32(7000+i), nil)
		default:
			fr = c09vFrame(61, uint32(7000+i), c09vTagReport)
		}
		if first.write(fr) != nil {
			out["write_blocked"] = true
			break
		}
		sent++
	}
	out["sent"] = sent
	time.Sleep(30 * time.Millisecond) // the handlers have run (or are parked)

	// ---- the connection ends
	t0 := time.Now()
	opDone := make(chan string, 1)
	switch rq.Cause {
	case "eof":
		_ = first.conn.Close()
		opDone <- "nil"
	case "close":
		dev.clientLock.RLock()
		c := dev.client
		dev.clientLock.RUnlock()
		if c == nil {
			opDone <- "no-client"
		} else {
			opDone <- c09dClass(c.Close())
			_ = first.write(c09vFrame(62, 4242, nil)) // the reader's next message: the read loop gets to look at done
		}
	case "reset":
		go func() { dev.resetConn(); opDone <- "nil" }()
	case "update_addr":
		go func() {
			ctx, cancel := context.WithTimeout(context.Background(), time.Duration(rq.CtxMs)*time.Millisecond)
			defer cancel()
			opDone <- c09dClass(dev.UpdateAddr(ctx, lns[1].Addr()))
		}()
	case "stop":
		go func() {
			ctx, cancel := context.WithTimeout(context.Background(), time.Duration(rq.CtxMs)*time.Millisecond)
			defer cancel()
			opDone <- c09dClass(dev.Stop(ctx))
		}()
	default:
		opDone <- "bad-cause"
	}

	// ---- what the supervisor does next
	deadline := time.After(budget)
	redialed, removed := false, false
	out["op_result"] = "stuck"
	isRemoved := func() bool {
		d.devicesMu.RLock()
		defer d.devicesMu.RUnlock()
		_, ok := d.activeDevices[name]
		return !ok
	}
	tick := time.NewTicker(2 * time.Millisecond)
	defer tick.Stop()
wait:
	for {
		select {
		case r := <-opDone:
			out["op_result"] = r
			out["op_ms"] = time.Since(t0).Milliseconds()
		case p := <-conns:
			all = append(all, p)
			select {
			case <-p.sawGSV: // Connect runs on the new connection: it has accepted the greeting and negotiates
				redialed = true
				out["redial_ms"] = time.Since(t0).Milliseconds()
				out["redial_listener"] = p.which
			case <-deadline:
				break wait
			}
			if rq.Cause != "stop" {
				break wait
			}
		case <-tick.C:
			if rq.Cause == "stop" && isRemoved() {
				removed = true
				out["removed_ms"] = time.Since(t0).Milliseconds()
				break wait
			}
		case <-deadline:
			break wait
		}
	}
	if out["op_result"] == "stuck" {
		select {
		case r := <-opDone:
			out["op_result"] = r
			out["op_ms"] = time.Since(t0).Milliseconds()
		default:
		}
	}
	out["redialed"] = redialed
	out["removed"] = removed || isRemoved()
	return out
}

func TestVerifC09Device(t *testing.T) {
	lines, w, done := verifIO(t)
	defer done()
	enc := json.NewEncoder(w)
	for _, line := range lines {
		var rq c09vReq
		if err := json.Unmarshal([]byte(line), &rq); err != nil {
			_ = enc.Encode(map[string]interface{}{"error": "bad request: " + err.Error()})
			continue
		}
		res := make(chan map[string]interface{}, 1)
		go func() { res <- c09vRun(rq) }()
		select {
		case o := <-res:
			_ = enc.Encode(o)
		case <-time.After(60 * time.Second):
			_ = enc.Encode(map[string]interface{}{"id": rq.ID, "error": "watchdog"})
		}
		w.Flush()
	}
}
