//go:build verif

package driver

// C12 harness, device-service level: the request/response exchanges of the device service all go through
// LLRPDevice.TrySend (Driver.HandleReadCommands, Driver.HandleWriteCommands, LLRPDevice.onConnect). This drives
// the REAL Driver (getDevice -> NewLLRPDevice -> dial -> llrp.Client -> TrySend) against a scripted reader on a
// loopback socket that frames messages and encodes LLRPStatus / FieldError / ParameterError with its own code.
//
// requests (one per line; <status> = <code> <desc> <fe> <pe> <mode>, as in harness/llrp/c12_test.go, mode = z + order
// flags P/I + V<d> header version):
//   t <exp> <act> <status>            dev.TrySend(request, new(exp)); the reader answers with a frame of type <act>;
//                                     mode flag D: the reader first drops the connection when the command arrives (TrySend's
//                                     retry on a closed client) and sends the scripted reply when the command comes again
//   r <resource> <act> <status>       Driver.HandleReadCommands for one resource (ReaderConfig | ReaderCapabilities | ROSpec | AccessSpec)
//   w <command> <act> <status>        Driver.HandleWriteCommands: ROSpecID:<Action> | AccessSpecID:<Action> | ReaderConfig | ROSpec | AccessSpec | Custom
//   o <act> <status>                  the device's own exchange after connecting (onConnect: SET_READER_CONFIG): the connection is
//                                     reset, the reader answers the SET_READER_CONFIG of the new connection with the scripted reply;
//                                     answer `conns <n>` = connections opened until things settle (1 = the exchange was taken as a
//                                     success; 2 = it was taken as a failure and the device reset the connection once more)
// answer (t, r, w): <cls> <code> <desc> <fe> <pe> <same|changed|na> <in_code> <in_desc> <in_fe> <in_pe> <render> <contains> <hash> <expT>
//   expT = the message type of the response value the exchange used (what the scripted payload was laid out as)

import (
	"context"
	"encoding/binary"
	"encoding/hex"
	"errors"
	"fmt"
	"hash/fnv"
	"io"
	"net"
	"reflect"
	"strconv"
	"strings"
	"sync"
	"sync/atomic"
	"testing"
	"time"

	"github.com/edgexfoundry/device-sdk-go/v4/pkg/interfaces/mocks"
	dsModels "github.com/edgexfoundry/device-sdk-go/v4/pkg/models"
	"github.com/edgexfoundry/go-mod-core-contracts/v4/clients/logger"
	"github.com/edgexfoundry/go-mod-core-contracts/v4/common"
	"github.com/stretchr/testify/mock"

	"github.com/edgexfoundry/device-rfid-llrp-go/internal/retry"
	"github.com/edgexfoundry/device-rfid-llrp-go/pkg/llrp"
)

// ---- the reader's own encoders ----

type c12dLevel struct {
	ptype, code uint16
	hasFE       bool
	fidx, fcode uint16
}

func c12dBe16(v uint16) []byte { return []byte{byte(v >> 8), byte(v)} }

func c12dTLV(typ uint16, body []byte) []byte {
	n := 4 + len(body)
	out := make([]byte, 0, n)
	out = append(out, byte(typ>>8)&3, byte(typ), byte(n>>8), byte(n))
	return append(out, body...)
}

func c12dFE(idx, code uint16) []byte { return c12dTLV(288, append(c12dBe16(idx), c12dBe16(code)...)) }

func c12dPE(levels []c12dLevel, peFirst bool) []byte {
	var inner []byte
	for k := len(levels) - 1; k >= 0; k-- {
		l := levels[k]
		body := append(c12dBe16(l.ptype), c12dBe16(l.code)...)
		if peFirst {
			body = append(body, inner...)
		}
		if l.hasFE {
			body = append(body, c12dFE(l.fidx, l.fcode)...)
		}
		if !peFirst {
			body = append(body, inner...)
		}
		inner = c12dTLV(289, body)
	}
	return inner
}

func c12dStatus(code uint16, desc []byte, fe *c12dLevel, pe []c12dLevel, flags string) []byte {
	body := append(c12dBe16(code), c12dBe16(uint16(len(desc)))...)
	body = append(body, desc...)
	peFirst := strings.Contains(flags, "P")
	if peFirst && len(pe) > 0 {
		body = append(body, c12dPE(pe, strings.Contains(flags, "I"))...)
	}
	if fe != nil {
		body = append(body, c12dFE(fe.fidx, fe.fcode)...)
	}
	if !peFirst && len(pe) > 0 {
		body = append(body, c12dPE(pe, strings.Contains(flags, "I"))...)
	}
	return c12dTLV(287, body)
}

func c12dFrame(ver uint8, typ uint16, id uint32, payload []byte) []byte {
	buf := make([]byte, 10+len(payload))
	binary.BigEndian.PutUint16(buf[0:], uint16(ver&7)<<10|typ&0x3FF)
	binary.BigEndian.PutUint32(buf[2:], uint32(10+len(payload)))
	binary.BigEndian.PutUint32(buf[6:], id)
	copy(buf[10:], payload)
	return buf
}

func c12dU16(s string) (uint16, error) {
	v, err := strconv.ParseUint(s, 10, 16)
	return uint16(v), err
}

func c12dShape(desc, fe, pe string) (d []byte, f *c12dLevel, p []c12dLevel, err error) {
	if desc != "-" {
		if d, err = hex.DecodeString(desc); err != nil {
			return
		}
	}
	if fe != "-" {
		parts := strings.Split(fe, ".")
		if len(parts) != 2 {
			err = errors.New("bad fe")
			return
		}
		f = &c12dLevel{hasFE: true}
		if f.fidx, err = c12dU16(parts[0]); err != nil {
			return
		}
		if f.fcode, err = c12dU16(parts[1]); err != nil {
			return
		}
	}
	if pe != "-" {
		for _, lv := range strings.Split(pe, ",") {
			parts := strings.Split(lv, ".")
			if len(parts) != 2 && len(parts) != 4 {
				err = errors.New("bad pe level")
				return
			}
			var l c12dLevel
			if l.ptype, err = c12dU16(parts[0]); err != nil {
				return
			}
			if l.code, err = c12dU16(parts[1]); err != nil {
				return
			}
			if len(parts) == 4 {
				l.hasFE = true
				if l.fidx, err = c12dU16(parts[2]); err != nil {
					return
				}
				if l.fcode, err = c12dU16(parts[3]); err != nil {
					return
				}
			}
			p = append(p, l)
		}
	}
	return
}

// ---- the scripted reader ----

type c12dScript struct {
	only   uint16 // the scripted reply answers the next request of this type
	marked bool   // ... that carries the marker of a `t` request
	act    uint16
	status []byte // the LLRPStatus parameter; the reader lays the payload out for the type the caller expects
	ver    int    // header version, -1 = echo the request's
	drop   bool   // the reader first drops the connection on receiving the command, and answers when it is sent again
}

type c12dReader struct {
	ln      net.Listener
	mu      sync.Mutex
	conns   int
	script  *c12dScript
	used    int    // scripted replies sent
	usedFor uint16 // type of the request the last scripted reply answered
	seen3   int    // SET_READER_CONFIG requests seen
	drops   int    // connections dropped on purpose
}

var c12dOK = []byte{0x01, 0x1F, 0x00, 0x08, 0x00, 0x00, 0x00, 0x00}

func newC12dReader(t *testing.T) *c12dReader {
	ln, err := net.Listen("tcp", "127.0.0.1:0")
	if err != nil {
		t.Fatal(err)
	}
	r := &c12dReader{ln: ln}
	go func() {
		for {
			conn, err := ln.Accept()
			if err != nil {
				return
			}
			r.mu.Lock()
			r.conns++
			r.mu.Unlock()
			go r.serve(conn)
		}
	}()
	return r
}

// payload of a scripted reply to a request of type reqT: laid out as the response the caller of that request expects
// (GET_SUPPORTED_VERSION_RESPONSE has two version bytes before the status), or as an ERROR_MESSAGE
func c12dPayload(expT, act uint16, status []byte) []byte {
	if act != 100 && expT == 56 {
		return append([]byte{1 << 5, 1 << 5}, status...)
	}
	return status
}

func (r *c12dReader) serve(conn net.Conn) {
	defer conn.Close()
	ren := []byte{0x00, 0xF6, 0x00, 0x16,
		0x00, 0x80, 0x00, 0x0C, 0, 5, 0xE0, 0, 0, 0, 0, 1,
		0x01, 0x00, 0x00, 0x06, 0x00, 0x00}
	if _, err := conn.Write(c12dFrame(1, 63, 1, ren)); err != nil {
		return
	}
	hdr := make([]byte, 10)
	for {
		if _, err := io.ReadFull(conn, hdr); err != nil {
			return
		}
		w := binary.BigEndian.Uint16(hdr[0:])
		ver, typ := uint8(w>>10&7), w&0x3FF
		ln := binary.BigEndian.Uint32(hdr[2:])
		id := binary.BigEndian.Uint32(hdr[6:])
		if ln < 10 || ln > 1<<24 {
			return
		}
		payload := make([]byte, ln-10)
		if _, err := io.ReadFull(conn, payload); err != nil {
			return
		}
		internal := typ == 46 || typ == 47 || typ == 14 || typ == 72
		isFence := typ == 1023 && len(payload) >= 5 && binary.BigEndian.Uint32(payload) == 0xFEEDFACE && payload[4] == 0xFE
		r.mu.Lock()
		if typ == 3 {
			r.seen3++
		}
		var sc *c12dScript
		dropNow := false
		isT := typ == 1023 && len(payload) >= 7 && binary.BigEndian.Uint32(payload) == 0xC12D0000
		if r.script != nil && !internal && !isFence && r.script.only == typ && (!r.script.marked || isT) {
			if r.script.drop {
				r.script.drop, dropNow = false, true
				r.drops++
			} else {
				sc, r.script = r.script, nil
				r.used++
				r.usedFor = typ
			}
		}
		r.mu.Unlock()
		if dropNow {
			return
		}
		var out []byte
		switch {
		case sc != nil:
			expT := typ + 10 // the response type the caller of this request expects
			if typ == 1023 {
				expT = 1023
				if len(payload) >= 7 && binary.BigEndian.Uint32(payload) == 0xC12D0000 { // `t`: the expected type travels in the request
					expT = binary.BigEndian.Uint16(payload[5:])
				}
			}
			v := ver
			if sc.ver >= 0 {
				v = uint8(sc.ver)
			}
			out = c12dFrame(v, sc.act, id, c12dPayload(expT, sc.act, sc.status))
		case typ == 46:
			out = c12dFrame(ver, 56, id, append([]byte{1, 1}, c12dOK...))
		case typ == 47:
			out = c12dFrame(ver, 57, id, c12dOK)
		case typ == 14:
			_, _ = conn.Write(c12dFrame(ver, 4, id, c12dOK))
			return
		case typ == 72:
		case typ == 1023:
			out = c12dFrame(ver, 1023, id, payload)
		case typ >= 1 && typ <= 3, typ >= 20 && typ <= 26, typ >= 40 && typ <= 44:
			out = c12dFrame(ver, typ+10, id, c12dOK)
		default:
			out = c12dFrame(ver, 100, id, []byte{0x01, 0x1F, 0x00, 0x08, 0x00, 0x6D, 0x00, 0x00})
		}
		if out != nil {
			if _, err := conn.Write(out); err != nil {
				return
			}
		}
	}
}

// ---- observation of the result ----

type c12dOut struct {
	typ  llrp.MessageType
	data []byte
}

func (o c12dOut) MarshalBinary() ([]byte, error) { return o.data, nil }
func (o c12dOut) Type() llrp.MessageType         { return o.typ }

func c12dFmt(code llrp.StatusCode, desc string, fe *llrp.FieldError, pe *llrp.ParameterError) string {
	var sb strings.Builder
	sb.WriteString(strconv.Itoa(int(code)))
	sb.WriteByte(' ')
	if desc == "" {
		sb.WriteByte('-')
	} else {
		sb.WriteString(hex.EncodeToString([]byte(desc)))
	}
	sb.WriteByte(' ')
	if fe == nil {
		sb.WriteByte('-')
	} else {
		fmt.Fprintf(&sb, "%d.%d", fe.FieldIndex, uint16(fe.ErrorCode))
	}
	sb.WriteByte(' ')
	if pe == nil {
		sb.WriteByte('-')
	}
	for k := 0; pe != nil; pe, k = pe.ParameterError, k+1 {
		if k > 0 {
			sb.WriteByte(',')
		}
		fmt.Fprintf(&sb, "%d.%d", uint16(pe.ParameterType), uint16(pe.ErrorCode))
		if pe.FieldError != nil {
			fmt.Fprintf(&sb, ".%d.%d", pe.FieldError.FieldIndex, uint16(pe.FieldError.ErrorCode))
		}
	}
	return sb.String()
}

func c12dRender(err error, se *llrp.StatusError) string {
	if err == nil {
		return "ok - -"
	}
	where := ""
	try := func(name string, f func() string) string {
		out := ""
		func() {
			defer func() {
				if r := recover(); r != nil && where == "" {
					where = name
				}
			}()
			out = f()
		}()
		if strings.Contains(out, "PANIC=") && where == "" {
			where = name
		}
		return out
	}
	text := try("Error", err.Error)
	try("fmt-v", func() string { return fmt.Sprintf("%v %+v", err, err) })
	contains, hash := "-", "-"
	if se != nil {
		own := try("StatusError.Error", se.Error)
		contains = "y"
		if !strings.Contains(text, se.ErrorDescription) || !strings.Contains(text, own) {
			contains = "n"
		}
		hs := fnv.New64a()
		hs.Write([]byte(own))
		hash = strconv.FormatUint(hs.Sum64(), 16)
	}
	if where != "" {
		return "panic@" + where + " " + contains + " " + hash
	}
	return "ok " + contains + " " + hash
}

// the *StatusError an error of the device service exposes: through the Unwrap chain, or among the attempt errors
// a *retry.FError keeps in its exported field Others (TrySend's retry wrapper puts the exchange's error there)
func c12dFindStatus(err error, se **llrp.StatusError) bool {
	if err == nil {
		return false
	}
	if errors.As(err, se) && *se != nil {
		return true
	}
	var fe *retry.FError
	if errors.As(err, &fe) && fe != nil {
		for _, o := range fe.Others {
			if o != error(fe) && c12dFindStatus(o, se) {
				return true
			}
		}
	}
	return false
}

// in, before: the response value and an identically built one (nil when the exchange keeps its response value to itself)
func c12dAnswer(err error, panicked bool, in, before llrp.Incoming) string {
	cls, fields := "other", "- - - -"
	var se *llrp.StatusError
	switch {
	case panicked:
		cls = "panic"
	case err == nil:
		cls = "nil"
	case c12dFindStatus(err, &se):
		cls = "status"
		fields = c12dFmt(se.Status, se.ErrorDescription, se.FieldError, se.ParameterError)
	case errors.Is(err, context.DeadlineExceeded) || errors.Is(err, llrp.ErrClientClosed):
		cls = "timeout"
	}
	same, inFields := "na", "- - - -"
	if in != nil {
		same = "changed"
		if reflect.DeepEqual(in, before) {
			same = "same"
		}
		if st, ok := in.(llrp.Statusable); ok {
			ls := st.Status()
			inFields = c12dFmt(ls.Status, ls.ErrorDescription, ls.FieldError, ls.ParameterError)
		}
	}
	return cls + " " + fields + " " + same + " " + inFields + " " + c12dRender(err, se)
}

func TestVerifC12Driver(t *testing.T) {
	lines, w, done := verifIO(t)
	defer done()

	rd := newC12dReader(t)
	defer rd.ln.Close()
	_, portStr, _ := net.SplitHostPort(rd.ln.Addr().String())

	sdk := &mocks.DeviceServiceSDK{}
	sdk.On("UpdateDeviceOperatingState", mock.Anything, mock.Anything).Return(nil)
	asyncCh := make(chan *dsModels.AsyncValues, 64)
	stopDrain := make(chan struct{})
	var renEvents int64 // ReaderEventNotification events forwarded to EdgeX: each one follows a finished onConnect
	go func() {
		for {
			select {
			case v := <-asyncCh:
				if v != nil && len(v.CommandValues) > 0 && v.CommandValues[0].DeviceResourceName == ResourceReaderNotification {
					atomic.AddInt64(&renEvents, 1)
				}
			case <-stopDrain:
				return
			}
		}
	}()
	defer close(stopDrain)

	d := &Driver{
		lc:            logger.NewMockClient(),
		activeDevices: make(map[string]*LLRPDevice),
		asyncCh:       asyncCh,
		svc:           sdk,
		done:          make(chan struct{}),
	}
	const devName = "c12Reader"
	proto := protocolMap{"tcp": {"host": "127.0.0.1", "port": portStr}}

	dev, _, err := d.getDevice(devName, proto)
	if err != nil {
		t.Fatal(err)
	}
	defer func() {
		ctx, cancel := context.WithTimeout(context.Background(), 2*time.Second)
		defer cancel()
		d.removeDevice(ctx, devName)
	}()

	var fenceN uint64
	fence := func() bool { // a round trip through the device; repeated while the device is between connections
		for deadline := time.Now().Add(20 * time.Second); time.Now().Before(deadline); time.Sleep(5 * time.Millisecond) {
			fenceN++
			data := make([]byte, 8)
			binary.BigEndian.PutUint64(data, fenceN)
			ctx, cancel := context.WithTimeout(context.Background(), 15*time.Second)
			err := dev.TrySend(ctx, &llrp.CustomMessage{VendorID: 0xFEEDFACE, MessageSubtype: 0xFE, Data: data}, &llrp.CustomMessage{})
			cancel()
			if err == nil {
				return true
			}
		}
		return false
	}
	waitUntil := func(cond func() bool, d time.Duration) bool {
		deadline := time.Now().Add(d)
		for time.Now().Before(deadline) {
			rd.mu.Lock()
			ok := cond()
			rd.mu.Unlock()
			if ok {
				return true
			}
			time.Sleep(time.Millisecond)
		}
		return false
	}
	// every connection's onConnect has returned once its ReaderEventNotification has been forwarded to EdgeX:
	// settled = as many forwarded events as connections accepted (no SET_READER_CONFIG of the device's own in flight)
	settle := func() bool {
		return waitUntil(func() bool { return rd.conns >= 1 && atomic.LoadInt64(&renEvents) >= int64(rd.conns) }, 30*time.Second)
	}
	// the device connects and configures keep-alives (onConnect) before anything else
	if !waitUntil(func() bool { return rd.seen3 >= 1 }, 20*time.Second) || !settle() || !fence() {
		t.Fatal("device did not connect")
	}

	parseStatus := func(tok []string) (*c12dScript, error) { // <act> <code> <desc> <fe> <pe> <mode>
		if len(tok) != 6 || tok[5] == "" {
			return nil, errors.New("bad request")
		}
		act, e1 := c12dU16(tok[0])
		code, e2 := c12dU16(tok[1])
		dd, f, p, e3 := c12dShape(tok[2], tok[3], tok[4])
		if e1 != nil || e2 != nil || e3 != nil {
			return nil, errors.New("bad request")
		}
		sc := &c12dScript{act: act, status: c12dStatus(code, dd, f, p, tok[5][1:]), ver: -1}
		if i := strings.IndexByte(tok[5], 'V'); i >= 0 && i+1 < len(tok[5]) {
			sc.ver = int(tok[5][i+1] - '0')
		}
		sc.drop = strings.Contains(tok[5][1:], "D")
		return sc, nil
	}
	setScript := func(sc *c12dScript) int {
		rd.mu.Lock()
		defer rd.mu.Unlock()
		rd.script = sc
		return rd.used
	}
	// did the scripted reply go out? (if not, the command failed before its exchange: nothing to judge)
	usedSince := func(before int) (bool, uint16) {
		rd.mu.Lock()
		defer rd.mu.Unlock()
		rd.script = nil
		return rd.used > before, rd.usedFor
	}

	for _, line := range lines {
		tok := strings.Fields(line)
		if len(tok) < 2 {
			fmt.Fprintln(w, "error: bad request")
			continue
		}
		switch tok[0] {
		case "t":
			exp, e1 := c12dU16(tok[1])
			sc, e2 := parseStatus(tok[2:])
			in, before := llrp.MessageType(exp).NewInstance(), llrp.MessageType(exp).NewInstance()
			if e1 != nil || e2 != nil || in == nil {
				fmt.Fprintln(w, "error: bad request")
				continue
			}
			sc.only, sc.marked = 1023, true
			n0 := setScript(sc)
			req := c12dOut{typ: llrp.MsgCustomMessage, data: []byte{0xC1, 0x2D, 0, 0, 0, byte(exp >> 8), byte(exp)}}
			var err error
			panicked := false
			func() {
				defer func() {
					if r := recover(); r != nil {
						panicked = true
					}
				}()
				ctx, cancel := context.WithTimeout(context.Background(), 20*time.Second)
				defer cancel()
				err = dev.TrySend(ctx, req, in)
			}()
			ok, _ := usedSince(n0)
			if sc.drop || strings.Contains(tok[7][1:], "D") {
				// the connection was dropped once: reset it gracefully so that the reconnect loop starts afresh
				rd.mu.Lock()
				c0 := rd.conns
				rd.mu.Unlock()
				fence()
				dev.resetConn()
				waitUntil(func() bool { return rd.conns > c0 }, 30*time.Second)
				settle()
				fence()
			}
			if !ok {
				fmt.Fprintln(w, "noexchange - - - - na - - - - ok - - "+tok[1])
				continue
			}
			fmt.Fprintln(w, c12dAnswer(err, panicked, in, before)+" "+tok[1])
		case "r", "w":
			sc, e2 := parseStatus(tok[2:])
			if e2 != nil {
				fmt.Fprintln(w, "error: bad request")
				continue
			}
			var reqs []dsModels.CommandRequest
			var params []*dsModels.CommandValue
			cv := func(name, typ string, v interface{}) *dsModels.CommandValue {
				return &dsModels.CommandValue{DeviceResourceName: name, Type: typ, Value: v, Tags: map[string]string{}}
			}
			cmd := strings.Split(tok[1], ":")
			switch {
			case tok[0] == "r":
				reqs = []dsModels.CommandRequest{{DeviceResourceName: cmd[0], Type: common.ValueTypeObject}}
			case (cmd[0] == ResourceROSpecID || cmd[0] == ResourceAccessSpecID) && len(cmd) == 2:
				reqs = []dsModels.CommandRequest{{DeviceResourceName: cmd[0], Type: common.ValueTypeUint32}, {DeviceResourceName: ResourceAction, Type: common.ValueTypeString}}
				params = []*dsModels.CommandValue{cv(cmd[0], common.ValueTypeUint32, uint32(7)), cv(ResourceAction, common.ValueTypeString, cmd[1])}
			case cmd[0] == "Custom":
				reqs = []dsModels.CommandRequest{{DeviceResourceName: "VendorThing", Type: common.ValueTypeString,
					Attributes: map[string]interface{}{AttribVendor: "25882", AttribSubtype: "21"}}}
				params = []*dsModels.CommandValue{cv("VendorThing", common.ValueTypeString, "AAEC")}
			default: // ReaderConfig | ROSpec | AccessSpec: an empty document
				reqs = []dsModels.CommandRequest{{DeviceResourceName: cmd[0], Type: common.ValueTypeObject}}
				params = []*dsModels.CommandValue{cv(cmd[0], common.ValueTypeObject, map[string]interface{}{})}
			}
			// the request the command sends (the reader answers exactly that one, not e.g. a SET_READER_CONFIG of onConnect)
			sc.only = map[string]uint16{"r:" + ResourceReaderConfig: 2, "r:" + ResourceReaderCap: 1, "r:" + ResourceROSpec: 26, "r:" + ResourceAccessSpec: 44,
				"w:" + ResourceReaderConfig: 3, "w:" + ResourceROSpec: 20, "w:" + ResourceAccessSpec: 40, "w:Custom": 1023,
				"w:" + ResourceROSpecID + ":" + ActionEnable: 24, "w:" + ResourceROSpecID + ":" + ActionStart: 22, "w:" + ResourceROSpecID + ":" + ActionStop: 23,
				"w:" + ResourceROSpecID + ":" + ActionDisable: 25, "w:" + ResourceROSpecID + ":" + ActionDelete: 21,
				"w:" + ResourceAccessSpecID + ":" + ActionEnable: 42, "w:" + ResourceAccessSpecID + ":" + ActionDisable: 43,
				"w:" + ResourceAccessSpecID + ":" + ActionDelete: 41}[tok[0]+":"+tok[1]]
			if sc.only == 0 {
				fmt.Fprintln(w, "error: bad request")
				continue
			}
			settle()
			n0 := setScript(sc)
			var err error
			panicked := false
			func() {
				defer func() {
					if r := recover(); r != nil {
						panicked = true
					}
				}()
				if tok[0] == "r" {
					_, err = d.HandleReadCommands(devName, proto, reqs)
				} else {
					err = d.HandleWriteCommands(devName, proto, reqs, params)
				}
			}()
			ok, reqT := usedSince(n0)
			if !ok {
				fmt.Fprintln(w, "noexchange - - - - na - - - - ok - - 0")
				continue
			}
			expT := reqT + 10
			if reqT == 1023 {
				expT = 1023
			}
			fmt.Fprintln(w, c12dAnswer(err, panicked, nil, nil)+" "+strconv.Itoa(int(expT)))
		case "o":
			sc, e2 := parseStatus(tok[1:])
			if e2 != nil {
				fmt.Fprintln(w, "error: bad request")
				continue
			}
			sc.only = 3
			rd.mu.Lock()
			c0, s0 := rd.conns, rd.seen3
			rd.mu.Unlock()
			ev0 := atomic.LoadInt64(&renEvents)
			n0 := setScript(sc)
			dev.resetConn() // graceful close: the device redials at once and runs onConnect on the new connection
			// onConnect has returned (its own reset of the connection included, if it took the exchange as a failure) once
			// the connection's ReaderEventNotification is forwarded to EdgeX
			got := waitUntil(func() bool {
				return rd.conns > c0 && rd.seen3 > s0 && rd.used > n0 && atomic.LoadInt64(&renEvents) > ev0
			}, 30*time.Second)
			if !got {
				usedSince(n0)
				fmt.Fprintln(w, "conns 0")
				continue
			}
			ok := fence() // passes on the connection the device ends up with
			settle()
			rd.mu.Lock()
			delta := rd.conns - c0
			rd.mu.Unlock()
			if !ok {
				delta = 0
			}
			fmt.Fprintln(w, "conns "+strconv.Itoa(delta))
		default:
			fmt.Fprintln(w, "error: bad request")
		}
	}
}
