//go:build verif

package driver

import (
	"context"
	"encoding/binary"
	"encoding/hex"
	"fmt"
	"io"
	"net"
	"sort"
	"strconv"
	"strings"
	"sync"
	"testing"
	"time"

	"github.com/edgexfoundry/device-sdk-go/v4/pkg/interfaces/mocks"
	dsModels "github.com/edgexfoundry/device-sdk-go/v4/pkg/models"
	"github.com/edgexfoundry/go-mod-core-contracts/v4/clients/logger"
	"github.com/edgexfoundry/go-mod-core-contracts/v4/models"
	"github.com/stretchr/testify/mock"
)

// ---------------------------------------------------------------------------------------------
// A scripted LLRP reader with its own frame code (nothing of pkg/llrp is used on this side).
//
// frame: u16 (ver<<10 | type), u32 total length (incl. the 10 header bytes), u32 message id, payload
// TLV parameter: u16 type, u16 total length (incl. 4 header bytes), body
// ---------------------------------------------------------------------------------------------

const (
	c17MsgGetReaderCapabilities     = 1
	c17MsgGetReaderConfig           = 2
	c17MsgCloseConnectionResponse   = 4
	c17MsgGetReaderCapabilitiesResp = 11
	c17MsgGetReaderConfigResp       = 12
	c17MsgCloseConnection           = 14
	c17MsgGetSupportedVersion       = 46
	c17MsgSetProtocolVersion        = 47
	c17MsgGetSupportedVersionResp   = 56
	c17MsgSetProtocolVersionResp    = 57
	c17MsgROAccessReport            = 61
	c17MsgKeepAlive                 = 62
	c17MsgReaderEventNotification   = 63
	c17MsgErrorMessage              = 100

	c17ParUTCTimestamp                = 128
	c17ParGeneralDeviceCapabilities   = 137
	c17ParReceiveSensitivityTableEntr = 139
	c17ParGPIOCapabilities            = 141
	c17ParIdentification              = 218
	c17ParReaderEventNotificationData = 246
	c17ParConnectionAttemptEvent      = 256
	c17ParLLRPStatus                  = 287
)

func c17TLV(typ int, body ...[]byte) []byte {
	n := 4
	for _, b := range body {
		n += len(b)
	}
	out := make([]byte, 4, n)
	binary.BigEndian.PutUint16(out[0:], uint16(typ))
	binary.BigEndian.PutUint16(out[2:], uint16(n))
	for _, b := range body {
		out = append(out, b...)
	}
	return out
}

func c17U16(v int) []byte    { b := make([]byte, 2); binary.BigEndian.PutUint16(b, uint16(v)); return b }
func c17U32(v uint32) []byte { b := make([]byte, 4); binary.BigEndian.PutUint32(b, v); return b }
func c17U64(v uint64) []byte { b := make([]byte, 8); binary.BigEndian.PutUint64(b, v); return b }

func c17Frame(ver, typ int, id uint32, payload []byte) []byte {
	out := make([]byte, 10, 10+len(payload))
	binary.BigEndian.PutUint16(out[0:], uint16(ver<<10|typ))
	binary.BigEndian.PutUint32(out[2:], uint32(10+len(payload)))
	binary.BigEndian.PutUint32(out[6:], id)
	return append(out, payload...)
}

func c17StatusOK() []byte {
	return c17TLV(c17ParLLRPStatus, c17U16(0), c17U16(0))
}

func c17StatusCode(code int) []byte {
	return c17TLV(c17ParLLRPStatus, c17U16(code), c17U16(0))
}

// identity a scripted reader answers with
type c17Identity struct {
	hasCaps  bool
	vendor   uint32
	model    uint32
	fw       []byte
	hasIdent bool
	idType   byte
	rid      []byte
	noSens   bool // GeneralDeviceCapabilities without any ReceiveSensitivityTableEntry (not conformant: 1-n)
}

func (id c17Identity) configResp() []byte {
	p := c17StatusOK()
	if id.hasIdent {
		p = append(p, c17TLV(c17ParIdentification, []byte{id.idType}, c17U16(len(id.rid)), id.rid)...)
	}
	return p
}

func (id c17Identity) capsResp() []byte {
	p := c17StatusOK()
	if id.hasCaps {
		sens := c17TLV(c17ParReceiveSensitivityTableEntr, c17U16(1), c17U16(10))
		if id.noSens {
			sens = nil
		}
		p = append(p, c17TLV(c17ParGeneralDeviceCapabilities,
			c17U16(4), c17U16(0x4000), c17U32(id.vendor), c17U32(id.model), c17U16(len(id.fw)), id.fw,
			sens,
			c17TLV(c17ParGPIOCapabilities, c17U16(4), c17U16(4)))...)
	}
	return p
}

type c17PerIP struct {
	mode string
	id   c17Identity
}

// c17Host is one scripted host: a listener plus a behaviour applied to every accepted connection
type c17Host struct {
	mode string
	id   c17Identity
	ln   net.Listener

	mu      sync.Mutex
	accepts int
	conns   []net.Conn
	closed  bool
	// wildcard hosts (listening on 0.0.0.0): behaviour per dialled local address, default h.mode/h.id;
	// the time and local address of every accepted connection
	perIP    map[string]c17PerIP
	t0       time.Time
	accTimes []time.Duration
	accIPs   []string
	// furthest message type seen from a client (for the notes/evidence only)
	seen []int
}

// behaviours ("modes"):
//   silent           accept, never write
//   garbage          accept, write 64 bytes that are not an LLRP ReaderEventNotification, keep open
//   garbage-close    same, then close
//   close            accept and close at once
//   partial-header   write the first 5 bytes of a correct first frame, then stall
//   partial-hello    write a correct first header but only half of its payload, then stall
//   hello-refused    first frame is a ConnectionAttemptEvent with status 1 (another client connected); close
//   stall-neg        correct first frame, then never answer anything
//   stall-config     answer GET_SUPPORTED_VERSION, never answer GET_READER_CONFIG
//   stall-payload    answer GET_READER_CONFIG with a header that claims more payload than is sent, then stall
//   stall-caps       answer up to GET_READER_CONFIG, never answer GET_READER_CAPABILITIES
//   stall-close      answer everything except CLOSE_CONNECTION
//   noclose          answer everything, incl. CLOSE_CONNECTION_RESPONSE, but never close the TCP connection
//   correct          answer everything, close after CLOSE_CONNECTION_RESPONSE
//   correct-v11      as correct, but claim LLRP 1.1 support so that the client sends SET_PROTOCOL_VERSION
//   correct-errver   as correct, but answer GET_SUPPORTED_VERSION with ERROR_MESSAGE/M_UnsupportedVersion (a 1.0.1 reader)
//   config-error     answer GET_READER_CONFIG with a non-success status and no identification
//   correct-nosens   as correct, but GeneralDeviceCapabilities carries no ReceiveSensitivityTableEntry
//   script:<spec>    a host given as a SCRIPT of what it sends when (the same text is given to the model, see
//                    c17ParseScript / oracle/c17/main.ml): an answer (after a delay, positive or negative) or none
//                    for the first message and for every request of the exchange, unsolicited traffic at listed
//                    times and/or periodically for ever, hanging up at some moment or never
func c17NewHost(addr, mode string, id c17Identity) (*c17Host, error) {
	var ln net.Listener
	var err error
	for try := 0; try < 50; try++ {
		if ln, err = net.Listen("tcp4", addr); err == nil || !strings.HasSuffix(addr, ":0") {
			break
		}
		time.Sleep(100 * time.Millisecond) // ephemeral ports momentarily exhausted
	}
	if err != nil {
		return nil, err
	}
	h := &c17Host{mode: mode, id: id, ln: ln}
	go h.acceptLoop()
	return h, nil
}

func (h *c17Host) port() string {
	_, p, _ := net.SplitHostPort(h.ln.Addr().String())
	return p
}

func (h *c17Host) acceptLoop() {
	for {
		c, err := h.ln.Accept()
		if err != nil {
			return
		}
		h.mu.Lock()
		h.accepts++
		if h.closed {
			h.mu.Unlock()
			c.Close()
			continue
		}
		h.conns = append(h.conns, c)
		mode, id := h.mode, h.id
		if h.perIP != nil {
			lip, _, _ := net.SplitHostPort(c.LocalAddr().String())
			h.accTimes = append(h.accTimes, time.Since(h.t0))
			h.accIPs = append(h.accIPs, lip)
			if p, ok := h.perIP[lip]; ok {
				mode, id = p.mode, p.id
			}
		}
		h.mu.Unlock()
		go h.serve(c, mode, id)
	}
}

func (h *c17Host) nAccepts() int {
	h.mu.Lock()
	defer h.mu.Unlock()
	return h.accepts
}

// Close stops listening and closes every connection still held open (this is what releases a
// client that is blocked on a stalled host).
func (h *c17Host) Close() {
	h.ln.Close()
	h.mu.Lock()
	h.closed = true
	for _, c := range h.conns {
		c.Close()
	}
	h.conns = nil
	h.mu.Unlock()
}

func (h *c17Host) note(typ int) {
	h.mu.Lock()
	h.seen = append(h.seen, typ)
	h.mu.Unlock()
}

func c17ReadFrame(c net.Conn) (ver, typ int, id uint32, payload []byte, err error) {
	hdr := make([]byte, 10)
	if _, err = io.ReadFull(c, hdr); err != nil {
		return
	}
	w := binary.BigEndian.Uint16(hdr)
	ver, typ = int(w>>10)&7, int(w&0x3ff)
	n := binary.BigEndian.Uint32(hdr[2:])
	id = binary.BigEndian.Uint32(hdr[6:])
	if n < 10 || n > 1<<20 {
		err = fmt.Errorf("bad length %d", n)
		return
	}
	payload = make([]byte, n-10)
	_, err = io.ReadFull(c, payload)
	return
}

// stall blocks until the peer goes away or the host is closed; it never writes.
func c17Stall(c net.Conn) {
	buf := make([]byte, 256)
	for {
		if _, err := c.Read(buf); err != nil {
			return
		}
	}
}

// setScript changes what later connections get (used by the naming grid: one listener per worker)
func (h *c17Host) setScript(mode string, id c17Identity) {
	h.mu.Lock()
	h.mode, h.id = mode, id
	h.conns = nil // earlier connections of the naming grid are finished
	h.mu.Unlock()
}

func (h *c17Host) serve(c net.Conn, hmode string, hid c17Identity) {
	if strings.HasPrefix(hmode, "script:") {
		sc, err := c17ParseScript(strings.TrimPrefix(hmode, "script:"))
		if err != nil {
			c.Close()
			return
		}
		h.serveScript(c, sc, hid)
		return
	}
	hello := c17Frame(1, c17MsgReaderEventNotification, 1,
		c17TLV(c17ParReaderEventNotificationData,
			c17TLV(c17ParUTCTimestamp, c17U64(1600000000000000)),
			c17TLV(c17ParConnectionAttemptEvent, c17U16(0))))
	switch hmode {
	case "silent":
		c17Stall(c)
		return
	case "close":
		c.Close()
		return
	case "garbage", "garbage-close":
		g := make([]byte, 64)
		for i := range g {
			g[i] = byte(0xA5 ^ (i * 37))
		}
		// make sure the claimed length is small, so that the client gets its whole "message"
		binary.BigEndian.PutUint32(g[2:], 64)
		c.Write(g)
		if hmode == "garbage-close" {
			c.Close()
			return
		}
		c17Stall(c)
		return
	case "partial-header":
		c.Write(hello[:5])
		c17Stall(c)
		return
	case "partial-hello":
		c.Write(hello[:10+(len(hello)-10)/2])
		c17Stall(c)
		return
	case "hello-refused":
		c.Write(c17Frame(1, c17MsgReaderEventNotification, 1,
			c17TLV(c17ParReaderEventNotificationData,
				c17TLV(c17ParUTCTimestamp, c17U64(1600000000000000)),
				c17TLV(c17ParConnectionAttemptEvent, c17U16(1)))))
		c.Close()
		return
	}
	if _, err := c.Write(hello); err != nil {
		return
	}
	if hmode == "stall-neg" {
		c17Stall(c)
		return
	}
	for {
		ver, typ, id, _, err := c17ReadFrame(c)
		if err != nil {
			return
		}
		h.note(typ)
		switch typ {
		case c17MsgGetSupportedVersion:
			switch hmode {
			case "correct-v11":
				// the client reads the version numbers from the top three bits of each byte: current 1.0.1, max 1.1
				c.Write(c17Frame(ver, c17MsgGetSupportedVersionResp, id, append([]byte{1 << 5, 2 << 5}, c17StatusOK()...)))
			case "correct-errver":
				c.Write(c17Frame(1, c17MsgErrorMessage, id, c17StatusCode(110))) // M_UnsupportedVersion
			default:
				c.Write(c17Frame(ver, c17MsgGetSupportedVersionResp, id, append([]byte{1, 1}, c17StatusOK()...)))
			}
		case c17MsgSetProtocolVersion:
			c.Write(c17Frame(ver, c17MsgSetProtocolVersionResp, id, c17StatusOK()))
		case c17MsgGetReaderConfig:
			switch hmode {
			case "stall-config":
				c17Stall(c)
				return
			case "stall-payload":
				f := c17Frame(ver, c17MsgGetReaderConfigResp, id, hid.configResp())
				binary.BigEndian.PutUint32(f[2:], uint32(len(f)+40)) // claims 40 bytes that never come
				c.Write(f)
				c17Stall(c)
				return
			case "config-error":
				c.Write(c17Frame(ver, c17MsgGetReaderConfigResp, id, c17StatusCode(100))) // M_ParameterError
			default:
				c.Write(c17Frame(ver, c17MsgGetReaderConfigResp, id, hid.configResp()))
			}
		case c17MsgGetReaderCapabilities:
			if hmode == "stall-caps" {
				c17Stall(c)
				return
			}
			c.Write(c17Frame(ver, c17MsgGetReaderCapabilitiesResp, id, hid.capsResp()))
		case c17MsgCloseConnection:
			if hmode == "stall-close" {
				c17Stall(c)
				return
			}
			c.Write(c17Frame(ver, c17MsgCloseConnectionResponse, id, c17StatusOK()))
			if hmode == "noclose" {
				c17Stall(c)
				return
			}
			c.Close()
			return
		default:
			// anything else: ERROR_MESSAGE M_UnsupportedMessage
			c.Write(c17Frame(ver, c17MsgErrorMessage, id, c17StatusCode(109)))
		}
	}
}

// ---------------------------------------------------------------------------------------------
// hosts given as scripts
//
//   d=<r|n|ms>  dial: refused / never answered / accepted (on loopback only "accepted at once" can be played;
//               the check generates d=0 and uses mode "refuse" for refused dials)
//   h= v= sv= c= k= x=   what the host does about: the first message, GET_SUPPORTED_VERSION,
//               SET_PROTOCOL_VERSION (sv=n: the host claims LLRP 1.0.1, none is sent), GET_READER_CONFIG,
//               GET_READER_CAPABILITIES, CLOSE_CONNECTION:  <ms>+ a positive answer that many ms after the request
//               (h: after accept), <ms>- a negative one (error status; h: a refused ConnectionAttemptEvent),
//               - no answer at all, <ms>~ a TRICKLED answer: the header of the positive answer, announcing 64 KiB more
//               than the real payload, and the real payload at once, then one byte every <ms> ms, never complete
//   id=<0|1>    a positive GET_READER_CONFIG answer carries the Identification
//   xo=<0|1>    a negative answer to CLOSE_CONNECTION is an ERROR_MESSAGE (1) / a CLOSE_CONNECTION_RESPONSE with
//               an error status (0)
//   fin=<0|1>   after a positive CLOSE_CONNECTION_RESPONSE the host closes the TCP connection
//   hg=<ms|->   the host closes the TCP connection that long after accept
//   chat=<ms_ms_..|->  unsolicited messages at these times after accept;  p=<ms|->  and every p ms for ever
//               (both only once the first message has been sent: before it ANY message is the first message)
//   tr=<letters of h v s c k x | ->  harness only: at these stages, where the script gives NO answer, the host does
//               not stay silent but TRICKLES an answer that never completes: the header of the positive answer
//               claiming 64 KiB more than will ever come, then one byte every 100 ms (only for scripts without
//               unsolicited traffic: whatever follows an incomplete message on the stream is its payload)
//   ck=<ka|ev|mix>  harness only: what the unsolicited messages are (KEEPALIVE / READER_EVENT_NOTIFICATION without
//               a connection event / in turn KEEPALIVE, READER_EVENT_NOTIFICATION, RO_ACCESS_REPORT)
// ---------------------------------------------------------------------------------------------

type c17Answer struct {
	has   bool
	delay time.Duration
	ok    bool
	// > 0: the answer is TRICKLED: header (announcing 64 KiB more than the real payload) and real payload at once,
	// then one byte every trickle, never complete
	trickle time.Duration
}

type c17Script struct {
	hello, version, config, caps, closeA c17Answer
	setver                               *c17Answer
	ident, closeOther, fin               bool
	hangup                               time.Duration // < 0: never
	chat                                 []time.Duration
	period                               time.Duration // 0: none
	chatKind                             string
	helloKind                            string // what a NEGATIVE first message is: "" a failed connection attempt event, "ka", "ro"
	trickle                              string
}

func c17ParseAnswer(s string) (c17Answer, error) {
	if s == "-" {
		return c17Answer{}, nil
	}
	if len(s) < 2 || (s[len(s)-1] != '+' && s[len(s)-1] != '-' && s[len(s)-1] != '~') {
		return c17Answer{}, fmt.Errorf("bad answer %q", s)
	}
	ms, err := strconv.Atoi(s[:len(s)-1])
	if err != nil {
		return c17Answer{}, err
	}
	if s[len(s)-1] == '~' {
		return c17Answer{trickle: time.Duration(ms) * time.Millisecond}, nil
	}
	return c17Answer{has: true, delay: time.Duration(ms) * time.Millisecond, ok: s[len(s)-1] == '+'}, nil
}

func c17ParseScript(spec string) (*c17Script, error) {
	kv := map[string]string{}
	for _, f := range strings.Split(spec, ":") {
		if i := strings.Index(f, "="); i > 0 {
			kv[f[:i]] = f[i+1:]
		}
	}
	sc := &c17Script{hangup: -1, chatKind: "ka"}
	var err error
	for _, a := range []struct {
		k string
		p *c17Answer
	}{{"h", &sc.hello}, {"v", &sc.version}, {"c", &sc.config}, {"k", &sc.caps}, {"x", &sc.closeA}} {
		v, ok := kv[a.k]
		if !ok {
			return nil, fmt.Errorf("script: missing %s", a.k)
		}
		if *a.p, err = c17ParseAnswer(v); err != nil {
			return nil, err
		}
	}
	if v := kv["sv"]; v != "n" {
		a, err := c17ParseAnswer(v)
		if err != nil {
			return nil, err
		}
		sc.setver = &a
	}
	sc.ident, sc.closeOther, sc.fin = kv["id"] == "1", kv["xo"] == "1", kv["fin"] == "1"
	sc.helloKind = kv["hk"]
	if v := kv["hg"]; v != "-" && v != "" {
		ms, err := strconv.Atoi(v)
		if err != nil {
			return nil, err
		}
		sc.hangup = time.Duration(ms) * time.Millisecond
	}
	if v := kv["chat"]; v != "-" && v != "" {
		for _, x := range strings.Split(v, "_") {
			ms, err := strconv.Atoi(x)
			if err != nil {
				return nil, err
			}
			sc.chat = append(sc.chat, time.Duration(ms)*time.Millisecond)
		}
		sort.Slice(sc.chat, func(i, j int) bool { return sc.chat[i] < sc.chat[j] })
	}
	if v := kv["p"]; v != "-" && v != "" {
		ms, err := strconv.Atoi(v)
		if err != nil {
			return nil, err
		}
		sc.period = time.Duration(ms) * time.Millisecond
	}
	if v := kv["ck"]; v != "" {
		sc.chatKind = v
	}
	if v := kv["tr"]; v != "-" {
		sc.trickle = v
	}
	return sc, nil
}

func (h *c17Host) serveScript(c net.Conn, sc *c17Script, hid c17Identity) {
	t0 := time.Now()
	hid.hasIdent = hid.hasIdent && sc.ident
	var wmu sync.Mutex
	write := func(b []byte) {
		wmu.Lock()
		c.Write(b)
		wmu.Unlock()
	}
	stop := make(chan struct{}) // closed when the read side ends (peer gone, host closed, hung up)
	defer close(stop)
	waitUntil := func(d time.Duration) bool {
		w := time.Until(t0.Add(d))
		if w <= 0 {
			select {
			case <-stop:
				return false
			default:
				return true
			}
		}
		tm := time.NewTimer(w)
		defer tm.Stop()
		select {
		case <-tm.C:
			return true
		case <-stop:
			return false
		}
	}
	if sc.hangup >= 0 {
		go func() {
			if waitUntil(sc.hangup) {
				c.Close()
			}
		}()
	}
	// an answer that never completes: the header claims 64 KiB more than is sent, then a byte every 100 ms
	trickle := func(frame []byte) {
		f := append([]byte{}, frame...)
		binary.BigEndian.PutUint32(f[2:], uint32(len(f)+65536))
		go func() {
			for i := 0; ; i++ {
				b := byte(0)
				if i < len(f) {
					b = f[i]
				}
				write([]byte{b})
				tm := time.NewTimer(100 * time.Millisecond)
				select {
				case <-tm.C:
				case <-stop:
					tm.Stop()
					return
				}
			}
		}()
	}
	// the same with the bytes spaced as the script says and the header delivered at once
	tricklePayload := func(frame []byte, gap time.Duration) {
		f := append([]byte{}, frame...)
		binary.BigEndian.PutUint32(f[2:], uint32(len(f)+65536))
		write(f)
		go func() {
			for {
				tm := time.NewTimer(gap)
				select {
				case <-tm.C:
					write([]byte{0})
				case <-stop:
					tm.Stop()
					return
				}
			}
		}()
	}
	helloFrame := func(st int) []byte {
		return c17Frame(1, c17MsgReaderEventNotification, 1,
			c17TLV(c17ParReaderEventNotificationData,
				c17TLV(c17ParUTCTimestamp, c17U64(1600000000000000)),
				c17TLV(c17ParConnectionAttemptEvent, c17U16(st))))
	}
	helloSent := make(chan struct{})
	if sc.hello.trickle > 0 {
		tricklePayload(helloFrame(0), sc.hello.trickle)
	} else if !sc.hello.has && strings.Contains(sc.trickle, "h") {
		trickle(helloFrame(0))
	}
	if sc.hello.has {
		go func() {
			if !waitUntil(sc.hello.delay) {
				return
			}
			st := 0
			if !sc.hello.ok {
				st = 1 // failed: a reader-initiated connection already exists
			}
			switch {
			case !sc.hello.ok && sc.helloKind == "ka": // the wrong first message is a KeepAlive ...
				write(c17Frame(1, c17MsgKeepAlive, 69999, nil))
			case !sc.hello.ok && sc.helloKind == "ro": // ... an (empty) tag report
				write(c17Frame(1, c17MsgROAccessReport, 69999, nil))
			default:
				write(helloFrame(st))
			}
			close(helloSent)
		}()
	}
	// unsolicited traffic
	var chatMu sync.Mutex
	chatN := uint32(0)
	chatMsg := func() {
		select {
		case <-helloSent:
		default:
			return // nothing may precede the first message
		}
		chatMu.Lock()
		chatN++
		n := chatN
		chatMu.Unlock()
		kind := sc.chatKind
		if kind == "mix" {
			kind = []string{"ka", "ev", "ro"}[n%3]
		}
		switch kind {
		case "ev":
			write(c17Frame(1, c17MsgReaderEventNotification, 70000+n,
				c17TLV(c17ParReaderEventNotificationData, c17TLV(c17ParUTCTimestamp, c17U64(1600000000000000+uint64(n))))))
		case "ro":
			write(c17Frame(1, c17MsgROAccessReport, 70000+n, nil))
		default:
			write(c17Frame(1, c17MsgKeepAlive, 70000+n, nil))
		}
	}
	if len(sc.chat) > 0 {
		go func() {
			for _, t := range sc.chat {
				if !waitUntil(t) {
					return
				}
				chatMsg()
			}
		}()
	}
	if sc.period > 0 {
		go func() {
			for k := 1; ; k++ {
				if !waitUntil(time.Duration(k) * sc.period) {
					return
				}
				chatMsg()
			}
		}()
	}
	answer := func(stage string, a c17Answer, pos, neg []byte, then func()) {
		if !a.has {
			if a.trickle > 0 {
				tricklePayload(pos, a.trickle)
			} else if strings.Contains(sc.trickle, stage) {
				trickle(pos)
			}
			return
		}
		f := neg
		if a.ok {
			f = pos
		}
		send := func() {
			write(f)
			if a.ok && then != nil {
				then()
			}
		}
		if a.delay <= 0 {
			send()
			return
		}
		go func() {
			tm := time.NewTimer(a.delay)
			defer tm.Stop()
			select {
			case <-tm.C:
				send()
			case <-stop:
			}
		}()
	}
	for {
		ver, typ, id, _, err := c17ReadFrame(c)
		if err != nil {
			return
		}
		h.note(typ)
		switch typ {
		case c17MsgGetSupportedVersion:
			// the client reads the version numbers from the top three bits of each byte
			maxv := byte(1 << 5)
			if sc.setver != nil {
				maxv = 2 << 5
			}
			answer("v", sc.version, c17Frame(ver, c17MsgGetSupportedVersionResp, id, append([]byte{1 << 5, maxv}, c17StatusOK()...)),
				c17Frame(ver, c17MsgErrorMessage, id, c17StatusCode(100)), nil)
		case c17MsgSetProtocolVersion:
			if sc.setver != nil {
				answer("s", *sc.setver, c17Frame(ver, c17MsgSetProtocolVersionResp, id, c17StatusOK()),
					c17Frame(ver, c17MsgSetProtocolVersionResp, id, c17StatusCode(100)), nil)
			}
		case c17MsgGetReaderConfig:
			answer("c", sc.config, c17Frame(ver, c17MsgGetReaderConfigResp, id, hid.configResp()),
				c17Frame(ver, c17MsgGetReaderConfigResp, id, c17StatusCode(100)), nil)
		case c17MsgGetReaderCapabilities:
			answer("k", sc.caps, c17Frame(ver, c17MsgGetReaderCapabilitiesResp, id, hid.capsResp()),
				c17Frame(ver, c17MsgGetReaderCapabilitiesResp, id, c17StatusCode(100)), nil)
		case c17MsgCloseConnection:
			neg := c17Frame(ver, c17MsgCloseConnectionResponse, id, c17StatusCode(401)) // R_DeviceError: refused
			if sc.closeOther {
				neg = c17Frame(ver, c17MsgErrorMessage, id, c17StatusCode(109))
			}
			var then func()
			if sc.fin {
				then = func() { c.Close() }
			}
			answer("x", sc.closeA, c17Frame(ver, c17MsgCloseConnectionResponse, id, c17StatusOK()), neg, then)
		default:
			// KEEPALIVE_ACK and anything else: not answered
		}
	}
}

// ---------------------------------------------------------------------------------------------
// request handling
// ---------------------------------------------------------------------------------------------

func c17Hex(b []byte) string {
	if len(b) == 0 {
		return "-"
	}
	return hex.EncodeToString(b)
}

func c17Unhex(s string) []byte {
	if s == "-" {
		return nil
	}
	b, err := hex.DecodeString(s)
	if err != nil {
		panic(err)
	}
	return b
}

// Probe-level requests ("name", "probe") call probe() directly and live in c17_probe_test.go, which registers them here.
// That file is compiled separately from the judgement of whole runs: if probe()'s signature changes it alone fails to
// build, and runs through autoDiscover / Driver.Discover (entry points that did not change) are still judged.
var (
	c17NameFn  func(f []string, h *c17Host) string
	c17ProbeFn func(f []string) string
)

// one reported device: <name hex>@<host>@<vendorPEN>@<model>@<firmware hex>
func c17Reported(d dsModels.DiscoveredDevice) string {
	md := d.Protocols["metadata"]
	return c17Hex([]byte(d.Name)) + "@" + fmt.Sprint(d.Protocols["tcp"]["host"]) + "@" + fmt.Sprint(md["vendorPEN"]) + "@" +
		fmt.Sprint(md["model"]) + "@" + c17Hex([]byte(fmt.Sprint(md["fwVersion"])))
}

// "run <net/prefix> <asyncLimit> <timeout_ms> <max_ms> <budget_ms> <host>;<host>;... <dev>;<dev>;...|-"
//   host = <ip>,<mode>,<vendor>,<model>,<idtype>,<ridhex>   mode "refuse" = nothing listens on the scan port
//   dev  = <ip>|<portkind>|<up|down|unknown>|<locked|unlocked>|<namehex>   registered devices, IN THE ORDER
//          svc.Devices() returns them. portkind: S = the scan port; O1,O2,.. = some other port of that host (a
//          connection-counting listener is opened there); E = tcp info with an empty port; H = tcp info with an
//          empty host; N = no tcp protocol at all
// answer: "<returned|blocked> <elapsed_ms> reported=<name@ip@vendorPEN@model@firmware,..> accepts=<ip=n,..> other=<ip/Ok=n,..>
//          updated=<name:state,..> released=<bool>"
func c17Run(f []string, devs *[]models.Device, devMu *sync.Mutex, updated *[]string) string {
	async, _ := strconv.Atoi(f[2])
	to, _ := strconv.Atoi(f[3])
	maxms, _ := strconv.Atoi(f[4])
	budget, _ := strconv.Atoi(f[5])
	specs := strings.Split(f[6], ";")

	// pick a port that is free on every address of the scenario
	type hs struct {
		ip, mode string
		id       c17Identity
	}
	var hosts []hs
	for _, s := range specs {
		p := strings.Split(s, ",")
		v, _ := strconv.ParseUint(p[2], 10, 32)
		m, _ := strconv.ParseUint(p[3], 10, 32)
		it, _ := strconv.ParseUint(p[4], 10, 8)
		hosts = append(hosts, hs{p[0], p[1], c17Identity{hasCaps: true, vendor: uint32(v), model: uint32(m),
			fw: []byte("1.2.3"), hasIdent: p[1] != "noident", idType: byte(it), rid: c17Unhex(p[5])}})
	}
	var live []*c17Host
	var port string
	for try := 0; try < 20; try++ {
		ln, err := net.Listen("tcp4", "127.0.0.1:0")
		if err != nil {
			return "harness-error listen " + err.Error()
		}
		_, port, _ = net.SplitHostPort(ln.Addr().String())
		ln.Close()
		ok := true
		for _, h := range hosts {
			if h.mode == "refuse" {
				continue
			}
			mode := h.mode
			if mode == "noident" {
				mode = "correct"
			}
			sh, err := c17NewHost(h.ip+":"+port, mode, h.id)
			if err != nil {
				ok = false
				break
			}
			live = append(live, sh)
		}
		if ok {
			break
		}
		for _, l := range live {
			l.Close()
		}
		live = nil
		if try == 19 {
			return "harness-error no common port"
		}
	}
	byIP := map[string]*c17Host{}
	i := 0
	for _, h := range hosts {
		if h.mode == "refuse" {
			continue
		}
		byIP[h.ip] = live[i]
		i++
	}
	// register devices (in the given order); other-port devices get a counting listener
	mine := map[string]bool{}
	others := map[string]*c17Host{} // "ip/Ok" -> listener
	var otherKeys []string
	var mydevs []models.Device
	if len(f) > 7 && f[7] != "-" {
		for _, ds := range strings.Split(f[7], ";") {
			p := strings.Split(ds, "|")
			ip, pk, name := p[0], p[1], string(c17Unhex(p[4]))
			st := models.OperatingState(models.Up)
			switch p[2] {
			case "down":
				st = models.OperatingState(models.Down)
			case "unknown":
				st = models.OperatingState(models.Unknown)
			}
			adm := models.AdminState(models.Unlocked)
			if p[3] == "locked" {
				adm = models.AdminState(models.Locked)
			}
			d := models.Device{Name: name, OperatingState: st, AdminState: adm}
			switch {
			case pk == "S":
				d.Protocols = map[string]models.ProtocolProperties{"tcp": {"host": ip, "port": port}}
			case pk == "E":
				d.Protocols = map[string]models.ProtocolProperties{"tcp": {"host": ip, "port": ""}}
			case pk == "H":
				d.Protocols = map[string]models.ProtocolProperties{"tcp": {"host": "", "port": port}}
			case pk == "N":
				d.Protocols = map[string]models.ProtocolProperties{"other": {"x": "y"}}
			default: // O<k>
				key := ip + "/" + pk
				oh := others[key]
				if oh == nil {
					var err error
					if oh, err = c17NewHost(ip+":0", "close", c17Identity{}); err != nil {
						return "harness-error listen " + err.Error()
					}
					if oh.port() == port {
						return "harness-error other port equals scan port"
					}
					others[key] = oh
					otherKeys = append(otherKeys, key)
				}
				d.Protocols = map[string]models.ProtocolProperties{"tcp": {"host": ip, "port": oh.port()}}
			}
			mine[name] = true
			mydevs = append(mydevs, d)
		}
	}
	devMu.Lock()
	*devs = append(*devs, mydevs...)
	devMu.Unlock()

	ctx, cancel := context.WithTimeout(context.Background(), time.Duration(maxms)*time.Millisecond)
	defer cancel()
	done := make(chan []string, 1)
	t0 := time.Now()
	go func() {
		dd := autoDiscover(ctx, discoverParams{subnets: []string{f[1]}, asyncLimit: async,
			timeout: time.Duration(to) * time.Millisecond, scanPort: port})
		var names []string
		for _, d := range dd {
			names = append(names, c17Reported(d))
		}
		sort.Strings(names)
		done <- names
	}()
	accepts := func() string {
		var a []string
		for _, h := range hosts {
			n := 0
			if sh := byIP[h.ip]; sh != nil {
				n = sh.nAccepts()
			}
			a = append(a, fmt.Sprintf("%s=%d", h.ip, n))
		}
		return strings.Join(a, ",")
	}
	closeAll := func() {
		for _, l := range live {
			l.Close()
		}
		for _, l := range others {
			l.Close()
		}
	}
	otherAcc := func() string {
		var a []string
		for _, k := range otherKeys {
			a = append(a, fmt.Sprintf("%s=%d", k, others[k].nAccepts()))
		}
		return strings.Join(a, ",")
	}
	upd := func() string {
		devMu.Lock()
		defer devMu.Unlock()
		var u []string
		for _, s := range *updated {
			if k := strings.LastIndex(s, ":"); mine[s[:k]] {
				u = append(u, c17Hex([]byte(s[:k]))+s[k:])
			}
		}
		sort.Strings(u)
		return strings.Join(u, ",")
	}
	select {
	case names := <-done:
		el := time.Since(t0).Milliseconds()
		acc, oacc := accepts(), otherAcc()
		closeAll()
		return fmt.Sprintf("returned %d reported=%s accepts=%s other=%s updated=%s released=true", el, strings.Join(names, ","), acc, oacc, upd())
	case <-time.After(time.Duration(budget) * time.Millisecond):
		acc, oacc := accepts(), otherAcc()
		closeAll()
		released := false
		var names []string
		select {
		case names = <-done:
			released = true
		case <-time.After(25 * time.Second):
		}
		return fmt.Sprintf("blocked %d reported=%s accepts=%s other=%s updated=%s released=%v", budget, strings.Join(names, ","), acc, oacc, upd(), released)
	}
}

// "discover <subnets,comma separated> <asyncLimit> <probe_s> <max_s> <budget_ms> <late_slack_ms> <default_mode> <host>;..|-"
//   The run is started through Driver.Discover (the SDK's entry point) with the configuration
//   DiscoverySubnets/ProbeAsyncLimit/ProbeTimeoutSeconds/MaxDiscoverDurationSeconds/ScanPort set accordingly.
//   One listener on 0.0.0.0:<scan port> plays every host of 127.0.0.0/8: <default_mode> for every address,
//   except host = <ip>,<mode>,<vendor>,<model>,<idtype>,<ridhex>.
//   A dial is "late" if it is accepted more than max_s*1000 + late_slack_ms after the start (max_s = 0: never).
//   The watchdog gives up as soon as a late dial is seen, or after budget_ms.
//   Optional 10th field: a configuration HISTORY "<cfg>;<cfg|X>;..": the first <cfg> is the configuration the service
//   starts with; every further entry is delivered through the real callback Driver.updateWritableConfig, in order
//   (X: a value that is not a *CustomConfig); finally the configuration given by the request's own fields is delivered
//   the same way, and then the run starts: it must obey THAT configuration.
//   <cfg> = <subnets>|<asyncLimit>|<probe_s>|<max_s>|<P|Q>   P: the scan port the hosts listen on, Q: another port (a
//   connection-counting listener on 0.0.0.0:Q). The debounced discovery that a change of subnets / port arms is
//   disarmed after every delivery (its timer is stopped), so that only the run started here dials.
//   Extra observations: qdials (connections to port Q during the run), outside (dials to addresses outside the request's
//   subnets), inside (distinct addresses dialled inside), wave (dials in the first 60 % of one probe timeout: with hosts that
//   stay silent = the number of workers), gap_ms (median time between consecutive dials: with one worker and silent hosts =
//   the probe timeout), debounce=<armed|idle> (whether the last delivery armed the debounced discovery).
// answer: "<returned|blocked> <elapsed_ms> published=<number of results handed to the SDK channel> reported=<name@ip,..>
//          dials=<n> late=<n> lastdial_ms=<t> probed=<ip,.. of the special hosts that were dialled> released=<bool>"
func c17Discover(f []string) string {
	async, _ := strconv.Atoi(f[2])
	probeS, _ := strconv.Atoi(f[3])
	maxS, _ := strconv.Atoi(f[4])
	budget, _ := strconv.Atoi(f[5])
	lateSlack, _ := strconv.Atoi(f[6])
	defMode := f[7]
	per := map[string]c17PerIP{}
	if f[8] != "-" {
		for _, hsp := range strings.Split(f[8], ";") {
			p := strings.Split(hsp, ",")
			v, _ := strconv.ParseUint(p[2], 10, 32)
			m, _ := strconv.ParseUint(p[3], 10, 32)
			it, _ := strconv.ParseUint(p[4], 10, 8)
			mode := p[1]
			id := c17Identity{hasCaps: true, vendor: uint32(v), model: uint32(m), fw: []byte("1.2.3"),
				hasIdent: mode != "noident", idType: byte(it), rid: c17Unhex(p[5])}
			if mode == "noident" {
				mode = "correct"
			}
			per[p[0]] = c17PerIP{mode, id}
		}
	}
	ln, err := net.Listen("tcp4", ":0")
	if err != nil {
		return "harness-error listen " + err.Error()
	}
	h := &c17Host{mode: defMode, ln: ln, perIP: per, t0: time.Now()}
	port := h.port()
	final := CustomConfig{
		DiscoverySubnets:           f[1],
		ProbeAsyncLimit:            async,
		ProbeTimeoutSeconds:        probeS,
		ScanPort:                   port,
		MaxDiscoverDurationSeconds: maxS,
		ProvisionWatcherDir:        "res/provision_watchers",
	}
	var hist []string
	if len(f) > 9 && f[9] != "-" {
		hist = strings.Split(f[9], ";")
	}
	var hq *c17Host
	if strings.Contains(strings.Join(hist, ";"), "|Q") {
		if hq, err = c17NewHost(":0", "close", c17Identity{}); err != nil {
			ln.Close()
			return "harness-error listen " + err.Error()
		}
		defer hq.Close()
		if hq.port() == port {
			ln.Close()
			return "harness-error other port equals scan port"
		}
	}
	parseCfg := func(e string) (*CustomConfig, error) {
		p := strings.Split(e, "|")
		if len(p) != 5 {
			return nil, fmt.Errorf("bad config %q", e)
		}
		a, _ := strconv.Atoi(p[1])
		ps, _ := strconv.Atoi(p[2])
		mx, _ := strconv.Atoi(p[3])
		po := port
		if p[4] == "Q" {
			po = hq.port()
		}
		return &CustomConfig{DiscoverySubnets: p[0], ProbeAsyncLimit: a, ProbeTimeoutSeconds: ps, ScanPort: po,
			MaxDiscoverDurationSeconds: mx, ProvisionWatcherDir: "res/provision_watchers"}, nil
	}
	// a change of subnets / scan port arms a discovery 10 s later: stop its timer, only the run below may dial
	armed := false
	disarm := func() {
		driver.debounceMu.Lock()
		if driver.debounceTimer != nil {
			armed = driver.debounceTimer.Stop()
		} else {
			armed = false
		}
		driver.debounceMu.Unlock()
	}

	resultCh := make(chan []dsModels.DiscoveredDevice, 4)
	driver.configMu.Lock()
	oldCfg := driver.config
	driver.configMu.Unlock()
	oldCh := driver.deviceCh
	driver.deviceCh = resultCh
	defer func() {
		disarm()
		driver.configMu.Lock()
		driver.config = oldCfg
		driver.configMu.Unlock()
		driver.deviceCh = oldCh
	}()
	if len(hist) == 0 {
		driver.configMu.Lock()
		c := final
		driver.config = &ServiceConfig{AppCustom: c}
		driver.configMu.Unlock()
	} else {
		c0, err := parseCfg(hist[0])
		if err != nil {
			ln.Close()
			return "harness-error " + err.Error()
		}
		driver.configMu.Lock()
		driver.config = &ServiceConfig{AppCustom: *c0}
		driver.configMu.Unlock()
		for _, e := range hist[1:] {
			if e == "X" {
				driver.updateWritableConfig(&ServiceConfig{AppCustom: final}) // not a *CustomConfig: must be ignored
				disarm()
				continue
			}
			c, err := parseCfg(e)
			if err != nil {
				ln.Close()
				return "harness-error " + err.Error()
			}
			driver.updateWritableConfig(c)
			disarm()
		}
		c := final
		driver.updateWritableConfig(&c)
		disarm()
	}
	debounce := "idle"
	if armed {
		debounce = "armed"
	}

	h.mu.Lock()
	h.t0 = time.Now()
	h.mu.Unlock()
	go h.acceptLoop()
	done := make(chan error, 1)
	t0 := time.Now()
	go func() { done <- driver.Discover() }()

	lateAfter := time.Duration(maxS)*time.Second + time.Duration(lateSlack)*time.Millisecond
	stats := func() (n, late int, last time.Duration, ips map[string]bool) {
		h.mu.Lock()
		defer h.mu.Unlock()
		ips = map[string]bool{}
		for i, t := range h.accTimes {
			n++
			if maxS > 0 && t > lateAfter {
				late++
			}
			if t > last {
				last = t
			}
			ips[h.accIPs[i]] = true
		}
		return
	}
	status := "blocked"
	var elapsed int64
	deadline := time.After(time.Duration(budget) * time.Millisecond)
	tick := time.NewTicker(50 * time.Millisecond)
	defer tick.Stop()
wait:
	for {
		select {
		case <-done:
			status = "returned"
			elapsed = time.Since(t0).Milliseconds()
			break wait
		case <-deadline:
			elapsed = int64(budget)
			break wait
		case <-tick.C:
			if _, late, _, _ := stats(); late > 0 {
				elapsed = time.Since(t0).Milliseconds()
				break wait
			}
		}
	}
	n, late, last, ips := stats()
	// further observations: where and when the run dialled
	var nets []*net.IPNet
	for _, cidr := range strings.Split(f[1], ",") {
		if _, ipn, err := net.ParseCIDR(cidr); err == nil {
			nets = append(nets, ipn)
		}
	}
	outside, inside, wave := 0, map[string]bool{}, 0
	var gaps []int
	h.mu.Lock()
	times := append([]time.Duration{}, h.accTimes...)
	for i, ip := range h.accIPs {
		in := false
		for _, ipn := range nets {
			if ipn.Contains(net.ParseIP(ip)) {
				in = true
			}
		}
		if in {
			inside[ip] = true
		} else {
			outside++
		}
		if h.accTimes[i] <= time.Duration(probeS)*600*time.Millisecond {
			wave++
		}
	}
	h.mu.Unlock()
	sort.Slice(times, func(i, j int) bool { return times[i] < times[j] })
	for i := 1; i < len(times); i++ {
		gaps = append(gaps, int((times[i] - times[i-1]).Milliseconds()))
	}
	sort.Ints(gaps)
	gap := -1
	if len(gaps) > 0 {
		gap = gaps[len(gaps)/2]
	}
	qdials := 0
	if hq != nil {
		qdials = hq.nAccepts()
	}
	h.Close() // releases every probe still in flight; later dials are refused at once
	released := status == "returned"
	if !released {
		select {
		case <-done:
			released = true
		case <-time.After(40 * time.Second):
		}
	}
	published := 0
	var names []string
drain:
	for {
		select {
		case res := <-resultCh:
			published++
			for _, d := range res {
				names = append(names, c17Reported(d))
			}
		default:
			break drain
		}
	}
	sort.Strings(names)
	var probed []string
	for ip := range per {
		if ips[ip] {
			probed = append(probed, ip)
		}
	}
	sort.Strings(probed)
	return fmt.Sprintf("%s %d published=%d reported=%s dials=%d late=%d lastdial_ms=%d probed=%s released=%v qdials=%d outside=%d inside=%d wave=%d gap_ms=%d debounce=%s",
		status, elapsed, published, strings.Join(names, ","), n, late, last.Milliseconds(), strings.Join(probed, ","), released,
		qdials, outside, len(inside), wave, gap, debounce)
}

func TestVerifC17(t *testing.T) {
	lines, w, done := verifIO(t)
	defer done()

	// our own SDK mock (TestMain installed one whose Devices() is empty) and a silent logger
	oldSvc, oldLc := driver.svc, driver.lc
	defer func() { driver.svc, driver.lc = oldSvc, oldLc }()
	driver.lc = logger.NewMockClient()
	var devMu sync.Mutex
	var devs []models.Device
	var updated []string
	sm := &mocks.DeviceServiceSDK{}
	sm.On("Devices").Return(func() []models.Device {
		devMu.Lock()
		defer devMu.Unlock()
		out := make([]models.Device, len(devs))
		for i, d := range devs {
			// deep-enough copy: processResultChannel deletes from Protocols
			pp := map[string]models.ProtocolProperties{}
			for k, v := range d.Protocols {
				c := models.ProtocolProperties{}
				for a, b := range v {
					c[a] = b
				}
				pp[k] = c
			}
			d.Protocols = pp
			out[i] = d
		}
		return out
	})
	sm.On("UpdateDevice", mock.Anything).Return(func(d models.Device) error {
		devMu.Lock()
		updated = append(updated, d.Name+":"+string(d.OperatingState))
		devMu.Unlock()
		return nil
	})
	driver.svc = sm

	answers := make([]string, len(lines))
	var wg sync.WaitGroup
	// timed scenarios run concurrently with everything else (each has its own watchdog)
	var runLines, discLines []int
	for i, line := range lines {
		f := strings.Fields(line)
		switch f[0] {
		case "probe":
			wg.Add(1)
			go func(i int, f []string) {
				defer wg.Done()
				if c17ProbeFn == nil {
					answers[i] = "unsupported probe-level harness not built"
					return
				}
				answers[i] = c17ProbeFn(f)
			}(i, f)
		case "run":
			runLines = append(runLines, i)
		case "discover":
			discLines = append(discLines, i)
		}
	}
	// runs through Driver.Discover use the one global configuration: one after the other
	wg.Add(1)
	go func() {
		defer wg.Done()
		for _, i := range discLines {
			answers[i] = c17Discover(strings.Fields(lines[i]))
		}
	}()
	// GetDeviceByName: a device is found iff one is registered under exactly that name
	sm.On("GetDeviceByName", mock.Anything).Return(func(name string) (models.Device, error) {
		devMu.Lock()
		defer devMu.Unlock()
		for _, d := range devs {
			if d.Name == name {
				pp := map[string]models.ProtocolProperties{}
				for k, v := range d.Protocols {
					c := models.ProtocolProperties{}
					for a, b := range v {
						c[a] = b
					}
					pp[k] = c
				}
				d.Protocols = pp
				return d, nil
			}
		}
		return models.Device{}, fmt.Errorf("not found")
	})
	for _, i := range runLines {
		wg.Add(1)
		go func(i int) {
			defer wg.Done()
			answers[i] = c17Run(strings.Fields(lines[i]), &devs, &devMu, &updated)
		}(i)
	}

	// the naming grid: a pool of workers, each case has its own scripted reader on an ephemeral port
	type job struct {
		i int
		f []string
	}
	jobs := make(chan job, 64)
	var nwg sync.WaitGroup
	for k := 0; k < 16; k++ {
		nwg.Add(1)
		go func() {
			defer nwg.Done()
			h, err := c17NewHost("127.0.0.1:0", "correct", c17Identity{})
			for j := range jobs {
				if err != nil {
					answers[j.i] = "harness-error listen " + err.Error()
					continue
				}
				if c17NameFn == nil {
					answers[j.i] = "unsupported probe-level harness not built"
					continue
				}
				answers[j.i] = c17NameFn(j.f, h)
			}
			if h != nil {
				h.Close()
			}
		}()
	}
	for i, line := range lines {
		f := strings.Fields(line)
		switch f[0] {
		case "name":
			jobs <- job{i, f}
		case "probe", "run", "discover":
		default:
			answers[i] = "error bad request"
		}
	}
	close(jobs)
	nwg.Wait()
	wg.Wait()
	for _, a := range answers {
		fmt.Fprintln(w, a)
	}
}

