//go:build verif

package driver

// C15 — connection supervision. One request line = one script, run against a real LLRPDevice
// built by Driver.NewLLRPDevice:
//
//	<id> <up0> <tok> ...
//
// DN DM: good first message, the connection breaks when GetSupportedVersion / SetProtocolVersion arrives; DK Dk DV DJ:
// negotiation stalls while the reader keeps talking (see serveBrokenNegotiation).
// tokens (same as oracle/c15): DR DS DZ DB DH DC DE  dial outcomes (refused, accepted+silent [DZ: silent
// until the device's 60 s read timeout], bad
// handshake, handshake then dropped, closed normally by the device, established and staying)
// X drop the established connection; T/t Stop (live / finished context); U<n>/u<n> UpdateAddr to
// address n (live / finished context); F/G SDK update fails / works; Q/q/Qe/Qw/Qg/Ql TrySend(GetReaderConfig)
// with a connected reader answering success / an error status / ERROR_MESSAGE / another message type /
// an undecodable payload / after the deadline.
// H the next UpdateDeviceOperatingState call is SLOW: it does not return until R; W watch: the script expects the
// supervisor to sit in that call — any attempt it makes meanwhile is accepted (good handshake), the
// slow call is then released and the script ends there.
//
// answer line: the observed history "d<n> hs fail norm stop a<n> rU+ rD- s<sendfor>/<class> ..."
// followed by " | up=<isUp>"; irregularities appear as tokens starting with '!'. Reports are logged
// when the SDK call RETURNS (that is what EdgeX holds); a slow call is logged cU / cD when it is made
// and rU+h / rD+h when it returns.
//
// How dial attempts are observed, including refused ones: the device is given a net.Addr whose
// String() is a host NAME ("s<id>-a<n>.c15.test.:<port>"); net.DefaultResolver is replaced by a
// resolver whose DNS transport ends in this file. Every dial attempt therefore produces exactly one
// A query, which (a) tells the script which address the device is dialling, (b) is answered with
// 127.0.0.1 (a listener of the scripted reader) or 127.0.0.2 (same port reserved but not
// listening: ECONNREFUSED), and (c) is held back until the script has reached its next dial step.
// The scripted reader reads and writes LLRP frames with its own code.

import (
	"context"
	"encoding/binary"
	"errors"
	"fmt"
	"io"
	"net"
	"os"
	"runtime"
	"strconv"
	"strings"
	"sync"
	"sync/atomic"
	"syscall"
	"testing"
	"time"

	"github.com/edgexfoundry/device-sdk-go/v4/pkg/interfaces"
	dsModels "github.com/edgexfoundry/device-sdk-go/v4/pkg/models"
	edgexErr "github.com/edgexfoundry/go-mod-core-contracts/v4/errors"
	"github.com/edgexfoundry/go-mod-core-contracts/v4/models"

	"github.com/edgexfoundry/device-rfid-llrp-go/internal/retry"
	"github.com/edgexfoundry/device-rfid-llrp-go/pkg/llrp"
)

// ------------------------------------------------------------------ fake DNS (dial observation)

type c15Resolver struct {
	mu   sync.Mutex
	runs map[string]func(label int) [4]byte // "s<id>" -> handler of one script
}

var (
	c15DNS     = &c15Resolver{runs: map[string]func(int) [4]byte{}}
	c15DNSOnce sync.Once
)

func c15InstallDNS() {
	c15DNSOnce.Do(func() {
		net.DefaultResolver = &net.Resolver{PreferGo: true, Dial: func(ctx context.Context, network, address string) (net.Conn, error) {
			a, b := net.Pipe()
			go c15DNS.serve(b)
			return a, nil
		}}
	})
}

func (r *c15Resolver) register(key string, h func(int) [4]byte) {
	r.mu.Lock()
	r.runs[key] = h
	r.mu.Unlock()
}

func (r *c15Resolver) unregister(key string) {
	r.mu.Lock()
	delete(r.runs, key)
	r.mu.Unlock()
}

// serve speaks DNS over a stream (2-byte length prefix), which is what Go's resolver uses when the
// connection it was given is not a net.PacketConn.
func (r *c15Resolver) serve(c net.Conn) {
	defer c.Close()
	for {
		var lb [2]byte
		if _, err := io.ReadFull(c, lb[:]); err != nil {
			return
		}
		q := make([]byte, binary.BigEndian.Uint16(lb[:]))
		if _, err := io.ReadFull(c, q); err != nil || len(q) < 17 {
			return
		}
		off := 12
		var parts []string
		for off < len(q) && q[off] != 0 {
			l := int(q[off])
			if off+1+l > len(q) {
				return
			}
			parts = append(parts, string(q[off+1:off+1+l]))
			off += 1 + l
		}
		off++
		if off+4 > len(q) {
			return
		}
		qtype := binary.BigEndian.Uint16(q[off:])
		resp := make([]byte, 12, 64)
		copy(resp[0:2], q[0:2])
		resp[2], resp[3] = 0x84, 0x00 // response, authoritative, no error
		binary.BigEndian.PutUint16(resp[4:], 1)
		resp = append(resp, q[12:off+4]...)
		if qtype == 1 && len(parts) > 0 { // A
			var h func(int) [4]byte
			var label int
			if f := strings.SplitN(parts[0], "-a", 2); len(f) == 2 {
				label, _ = strconv.Atoi(f[1])
				r.mu.Lock()
				h = r.runs[f[0]]
				r.mu.Unlock()
			}
			if h != nil {
				ip := h(label) // may block: the gate
				binary.BigEndian.PutUint16(resp[6:], 1)
				resp = append(resp, 0xC0, 0x0C, 0, 1, 0, 1, 0, 0, 0, 0, 0, 4)
				resp = append(resp, ip[:]...)
			} else {
				resp[3] = 0x03 // NXDOMAIN
			}
		}
		out := make([]byte, 2+len(resp))
		binary.BigEndian.PutUint16(out, uint16(len(resp)))
		copy(out[2:], resp)
		if _, err := c.Write(out); err != nil {
			return
		}
	}
}

type c15Addr string

func (a c15Addr) Network() string { return "tcp" }
func (a c15Addr) String() string  { return string(a) }

// c15ReservePort binds (without listening) ip:port so that nobody else can listen there while
// connections to it are refused.
func c15ReservePort(ip [4]byte, port int) (int, error) {
	fd, err := syscall.Socket(syscall.AF_INET, syscall.SOCK_STREAM, 0)
	if err != nil {
		return -1, err
	}
	if err := syscall.Bind(fd, &syscall.SockaddrInet4{Port: port, Addr: ip}); err != nil {
		syscall.Close(fd)
		return -1, err
	}
	return fd, nil
}

// ------------------------------------------------------------------ scripted reader (own frame code)

const (
	c15MsgGetReaderConfig         = 2
	c15MsgSetReaderConfig         = 3
	c15MsgCloseConnectionResponse = 4
	c15MsgGetReaderConfigResp     = 12
	c15MsgSetReaderConfigResp     = 13
	c15MsgCloseConnection         = 14
	c15MsgGetSupportedVersion     = 46
	c15MsgSetProtocolVersion      = 47
	c15MsgGetSupportedVersionResp = 56
	c15MsgROAccessReport          = 61
	c15MsgKeepAlive               = 62
	c15MsgReaderEventNotification = 63
	c15MsgKeepAliveAck            = 72
	c15MsgErrorMessage            = 100
)

func c15Frame(typ int, id uint32, payload []byte) []byte {
	b := make([]byte, 10+len(payload))
	b[0] = byte(1<<2 | typ>>8&3) // version 1 (1.0.1) in bits 4..2, type bits 9..8
	b[1] = byte(typ)
	binary.BigEndian.PutUint32(b[2:], uint32(10+len(payload)))
	binary.BigEndian.PutUint32(b[6:], id)
	copy(b[10:], payload)
	return b
}

func c15ReadFrame(c net.Conn) (typ int, id uint32, payload []byte, err error) {
	var h [10]byte
	if _, err = io.ReadFull(c, h[:]); err != nil {
		return
	}
	typ = int(h[0]&3)<<8 | int(h[1])
	n := binary.BigEndian.Uint32(h[2:])
	id = binary.BigEndian.Uint32(h[6:])
	if n < 10 || n > 64<<20 {
		err = fmt.Errorf("bad frame length %d", n)
		return
	}
	payload = make([]byte, n-10)
	_, err = io.ReadFull(c, payload)
	return
}

// LLRPStatus TLV: type 287, length 8, status code, empty description
func c15Status(code int) []byte { return []byte{0x01, 0x1F, 0, 8, byte(code >> 8), byte(code), 0, 0} }

// ReaderEventNotification payload: ReaderEventNotificationData{UTCTimestamp, ConnectionAttemptEvent{status}}
func c15ConnEvent(status int, utcMicros uint64) []byte {
	p := []byte{0x00, 0xF6, 0x00, 0x16, 0x00, 0x80, 0x00, 0x0C, 0, 0, 0, 0, 0, 0, 0, 0, 0x01, 0x00, 0x00, 0x06, byte(status >> 8), byte(status)}
	binary.BigEndian.PutUint64(p[8:], utcMicros)
	return p
}

// The legal FORMS of the reader's event notifications, a per-connection choice (the supervisor model
// does not distinguish them: that is the claim):
//
//	0  UTCTimestamp, ConnectionAttemptEvent only          1  Uptime instead of UTCTimestamp (a reader without a UTC clock)
//	2  UTCTimestamp + AntennaEvent before the ConnectionAttemptEvent, and a LATER notification (AntennaEvent, UTC) once set up
//	3  Uptime + ReportBufferLevelWarningEvent before it, and a later notification (AntennaEvent, Uptime) once set up
const c15NForms = 4

func c15Timestamp(form int, micros uint64) []byte {
	p := []byte{0x00, 0x80, 0x00, 0x0C, 0, 0, 0, 0, 0, 0, 0, 0}
	if form%2 == 1 {
		p[1] = 0x81 // Uptime
		micros = 4242424242
	}
	binary.BigEndian.PutUint64(p[4:], micros)
	return p
}

func c15RENData(body []byte) []byte {
	p := []byte{0x00, 0xF6, 0, 0}
	p = append(p, body...)
	binary.BigEndian.PutUint16(p[2:], uint16(len(p)))
	return p
}

// c15ConnEventForm: the connection event in the given form
func c15ConnEventForm(form, status int, utcMicros uint64) []byte {
	body := c15Timestamp(form, utcMicros)
	switch form {
	case 2:
		body = append(body, 0x00, 0xFF, 0x00, 0x07, 1, 0, 1) // AntennaEvent: antenna 1 connected
	case 3:
		body = append(body, 0x00, 0xFA, 0x00, 0x05, 80) // ReportBufferLevelWarningEvent: 80 %
	}
	body = append(body, 0x01, 0x00, 0x00, 0x06, byte(status>>8), byte(status))
	return c15RENData(body)
}

// c15LaterEvent: a reader event on a connection that is set up (an antenna was disconnected)
func c15LaterEvent(form int, utcMicros uint64) []byte {
	return c15RENData(append(c15Timestamp(form, utcMicros), 0x00, 0xFF, 0x00, 0x07, 0, 0, 2))
}

// ------------------------------------------------------------------ one script run

type c15Query struct {
	label int
	at    time.Time
	reply chan [4]byte
}

type c15Conn struct {
	wmu      sync.Mutex
	c        net.Conn
	mode     byte
	done     chan struct{} // closed when the reader side is finished with this connection
	stepDone chan string   // "src", "early", "closed", "dropped"
	dropped  atomic.Bool
}

type c15Run struct {
	id      string
	mu      sync.Mutex
	log     []string
	queries chan c15Query
	conns   chan net.Conn
	sdkFail atomic.Bool
	grcMode atomic.Int32 // how the reader answers GetReaderConfig (see serve)
	errLogs atomic.Int64
	stale   bool // a connection event went out on a connection the device closed at once
	// forms of the notifications: connection k of the run uses form (formSeed + k) mod c15NForms;
	// formSeed is a function of the script TEXT, so a script replayed alone sends the same forms
	formSeed uint32
	connIdx  atomic.Int64
	badVar  int
	dev     *LLRPDevice
	name    string
	devices []models.Device
	// a slow SDK call: armed = the next call made is held; held = the call in flight
	armed    atomic.Bool
	held     atomic.Pointer[c15Held]
	captured chan struct{}
}

type c15Held struct {
	release chan struct{}
	done    chan struct{}
}

func (r *c15Run) logf(tok string) {
	r.mu.Lock()
	r.log = append(r.log, tok)
	r.mu.Unlock()
}

// recording SDK: only UpdateDeviceOperatingState is used by device.go
type c15SDK struct {
	interfaces.DeviceServiceSDK
	run *c15Run
}

// Devices is what Driver.Start asks the SDK for: the devices as recorded in EdgeX
func (s *c15SDK) Devices() []models.Device { return s.run.devices }

func (s *c15SDK) UpdateDeviceOperatingState(name string, st models.OperatingState) error {
	fail := s.run.sdkFail.Load()
	tok := "rX"
	switch st {
	case models.Up:
		tok = "rU"
	case models.Down:
		tok = "rD"
	}
	if name != s.run.name {
		tok = "!name:" + tok
	}
	if s.run.armed.CompareAndSwap(true, false) {
		// the slow call: made now, returns when the script releases it
		h := &c15Held{release: make(chan struct{}), done: make(chan struct{})}
		s.run.held.Store(h)
		s.run.logf("c" + strings.TrimPrefix(tok, "r"))
		if s.run.captured != nil {
			select {
			case s.run.captured <- struct{}{}:
			default:
			}
		}
		select {
		case <-h.release:
		case <-time.After(30 * time.Second):
			s.run.logf("!heldtimeout")
		}
		var err error
		if s.run.sdkFail.Load() {
			s.run.logf(tok + "-h")
			err = errors.New("scripted SDK failure")
		} else {
			s.run.logf(tok + "+h")
		}
		s.run.held.Store(nil)
		close(h.done)
		return err
	}
	if fail {
		s.run.logf(tok + "-")
		return errors.New("scripted SDK failure")
	}
	s.run.logf(tok + "+")
	return nil
}

// logger: silent; Error calls are counted, only to pace the script (never judged)
type c15Logger struct{ errs *atomic.Int64 }

func (l c15Logger) SetLogLevel(string) edgexErr.EdgeX { return nil }
func (l c15Logger) LogLevel() string                  { return "ERROR" }
func (l c15Logger) Debug(string, ...interface{})      {}
func (l c15Logger) Error(string, ...interface{})      { l.errs.Add(1) }
func (l c15Logger) Info(string, ...interface{})       {}
func (l c15Logger) Trace(string, ...interface{})      {}
func (l c15Logger) Warn(string, ...interface{})       {}
func (l c15Logger) Debugf(string, ...interface{})     {}
func (l c15Logger) Errorf(string, ...interface{})     { l.errs.Add(1) }
func (l c15Logger) Infof(string, ...interface{})      {}
func (l c15Logger) Tracef(string, ...interface{})     {}
func (l c15Logger) Warnf(string, ...interface{})      {}

// c15SlowLogger: a log sink that does I/O (every Info/Debug call takes a moment). It widens the
// window between two synchronisation points of the driver whenever a log call sits between them,
// so overlapping callers really overlap whatever the load of the machine.
type c15SlowLogger struct {
	c15Logger
	d time.Duration
}

func (l c15SlowLogger) Debug(string, ...interface{})  { time.Sleep(l.d) }
func (l c15SlowLogger) Info(string, ...interface{})   { time.Sleep(l.d) }
func (l c15SlowLogger) Debugf(string, ...interface{}) { time.Sleep(l.d) }
func (l c15SlowLogger) Infof(string, ...interface{})  { time.Sleep(l.d) }

// request whose marshalling is counted: Client.SendFor marshals once per call
type c15Probe struct{ n atomic.Int64 }

func (p *c15Probe) Type() llrp.MessageType { return llrp.MsgGetReaderConfig }
func (p *c15Probe) MarshalBinary() ([]byte, error) {
	p.n.Add(1)
	return (&llrp.GetReaderConfig{}).MarshalBinary()
}

func (r *c15Run) client() *llrp.Client {
	r.dev.clientLock.RLock()
	defer r.dev.clientLock.RUnlock()
	return r.dev.client
}

// pace: after a failed attempt give the supervisor a moment to reach its back-off. hint() says
// when it has visibly moved on; without a hint we just wait the fallback.
func c15Pace(hint func() bool, fallback time.Duration) {
	dl := time.Now().Add(fallback)
	for time.Now().Before(dl) {
		if hint() {
			break
		}
		time.Sleep(time.Millisecond)
	}
	time.Sleep(3 * time.Millisecond)
}

func (cn *c15Conn) write(b []byte) (int, error) {
	cn.wmu.Lock()
	defer cn.wmu.Unlock()
	return cn.c.Write(b)
}

// serve one accepted connection according to mode
func (r *c15Run) serve(cn *c15Conn, wantSRC int) {
	defer close(cn.done)
	c := cn.c
	defer c.Close()
	signal := func(s string) {
		select {
		case cn.stepDone <- s:
		default:
		}
	}
	switch cn.mode {
	case 'S':
		time.Sleep(15 * time.Millisecond)
		r.logf("fail")
		c.Close()
		signal("dropped")
		return
	case 'P':
		// half a message header, then nothing until the device gives up
		r.logf("fail")
		c.Write([]byte{0x04, 0x3F, 0x00, 0x00, 0x00})
		c.SetReadDeadline(time.Now().Add(100 * time.Second))
		io.Copy(io.Discard, c)
		signal("dropped")
		return
	case 'Z':
		// really silent: say nothing until the device gives up (its read timeout,
		// keepAliveInterval*maxMissedKAs = 60 s)
		r.logf("fail")
		c.SetReadDeadline(time.Now().Add(100 * time.Second))
		io.Copy(io.Discard, c)
		signal("dropped")
		return
	case 'B':
		r.logf("fail")
		switch r.badVar % 3 {
		case 0:
			cn.write(c15Frame(c15MsgKeepAlive, 1, nil))
		case 1:
			cn.write(c15Frame(c15MsgReaderEventNotification, 1, c15ConnEventForm(int(r.formSeed+uint32(r.badVar))%c15NForms, 1, 1600000000000000)))
		case 2:
			cn.write(c15Frame(c15MsgROAccessReport, 1, nil))
		}
		r.badVar++
		c.SetReadDeadline(time.Now().Add(2 * time.Second))
		io.Copy(io.Discard, c)
		signal("dropped")
		return
	}
	// good handshake
	r.logf("hs")
	form := int((int64(r.formSeed) + r.connIdx.Add(1) - 1) % c15NForms)
	if _, err := cn.write(c15Frame(c15MsgReaderEventNotification, 1, c15ConnEventForm(form, 0, 1600000000000000))); err != nil {
		r.logf("!write")
		signal("dropped")
		return
	}
	if strings.ContainsRune("KkVJNM", rune(cn.mode)) {
		r.serveBrokenNegotiation(cn, signal)
		return
	}
	requests, srcs, closing := 0, 0, false
	for {
		typ, id, _, err := c15ReadFrame(c)
		if err != nil {
			if cn.dropped.Load() {
				signal("dropped")
				return
			}
			if !closing {
				// the device ended the connection without CloseConnection
				r.logf("norm")
			}
			if requests == 0 {
				signal("early")
			} else {
				signal("closed")
			}
			return
		}
		if typ != c15MsgKeepAliveAck {
			requests++
		}
		switch typ {
		case c15MsgGetSupportedVersion:
			cn.write(c15Frame(c15MsgGetSupportedVersionResp, id, append([]byte{2 << 5, 2 << 5}, c15Status(0)...)))
		case c15MsgSetReaderConfig:
			srcs++
			if cn.mode == 'C' {
				cn.write(c15Frame(c15MsgSetReaderConfigResp, id, c15Status(100)))
				break
			}
			cn.write(c15Frame(c15MsgSetReaderConfigResp, id, c15Status(0)))
			if srcs == wantSRC {
				if cn.mode == 'H' {
					time.Sleep(20 * time.Millisecond)
					r.logf("fail")
					cn.dropped.Store(true)
					c.Close()
					signal("dropped")
					return
				}
				if form >= 2 && cn.mode == 'E' {
					cn.write(c15Frame(c15MsgReaderEventNotification, 2, c15LaterEvent(form, 1600000001000000)))
				}
				time.Sleep(15 * time.Millisecond) // let onConnect take the reply before the script goes on
				signal("src")
			}
		case c15MsgGetReaderConfig:
			switch r.grcMode.Load() {
			case 'q': // non-success status
				cn.write(c15Frame(c15MsgGetReaderConfigResp, id, c15Status(100)))
			case 'e': // ERROR_MESSAGE
				cn.write(c15Frame(c15MsgErrorMessage, id, c15Status(100)))
			case 'w': // a reply of another type
				cn.write(c15Frame(11, id, c15Status(0)))
			case 'g': // right type, payload the decoder rejects (LLRPStatus says 64 bytes)
				cn.write(c15Frame(c15MsgGetReaderConfigResp, id, []byte{0x01, 0x1F, 0x00, 0x40, 0, 0, 0, 0}))
			case 'l': // after the caller's deadline
				go func(id uint32) {
					time.Sleep(520 * time.Millisecond)
					cn.write(c15Frame(c15MsgGetReaderConfigResp, id, c15Status(0)))
				}(id)
			default:
				cn.write(c15Frame(c15MsgGetReaderConfigResp, id, c15Status(0)))
			}
		case c15MsgCloseConnection:
			// a reader answers and then closes the connection (the client waits for that)
			r.logf("norm")
			closing = true
			cn.write(c15Frame(c15MsgCloseConnectionResponse, id, c15Status(0)))
			time.Sleep(2 * time.Millisecond)
			c.Close()
			signal("closed")
			return
		case c15MsgKeepAliveAck:
		default:
			cn.write(c15Frame(c15MsgErrorMessage, id, c15Status(109)))
		}
	}
}

// serveBrokenNegotiation: the reader has sent its connection-success event; version negotiation
// never completes.
//
//	N  the connection breaks when GetSupportedVersion arrives          M  ... when SetProtocolVersion arrives
//	K  GetSupportedVersion is never answered while the reader keeps talking (a KeepAlive every 250 ms)
//	k  the same, talking in empty ROAccessReports                      V  SetProtocolVersion is never answered, KeepAlives
//	J  half a GetSupportedVersionResponse, then silence
//
// The stalling modes end when the DEVICE gives the attempt up (its budget: the client timeout
// keepAliveInterval*maxMissedKAs per negotiation step); "fail" is logged then.
func (r *c15Run) serveBrokenNegotiation(cn *c15Conn, signal func(string)) {
	c := cn.c
	stopTalk := make(chan struct{})
	defer close(stopTalk)
	talk := func(typ int) {
		go func() {
			tk := time.NewTicker(250 * time.Millisecond)
			defer tk.Stop()
			for id := uint32(1000); ; id++ {
				select {
				case <-stopTalk:
					return
				case <-tk.C:
					if _, err := cn.write(c15Frame(typ, id, nil)); err != nil {
						return
					}
				}
			}
		}()
	}
	talking := false
	requests := 0
	var stalledAt time.Time
	c.SetReadDeadline(time.Now().Add(100 * time.Second))
	for {
		typ, id, _, err := c15ReadFrame(c)
		if err != nil {
			if !stalledAt.IsZero() {
				// how long the device sat in the stalled negotiation before it gave the connection up
				// (a marker for the evidence: 40 s = onConnect's own reset, 60 s = the client time-out)
				r.logf("~gaveup" + strconv.Itoa(int(time.Since(stalledAt).Round(time.Second)/time.Second)))
			}
			if requests == 0 {
				// the device ended the connection right after the connection event, before it asked
				// anything (a client that had been closed beforehand): not this outcome's doing
				r.logf("norm")
				signal("early")
				return
			}
			r.logf("fail")
			signal("dropped")
			return
		}
		if typ != c15MsgKeepAliveAck {
			requests++
		}
		stall := false
		switch typ {
		case c15MsgGetSupportedVersion:
			switch cn.mode {
			case 'N':
				time.Sleep(15 * time.Millisecond) // the onConnect started by the connection event has made its report
				r.logf("fail")
				cn.dropped.Store(true)
				c.Close()
				signal("dropped")
				return
			case 'M', 'V':
				// current version 1, highest supported 2: the client goes on to SetProtocolVersion
				cn.write(c15Frame(c15MsgGetSupportedVersionResp, id, append([]byte{1 << 5, 2 << 5}, c15Status(0)...)))
			case 'J':
				f := c15Frame(c15MsgGetSupportedVersionResp, id, append([]byte{2 << 5, 2 << 5}, c15Status(0)...))
				cn.write(f[:13])
			case 'K':
				stall = true
			case 'k':
				stall = true
			}
		case c15MsgSetProtocolVersion:
			if cn.mode == 'M' {
				time.Sleep(15 * time.Millisecond)
				r.logf("fail")
				cn.dropped.Store(true)
				c.Close()
				signal("dropped")
				return
			}
			stall = true
		case c15MsgCloseConnection:
			r.logf("~closeconn")
		}
		if (stall || cn.mode == 'J') && stalledAt.IsZero() {
			stalledAt = time.Now()
		}
		if stall && !talking {
			talking = true
			if cn.mode == 'k' {
				talk(c15MsgROAccessReport)
			} else {
				talk(c15MsgKeepAlive)
			}
		}
	}
}

// c15Timed runs f and reports whether it returned within d (f goes on in its goroutine otherwise)
func c15Timed(d time.Duration, f func()) bool {
	done := make(chan struct{})
	go func() { f(); close(done) }()
	select {
	case <-done:
		return true
	case <-time.After(d):
		return false
	}
}

func c15FormSeed(text string) uint32 {
	h := uint32(2166136261)
	for i := 0; i < len(text); i++ {
		h = (h ^ uint32(text[i])) * 16777619
	}
	return h
}

func c15Class(err error) string {
	var se *llrp.StatusError
	var fe *retry.FError
	if errors.As(err, &fe) { // retry keeps the attempts' errors in Others, outside the Unwrap chain
		for _, o := range fe.Others {
			if errors.As(o, &se) {
				return "status"
			}
		}
	}
	switch {
	case err == nil:
		return "ok"
	case errors.Is(err, llrp.ErrClientClosed):
		return "closed"
	case errors.As(err, &se):
		return "status"
	case errors.Is(err, context.DeadlineExceeded), errors.Is(err, context.Canceled):
		return "ctx"
	case errors.Is(err, retry.ErrWaitExceedsDeadline):
		return "waitdeadline"
	}
	// the only remaining error TrySend produces itself
	return "noclient"
}

const (
	c15QuickWait = 100 * time.Millisecond
	c15SlowWait  = 200 * time.Millisecond
)

func c15RunScript(id string, up0 bool, toks []string) string {
	r := &c15Run{id: id, queries: make(chan c15Query, 64), conns: make(chan net.Conn, 64), name: "dev-" + id,
		captured: make(chan struct{}, 1), formSeed: c15FormSeed(fmt.Sprint(up0, toks))}
	const nAddr = 3
	var listeners [nAddr]net.Listener
	var addrs [nAddr]net.Addr
	var fds []int
	defer func() {
		for _, l := range listeners {
			if l != nil {
				l.Close()
			}
		}
		for _, fd := range fds {
			syscall.Close(fd)
		}
	}()
	for i := 0; i < nAddr; i++ {
		for try := 0; ; try++ {
			l, err := net.Listen("tcp4", "127.0.0.1:0")
			if err != nil {
				return "!listen " + err.Error()
			}
			port := l.Addr().(*net.TCPAddr).Port
			fd, err := c15ReservePort([4]byte{127, 0, 0, 2}, port)
			if err != nil {
				l.Close()
				if try > 20 {
					return "!reserve " + err.Error()
				}
				continue
			}
			fds = append(fds, fd)
			listeners[i] = l
			addrs[i] = c15Addr(fmt.Sprintf("s%s-a%d.c15.test.:%d", id, i, port))
			go func(l net.Listener) {
				for {
					c, err := l.Accept()
					if err != nil {
						return
					}
					r.conns <- c
				}
			}(l)
			break
		}
	}
	c15DNS.register("s"+id, func(label int) [4]byte {
		q := c15Query{label: label, at: time.Now(), reply: make(chan [4]byte, 1)}
		r.queries <- q
		select {
		case ip := <-q.reply:
			return ip
		case <-time.After(4 * time.Second):
			return [4]byte{127, 0, 0, 2}
		}
	})
	defer c15DNS.unregister("s" + id)

	asyncCh := make(chan *dsModels.AsyncValues, 256)
	stopDrain := make(chan struct{})
	defer close(stopDrain)
	go func() {
		for {
			select {
			case <-asyncCh:
			case <-stopDrain:
				return
			}
		}
	}()
	d := &Driver{lc: c15Logger{errs: &r.errLogs}, asyncCh: asyncCh, svc: &c15SDK{run: r},
		activeDevices: make(map[string]*LLRPDevice), done: make(chan struct{})}
	opState := models.Down
	if up0 {
		opState = models.Up
	}
	r.dev = d.NewLLRPDevice(r.name, addrs[0], models.OperatingState(opState))

	var cur *c15Conn
	stopped := false
	var stopAt time.Time
	// the device was told to end the connection: wait until the reader side has seen it end and
	// the supervisor has put a new client in place. A client that was Close()d (finished context)
	// still sits in its read until the reader says something; a KeepAlive is what a real reader
	// would send next.
	waitConnEnd := func(before *llrp.Client) {
		if cur == nil {
			return
		}
		ended := false
		for i := 0; i < 30 && !ended; i++ {
			select {
			case <-cur.done:
				ended = true
			case <-time.After(100 * time.Millisecond):
				cur.write(c15Frame(c15MsgKeepAlive, 77, nil))
			}
		}
		if !ended {
			r.logf("!connstuck")
		}
		cur = nil
		c15Pace(func() bool { c := r.client(); return c != nil && c != before }, 100*time.Millisecond)
	}
	abort := false
	// release the slow SDK call (if one is in flight) and wait until it has returned
	release := func() bool {
		h := r.held.Load()
		if h == nil {
			return false
		}
		close(h.release)
		select {
		case <-h.done:
		case <-time.After(3 * time.Second):
			r.logf("!releasestuck")
		}
		time.Sleep(5 * time.Millisecond) // whoever made the call goes on
		return true
	}
	// one attempt of the device, announced by its lookup q, answered according to tok
	dialStep := func(tok string, q c15Query) {
		select {
		case <-r.captured: // a slow call made before this attempt: not this attempt's business
		default:
		}
		r.logf("d" + strconv.Itoa(q.label))
		before := r.client()
		errsBefore := r.errLogs.Load()
		if tok[1] == 'R' {
			r.logf("fail")
			q.reply <- [4]byte{127, 0, 0, 2}
			c15Pace(func() bool { return r.errLogs.Load() != errsBefore }, 25*time.Millisecond)
			return
		}
		q.reply <- [4]byte{127, 0, 0, 1}
		var c net.Conn
		select {
		case c = <-r.conns:
		case <-time.After(4 * time.Second):
			r.logf("!noconn")
			abort = true
			return
		}
		if got := c.LocalAddr().(*net.TCPAddr).Port; got != listeners[q.label].Addr().(*net.TCPAddr).Port {
			r.logf("!wrongport")
		}
		cn := &c15Conn{c: c, mode: tok[1], done: make(chan struct{}), stepDone: make(chan string, 4)}
		want := 1
		if r.stale {
			want = 2 // the pending SetReaderConfig of the earlier onConnect arrives here too
		}
		go r.serve(cn, want)
		var what string
		select {
		case what = <-cn.stepDone:
		case <-r.captured:
			// onConnect sits in the slow Up call: its SetReaderConfig comes after the release
			what = "src"
		case <-time.After(map[bool]time.Duration{false: map[bool]time.Duration{false: 6 * time.Second, true: 80 * time.Second}[strings.ContainsRune("ZPKkVJ", rune(tok[1]))],
			true: 1500 * time.Millisecond}[want == 2 && tok[1] == 'E']):
			what = "timeout"
			if strings.ContainsRune("ZPKkVJ", rune(tok[1])) {
				// the device sits in this one attempt beyond its own budget (read timeout / negotiation
				// step timeout, keepAliveInterval*maxMissedKAs): nothing is retried
				r.logf("!attemptstuck")
				abort = true
			} else if !(want == 2 && tok[1] == 'E') {
				r.logf("!steptimeout")
			}
		}
		if want == 2 && what != "early" {
			r.stale = false
		}
		if tok[1] == 'N' || tok[1] == 'M' {
			r.stale = true // the onConnect of this connection still has its SetReaderConfig to send
		}
		switch what {
		case "early":
			// the device closed the connection right after our connection event
			r.stale = true
			<-cn.done
		case "src", "timeout":
			cur = cn
		case "closed":
			<-cn.done
		case "dropped":
			<-cn.done
			c15Pace(func() bool { return r.client() != before }, 60*time.Millisecond)
		}
	}
	for _, tok := range toks {
		if abort {
			break
		}
		switch {
		case tok[0] == 'D':
			var q c15Query
			select {
			case q = <-r.queries:
			case <-time.After(6 * time.Second):
				r.logf("!nodial")
				abort = true
				continue
			}
			dialStep(tok, q)
		case tok == "H":
			select {
			case <-r.captured:
			default:
			}
			r.armed.Store(true)
			r.logf("H")
		case tok == "R":
			r.logf("R")
			if !release() {
				r.logf("!norelease")
			} else if cur != nil {
				// an onConnect that sat in the slow call now sends its SetReaderConfig on the standing
				// connection: let the reader answer it before the script goes on
				select {
				case <-cur.stepDone:
				case <-time.After(300 * time.Millisecond):
				}
			}
		case tok == "W":
			// the script (the model of the tree) expects the supervisor to sit in the slow call: no
			// attempt for a slow wait and a quick one. An attempt that does come is a connection the
			// reader accepts; the slow call then returns and the script ends here.
			r.logf("W")
			select {
			case q := <-r.queries:
				dialStep("DE", q)
				release()
				abort = true
			case <-time.After(c15SlowWait + c15QuickWait + 100*time.Millisecond):
			}
		case tok == "X":
			if cur == nil {
				r.logf("!nodrop")
				continue
			}
			before := r.client()
			r.logf("fail")
			cur.dropped.Store(true)
			cur.c.Close()
			<-cur.done
			cur = nil
			c15Pace(func() bool { return r.client() != before }, 60*time.Millisecond)
		case tok == "Y" || tok == "y":
			// Stop right after NewLLRPDevice, while the supervisor is about to make its first
			// attempt: Go may notice the cancellation before or after entering the retry loops
			// (events StopAtEntry / Stop of the model); the check accepts either
			r.logf("stop")
			ctx, cancel := context.WithTimeout(context.Background(), 20*time.Millisecond)
			if tok == "y" {
				cancel()
			}
			_ = r.dev.Stop(ctx)
			cancel()
			stopAt = time.Now()
			stopped = true
			time.Sleep(10 * time.Millisecond)
		case tok == "T" || tok == "t":
			if !stopped {
				r.logf("stop")
			}
			before := r.client()
			ctx, cancel := context.WithTimeout(context.Background(), 20*time.Millisecond)
			if cur != nil {
				cancel()
				ctx, cancel = context.WithTimeout(context.Background(), 2*time.Second)
			}
			if tok == "t" {
				cancel()
			}
			_ = r.dev.Stop(ctx)
			cancel()
			if !stopped {
				stopAt = time.Now()
			}
			stopped = true
			if cur != nil {
				waitConnEnd(before)
			} else {
				time.Sleep(10 * time.Millisecond) // the supervisor notices the cancellation
			}
		case tok[0] == 'U' || tok[0] == 'u':
			n, _ := strconv.Atoi(tok[1:])
			r.logf("a" + strconv.Itoa(n))
			before := r.client()
			ctx, cancel := context.WithTimeout(context.Background(), 20*time.Millisecond)
			if cur != nil {
				cancel()
				ctx, cancel = context.WithTimeout(context.Background(), 2*time.Second)
			}
			if tok[0] == 'u' {
				cancel()
			}
			same := false
			// (a device whose own lock is stuck must not take the harness down with it)
			if !c15Timed(8*time.Second, func() {
				r.dev.deviceMu.RLock()
				same = sameAddr(r.dev.address, addrs[n])
				r.dev.deviceMu.RUnlock()
				_ = r.dev.UpdateAddr(ctx, addrs[n])
			}) {
				r.logf("!hang:updateaddr")
				abort = true
			}
			cancel()
			if !same {
				waitConnEnd(before)
			}
		case tok == "F":
			r.sdkFail.Store(true)
			r.logf("F")
		case tok == "G":
			r.sdkFail.Store(false)
			r.logf("G")
		case tok[0] == 'Q' || tok == "q":
			mode := int32('Q')
			if tok == "q" {
				mode = 'q'
			} else if len(tok) > 1 {
				mode = int32(tok[1])
			}
			r.grcMode.Store(mode)
			p := &c15Probe{}
			ctx, cancel := context.WithTimeout(context.Background(), 400*time.Millisecond)
			err := r.dev.TrySend(ctx, p, &llrp.GetReaderConfigResponse{})
			cancel()
			cl := c15Class(err)
			if cl == "noclient" && p.n.Load() > 0 {
				cl = "other" // SendFor ran and failed with an error of no other class
			}
			r.logf(fmt.Sprintf("s%d/%s", p.n.Load(), cl))
			if mode == 'l' && cur != nil {
				time.Sleep(150 * time.Millisecond) // let the late reply pass before the next request
			}
		default:
			r.logf("!badtoken:" + tok)
		}
	}
	r.armed.Store(false)
	if release() {
		r.logf("!autorelease")
	}
	if !stopped {
		// not part of the script: clean up (scripts normally end with Stop)
		before := r.client()
		ctx, cancel := context.WithTimeout(context.Background(), 20*time.Millisecond)
		if cur != nil {
			cancel()
			ctx, cancel = context.WithTimeout(context.Background(), 2*time.Second)
		}
		_ = r.dev.Stop(ctx)
		cancel()
		stopAt = time.Now()
		r.logf("!autostop")
		waitConnEnd(before)
	}
	// no dial after Stop: watch for two slow back-offs and a quick one
	grace := time.After(2*c15SlowWait + c15QuickWait + 60*time.Millisecond)
watch:
	for {
		select {
		case q := <-r.queries:
			// a lookup alone opens no connection (Go's resolver may finish a lookup whose context
			// is already cancelled); point it at the listener: a connection would show up below
			if q.at.After(stopAt) {
				r.logf("!latelookup:d" + strconv.Itoa(q.label))
			} else {
				r.logf("!cancelled:d" + strconv.Itoa(q.label)) // attempt under way when Stop came
			}
			q.reply <- [4]byte{127, 0, 0, 1}
		case c := <-r.conns:
			r.logf("!late:conn")
			c.Close()
		case <-grace:
			break watch
		}
	}
	up := false
	if !c15Timed(3*time.Second, func() {
		r.dev.deviceMu.RLock()
		up = r.dev.isUp
		r.dev.deviceMu.RUnlock()
	}) {
		r.logf("!hang:devicelock")
	}
	r.mu.Lock()
	defer r.mu.Unlock()
	return fmt.Sprintf("%s | up=%d", strings.Join(r.log, " "), map[bool]int{false: 0, true: 1}[up])
}

// c15RunStart: a history that STARTS through Driver.Start, the SDK reporting one device with the
// operating state recorded in EdgeX (up0). phases: 'e' the reader accepts and the connection
// stays; 'r' the reader is unreachable (a standing connection breaks, the port refuses) for at
// least two attempts. Only what the device announces is observed: "rU+ rD+ .. | up=<isUp>".
func c15RunStart(id string, up0 bool, phases string) string {
	r := &c15Run{id: id, name: "start-" + id, formSeed: c15FormSeed(fmt.Sprint(up0, phases))}
	l, err := net.Listen("tcp4", "127.0.0.1:0")
	if err != nil {
		return "!listen " + err.Error()
	}
	port := l.Addr().(*net.TCPAddr).Port
	reserved := -1
	open := true
	conns := make(chan net.Conn, 16)
	accept := func(l net.Listener) {
		for {
			c, err := l.Accept()
			if err != nil {
				return
			}
			conns <- c
		}
	}
	go accept(l)
	closePort := func() {
		if open {
			l.Close()
			for try := 0; try < 50 && reserved < 0; try++ {
				if fd, err := c15ReservePort([4]byte{127, 0, 0, 1}, port); err == nil {
					reserved = fd
				} else {
					time.Sleep(2 * time.Millisecond)
				}
			}
			open = false
		}
	}
	openPort := func() bool {
		if !open {
			if reserved >= 0 {
				syscall.Close(reserved)
				reserved = -1
			}
			for try := 0; try < 50; try++ {
				if l, err = net.Listen("tcp4", "127.0.0.1:"+strconv.Itoa(port)); err == nil {
					go accept(l)
					open = true
					return true
				}
				time.Sleep(2 * time.Millisecond)
			}
			return false
		}
		return true
	}
	defer func() {
		if open {
			l.Close()
		}
		if reserved >= 0 {
			syscall.Close(reserved)
		}
	}()
	state := models.Down
	if up0 {
		state = models.Up
	}
	r.devices = []models.Device{{Name: r.name, OperatingState: models.OperatingState(state),
		Protocols: map[string]models.ProtocolProperties{"tcp": {"host": "127.0.0.1", "port": strconv.Itoa(port)}}}}
	asyncCh := make(chan *dsModels.AsyncValues, 256)
	stopDrain := make(chan struct{})
	defer close(stopDrain)
	go func() {
		for {
			select {
			case <-asyncCh:
			case <-stopDrain:
				return
			}
		}
	}()
	d := &Driver{lc: c15Logger{errs: &r.errLogs}, asyncCh: asyncCh, svc: &c15SDK{run: r},
		activeDevices: make(map[string]*LLRPDevice), done: make(chan struct{})}
	if len(phases) > 0 && phases[0] == 'r' {
		closePort()
	}
	if err := d.Start(); err != nil {
		return "!start " + err.Error()
	}
	d.devicesMu.RLock()
	r.dev = d.activeDevices[r.name]
	d.devicesMu.RUnlock()
	if r.dev == nil {
		return "!nodevice"
	}
	isUp := func() bool {
		v := false
		c15Timed(3*time.Second, func() {
			r.dev.deviceMu.RLock()
			v = r.dev.isUp
			r.dev.deviceMu.RUnlock()
		})
		return v
	}
	var cur *c15Conn
	for _, ph := range phases {
		switch ph {
		case 'e':
			if !openPort() {
				return "!reopen"
			}
			var c net.Conn
			select {
			case c = <-conns:
			case <-time.After(6 * time.Second):
				r.logf("!noconn")
				continue
			}
			cn := &c15Conn{c: c, mode: 'E', done: make(chan struct{}), stepDone: make(chan string, 4)}
			go r.serve(cn, 1)
			select {
			case <-cn.stepDone:
			case <-time.After(6 * time.Second):
				r.logf("!steptimeout")
			}
			cur = cn
		case 'r':
			closePort()
			if cur != nil {
				cur.dropped.Store(true)
				cur.c.Close()
				<-cur.done
				cur = nil
			}
			// unreachable for at least two attempts: until the device holds itself Down, at least
			// two rounds of the (shortened) policies
			dl := time.Now().Add(3 * time.Second)
			for isUp() && time.Now().Before(dl) {
				time.Sleep(2 * time.Millisecond)
			}
			time.Sleep(2*c15QuickWait + 2*c15SlowWait)
		}
	}
	up := isUp()
	done := make(chan struct{})
	go func() { _ = d.RemoveDevice(r.name, nil); close(done) }()
	select {
	case <-done:
	case <-time.After(4 * time.Second):
	}
	if cur != nil {
		select {
		case <-cur.done:
		case <-time.After(time.Second):
		}
	}
	r.mu.Lock()
	defer r.mu.Unlock()
	var reps []string
	for _, t := range r.log {
		if strings.HasPrefix(t, "r") || strings.HasPrefix(t, "!") {
			reps = append(reps, t)
		}
	}
	return fmt.Sprintf("%s | up=%d", strings.Join(reps, " "), map[bool]int{false: 0, true: 1}[up])
}

// c15RaceEnv: a scripted loopback reader that accepts every connection, completes the LLRP
// exchange and counts connections (at a time / in total), and a Driver talking to it.
type c15RaceEnv struct {
	r                       *c15Run
	d                       *Driver
	proto                   protocolMap
	conc, maxconc, accepted atomic.Int64
	close                   func()
	// when set, the reader holds its CloseConnectionResponse back until released (or 1.5 s)
	closeGate atomic.Pointer[c15CloseGate]
}

type c15CloseGate struct {
	seen    chan struct{} // the reader has received CloseConnection
	release chan struct{}
}

func c15NewRaceEnv(id string, logDelay time.Duration) (*c15RaceEnv, string) {
	e := &c15RaceEnv{}
	r := &c15Run{id: id, name: "race-" + id}
	e.r = r
	l, err := net.Listen("tcp4", "127.0.0.1:0")
	if err != nil {
		return nil, "!listen " + err.Error()
	}
	port := strconv.Itoa(l.Addr().(*net.TCPAddr).Port)
	conc, maxconc, accepted := &e.conc, &e.maxconc, &e.accepted
	go func() {
		for {
			c, err := l.Accept()
			if err != nil {
				return
			}
			accepted.Add(1)
			if v := conc.Add(1); v > maxconc.Load() {
				maxconc.Store(v)
			}
			go func(c net.Conn) {
				var once sync.Once
				gone := func() { once.Do(func() { conc.Add(-1) }) }
				defer c.Close()
				defer gone()
				c.Write(c15Frame(c15MsgReaderEventNotification, 1, c15ConnEvent(0, 1600000000000000)))
				for {
					typ, mid, _, err := c15ReadFrame(c)
					if err != nil {
						return
					}
					switch typ {
					case c15MsgGetSupportedVersion:
						c.Write(c15Frame(c15MsgGetSupportedVersionResp, mid, append([]byte{2 << 5, 2 << 5}, c15Status(0)...)))
					case c15MsgSetReaderConfig:
						c.Write(c15Frame(c15MsgSetReaderConfigResp, mid, c15Status(0)))
					case c15MsgGetReaderConfig:
						c.Write(c15Frame(c15MsgGetReaderConfigResp, mid, c15Status(0)))
					case c15MsgCloseConnection:
						if g := e.closeGate.Load(); g != nil {
							select {
							case g.seen <- struct{}{}:
							default:
							}
							// hold the answer back; notice when the device gives the connection up meanwhile
							held, dl := true, time.Now().Add(1500*time.Millisecond)
							for held && time.Now().Before(dl) {
								select {
								case <-g.release:
									held = false
									continue
								default:
								}
								c.SetReadDeadline(time.Now().Add(10 * time.Millisecond))
								var one [1]byte
								if _, err := c.Read(one[:]); err != nil {
									if ne, ok := err.(net.Error); !ok || !ne.Timeout() {
										return // closed by the device (Stop's grace period is over)
									}
								}
							}
							c.SetReadDeadline(time.Time{})
						}
						c.Write(c15Frame(c15MsgCloseConnectionResponse, mid, c15Status(0)))
						gone()
						time.Sleep(2 * time.Millisecond)
						return
					}
				}
			}(c)
		}
	}()
	asyncCh := make(chan *dsModels.AsyncValues, 256)
	stopDrain := make(chan struct{})
	e.close = func() { close(stopDrain); l.Close() }
	go func() {
		for {
			select {
			case <-asyncCh:
			case <-stopDrain:
				return
			}
		}
	}()
	e.d = &Driver{lc: c15SlowLogger{c15Logger{errs: &r.errLogs}, logDelay}, asyncCh: asyncCh, svc: &c15SDK{run: r},
		activeDevices: make(map[string]*LLRPDevice), done: make(chan struct{}), config: &ServiceConfig{}}
	e.proto = protocolMap{"tcp": {"host": "127.0.0.1", "port": port}}
	return e, ""
}

// c15RunRace: n callers released together ask the driver for the same, not yet managed device name
// (AddDevice / UpdateDevice / a read command), reps times with a fresh name; then the device is
// removed. One name = one supervisor: never more than one connection at a time while it is
// managed, none left open and no new one after RemoveDevice returned (watched for two slow waits
// and a quick one). answer: "maxconc=<n> late=<n> open=<n> cmds=<ok>/<n>"
func c15RunRace(id string, n, reps int) string {
	e, bad := c15NewRaceEnv(id, 2*time.Millisecond)
	if e == nil {
		return bad
	}
	defer e.close()
	r, d, proto := e.r, e.d, e.proto
	conc, maxconc, accepted := &e.conc, &e.maxconc, &e.accepted
	var late, open, cmdOK, cmdN int64
	for rep := 0; rep < reps; rep++ {
		name := fmt.Sprintf("race-%s-%d", id, rep)
		r.name = name
		var gate atomic.Int32
		var wg, ready sync.WaitGroup
		var ok atomic.Int64
		for k := 0; k < n; k++ {
			wg.Add(1)
			ready.Add(1)
			go func(k int) {
				defer wg.Done()
				ready.Done()
				for gate.Load() == 0 { // spin barrier: all callers leave together
					runtime.Gosched()
				}
				switch k % 3 {
				case 0:
					_ = d.AddDevice(name, proto, models.Unlocked)
				case 1:
					_ = d.UpdateDevice(name, proto, models.Unlocked)
				default:
					if _, err := d.HandleReadCommands(name, proto, []dsModels.CommandRequest{{DeviceResourceName: ResourceReaderConfig, Type: "Object"}}); err == nil {
						ok.Add(1)
					}
				}
			}(k)
		}
		ready.Wait()
		if rep%2 == 1 {
			// while another reader of the device map is at work (as any command for any other
			// device is), nobody can insert: callers that reach "is it managed already?" before
			// the first writer queues up all get past it
			d.devicesMu.RLock()
			gate.Store(1)
			time.Sleep(20 * time.Millisecond)
			d.devicesMu.RUnlock()
		} else {
			gate.Store(1)
		}
		wg.Wait()
		cmdOK += ok.Load()
		cmdN += int64(n / 3)
		for dl := time.Now().Add(3 * time.Second); conc.Load() < 1 && time.Now().Before(dl); {
			time.Sleep(time.Millisecond)
		}
		time.Sleep(150 * time.Millisecond) // any second supervisor has connected by now as well
		_ = d.RemoveDevice(name, proto)
		before := accepted.Load()
		time.Sleep(2*c15SlowWait + c15QuickWait + 60*time.Millisecond)
		late += accepted.Load() - before
		open += conc.Load()
	}
	return fmt.Sprintf("maxconc=%d late=%d open=%d cmds=%d/%d", maxconc.Load(), late, open, cmdOK, cmdN)
}

// c15RunReadd: a device is added, connects, is removed and added again under the same name by
// the same caller straight away (re-provisioning), reps times with a fresh name. The second
// registration is a managed device nobody stopped: it must stay managed and keep (or regain) its
// connection. answer: "managed=<k>/<reps> connected=<k>/<reps> maxconc=<n>"
func c15RunReadd(id string, reps int, logDelay time.Duration) string {
	e, bad := c15NewRaceEnv(id, logDelay)
	if e == nil {
		return bad
	}
	defer e.close()
	d, proto := e.d, e.proto
	waitConn := func(want int64, dur time.Duration) bool {
		for dl := time.Now().Add(dur); time.Now().Before(dl); time.Sleep(time.Millisecond) {
			if e.conc.Load() == want {
				return true
			}
		}
		return e.conc.Load() == want
	}
	managed, connected := 0, 0
	for rep := 0; rep < reps; rep++ {
		name := fmt.Sprintf("readd-%s-%d", id, rep)
		e.r.name = name
		_ = d.AddDevice(name, proto, models.Unlocked)
		waitConn(1, 3*time.Second)
		_ = d.RemoveDevice(name, proto)
		_ = d.AddDevice(name, proto, models.Unlocked)
		// the old supervisor has wound down by now or does so within a moment
		time.Sleep(2*c15SlowWait + c15QuickWait + 60*time.Millisecond)
		d.devicesMu.RLock()
		_, ok := d.activeDevices[name]
		d.devicesMu.RUnlock()
		if ok {
			managed++
		}
		if waitConn(1, 2*c15SlowWait+c15QuickWait) {
			connected++
		}
		_ = d.RemoveDevice(name, proto)
		waitConn(0, 3*time.Second)
	}
	return fmt.Sprintf("managed=%d/%d connected=%d/%d maxconc=%d", managed, reps, connected, reps, e.maxconc.Load())
}

// c15RunReadd2: a device is re-added WHILE its removal is still in progress. The device is added and
// connects; RemoveDevice begins and waits in LLRPDevice.Stop because the reader holds its
// CloseConnectionResponse back; meanwhile api = "add" (AddDevice) / "update" (UpdateDevice) / "cmd" (a
// read command) arrives for the same name; then the reader answers (even reps, 60 ms after the
// caller came) or never does (odd reps: Stop gives up after shutdownGrace). Both calls return; the
// caller came after the removal had begun and nobody asked for a removal since: the name must be
// managed by a LIVE supervisor (the reader accepts, so: connected).
// answer: "managed=<k>/<reps> connected=<k>/<reps> maxconc=<n> inside=<removals seen waiting in Stop>"
func c15RunReadd2(id string, api string, reps int) string {
	e, bad := c15NewRaceEnv(id, 0)
	if e == nil {
		return bad
	}
	defer e.close()
	d, proto := e.d, e.proto
	waitConn := func(want int64, dur time.Duration) bool {
		for dl := time.Now().Add(dur); time.Now().Before(dl); time.Sleep(time.Millisecond) {
			if e.conc.Load() == want {
				return true
			}
		}
		return e.conc.Load() == want
	}
	managed, connected, inside := 0, 0, 0
	for rep := 0; rep < reps; rep++ {
		name := fmt.Sprintf("readd2-%s-%d", id, rep)
		e.r.name = name
		_ = d.AddDevice(name, proto, models.Unlocked)
		waitConn(1, 3*time.Second)
		time.Sleep(30 * time.Millisecond) // negotiation and onConnect's SetReaderConfig are through
		g := &c15CloseGate{seen: make(chan struct{}, 1), release: make(chan struct{})}
		e.closeGate.Store(g)
		removed := make(chan struct{})
		go func() { _ = d.RemoveDevice(name, proto); close(removed) }()
		select {
		case <-g.seen:
			inside++
		case <-time.After(3 * time.Second):
		}
		called := make(chan struct{})
		go func() {
			switch api {
			case "update":
				_ = d.UpdateDevice(name, proto, models.Unlocked)
			case "cmd":
				_, _ = d.HandleReadCommands(name, proto, []dsModels.CommandRequest{{DeviceResourceName: ResourceReaderConfig, Type: "Object"}})
			default:
				_ = d.AddDevice(name, proto, models.Unlocked)
			}
			close(called)
		}()
		time.Sleep(60 * time.Millisecond)
		if rep%2 == 0 {
			close(g.release)
		}
		for _, ch := range []chan struct{}{removed, called} {
			select {
			case <-ch:
			case <-time.After(30 * time.Second):
			}
		}
		e.closeGate.Store(nil)
		if rep%2 == 1 {
			close(g.release)
		}
		// the old supervisor winds down; the new one (if any) connects at once or after its waits
		time.Sleep(c15QuickWait)
		if waitConn(1, 2*c15SlowWait+2*c15QuickWait+500*time.Millisecond) {
			connected++
		}
		d.devicesMu.RLock()
		_, ok := d.activeDevices[name]
		d.devicesMu.RUnlock()
		if ok {
			managed++
		}
		_ = d.RemoveDevice(name, proto)
		waitConn(0, 3*time.Second)
	}
	return fmt.Sprintf("managed=%d/%d connected=%d/%d maxconc=%d inside=%d", managed, reps, connected, reps, e.maxconc.Load(), inside)
}

// c15DialLog records the address of every dial attempt as the supervisor announces it (its Debug
// line carries the very addr.String() that is handed to the dialer next).
type c15DialLog struct {
	c15Logger
	mu    sync.Mutex
	dials []c15DialEntry
}

type c15DialEntry struct {
	at   time.Time
	addr string
}

func (l *c15DialLog) Debug(msg string, args ...interface{}) {
	if !strings.Contains(strings.ToLower(msg), "dial") {
		return
	}
	for i := 0; i+1 < len(args); i += 2 {
		if k, _ := args[i].(string); k == "address" {
			l.mu.Lock()
			l.dials = append(l.dials, c15DialEntry{time.Now(), fmt.Sprint(args[i+1])})
			l.mu.Unlock()
		}
	}
}

func (l *c15DialLog) since(t time.Time) []string {
	l.mu.Lock()
	defer l.mu.Unlock()
	var out []string
	for _, e := range l.dials {
		if e.at.After(t) {
			out = append(out, e.addr)
		}
	}
	return out
}

// c15SimpleReader accepts on l, completes the LLRP exchange on every connection, counts open ones.
func c15SimpleReader(l net.Listener, conc *atomic.Int64) {
	for {
		c, err := l.Accept()
		if err != nil {
			return
		}
		conc.Add(1)
		go func(c net.Conn) {
			defer conc.Add(-1)
			defer c.Close()
			c.Write(c15Frame(c15MsgReaderEventNotification, 1, c15ConnEvent(0, 1600000000000000)))
			for {
				typ, mid, _, err := c15ReadFrame(c)
				if err != nil {
					return
				}
				switch typ {
				case c15MsgGetSupportedVersion:
					c.Write(c15Frame(c15MsgGetSupportedVersionResp, mid, append([]byte{2 << 5, 2 << 5}, c15Status(0)...)))
				case c15MsgSetReaderConfig:
					c.Write(c15Frame(c15MsgSetReaderConfigResp, mid, c15Status(0)))
				case c15MsgGetReaderConfig:
					c.Write(c15Frame(c15MsgGetReaderConfigResp, mid, c15Status(0)))
				case c15MsgCloseConnection:
					c.Write(c15Frame(c15MsgCloseConnectionResponse, mid, c15Status(0)))
					time.Sleep(2 * time.Millisecond)
					return
				}
			}
		}(c)
	}
}

// c15RunAddr: an address change as EdgeX delivers it — Driver.UpdateDevice(name, protocols, adminState) —
// by KIND of change: "port" (other port), "ip4" (other IPv4 address), "mapped" (the IPv4-mapped IPv6
// spelling of the same endpoint), "zone" (IPv6 link-local, another zone; unreachable, the dials fail),
// "name" (a host name resolving to another address), "same" (the same address again); admin = locked /
// unlocked; state = "conn" (the device holds a connection to the old address), "backoff" (the old address
// refuses, the device sits in its back-offs), "new" (the name is not managed yet).
// Observed: the address the device has stored afterwards, the address of the NEXT dial attempt after
// UpdateDevice returned (from the supervisor's own announcement of each dial), and whether the new
// endpoint ends up holding a connection of the device.
// answer: "stored=<0|1> next=<new|old|other|none> reached=<0|1|->"
func c15RunAddr(id, kind, admin, state string) string {
	var concA, concB atomic.Int64
	la, err := net.Listen("tcp4", "127.0.0.1:0")
	if err != nil {
		return "!listen " + err.Error()
	}
	defer la.Close()
	portA := strconv.Itoa(la.Addr().(*net.TCPAddr).Port)
	hostB := "127.0.0.1"
	if kind == "ip4" || kind == "name" {
		hostB = "127.0.0.2"
	}
	lb, err := net.Listen("tcp4", hostB+":0")
	if err != nil {
		return "!listen " + err.Error()
	}
	defer lb.Close()
	portB := strconv.Itoa(lb.Addr().(*net.TCPAddr).Port)
	if state != "backoff" {
		go c15SimpleReader(la, &concA)
	} else {
		la.Close() // the old address refuses
	}
	go c15SimpleReader(lb, &concB)
	c15DNS.register("s"+id, func(label int) [4]byte { return [4]byte{127, 0, 0, 2} })
	defer c15DNS.unregister("s" + id)

	pm := func(host, port string) protocolMap { return protocolMap{"tcp": {"host": host, "port": port}} }
	oldP, newP := pm("127.0.0.1", portA), pm("127.0.0.1", portB)
	target := &concB
	switch kind {
	case "ip4":
		newP = pm("127.0.0.2", portB)
	case "name":
		newP = pm("s"+id+"-a1.c15.test.", portB)
	case "mapped":
		newP, target = pm("[::ffff:127.0.0.1]", portA), &concA
	case "same":
		newP, target = pm("127.0.0.1", portA), &concA
	case "zone":
		oldP, newP, target = pm("[fe80::1234%demo0]", portA), pm("[fe80::1234%demo1]", portA), nil
	}
	if state == "backoff" && target == &concA {
		target = nil // the endpoint refuses throughout: only the stored address and the next dial are observed
	}
	want, err := getAddr(newP)
	if err != nil {
		return "!getaddr " + err.Error()
	}
	oldAddr, _ := getAddr(oldP)
	r := &c15Run{id: id, name: "addr-" + id}
	lg := &c15DialLog{c15Logger: c15Logger{errs: &r.errLogs}}
	asyncCh := make(chan *dsModels.AsyncValues, 256)
	stopDrain := make(chan struct{})
	defer close(stopDrain)
	go func() {
		for {
			select {
			case <-asyncCh:
			case <-stopDrain:
				return
			}
		}
	}()
	d := &Driver{lc: lg, asyncCh: asyncCh, svc: &c15SDK{run: r},
		activeDevices: make(map[string]*LLRPDevice), done: make(chan struct{}), config: &ServiceConfig{}}
	defer func() { _ = d.RemoveDevice(r.name, nil) }()
	waitFor := func(f func() bool, dur time.Duration) bool {
		for dl := time.Now().Add(dur); time.Now().Before(dl); time.Sleep(time.Millisecond) {
			if f() {
				return true
			}
		}
		return f()
	}
	if state != "new" {
		_ = d.AddDevice(r.name, oldP, models.Unlocked)
		if state == "conn" && kind != "zone" {
			if !waitFor(func() bool { return concA.Load() == 1 }, 3*time.Second) {
				return "!noconn"
			}
			time.Sleep(30 * time.Millisecond)
		} else {
			// at least two failed attempts: the device sits in its back-offs
			if !waitFor(func() bool { return len(lg.since(time.Time{})) >= 2 }, 3*time.Second) {
				return "!nodial"
			}
		}
	}
	st := models.Unlocked
	if admin == "locked" {
		st = models.Locked
	}
	_ = d.UpdateDevice(r.name, newP, models.AdminState(st))
	t1 := time.Now()
	// the next attempt: at once (the connection is closed), or after the back-off the device sits in
	waitFor(func() bool { return len(lg.since(t1)) > 0 }, c15SlowWait+c15QuickWait+600*time.Millisecond)
	next := "none"
	if ds := lg.since(t1); len(ds) > 0 {
		switch {
		case ds[0] == want.String():
			next = "new"
		case oldAddr != nil && ds[0] == oldAddr.String():
			next = "old"
		default:
			next = "other"
		}
	}
	stored := 0
	d.devicesMu.RLock()
	dev := d.activeDevices[r.name]
	d.devicesMu.RUnlock()
	if dev != nil {
		dev.deviceMu.RLock()
		if dev.address != nil && dev.address.String() == want.String() && dev.address.Network() == want.Network() {
			stored = 1
		}
		dev.deviceMu.RUnlock()
	}
	reached := "-"
	if target != nil {
		reached = "0"
		if waitFor(func() bool { return target.Load() >= 1 }, 2*c15SlowWait+2*c15QuickWait+time.Second) {
			reached = "1"
		}
	}
	return fmt.Sprintf("stored=%d next=%s reached=%s", stored, next, reached)
}

// c15RunPend: a dial that is neither accepted nor refused when Stop arrives. The scripted reader
// listens with a full accept queue (listen backlog 0, the queue filled with connections of the
// harness itself, nobody calls accept): the kernel drops further SYNs, a dial hangs in SYN-SENT and
// retransmits after 1 s, 3 s. k attempts are refused first, the next one hangs; the device is
// stopped (how = "stop": LLRPDevice.Stop, "remove": Driver.RemoveDevice); then the reader starts
// accepting. Every connection accepted that is not one of the harness's own was established by the
// stopped device. The environment is probed first: if a dial to the full queue does not hang, the
// scenario is skipped ("skip:<why>"), never judged.
// answer: "late=<connections of the device established after Stop> fillers=<n> waited=<ms>"
func c15RunPend(id string, how string, k int) string {
	fd, err := syscall.Socket(syscall.AF_INET, syscall.SOCK_STREAM, 0)
	if err != nil {
		return "skip:socket"
	}
	closeFd := true
	defer func() {
		if closeFd {
			syscall.Close(fd)
		}
	}()
	if err := syscall.Bind(fd, &syscall.SockaddrInet4{Addr: [4]byte{127, 0, 0, 1}}); err != nil {
		return "skip:bind"
	}
	if err := syscall.Listen(fd, 0); err != nil {
		return "skip:listen"
	}
	sa, err := syscall.Getsockname(fd)
	if err != nil {
		return "skip:getsockname"
	}
	port := sa.(*syscall.SockaddrInet4).Port
	target := "127.0.0.1:" + strconv.Itoa(port)
	if rfd, err := c15ReservePort([4]byte{127, 0, 0, 2}, port); err == nil {
		defer syscall.Close(rfd)
	}
	// fill the accept queue until a further dial hangs
	var fillers []net.Conn
	defer func() {
		for _, c := range fillers {
			c.Close()
		}
	}()
	own := map[string]bool{}
	hangs := false
	for i := 0; i < 6 && !hangs; i++ {
		c, err := net.DialTimeout("tcp4", target, 300*time.Millisecond)
		if err == nil {
			fillers = append(fillers, c)
			own[c.LocalAddr().String()] = true
			continue
		}
		if ne, ok := err.(net.Error); ok && ne.Timeout() {
			hangs = true
		} else {
			return "skip:probe-not-hanging"
		}
	}
	if !hangs {
		return "skip:queue-never-full"
	}

	r := &c15Run{id: id, name: "pend-" + id}
	type lookup struct{ at time.Time }
	lookups := make(chan lookup, 16)
	var nq atomic.Int64
	c15DNS.register("s"+id, func(label int) [4]byte {
		n := nq.Add(1)
		lookups <- lookup{at: time.Now()}
		if int(n) <= k {
			return [4]byte{127, 0, 0, 2} // refused
		}
		return [4]byte{127, 0, 0, 1} // the full queue: the dial hangs
	})
	defer c15DNS.unregister("s" + id)
	asyncCh := make(chan *dsModels.AsyncValues, 256)
	stopDrain := make(chan struct{})
	defer close(stopDrain)
	go func() {
		for {
			select {
			case <-asyncCh:
			case <-stopDrain:
				return
			}
		}
	}()
	d := &Driver{lc: c15Logger{errs: &r.errLogs}, asyncCh: asyncCh, svc: &c15SDK{run: r},
		activeDevices: make(map[string]*LLRPDevice), done: make(chan struct{}), config: &ServiceConfig{}}
	dev := d.NewLLRPDevice(r.name, c15Addr(fmt.Sprintf("s%s-a0.c15.test.:%d", id, port)), models.Up)
	r.dev = dev
	d.devicesMu.Lock()
	d.activeDevices[r.name] = dev
	d.devicesMu.Unlock()
	for i := 0; i <= k; i++ {
		select {
		case <-lookups:
		case <-time.After(6 * time.Second):
			ctx, cancel := context.WithTimeout(context.Background(), 50*time.Millisecond)
			_ = dev.Stop(ctx)
			cancel()
			return "!nodial"
		}
	}
	time.Sleep(150 * time.Millisecond) // the SYN is out and has been dropped
	switch how {
	case "remove":
		_ = d.RemoveDevice(r.name, nil)
	default:
		ctx, cancel := context.WithTimeout(context.Background(), 50*time.Millisecond)
		_ = dev.Stop(ctx)
		cancel()
	}
	stopAt := time.Now()
	time.Sleep(20 * time.Millisecond)

	// the reader gets round to accepting
	f := os.NewFile(uintptr(fd), "c15-pend-listener")
	closeFd = false
	ln, err := net.FileListener(f)
	f.Close()
	if err != nil {
		return "skip:filelistener"
	}
	defer ln.Close()
	accepted := make(chan net.Conn, 16)
	go func() {
		for {
			c, err := ln.Accept()
			if err != nil {
				return
			}
			accepted <- c
		}
	}()
	late, seenOwn := 0, 0
	deadline := time.After(3400 * time.Millisecond) // SYN retransmissions 1 s and 3 s after the first
watch:
	for {
		select {
		case c := <-accepted:
			if own[c.RemoteAddr().String()] {
				seenOwn++
			} else {
				late++
			}
			c.Close()
			if late > 0 {
				break watch
			}
		case <-deadline:
			break watch
		}
	}
	if seenOwn != len(fillers) {
		return fmt.Sprintf("skip:own-connections-%d-of-%d", seenOwn, len(fillers))
	}
	return fmt.Sprintf("late=%d fillers=%d waited=%d", late, len(fillers), time.Since(stopAt).Milliseconds())
}

func TestVerifC15(t *testing.T) {
	lines, w, done := verifIO(t)
	defer done()
	c15InstallDNS()
	oldQ, oldS := retry.Quick, retry.Slow
	retry.Quick = retry.ExpBackOff{BackOff: c15QuickWait, Max: c15QuickWait, Jitter: false, KeepErrs: 10}
	retry.Slow = retry.ExpBackOff{BackOff: c15SlowWait, Max: c15SlowWait, Jitter: false, KeepErrs: 10}
	defer func() { retry.Quick, retry.Slow = oldQ, oldS }()

	par := 32
	if v, err := strconv.Atoi(strings.TrimSpace(getenvDefault("VERIF_C15_PAR", "32"))); err == nil && v > 0 {
		par = v
	}
	// answers are written as they come, "S <i>" when request i starts and "R <i> <answer>" when it
	// is done, so that a crash of the process can be attributed to the scripts then running
	var omu sync.Mutex
	emit := func(format string, a ...interface{}) {
		omu.Lock()
		fmt.Fprintf(w, format, a...)
		w.Flush()
		omu.Unlock()
	}
	sem := make(chan struct{}, par)
	var wg sync.WaitGroup
	for i, line := range lines {
		f := strings.Fields(line)
		if f[0] == "consts" {
			emit("R %d maxConnAttempts=%d maxSendAttempts=%d\n", i, maxConnAttempts, maxSendAttempts)
			continue
		}
		if len(f) < 2 {
			emit("R %d !badrequest\n", i)
			continue
		}
		wg.Add(1)
		sem <- struct{}{}
		go func(i int, f []string) {
			defer wg.Done()
			defer func() { <-sem }()
			emit("S %d\n", i)
			if f[1] == "addr" && len(f) == 5 {
				emit("R %d %s\n", i, c15RunAddr(f[0], f[2], f[3], f[4]))
				return
			}
			if f[1] == "readd2" && len(f) == 4 {
				reps, _ := strconv.Atoi(f[3])
				emit("R %d %s\n", i, c15RunReadd2(f[0], f[2], reps))
				return
			}
			if f[1] == "readd" && len(f) == 4 {
				reps, _ := strconv.Atoi(f[2])
				ms, _ := strconv.Atoi(f[3])
				emit("R %d %s\n", i, c15RunReadd(f[0], reps, time.Duration(ms)*time.Millisecond))
				return
			}
			if f[1] == "race" && len(f) == 4 {
				n, _ := strconv.Atoi(f[2])
				reps, _ := strconv.Atoi(f[3])
				emit("R %d %s\n", i, c15RunRace(f[0], n, reps))
				return
			}
			if f[1] == "hold" && len(f) >= 4 {
				emit("R %d %s\n", i, c15RunScript(f[0], f[2] == "1", f[3:]))
				return
			}
			if f[1] == "pend" && len(f) == 4 {
				k, _ := strconv.Atoi(f[3])
				emit("R %d %s\n", i, c15RunPend(f[0], f[2], k))
				return
			}
			if f[1] == "start" && len(f) == 4 {
				emit("R %d %s\n", i, c15RunStart(f[0], f[2] == "1", f[3]))
				return
			}
			emit("R %d %s\n", i, c15RunScript(f[0], f[1] == "1", f[2:]))
		}(i, f)
	}
	wg.Wait()
}

func getenvDefault(k, d string) string {
	if v, ok := syscall.Getenv(k); ok && v != "" {
		return v
	}
	return d
}
