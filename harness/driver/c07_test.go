//go:build verif

package driver

// C07 at the level of the device service — "acknowledgement does not wait for application traffic".
//
// The llrp.Client calls its message handlers from the read loop, so a handler that blocks stops the
// client from reading — and from acknowledging — every later keep-alive. The handlers the device
// service registers (NewLLRPDevice: ROAccessReport, ReaderEventNotification) forward to EdgeX through
// the driver's asynchronous-values channel; whether THAT path can hold the read loop is a property of
// internal/driver/device.go, not of pkg/llrp. This harness therefore runs a REAL LLRPDevice (made by
// Driver.NewLLRPDevice, i.e. with whatever handlers / options the driver wires up) against a scripted
// loopback reader, with the consumer of the asynchronous-values channel stalled / slow / keeping up,
// sends tag reports and reader events (more than the channel holds) and, in between, keep-alives:
// every keep-alive must be acknowledged exactly once with its id while the reader keeps reading.
//
// one request line (JSON):
//   {"id":..,"cap":n,"consumer":"stalled"|"slow"|"keeping-up","limit_ms":n,
//    "traffic":[{"k":"report","n":3,"payload":"empty"|"tags"},{"k":"event","n":2},{"k":"ka","id":7},{"k":"pause","ms":5}]}
// one answer line (JSON):
//   {"id":..,"setup":"ok"|..,"payload_ok":bool,"kas":[{"id":..,"acks":n,"ms":n,"pending_before":n}],
//    "stray_acks":[..],"sent_reports":n,"sent_events":n,"published":n}
//
// The reader builds and parses frames with its own code.

import (
	"context"
	"encoding/binary"
	"encoding/json"
	"io"
	"net"
	"sync"
	"sync/atomic"
	"testing"
	"time"

	"github.com/edgexfoundry/device-sdk-go/v4/pkg/interfaces"
	dsModels "github.com/edgexfoundry/device-sdk-go/v4/pkg/models"
	"github.com/edgexfoundry/go-mod-core-contracts/v4/clients/logger"
	"github.com/edgexfoundry/go-mod-core-contracts/v4/models"

	"github.com/edgexfoundry/device-rfid-llrp-go/pkg/llrp"
)

type c07SDK struct{ interfaces.DeviceServiceSDK }

func (c07SDK) UpdateDeviceOperatingState(string, models.OperatingState) error { return nil }

type c07Item struct {
	K       string `json:"k"`
	N       int    `json:"n"`
	ID      uint32 `json:"id"`
	Payload string `json:"payload"`
	Ms      int    `json:"ms"`
}

type c07Req struct {
	ID       string    `json:"id"`
	Cap      int       `json:"cap"`
	Consumer string    `json:"consumer"`
	LimitMs  int       `json:"limit_ms"`
	Traffic  []c07Item `json:"traffic"`
}

type c07KA struct {
	ID            uint32 `json:"id"`
	Acks          int    `json:"acks"`
	Ms            int64  `json:"ms"`
	PendingBefore int    `json:"pending_before"`
}

func c07Frame(ver, typ int, id uint32, payload []byte) []byte {
	b := make([]byte, 10, 10+len(payload))
	b[0] = byte(ver&7)<<2 | byte(typ>>8)&3
	b[1] = byte(typ)
	binary.BigEndian.PutUint32(b[2:6], uint32(10+len(payload)))
	binary.BigEndian.PutUint32(b[6:10], id)
	return append(b, payload...)
}

var c07StatusOK = []byte{0x01, 0x1F, 0x00, 0x08, 0, 0, 0, 0}

// ReaderEventNotificationData{UTCTimestamp, ConnectionAttemptEvent(success)}
var c07ConnEvent = []byte{0x00, 0xF6, 0x00, 0x16, 0x00, 0x80, 0x00, 0x0C, 0, 0x05, 0xa7, 0x38, 0x13, 0x3c, 0x2c, 0x9e, 0x01, 0x00, 0x00, 0x06, 0, 0}

// ReaderEventNotificationData{UTCTimestamp, GPIEvent(port 2, true)}
var c07GPIEvent = []byte{0x00, 0xF6, 0x00, 0x17, 0x00, 0x80, 0x00, 0x0C, 0, 0x05, 0xa7, 0x38, 0x13, 0x3c, 0x2c, 0x9f, 0x00, 0xF8, 0x00, 0x07, 0x00, 0x02, 0x80}

// TagReportData{EPC96}
var c07TagReport = []byte{0x00, 0xF0, 0x00, 0x11, 0x8D, 1, 2, 3, 4, 5, 6, 7, 8, 9, 10, 11, 12}

func c07Run(rq c07Req) map[string]interface{} {
	out := map[string]interface{}{"id": rq.ID}
	limit := 2 * time.Second
	if rq.LimitMs > 0 {
		limit = time.Duration(rq.LimitMs) * time.Millisecond
	}
	// does the library's own decoder accept the payloads used here? (otherwise the handlers return early)
	pok := (&llrp.ROAccessReport{}).UnmarshalBinary(c07TagReport) == nil &&
		(&llrp.ReaderEventNotification{}).UnmarshalBinary(c07GPIEvent) == nil &&
		(&llrp.ReaderEventNotification{}).UnmarshalBinary(c07ConnEvent) == nil
	out["payload_ok"] = pok

	ln, err := net.Listen("tcp", "127.0.0.1:0")
	if err != nil {
		out["setup"] = "listen: " + err.Error()
		return out
	}
	defer ln.Close()

	asyncCh := make(chan *dsModels.AsyncValues, rq.Cap)
	var published atomic.Int64
	var consume atomic.Int32 // 0 stalled, 1 slow, 2 as fast as possible
	switch rq.Consumer {
	case "slow":
		consume.Store(1)
	case "keeping-up":
		consume.Store(2)
	}
	stopConsumer := make(chan struct{})
	consumerDone := make(chan struct{})
	go func() {
		defer close(consumerDone)
		for {
			switch consume.Load() {
			case 0:
				select {
				case <-stopConsumer:
					return
				case <-time.After(time.Millisecond):
				}
				continue
			case 1:
				time.Sleep(15 * time.Millisecond)
			}
			select {
			case <-stopConsumer:
				return
			case <-asyncCh:
				published.Add(1)
			}
		}
	}()

	d := &Driver{lc: logger.MockLogger{}, asyncCh: asyncCh, svc: c07SDK{},
		activeDevices: make(map[string]*LLRPDevice), done: make(chan struct{}), config: &ServiceConfig{}}

	// ---- the scripted reader
	acks := make(chan uint32, 4096)
	setup := make(chan string, 1)
	var wmu sync.Mutex
	var conn net.Conn
	connCh := make(chan net.Conn, 1)
	go func() {
		c, err := ln.Accept()
		if err != nil {
			setup <- "accept: " + err.Error()
			return
		}
		connCh <- c
		write := func(b []byte) error {
			wmu.Lock()
			defer wmu.Unlock()
			_ = c.SetWriteDeadline(time.Now().Add(5 * time.Second))
			_, err := c.Write(b)
			return err
		}
		if err := write(c07Frame(2, 63, 0, c07ConnEvent)); err != nil {
			setup <- "first message: " + err.Error()
			return
		}
		hb := make([]byte, 10)
		for {
			if _, err := io.ReadFull(c, hb); err != nil {
				return
			}
			typ := int(hb[0]&3)<<8 | int(hb[1])
			lf := binary.BigEndian.Uint32(hb[2:6])
			id := binary.BigEndian.Uint32(hb[6:10])
			if lf < 10 || lf > 1<<20 {
				return
			}
			pl := make([]byte, lf-10)
			if _, err := io.ReadFull(c, pl); err != nil {
				return
			}
			switch typ {
			case 46: // GetSupportedVersion -> current 1.1, supported 1.1
				_ = write(c07Frame(2, 56, id, append([]byte{2 << 5, 2 << 5}, c07StatusOK...)))
			case 47: // SetProtocolVersion
				_ = write(c07Frame(2, 57, id, c07StatusOK))
			case 3: // SetReaderConfig (the device's own, after the connection event)
				_ = write(c07Frame(2, 13, id, c07StatusOK))
				select {
				case setup <- "ok":
				default:
				}
			case 14: // CloseConnection
				_ = write(c07Frame(2, 4, id, c07StatusOK))
			case 72:
				select {
				case acks <- id:
				default:
				}
			}
		}
	}()

	addr := ln.Addr()
	dev := d.NewLLRPDevice("c07dev", addr, models.Up)
	d.devicesMu.Lock()
	d.activeDevices["c07dev"] = dev
	d.devicesMu.Unlock()
	defer func() {
		// let everything parked on the channel go, then stop the device
		consume.Store(2)
		ctx, cancel := context.WithTimeout(context.Background(), time.Second)
		_ = dev.Stop(ctx)
		cancel()
		if conn != nil {
			_ = conn.Close()
		}
		time.Sleep(20 * time.Millisecond)
		close(stopConsumer)
		<-consumerDone
		out["published"] = published.Load()
	}()

	select {
	case conn = <-connCh:
	case <-time.After(5 * time.Second):
		out["setup"] = "the device did not dial"
		return out
	}
	select {
	case st := <-setup:
		out["setup"] = st
		if st != "ok" {
			return out
		}
	case <-time.After(5 * time.Second):
		out["setup"] = "no SetReaderConfig from the device"
		return out
	}
	time.Sleep(5 * time.Millisecond)

	send := func(b []byte) bool {
		wmu.Lock()
		defer wmu.Unlock()
		_ = conn.SetWriteDeadline(time.Now().Add(limit))
		_, err := conn.Write(b)
		return err == nil
	}
	got := map[uint32]int{}
	sentKA := map[uint32]bool{}
	var kas []c07KA
	nrep, nev := 0, 0
	failed := false
	nextID := uint32(5000)
	for _, it := range rq.Traffic {
		switch it.K {
		case "report":
			for i := 0; i < it.N; i++ {
				var pl []byte
				if it.Payload == "tags" {
					pl = c07TagReport
				}
				nextID++
				if !send(c07Frame(2, 61, nextID, pl)) {
					out["write_blocked"] = true
				}
				nrep++
			}
		case "event":
			for i := 0; i < it.N; i++ {
				nextID++
				if !send(c07Frame(2, 63, nextID, c07GPIEvent)) {
					out["write_blocked"] = true
				}
				nev++
			}
		case "pause":
			time.Sleep(time.Duration(it.Ms) * time.Millisecond)
		case "ka":
			pending := 0
			for _, k := range kas {
				if k.Acks == 0 {
					pending++
				}
			}
			t0 := time.Now()
			sentKA[it.ID] = true
			if !send(c07Frame(2, 62, it.ID, nil)) {
				out["write_blocked"] = true
			}
			lim := limit
			if failed { // once one acknowledgement is missing the rest is not waited for at length
				lim = 150 * time.Millisecond
			}
			deadline := time.After(lim)
		wait:
			for got[it.ID] == 0 {
				select {
				case id := <-acks:
					got[id]++
				case <-deadline:
					break wait
				}
			}
			if got[it.ID] == 0 {
				failed = true
			}
			kas = append(kas, c07KA{ID: it.ID, Acks: got[it.ID], Ms: time.Since(t0).Milliseconds(), PendingBefore: pending})
		}
	}
	// late / duplicate acknowledgements
	time.Sleep(20 * time.Millisecond)
	for {
		select {
		case id := <-acks:
			got[id]++
			continue
		default:
		}
		break
	}
	stray := []uint32{}
	for i := range kas {
		kas[i].Acks = got[kas[i].ID]
	}
	for id, n := range got {
		if !sentKA[id] {
			for j := 0; j < n; j++ {
				stray = append(stray, id)
			}
		}
	}
	out["kas"] = kas
	out["stray_acks"] = stray
	out["sent_reports"] = nrep
	out["sent_events"] = nev
	return out
}

func TestVerifC07Driver(t *testing.T) {
	lines, w, done := verifIO(t)
	defer done()
	enc := json.NewEncoder(w)
	for _, line := range lines {
		var rq c07Req
		if err := json.Unmarshal([]byte(line), &rq); err != nil {
			_ = enc.Encode(map[string]interface{}{"error": "bad request: " + err.Error()})
			continue
		}
		res := make(chan map[string]interface{}, 1)
		go func() { res <- c07Run(rq) }()
		select {
		case o := <-res:
			_ = enc.Encode(o)
		case <-time.After(60 * time.Second):
			_ = enc.Encode(map[string]interface{}{"id": rq.ID, "setup": "watchdog"})
		}
		w.Flush()
	}
}
