//go:build verif

package driver

// C07 at the level of the device service — "acknowledgement does not wait for application traffic".
//
// The llrp.Client calls its message handlers from the read loop, so a handler that blocks stops the
// client from reading — and from acknowledging — every later keep-alive. The handlers the device
// service registers (NewLLRPDevice: ROAccessReport, ReaderEventNotification) forward to EdgeX through
// the driver's asynchronous-values channel; whether THAT path can hold the read loop is a property of
// internal/driver/device.go, not of pkg/llrp. This harness therefore runs a REAL LLRPDevice (made by
// Driver.NewLLRPDevice, i.e. with whatever handlers / options the driver wires up) against a scripted
// loopback reader, with the consumer of the asynchronous-values channel stalled / slow / keeping up,
// sends tag reports and reader events (more than the channel holds) and, in between, keep-alives:
// every keep-alive must be acknowledged exactly once with its id while the reader keeps reading.
//
// one request line (JSON):
//   {"id":..,"cap":n,"consumer":"stalled"|"slow"|"keeping-up","limit_ms":n,
//    "op_state":"up"|"down",                   the operating state EdgeX has recorded for the device when it is created
//    "sdk":""|"slow"|"fail"|"hang",            how UpdateDeviceOperatingState behaves (hang: until the traffic of phase c is over)
//    "negotiate":"direct"|"two-step",          GetSupportedVersionResponse says current = 1.1 / current = 1.0.1 (SetProtocolVersion follows)
//    "traffic_a":[..],                         sent when GetSupportedVersion has arrived, BEFORE it is answered
//    "traffic_b":[..],                         two-step: sent when SetProtocolVersion has arrived, before it is answered
//    "traffic_c":[..],                         sent right after the negotiation replies, before the device's SetReaderConfig is awaited
//    "traffic":[..]}                           sent after SetReaderConfig was answered
//   traffic items: {"k":"report","n":3,"payload":"empty"|"tags"}, {"k":"event","n":2,"kind":"gpi"|"hopping"|..,"uptime":bool},
//                  {"k":"ka","id":7}, {"k":"pause","ms":5}
// one answer line (JSON):
//   {"id":..,"setup":"ok"|..,"payload_ok":bool,"kas":[{"id":..,"acks":n,"ms":n,"pending_before":n,"phase":"a|b|c|main","late":bool}],
//    "stray_acks":[..],"sent_reports":n,"sent_events":n,"published":n,"sdk_calls":n}
//
// The reader builds and parses frames with its own code.

import (
	"context"
	"encoding/binary"
	"encoding/json"
	"errors"
	"io"
	"net"
	"sync"
	"sync/atomic"
	"testing"
	"time"

	"github.com/edgexfoundry/device-sdk-go/v4/pkg/interfaces"
	dsModels "github.com/edgexfoundry/device-sdk-go/v4/pkg/models"
	"github.com/edgexfoundry/go-mod-core-contracts/v4/clients/logger"
	"github.com/edgexfoundry/go-mod-core-contracts/v4/models"

	"github.com/edgexfoundry/device-rfid-llrp-go/pkg/llrp"
)

type c07SDK struct {
	interfaces.DeviceServiceSDK
	mode    string
	release chan struct{}
	calls   *atomic.Int64
}

func (k c07SDK) UpdateDeviceOperatingState(string, models.OperatingState) error {
	k.calls.Add(1)
	switch k.mode {
	case "slow":
		time.Sleep(300 * time.Millisecond)
	case "fail":
		return errors.New("verif: core-metadata unavailable")
	case "hang":
		select {
		case <-k.release:
		case <-time.After(20 * time.Second):
		}
	}
	return nil
}

type c07Item struct {
	K       string `json:"k"`
	N       int    `json:"n"`
	ID      uint32 `json:"id"`
	Payload string `json:"payload"`
	Kind    string `json:"kind"`
	Uptime  bool   `json:"uptime"`
	Ms      int    `json:"ms"`
}

type c07Req struct {
	ID        string    `json:"id"`
	Cap       int       `json:"cap"`
	Consumer  string    `json:"consumer"`
	LimitMs   int       `json:"limit_ms"`
	OpState   string    `json:"op_state"`
	SDK       string    `json:"sdk"`
	Negotiate string    `json:"negotiate"`
	TrafficA  []c07Item `json:"traffic_a"`
	TrafficB  []c07Item `json:"traffic_b"`
	TrafficC  []c07Item `json:"traffic_c"`
	Traffic   []c07Item `json:"traffic"`
}

type c07KA struct {
	ID            uint32 `json:"id"`
	Acks          int    `json:"acks"`
	Ms            int64  `json:"ms"`
	PendingBefore int    `json:"pending_before"`
	Phase         string `json:"phase"`
	Late          bool   `json:"late"` // not acknowledged within the limit (an acknowledgement counted in acks came later)
}

func c07Frame(ver, typ int, id uint32, payload []byte) []byte {
	b := make([]byte, 10, 10+len(payload))
	b[0] = byte(ver&7)<<2 | byte(typ>>8)&3
	b[1] = byte(typ)
	binary.BigEndian.PutUint32(b[2:6], uint32(10+len(payload)))
	binary.BigEndian.PutUint32(b[6:10], id)
	return append(b, payload...)
}

var c07StatusOK = []byte{0x01, 0x1F, 0x00, 0x08, 0, 0, 0, 0}

// the event parameters a ReaderEventNotificationData can carry (LLRP 1.1 section 16.2.7.6), each encoded by hand
var c07EventParams = map[string][]byte{
	"hopping":   {0x00, 0xF7, 0x00, 0x08, 0x00, 0x01, 0x00, 0x02},
	"gpi":       {0x00, 0xF8, 0x00, 0x07, 0x00, 0x02, 0x80},
	"rospec":    {0x00, 0xF9, 0x00, 0x0D, 0x00, 0, 0, 0, 1, 0, 0, 0, 0},
	"buflevel":  {0x00, 0xFA, 0x00, 0x05, 90},
	"bufover":   {0x00, 0xFB, 0x00, 0x04},
	"exception": {0x00, 0xFC, 0x00, 0x09, 0x00, 0x03, 'e', 'r', 'r'},
	"rfsurvey":  {0x00, 0xFD, 0x00, 0x0B, 0x00, 0, 0, 0, 1, 0, 1},
	"aispec":    {0x00, 0xFE, 0x00, 0x0B, 0x00, 0, 0, 0, 1, 0, 1},
	"antenna":   {0x00, 0xFF, 0x00, 0x07, 0x01, 0x00, 0x03},
	"connfail":  {0x01, 0x00, 0x00, 0x06, 0, 1}, // ConnectionAttemptEvent: failed, a reader-initiated connection exists
	"connok":    {0x01, 0x00, 0x00, 0x06, 0, 0}, // ConnectionAttemptEvent: success (mid-stream)
	"connclose": {0x01, 0x01, 0x00, 0x04},
	"specloop":  {0x01, 0x64, 0x00, 0x0C, 0, 0, 0, 1, 0, 0, 0, 2},
	"none":      {},
}

// ReaderEventNotificationData{UTCTimestamp | Uptime, <event parameter>}
func c07Event(kind string, uptime bool) []byte {
	ts := []byte{0x00, 0x80, 0x00, 0x0C, 0, 0x05, 0xa7, 0x38, 0x13, 0x3c, 0x2c, 0x9f}
	if uptime {
		ts = []byte{0x00, 0x81, 0x00, 0x0C, 0, 0, 0, 0, 0x00, 0x4c, 0x4b, 0x40}
	}
	p, ok := c07EventParams[kind]
	if !ok {
		p = c07EventParams["gpi"]
	}
	body := append(append([]byte{}, ts...), p...)
	return append([]byte{0x00, 0xF6, byte((len(body) + 4) >> 8), byte(len(body) + 4)}, body...)
}

// TagReportData{EPC96}
var c07TagReport = []byte{0x00, 0xF0, 0x00, 0x11, 0x8D, 1, 2, 3, 4, 5, 6, 7, 8, 9, 10, 11, 12}

type c07In struct { // a request of the device the reader has to answer
	typ int
	id  uint32
}

func c07Run(rq c07Req) map[string]interface{} {
	out := map[string]interface{}{"id": rq.ID}
	limit := 2 * time.Second
	if rq.LimitMs > 0 {
		limit = time.Duration(rq.LimitMs) * time.Millisecond
	}
	// does the library's own decoder accept the payloads used here? (otherwise the handlers return early)
	pok := (&llrp.ROAccessReport{}).UnmarshalBinary(c07TagReport) == nil
	for k := range c07EventParams {
		for _, up := range []bool{false, true} {
			if (&llrp.ReaderEventNotification{}).UnmarshalBinary(c07Event(k, up)) != nil {
				pok = false
			}
		}
	}
	out["payload_ok"] = pok

	ln, err := net.Listen("tcp", "127.0.0.1:0")
	if err != nil {
		out["setup"] = "listen: " + err.Error()
		return out
	}
	defer ln.Close()

	asyncCh := make(chan *dsModels.AsyncValues, rq.Cap)
	var published atomic.Int64
	var consume atomic.Int32 // 0 stalled, 1 slow, 2 as fast as possible
	switch rq.Consumer {
	case "slow":
		consume.Store(1)
	case "keeping-up":
		consume.Store(2)
	}
	stopConsumer := make(chan struct{})
	consumerDone := make(chan struct{})
	go func() {
		defer close(consumerDone)
		for {
			switch consume.Load() {
			case 0:
				select {
				case <-stopConsumer:
					return
				case <-time.After(time.Millisecond):
				}
				continue
			case 1:
				time.Sleep(15 * time.Millisecond)
			}
			select {
			case <-stopConsumer:
				return
			case <-asyncCh:
				published.Add(1)
			}
		}
	}()

	var sdkCalls atomic.Int64
	sdkRelease := make(chan struct{})
	var releaseOnce sync.Once
	releaseSDK := func() { releaseOnce.Do(func() { close(sdkRelease) }) }
	d := &Driver{lc: logger.MockLogger{}, asyncCh: asyncCh, svc: c07SDK{mode: rq.SDK, release: sdkRelease, calls: &sdkCalls},
		activeDevices: make(map[string]*LLRPDevice), done: make(chan struct{}), config: &ServiceConfig{}}

	// ---- the scripted reader: one goroutine reads whatever the device writes and sorts it; this function writes
	acks := make(chan uint32, 4096)
	reqs := make(chan c07In, 64)
	var wmu sync.Mutex
	var conn net.Conn
	connCh := make(chan net.Conn, 1)
	go func() {
		c, err := ln.Accept()
		if err != nil {
			return
		}
		connCh <- c
		hb := make([]byte, 10)
		for {
			if _, err := io.ReadFull(c, hb); err != nil {
				return
			}
			typ := int(hb[0]&3)<<8 | int(hb[1])
			lf := binary.BigEndian.Uint32(hb[2:6])
			id := binary.BigEndian.Uint32(hb[6:10])
			if lf < 10 || lf > 1<<20 {
				return
			}
			pl := make([]byte, lf-10)
			if _, err := io.ReadFull(c, pl); err != nil {
				return
			}
			if typ == 72 {
				select {
				case acks <- id:
				default:
				}
				continue
			}
			select {
			case reqs <- c07In{typ, id}:
			default:
			}
		}
	}()

	var opState models.OperatingState = models.Up
	if rq.OpState == "down" {
		opState = models.Down
	}
	dev := d.NewLLRPDevice("c07dev", ln.Addr(), opState)
	d.devicesMu.Lock()
	d.activeDevices["c07dev"] = dev
	d.devicesMu.Unlock()
	defer func() {
		// let everything parked go, then stop the device
		releaseSDK()
		consume.Store(2)
		stopA := make(chan struct{})
		go func() { // the reader answers the CloseConnection of Stop (and whatever else is still asked)
			for {
				select {
				case in := <-reqs:
					if conn != nil {
						wmu.Lock()
						_ = conn.SetWriteDeadline(time.Now().Add(time.Second))
						if in.typ == 14 {
							_, _ = conn.Write(c07Frame(2, 4, in.id, c07StatusOK))
						} else if in.typ < 50 {
							_, _ = conn.Write(c07Frame(2, in.typ+10, in.id, c07StatusOK))
						}
						wmu.Unlock()
					}
				case <-stopA:
					return
				}
			}
		}()
		ctx, cancel := context.WithTimeout(context.Background(), time.Second)
		_ = dev.Stop(ctx)
		cancel()
		close(stopA)
		if conn != nil {
			_ = conn.Close()
		}
		time.Sleep(20 * time.Millisecond)
		close(stopConsumer)
		<-consumerDone
		out["published"] = published.Load()
		out["sdk_calls"] = sdkCalls.Load()
	}()

	select {
	case conn = <-connCh:
	case <-time.After(5 * time.Second):
		out["setup"] = "the device did not dial"
		return out
	}
	send := func(b []byte) bool {
		wmu.Lock()
		defer wmu.Unlock()
		_ = conn.SetWriteDeadline(time.Now().Add(limit))
		_, err := conn.Write(b)
		return err == nil
	}
	// wait for a request of the given type from the device; other requests seen meanwhile are answered generically
	answer := func(in c07In) {
		switch in.typ {
		case 14: // CloseConnection
			send(c07Frame(2, 4, in.id, c07StatusOK))
		case 60: // GetReport has no response
		default:
			if in.typ < 50 { // a request: <type+10>Response with LLRPStatus success
				send(c07Frame(2, in.typ+10, in.id, c07StatusOK))
			}
		}
	}
	await := func(typ int, d time.Duration) (c07In, bool) {
		dl := time.After(d)
		for {
			select {
			case in := <-reqs:
				if in.typ == typ {
					return in, true
				}
				answer(in)
			case <-dl:
				return c07In{}, false
			}
		}
	}

	got := map[uint32]int{}
	sentKA := map[uint32]bool{}
	var kas []c07KA
	nrep, nev := 0, 0
	failed := false
	nextID := uint32(5000)
	run := func(items []c07Item, phase string) {
		for _, it := range items {
			switch it.K {
			case "report":
				for i := 0; i < it.N; i++ {
					var pl []byte
					if it.Payload == "tags" {
						pl = c07TagReport
					}
					nextID++
					if !send(c07Frame(2, 61, nextID, pl)) {
						out["write_blocked"] = true
					}
					nrep++
				}
			case "event":
				n := it.N
				if n == 0 {
					n = 1
				}
				for i := 0; i < n; i++ {
					nextID++
					if !send(c07Frame(2, 63, nextID, c07Event(it.Kind, it.Uptime))) {
						out["write_blocked"] = true
					}
					nev++
				}
			case "pause":
				time.Sleep(time.Duration(it.Ms) * time.Millisecond)
			case "ka":
				pending := 0
				for _, k := range kas {
					if k.Acks == 0 {
						pending++
					}
				}
				t0 := time.Now()
				sentKA[it.ID] = true
				if !send(c07Frame(2, 62, it.ID, nil)) {
					out["write_blocked"] = true
				}
				lim := limit
				if failed { // once one acknowledgement is missing the rest is not waited for at length
					lim = 150 * time.Millisecond
				}
				deadline := time.After(lim)
			wait:
				for got[it.ID] == 0 {
					select {
					case id := <-acks:
						got[id]++
					case <-deadline:
						break wait
					}
				}
				if got[it.ID] == 0 {
					failed = true
				}
				kas = append(kas, c07KA{ID: it.ID, Acks: got[it.ID], Ms: time.Since(t0).Milliseconds(), PendingBefore: pending, Phase: phase,
					Late: got[it.ID] == 0})
			}
		}
	}
	finish := func() {
		time.Sleep(20 * time.Millisecond) // late / duplicate acknowledgements
		for {
			select {
			case id := <-acks:
				got[id]++
				continue
			default:
			}
			break
		}
		stray := []uint32{}
		for i := range kas {
			kas[i].Acks = got[kas[i].ID]
		}
		for id, n := range got {
			if !sentKA[id] {
				for j := 0; j < n; j++ {
					stray = append(stray, id)
				}
			}
		}
		out["kas"] = kas
		out["stray_acks"] = stray
		out["sent_reports"] = nrep
		out["sent_events"] = nev
	}
	defer finish()

	// ---- connection set-up, with traffic at every stage of it
	if !send(c07Frame(2, 63, 0, c07Event("connok", false))) {
		out["setup"] = "first message not taken"
		return out
	}
	in, ok := await(46, 5*time.Second)
	if !ok {
		out["setup"] = "no GetSupportedVersion from the device"
		return out
	}
	run(rq.TrafficA, "a")
	if rq.Negotiate == "two-step" {
		send(c07Frame(2, 56, in.id, append([]byte{1 << 5, 2 << 5}, c07StatusOK...)))
		in, ok = await(47, 3*time.Second)
		if !ok {
			out["setup"] = "no SetProtocolVersion from the device"
			return out
		}
		run(rq.TrafficB, "b")
		send(c07Frame(2, 57, in.id, c07StatusOK))
	} else {
		send(c07Frame(2, 56, in.id, append([]byte{2 << 5, 2 << 5}, c07StatusOK...)))
	}
	run(rq.TrafficC, "c")
	releaseSDK()
	in, ok = await(3, 5*time.Second)
	if !ok {
		out["setup"] = "no SetReaderConfig from the device"
		return out
	}
	send(c07Frame(2, 13, in.id, c07StatusOK))
	out["setup"] = "ok"
	time.Sleep(5 * time.Millisecond)
	// whatever else the device asks for while the traffic runs is answered by a helper
	stopAns := make(chan struct{})
	ansDone := make(chan struct{})
	go func() {
		defer close(ansDone)
		for {
			select {
			case in := <-reqs:
				answer(in)
			case <-stopAns:
				return
			}
		}
	}()
	run(rq.Traffic, "main")
	close(stopAns)
	<-ansDone
	return out
}

func TestVerifC07Driver(t *testing.T) {
	lines, w, done := verifIO(t)
	defer done()
	enc := json.NewEncoder(w)
	for _, line := range lines {
		var rq c07Req
		if err := json.Unmarshal([]byte(line), &rq); err != nil {
			_ = enc.Encode(map[string]interface{}{"error": "bad request: " + err.Error()})
			continue
		}
		res := make(chan map[string]interface{}, 1)
		go func() { res <- c07Run(rq) }()
		select {
		case o := <-res:
			_ = enc.Encode(o)
		case <-time.After(60 * time.Second):
			_ = enc.Encode(map[string]interface{}{"id": rq.ID, "setup": "watchdog"})
		}
		w.Flush()
	}
}
