//go:build verif

package driver

// C14 harness: drives the REAL Driver.HandleReadCommands / HandleWriteCommands (and through them
// getDevice -> NewLLRPDevice -> llrp.Client -> TrySend) against a scripted LLRP reader on a
// loopback socket. The reader below frames and answers messages with its own code (nothing from
// pkg/llrp); it only records (message type, payload bytes) of what it received. All decoding of
// payloads (IDs, KeepAliveSpec, TLVs) is done by checks/c14.py on the hex it gets from here.

import (
	"context"
	"encoding/binary"
	"encoding/hex"
	"encoding/json"
	"fmt"
	"io"
	"net"
	"reflect"
	"strconv"
	"sync"
	"testing"
	"time"

	"github.com/edgexfoundry/device-sdk-go/v4/pkg/interfaces/mocks"
	dsModels "github.com/edgexfoundry/device-sdk-go/v4/pkg/models"
	"github.com/edgexfoundry/go-mod-core-contracts/v4/clients/logger"
	"github.com/stretchr/testify/mock"

	"github.com/edgexfoundry/device-rfid-llrp-go/pkg/llrp"
)

const (
	c14FenceVendor  = 0xFEEDFACE
	c14FenceSubtype = 0xFE
)

type c14Frame struct {
	T uint16 `json:"t"`
	P string `json:"p"`
}

type c14Reader struct {
	ln     net.Listener
	mu     sync.Mutex
	frames []c14Frame
	conn   net.Conn
	conns  int
	fault  string   // how the next command's requests are answered: "", "status", "errmsg", "wrongtype", "garbage"
	silent net.Conn // the connection on which the reader has stopped answering (a dead peer that keeps the socket open)
}

var c14StatusOK = []byte{0x01, 0x1F, 0x00, 0x08, 0x00, 0x00, 0x00, 0x00}

func c14WriteFrame(conn net.Conn, ver uint8, typ uint16, id uint32, payload []byte) error {
	buf := make([]byte, 10+len(payload))
	binary.BigEndian.PutUint16(buf[0:], uint16(ver&7)<<10|typ&0x3FF)
	binary.BigEndian.PutUint32(buf[2:], uint32(10+len(payload)))
	binary.BigEndian.PutUint32(buf[6:], id)
	copy(buf[10:], payload)
	_, err := conn.Write(buf)
	return err
}

func newC14Reader(t *testing.T) *c14Reader {
	ln, err := net.Listen("tcp", "127.0.0.1:0")
	if err != nil {
		t.Fatal(err)
	}
	r := &c14Reader{ln: ln}
	go func() {
		for {
			conn, err := ln.Accept()
			if err != nil {
				return
			}
			r.mu.Lock()
			r.conn = conn
			r.conns++
			r.mu.Unlock()
			go r.serve(conn)
		}
	}()
	return r
}

func (r *c14Reader) serve(conn net.Conn) {
	defer conn.Close()
	// ReaderEventNotification (63): ReaderEventNotificationData(246){UTCTimestamp(128), ConnectionAttemptEvent(256)=Success}
	ren := []byte{0x00, 0xF6, 0x00, 0x16,
		0x00, 0x80, 0x00, 0x0C, 0, 5, 0xE0, 0, 0, 0, 0, 1,
		0x01, 0x00, 0x00, 0x06, 0x00, 0x00}
	if c14WriteFrame(conn, 1, 63, 1, ren) != nil {
		return
	}
	hdr := make([]byte, 10)
	for {
		if _, err := io.ReadFull(conn, hdr); err != nil {
			return
		}
		w := binary.BigEndian.Uint16(hdr[0:])
		ver, typ := uint8(w>>10&7), w&0x3FF
		ln := binary.BigEndian.Uint32(hdr[2:])
		id := binary.BigEndian.Uint32(hdr[6:])
		if ln < 10 || ln > 1<<24 {
			return
		}
		payload := make([]byte, ln-10)
		if _, err := io.ReadFull(conn, payload); err != nil {
			return
		}
		r.mu.Lock()
		mute := r.silent == conn
		r.mu.Unlock()
		if mute {
			continue
		}
		isFence := typ == 1023 && len(payload) >= 5 &&
			binary.BigEndian.Uint32(payload) == c14FenceVendor && payload[4] == c14FenceSubtype
		if !isFence && typ != 46 && typ != 47 && typ != 14 && typ != 72 {
			r.mu.Lock()
			r.frames = append(r.frames, c14Frame{T: typ, P: hex.EncodeToString(payload)})
			r.mu.Unlock()
		}
		r.mu.Lock()
		fault := r.fault
		r.mu.Unlock()
		if fault != "" && !isFence && typ != 46 && typ != 47 && typ != 14 && typ != 72 {
			// answer with a fault, the connection stays up
			statusErr := []byte{0x01, 0x1F, 0x00, 0x08, 0x00, 0x65, 0x00, 0x00} // LLRPStatus M_FieldError
			rtyp := typ + 10
			if typ == 1023 {
				rtyp = 1023
			}
			var ferr error
			switch {
			case fault == "status" && typ != 1023:
				ferr = c14WriteFrame(conn, ver, rtyp, id, statusErr)
			case fault == "wrongtype":
				wt := uint16(11)
				if rtyp == 11 {
					wt = 12
				}
				ferr = c14WriteFrame(conn, ver, wt, id, c14StatusOK)
			case fault == "garbage":
				ferr = c14WriteFrame(conn, ver, rtyp, id, []byte{0xFF, 0xFF, 0xFF})
			default: // "errmsg" (and "status" for CustomMessage, whose reply has no LLRPStatus): ERROR_MESSAGE
				ferr = c14WriteFrame(conn, ver, 100, id, []byte{0x01, 0x1F, 0x00, 0x08, 0x00, 0x6D, 0x00, 0x00})
			}
			if ferr != nil {
				return
			}
			continue
		}
		var err error
		switch {
		case typ == 46: // GetSupportedVersion -> current 1.0.1, max 1.0.1
			err = c14WriteFrame(conn, ver, 56, id, append([]byte{1, 1}, c14StatusOK...))
		case typ == 47:
			err = c14WriteFrame(conn, ver, 57, id, c14StatusOK)
		case typ == 14: // CloseConnection
			_ = c14WriteFrame(conn, ver, 4, id, c14StatusOK)
			return
		case typ == 72: // KeepAliveAck: no reply
		case typ == 1023:
			err = c14WriteFrame(conn, ver, 1023, id, payload)
		case typ >= 1 && typ <= 3, typ >= 20 && typ <= 26, typ >= 40 && typ <= 44:
			err = c14WriteFrame(conn, ver, typ+10, id, c14StatusOK)
		default: // ErrorMessage, M_UnsupportedMessage
			err = c14WriteFrame(conn, ver, 100, id, []byte{0x01, 0x1F, 0x00, 0x08, 0x00, 0x6D, 0x00, 0x00})
		}
		if err != nil {
			return
		}
	}
}

func (r *c14Reader) take() []c14Frame {
	r.mu.Lock()
	defer r.mu.Unlock()
	f := r.frames
	r.frames = nil
	if f == nil {
		f = []c14Frame{}
	}
	return f
}

func (r *c14Reader) count(typ uint16) int {
	r.mu.Lock()
	defer r.mu.Unlock()
	n := 0
	for _, f := range r.frames {
		if f.T == typ {
			n++
		}
	}
	return n
}

type c14Attr struct {
	S *string  `json:"s"`
	I *int64   `json:"i"`
	F *float64 `json:"f"`
}

type c14Req struct {
	N string             `json:"n"`
	T string             `json:"t"`
	A map[string]c14Attr `json:"a"`
}

type c14Val struct {
	K string          `json:"k"`
	S string          `json:"s"`
	U uint64          `json:"u"`
	I int64           `json:"i"`
	J json.RawMessage `json:"j"`
}

type c14Param struct {
	N string `json:"n"`
	T string `json:"t"`
	V c14Val `json:"v"`
}

type c14Case struct {
	K      string     `json:"k"` // "init", "r", "w", "reconnect"
	Reqs   []c14Req   `json:"reqs"`
	Params []c14Param `json:"params"`
	Fault  string     `json:"fault"`
}

type c14Answer struct {
	Panic    bool       `json:"panic"`
	PanicMsg string     `json:"panic_msg,omitempty"`
	Err      bool       `json:"err"`
	NVals    int        `json:"nvals"`
	Frames   []c14Frame `json:"frames"`
	Fence    bool       `json:"fence"`
	Consts   *c14Consts `json:"consts,omitempty"`
	Note     string     `json:"note,omitempty"`
	Conn     int        `json:"conn"`
	Elapsed  int64      `json:"elapsed_ms,omitempty"`
}

type c14Consts struct {
	KeepAliveIntervalMs int64 `json:"keep_alive_interval_ms"`
	MaxMissedKAs        int64 `json:"max_missed_kas"`
	ClientTimeoutMs     int64 `json:"client_timeout_ms"`
	SendTimeoutMs       int64 `json:"send_timeout_ms"`
}

func c14Value(v c14Val) (interface{}, error) {
	switch v.K {
	case "str":
		return v.S, nil
	case "u32":
		return uint32(v.U), nil
	case "u64":
		return v.U, nil
	case "u16":
		return uint16(v.U), nil
	case "i32":
		return int32(v.I), nil
	case "i64":
		return v.I, nil
	case "int":
		return int(v.I), nil
	case "f64":
		return float64(v.I), nil
	case "bool":
		return v.I != 0, nil
	case "bytes":
		return []byte(v.S), nil
	case "nil":
		return nil, nil
	case "chan": // json.Marshal fails on it
		return make(chan int), nil
	case "json":
		var x interface{}
		if err := json.Unmarshal(v.J, &x); err != nil {
			return nil, err
		}
		return x, nil
	}
	return nil, fmt.Errorf("unknown value kind %q", v.K)
}

// dumpConsts reads the constants and the options of the device's CURRENT llrp.Client from the running code
func dumpConsts(dev *LLRPDevice) *c14Consts {
	dev.clientLock.RLock()
	cl := dev.client
	dev.clientLock.RUnlock()
	k := &c14Consts{
		KeepAliveIntervalMs: keepAliveInterval.Milliseconds(),
		MaxMissedKAs:        int64(maxMissedKAs),
		ClientTimeoutMs:     -1,
		SendTimeoutMs:       sendTimeout.Milliseconds(),
	}
	if cl != nil {
		k.ClientTimeoutMs = time.Duration(reflect.ValueOf(cl).Elem().FieldByName("timeout").Int()).Milliseconds()
	}
	return k
}

// c14Prepare turns a case line into the SDK-level arguments of the call (done before any barrier: building the
// parameter values of large documents takes time)
func c14Prepare(c c14Case) (reqs []dsModels.CommandRequest, params []*dsModels.CommandValue, note string) {
	reqs = make([]dsModels.CommandRequest, len(c.Reqs))
	for i, r := range c.Reqs {
		var attrs map[string]interface{}
		if r.A != nil {
			attrs = map[string]interface{}{}
			for k, a := range r.A {
				switch {
				case a.S != nil:
					attrs[k] = *a.S
				case a.I != nil:
					attrs[k] = int(*a.I)
				case a.F != nil:
					attrs[k] = *a.F
				default:
					attrs[k] = nil
				}
			}
		}
		reqs[i] = dsModels.CommandRequest{DeviceResourceName: r.N, Type: r.T, Attributes: attrs}
	}
	if c.K == "r" {
		return
	}
	params = make([]*dsModels.CommandValue, len(c.Params))
	for i, p := range c.Params {
		v, err := c14Value(p.V)
		if err != nil {
			note = "harness: " + err.Error()
		}
		params[i] = &dsModels.CommandValue{DeviceResourceName: p.N, Type: p.T, Value: v, Tags: map[string]string{}}
	}
	return
}

// c14Call issues one prepared command through the Driver's exported entry points, under recover
func c14Call(d *Driver, devName string, proto protocolMap, kind string, reqs []dsModels.CommandRequest, params []*dsModels.CommandValue) (ans c14Answer) {
	defer func() {
		if r := recover(); r != nil {
			ans.Panic = true
			ans.PanicMsg = fmt.Sprint(r)
		}
	}()
	if kind == "r" {
		vals, err := d.HandleReadCommands(devName, proto, reqs)
		ans.Err = err != nil
		for _, v := range vals {
			if v != nil {
				ans.NVals++
			}
		}
		return
	}
	err := d.HandleWriteCommands(devName, proto, reqs, params)
	ans.Err = err != nil
	return
}

func c14RunCase(d *Driver, devName string, proto protocolMap, c c14Case) c14Answer {
	reqs, params, note := c14Prepare(c)
	ans := c14Call(d, devName, proto, c.K, reqs, params)
	if note != "" {
		ans.Note = note
	}
	return ans
}

func newC14Driver() (*Driver, func()) {
	sdk := &mocks.DeviceServiceSDK{}
	sdk.On("UpdateDeviceOperatingState", mock.Anything, mock.Anything).Return(nil)
	asyncCh := make(chan *dsModels.AsyncValues, 64)
	stopDrain := make(chan struct{})
	go func() {
		for {
			select {
			case <-asyncCh:
			case <-stopDrain:
				return
			}
		}
	}()
	d := &Driver{
		lc:            logger.NewMockClient(),
		activeDevices: make(map[string]*LLRPDevice),
		asyncCh:       asyncCh,
		svc:           sdk,
		done:          make(chan struct{}),
	}
	return d, func() { close(stopDrain) }
}

func TestVerifC14(t *testing.T) {
	lines, w, done := verifIO(t)
	defer done()

	rd := newC14Reader(t)
	defer rd.ln.Close()
	_, portStr, _ := net.SplitHostPort(rd.ln.Addr().String())
	if _, err := strconv.Atoi(portStr); err != nil {
		t.Fatal(err)
	}

	d, stopDrain := newC14Driver()
	defer stopDrain()
	const devName = "c14Reader"
	proto := protocolMap{"tcp": {"host": "127.0.0.1", "port": portStr}}

	var fenceN uint64
	fence := func() bool {
		d.devicesMu.RLock()
		dev := d.activeDevices[devName]
		d.devicesMu.RUnlock()
		if dev == nil {
			return false
		}
		fenceN++
		data := make([]byte, 8)
		binary.BigEndian.PutUint64(data, fenceN)
		ctx, cancel := context.WithTimeout(context.Background(), 10*time.Second)
		defer cancel()
		err := dev.TrySend(ctx, &llrp.CustomMessage{VendorID: c14FenceVendor, MessageSubtype: c14FenceSubtype, Data: data}, &llrp.CustomMessage{})
		return err == nil
	}
	waitFor := func(typ uint16, n int) bool {
		deadline := time.Now().Add(15 * time.Second)
		for time.Now().Before(deadline) {
			if rd.count(typ) >= n {
				return true
			}
			time.Sleep(2 * time.Millisecond)
		}
		return false
	}

	runCase := func(c c14Case) c14Answer { return c14RunCase(d, devName, proto, c) }

	for _, line := range lines {
		var c c14Case
		if err := json.Unmarshal([]byte(line), &c); err != nil {
			t.Fatalf("bad request line %q: %v", line, err)
		}
		var ans c14Answer
		switch c.K {
		case "init":
			// the real creation path: getDevice -> NewLLRPDevice -> dial -> Connect -> onConnect
			dev, _, err := d.getDevice(devName, proto)
			if err != nil {
				t.Fatal(err)
			}
			ok := waitFor(3, 1)
			ans.Fence = fence()
			ans.Frames = rd.take()
			if !ok {
				ans.Note = "no SetReaderConfig seen after connect"
			}
			ans.Consts = dumpConsts(dev)
		case "reconnect", "silent":
			// "reconnect": the reader drops the connection; "silent": the reader stops answering and sending but
			// keeps the socket open. Either way the device must notice, replace its client, redial and configure
			// keep-alives again; the options of the REPLACEMENT client are dumped like those of the first one.
			rd.mu.Lock()
			conn, before := rd.conn, rd.conns
			if c.K == "silent" {
				rd.silent = conn
			}
			rd.mu.Unlock()
			if conn != nil && c.K == "reconnect" {
				conn.Close()
			}
			// "silent": while the reader is silent the service keeps WRITING — a read command every 5 s, as an application
			// polling the reader or EdgeX auto-events would: what the service writes must not extend how long the silent
			// reader is tolerated. (The polls get no answer; those still pending at the change-over may be repeated on the
			// new connection: checks/c14.py leaves GetReaderCapabilities out of that connection's first frames.)
			stopPoll := make(chan struct{})
			var polls sync.WaitGroup
			if c.K == "silent" {
				polls.Add(1)
				go func() {
					defer polls.Done()
					tick := time.NewTicker(5 * time.Second)
					defer tick.Stop()
					for {
						polls.Add(1)
						go func() {
							defer polls.Done()
							defer func() { _ = recover() }()
							_, _ = d.HandleReadCommands(devName, proto, []dsModels.CommandRequest{{DeviceResourceName: "ReaderCapabilities", Type: "Object"}})
						}()
						select {
						case <-stopPoll:
							return
						case <-tick.C:
						}
					}
				}()
			}
			start := time.Now()
			budget := 40 * time.Second
			if c.K == "silent" {
				budget = 100 * time.Second
			}
			deadline := start.Add(budget)
			redialed := false
			for time.Now().Before(deadline) {
				rd.mu.Lock()
				n := rd.conns
				rd.mu.Unlock()
				if n > before {
					redialed = true
					break
				}
				time.Sleep(5 * time.Millisecond)
			}
			ans.Elapsed = time.Since(start).Milliseconds()
			if !redialed {
				ans.Note = "no new connection within " + budget.String()
				if c.K == "silent" && conn != nil {
					conn.Close() // give up on the silent connection so that the rest of the run can proceed
					waitConns := time.Now().Add(40 * time.Second)
					for time.Now().Before(waitConns) {
						rd.mu.Lock()
						n := rd.conns
						rd.mu.Unlock()
						if n > before {
							break
						}
						time.Sleep(5 * time.Millisecond)
					}
				}
			}
			close(stopPoll)
			polls.Wait()
			ok := waitFor(3, 1)
			ans.Fence = fence()
			ans.Frames = rd.take()
			if !ok {
				ans.Note += " no SetReaderConfig seen after " + c.K
			}
			d.devicesMu.RLock()
			dev := d.activeDevices[devName]
			d.devicesMu.RUnlock()
			if dev != nil {
				ans.Consts = dumpConsts(dev)
			}
		default:
			rd.mu.Lock()
			rd.fault = c.Fault
			rd.mu.Unlock()
			ans = runCase(c)
			rd.mu.Lock()
			rd.fault = ""
			rd.mu.Unlock()
			ans.Fence = fence()
			ans.Frames = rd.take()
		}
		rd.mu.Lock()
		ans.Conn = rd.conns
		rd.mu.Unlock()
		b, _ := json.Marshal(ans)
		w.Write(b)
		w.WriteByte('\n')
	}

	ctx, cancel := context.WithTimeout(context.Background(), 2*time.Second)
	defer cancel()
	d.removeDevice(ctx, devName)
}

// ------------------------------------------------------------------ commands in progress at the same time
// TestVerifC14Conc: several callers (goroutines, as the SDK serves every REST call on its own) issue read and write
// commands of all kinds at once against ONE Driver — several devices, and several callers on the same device. Each
// device is a scripted reader of its own that records what it received in arrival order. A request line is a ROUND:
// lanes of commands; the commands of a lane are issued one after the other by one goroutine, all lanes are released
// together by a barrier after every argument has been built. The round is executed `rep` times. All judging (which
// request belongs to which command, whether anything is mixed, lost or repeated) is done by checks/c14.py.

type c14ConcCmd struct {
	c14Case
	Dev int `json:"dev"`
}

type c14ConcLine struct {
	K     string         `json:"k"` // "init" | "round"
	NDev  int            `json:"ndev"`
	Rep   int            `json:"rep"`
	Lanes [][]c14ConcCmd `json:"lanes"`
}

type c14ConcRun struct {
	Res    [][]c14Answer `json:"res"`    // per lane, per command
	Frames [][]c14Frame  `json:"frames"` // per device, arrival order
	Fence  []bool        `json:"fence"`  // per device
	Note   string        `json:"note,omitempty"`
}

type c14ConcAnswer struct {
	Runs []c14ConcRun `json:"runs"`
}

func TestVerifC14Conc(t *testing.T) {
	lines, w, done := verifIO(t)
	defer done()

	d, stopDrain := newC14Driver()
	defer stopDrain()

	var readers []*c14Reader
	var names []string
	var protos []protocolMap
	var fenceN uint64
	fence := func(i int) bool {
		d.devicesMu.RLock()
		dev := d.activeDevices[names[i]]
		d.devicesMu.RUnlock()
		if dev == nil {
			return false
		}
		fenceN++
		data := make([]byte, 8)
		binary.BigEndian.PutUint64(data, fenceN)
		ctx, cancel := context.WithTimeout(context.Background(), 10*time.Second)
		defer cancel()
		return dev.TrySend(ctx, &llrp.CustomMessage{VendorID: c14FenceVendor, MessageSubtype: c14FenceSubtype, Data: data}, &llrp.CustomMessage{}) == nil
	}
	collect := func(run *c14ConcRun) {
		for i, rd := range readers {
			run.Fence = append(run.Fence, fence(i))
			run.Frames = append(run.Frames, rd.take())
		}
	}

	for _, line := range lines {
		var cl c14ConcLine
		if err := json.Unmarshal([]byte(line), &cl); err != nil {
			t.Fatalf("bad request line: %v", err)
		}
		var ans c14ConcAnswer
		switch cl.K {
		case "init":
			for i := 0; i < cl.NDev; i++ {
				rd := newC14Reader(t)
				defer rd.ln.Close()
				_, portStr, _ := net.SplitHostPort(rd.ln.Addr().String())
				readers = append(readers, rd)
				names = append(names, "c14Reader"+strconv.Itoa(i))
				protos = append(protos, protocolMap{"tcp": {"host": "127.0.0.1", "port": portStr}})
			}
			var run c14ConcRun
			for i, rd := range readers {
				if _, _, err := d.getDevice(names[i], protos[i]); err != nil {
					t.Fatal(err)
				}
				deadline := time.Now().Add(15 * time.Second)
				for time.Now().Before(deadline) && rd.count(3) < 1 {
					time.Sleep(2 * time.Millisecond)
				}
				if rd.count(3) < 1 {
					run.Note += fmt.Sprintf("device %d: no SetReaderConfig seen after connect; ", i)
				}
			}
			collect(&run)
			ans.Runs = append(ans.Runs, run)
		case "round":
			rep := cl.Rep
			if rep < 1 {
				rep = 1
			}
			for r := 0; r < rep; r++ {
				type prepared struct {
					dev    int
					kind   string
					reqs   []dsModels.CommandRequest
					params []*dsModels.CommandValue
					note   string
				}
				prep := make([][]prepared, len(cl.Lanes))
				var run c14ConcRun
				run.Res = make([][]c14Answer, len(cl.Lanes))
				for li, lane := range cl.Lanes {
					run.Res[li] = make([]c14Answer, len(lane))
					for _, c := range lane {
						if c.Dev < 0 || c.Dev >= len(readers) {
							t.Fatalf("bad device index %d", c.Dev)
						}
						reqs, params, note := c14Prepare(c.c14Case)
						prep[li] = append(prep[li], prepared{c.Dev, c.K, reqs, params, note})
					}
				}
				start := make(chan struct{})
				var ready, fin sync.WaitGroup
				for li := range prep {
					ready.Add(1)
					fin.Add(1)
					go func(li int) {
						defer fin.Done()
						ready.Done()
						<-start
						for ci, p := range prep[li] {
							a := c14Call(d, names[p.dev], protos[p.dev], p.kind, p.reqs, p.params)
							if p.note != "" {
								a.Note = p.note
							}
							run.Res[li][ci] = a
						}
					}(li)
				}
				ready.Wait()
				close(start)
				finished := make(chan struct{})
				go func() { fin.Wait(); close(finished) }()
				select {
				case <-finished:
				case <-time.After(90 * time.Second):
					// the lanes still own run.Res: report without it
					b, _ := json.Marshal(c14ConcAnswer{Runs: append(ans.Runs, c14ConcRun{Note: "stuck: the commands of this round had not all returned after 90 s"})})
					w.Write(b)
					w.WriteByte('\n')
					w.Flush()
					t.Fatalf("round stuck")
				}
				collect(&run)
				ans.Runs = append(ans.Runs, run)
			}
		default:
			t.Fatalf("unknown line kind %q", cl.K)
		}
		b, _ := json.Marshal(ans)
		w.Write(b)
		w.WriteByte('\n')
	}

	for _, n := range names {
		ctx, cancel := context.WithTimeout(context.Background(), 2*time.Second)
		d.removeDevice(ctx, n)
		cancel()
	}
}

// ------------------------------------------------------------------ the read timeout as applied to the connection
// TestVerifC14Deadline: the behavioural half of "the 60 s read timeout the service applies to the connection".
// The device dials by itself, so its connection cannot be wrapped; what is observed instead is an llrp.Client built
// with the timeout the device's OWN client carries (read off the client NewLLRPDevice built, "dev" lines) or a
// scaled-down one ("scaled" lines), connected through a net.Conn wrapper that records every SetDeadline /
// SetReadDeadline / SetWriteDeadline / Read / Write call, to a scripted reader that completes the handshake and then
// goes SILENT (socket open, bytes still drained). While the client's read side is parked in Read the harness makes
// the client write messages. checks/c14.py judges: which calls moved the read deadline while the read was parked
// (none may: how long a silent reader is tolerated must not depend on what the client writes), the value of the read
// deadlines, and — scaled — when the client gave the connection up although it kept writing.

type c14DLEvent struct {
	Op      string `json:"op"` // SetDeadline | SetReadDeadline | SetWriteDeadline | Read | ReadRet | Write
	AtMs    int64  `json:"at_ms"`
	DeltaMs int64  `json:"delta_ms"` // deadline - now (deadline calls); read deadline in force - now (Read); bytes (ReadRet / Write)
	Parked  bool   `json:"parked"`   // a Read call was in progress when this call was made
	Zero    bool   `json:"zero,omitempty"`
}

type c14DLConn struct {
	net.Conn
	mu      sync.Mutex
	t0      time.Time
	events  []c14DLEvent
	reading int
	writes  int
	rdl     time.Time // the read deadline in force (last SetDeadline / SetReadDeadline)
}

func (c *c14DLConn) setRDL(t time.Time) {
	c.mu.Lock()
	c.rdl = t
	c.mu.Unlock()
}

func (c *c14DLConn) rec(op string, delta int64, zero bool) {
	c.mu.Lock()
	c.events = append(c.events, c14DLEvent{Op: op, AtMs: time.Since(c.t0).Milliseconds(), DeltaMs: delta, Parked: c.reading > 0, Zero: zero})
	c.mu.Unlock()
}
func (c *c14DLConn) SetDeadline(t time.Time) error {
	c.rec("SetDeadline", time.Until(t).Milliseconds(), t.IsZero())
	c.setRDL(t)
	return c.Conn.SetDeadline(t)
}
func (c *c14DLConn) SetReadDeadline(t time.Time) error {
	c.rec("SetReadDeadline", time.Until(t).Milliseconds(), t.IsZero())
	c.setRDL(t)
	return c.Conn.SetReadDeadline(t)
}
func (c *c14DLConn) SetWriteDeadline(t time.Time) error {
	c.rec("SetWriteDeadline", time.Until(t).Milliseconds(), t.IsZero())
	return c.Conn.SetWriteDeadline(t)
}
func (c *c14DLConn) Read(b []byte) (int, error) {
	// a Read call: delta = how far ahead the read deadline in force is at the moment of the call (zero: none in force)
	c.mu.Lock()
	rdl := c.rdl
	c.mu.Unlock()
	c.rec("Read", time.Until(rdl).Milliseconds(), rdl.IsZero())
	c.mu.Lock()
	c.reading++
	c.mu.Unlock()
	n, err := c.Conn.Read(b)
	c.mu.Lock()
	c.reading--
	c.mu.Unlock()
	c.rec("ReadRet", int64(n), false)
	return n, err
}
func (c *c14DLConn) Write(b []byte) (int, error) {
	n, err := c.Conn.Write(b)
	c.mu.Lock()
	c.writes++
	c.mu.Unlock()
	c.rec("Write", int64(n), false)
	return n, err
}
func (c *c14DLConn) state() (reading, writes, nev int) {
	c.mu.Lock()
	defer c.mu.Unlock()
	return c.reading, c.writes, len(c.events)
}

type c14DLLine struct {
	K        string  `json:"k"`         // "dev" (timeout of the device's own client) | "scaled"
	ScaleMs  int64   `json:"scale_ms"`  // timeout of a "scaled" client
	Writes   int     `json:"writes"`    // messages written while the reader is silent ("dev")
	EveryMs  int64   `json:"every_ms"`  // pause between writes ("scaled")
	BudgetMs int64   `json:"budget_ms"` // how long a "scaled" run keeps writing at most
	PauseMs  int64   `json:"pause_ms"`  // "dev": before the silence the reader lets this much time pass and sends a KeepAlive
	AtMs     []int64 `json:"at_ms"`     // "gaps": the reader sends a KeepAlive at these times (after the first exchange); no silence
}

type c14DLAnswer struct {
	TimeoutMs  int64        `json:"timeout_ms"`
	Consts     *c14Consts   `json:"consts,omitempty"`
	Mark       int          `json:"mark"` // events[mark:] were recorded after the reader went silent with the read side parked
	Events     []c14DLEvent `json:"events"`
	Written    int          `json:"written"` // writes that reached the connection after the mark
	SilentAtMs int64        `json:"silent_at_ms"`
	DroppedMs  int64        `json:"dropped_ms"`           // when Connect returned (-1: it had not when the run ended)
	SentAtMs   []int64      `json:"sent_at_ms,omitempty"` // when the reader's KeepAlives were written
	UpAtEnd    bool         `json:"up_at_end"`            // "gaps": a full exchange succeeded after the last KeepAlive
	Note       string       `json:"note,omitempty"`
}

func TestVerifC14Deadline(t *testing.T) {
	lines, w, done := verifIO(t)
	defer done()

	for _, line := range lines {
		var dl c14DLLine
		if err := json.Unmarshal([]byte(line), &dl); err != nil {
			t.Fatalf("bad request line: %v", err)
		}
		ans := c14DLAnswer{DroppedMs: -1}
		timeout := time.Duration(dl.ScaleMs) * time.Millisecond
		if dl.K == "dev" {
			// the timeout the service configures: off the client a real device built
			d, stopDrain := newC14Driver()
			rd0 := newC14Reader(t)
			_, portStr, _ := net.SplitHostPort(rd0.ln.Addr().String())
			dev, _, err := d.getDevice("c14DL", protocolMap{"tcp": {"host": "127.0.0.1", "port": portStr}})
			if err != nil {
				t.Fatal(err)
			}
			deadline := time.Now().Add(15 * time.Second)
			for time.Now().Before(deadline) && rd0.count(3) < 1 {
				time.Sleep(2 * time.Millisecond)
			}
			ans.Consts = dumpConsts(dev)
			timeout = time.Duration(ans.Consts.ClientTimeoutMs) * time.Millisecond
			ctx, cancel := context.WithTimeout(context.Background(), 2*time.Second)
			d.removeDevice(ctx, "c14DL")
			cancel()
			rd0.ln.Close()
			stopDrain()
		}
		ans.TimeoutMs = timeout.Milliseconds()
		if timeout <= 0 {
			ans.Note = "the client has no read timeout"
			b, _ := json.Marshal(ans)
			w.Write(b)
			w.WriteByte('\n')
			continue
		}

		rd := newC14Reader(t)
		raw, err := net.Dial("tcp", rd.ln.Addr().String())
		if err != nil {
			t.Fatal(err)
		}
		conn := &c14DLConn{Conn: raw, t0: time.Now()}
		cl := llrp.NewClient(llrp.WithTimeout(timeout), llrp.WithLogger(nil))
		connDone := make(chan struct{})
		go func() { _ = cl.Connect(conn); close(connDone) }()

		fenceN := uint64(0)
		send := func(wait time.Duration) error {
			fenceN++
			data := make([]byte, 8)
			binary.BigEndian.PutUint64(data, fenceN)
			ctx, cancel := context.WithTimeout(context.Background(), wait)
			defer cancel()
			return cl.SendFor(ctx, &llrp.CustomMessage{VendorID: c14FenceVendor, MessageSubtype: c14FenceSubtype, Data: data}, &llrp.CustomMessage{})
		}
		// operational: one full exchange
		if err := send(10 * time.Second); err != nil {
			ans.Note = "exchange before the silence failed: " + err.Error()
		}
		// a KeepAlive from the reader (the client acknowledges it); returns once the ack was written and the read side is parked again
		keepAlive := func() {
			rd.mu.Lock()
			rc := rd.conn
			rd.mu.Unlock()
			_, before, _ := conn.state()
			ans.SentAtMs = append(ans.SentAtMs, time.Since(conn.t0).Milliseconds())
			if c14WriteFrame(rc, 1, 62, 7000+uint32(len(ans.SentAtMs)), nil) != nil {
				ans.Note += " reader could not write a KeepAlive;"
				return
			}
			by := time.Now().Add(3 * time.Second)
			for time.Now().Before(by) {
				select {
				case <-connDone:
					return
				default:
				}
				if r, n, _ := conn.state(); n > before && r > 0 {
					return
				}
				time.Sleep(time.Millisecond)
			}
		}
		if dl.K == "gaps" {
			base := time.Now()
		gaps:
			for _, at := range dl.AtMs {
				select {
				case <-connDone:
					break gaps
				case <-time.After(time.Until(base.Add(time.Duration(at) * time.Millisecond))):
				}
				keepAlive()
			}
			select {
			case <-connDone:
				ans.DroppedMs = time.Since(conn.t0).Milliseconds()
			default:
				ans.UpAtEnd = send(5*time.Second) == nil
			}
			go func() { _ = cl.Close() }()
			raw.Close()
			<-connDone
			rd.ln.Close()
			conn.mu.Lock()
			ans.Events = append([]c14DLEvent{}, conn.events...)
			conn.mu.Unlock()
			ans.Mark = len(ans.Events)
			b, _ := json.Marshal(ans)
			w.Write(b)
			w.WriteByte('\n')
			continue
		}
		if dl.K == "dev" && dl.PauseMs > 0 {
			time.Sleep(time.Duration(dl.PauseMs) * time.Millisecond)
			keepAlive()
		}
		// the reader goes silent (keeps draining); wait until the client's read side is parked
		rd.mu.Lock()
		rd.silent = rd.conn
		rd.mu.Unlock()
		parkBy := time.Now().Add(5 * time.Second)
		for time.Now().Before(parkBy) {
			if r, _, _ := conn.state(); r > 0 {
				break
			}
			time.Sleep(time.Millisecond)
		}
		time.Sleep(5 * time.Millisecond) // still parked (nothing is coming any more)
		_, w0, mark := conn.state()
		ans.Mark = mark
		ans.SilentAtMs = time.Since(conn.t0).Milliseconds()

		if dl.K == "dev" {
			for i := 0; i < dl.Writes; i++ {
				_, before, _ := conn.state()
				_ = send(30 * time.Millisecond) // no answer will come: the message is written, the wait is given up
				by := time.Now().Add(5 * time.Second)
				for time.Now().Before(by) {
					if _, n, _ := conn.state(); n > before {
						break
					}
					time.Sleep(time.Millisecond)
				}
			}
		} else {
			budget := time.NewTimer(time.Duration(dl.BudgetMs) * time.Millisecond)
		loop:
			for {
				select {
				case <-connDone:
					ans.DroppedMs = time.Since(conn.t0).Milliseconds()
					break loop
				case <-budget.C:
					break loop
				default:
				}
				_ = send(time.Duration(dl.EveryMs) * time.Millisecond)
			}
			budget.Stop()
		}
		_, w1, _ := conn.state()
		ans.Written = w1 - w0
		go func() { _ = cl.Close() }()
		raw.Close()
		select {
		case <-connDone:
		case <-time.After(10 * time.Second):
			ans.Note += " Connect did not return after the connection was closed"
		}
		rd.ln.Close()
		conn.mu.Lock()
		ans.Events = append([]c14DLEvent{}, conn.events...)
		conn.mu.Unlock()
		if len(ans.Events) > 1000 {
			ans.Events = ans.Events[:1000]
		}
		b, _ := json.Marshal(ans)
		w.Write(b)
		w.WriteByte('\n')
	}
}
