//go:build verif

package driver

// C20 — race scenarios for the device supervisor and the driver's device table, meant to be
// compiled with -race together with c15_test.go and c13_test.go (whose scripted readers and
// scenario runners are reused unchanged):
//
//	c15 <id> <up0> <tok> ...      a C15 supervision script (dial outcomes, Stop, UpdateAddr, TrySend)
//	c13 <id> <ndev> <seed> <step> ...   a C13 publish scenario (reports/events while commands are in flight)
//	dev <id> <seed> <callers> <rounds>  own scenario: one driver, two loopback readers, concurrent
//	                              TrySend / UpdateDevice (address flips) / RemoveDevice / AddDevice / Stop
//
// One answer line per request; data-race reports go to GORACE's log_path and are judged by
// checks/c20.py.

import (
	"context"
	"fmt"
	"math/rand"
	"net"
	"strconv"
	"strings"
	"sync"
	"sync/atomic"
	"testing"
	"time"

	dsModels "github.com/edgexfoundry/device-sdk-go/v4/pkg/models"
	"github.com/edgexfoundry/go-mod-core-contracts/v4/models"

	"github.com/edgexfoundry/device-rfid-llrp-go/internal/retry"
	"github.com/edgexfoundry/device-rfid-llrp-go/pkg/llrp"
)

func c20Dev(id string, seed int64, ncallers, rounds int) string {
	var errs atomic.Int64
	asyncCh := make(chan *dsModels.AsyncValues, 4)
	d := &Driver{lc: c15Logger{errs: &errs}, asyncCh: asyncCh, svc: c13SDK{},
		activeDevices: make(map[string]*LLRPDevice), done: make(chan struct{}), config: &ServiceConfig{}}
	stopCollect := make(chan struct{})
	var published atomic.Int64
	go func() {
		for {
			select {
			case <-asyncCh:
				published.Add(1)
			case <-stopCollect:
				return
			}
		}
	}()
	defer close(stopCollect)

	var readers [2]*c13Reader
	var pm [2]protocolMap
	for i := range readers {
		ln, err := net.Listen("tcp4", "127.0.0.1:0")
		if err != nil {
			return "!listen"
		}
		defer ln.Close()
		readers[i] = &c13Reader{ln: ln, idx: i, ready: make(chan struct{}), connUTC: 1600000000000000 + uint64(i)}
		go readers[i].serve()
		pm[i] = protocolMap{"tcp": {"host": "127.0.0.1", "port": strconv.Itoa(ln.Addr().(*net.TCPAddr).Port)}}
	}
	name := "c20-" + id
	if err := d.AddDevice(name, pm[0], models.Unlocked); err != nil {
		return "!adddevice " + err.Error()
	}
	select {
	case <-readers[0].ready:
	case <-time.After(5 * time.Second):
		return "!notready"
	}

	var wg sync.WaitGroup
	var okSends, failSends, updates atomic.Int64
	for k := 0; k < ncallers; k++ {
		wg.Add(1)
		go func(k int) {
			defer wg.Done()
			rnd := rand.New(rand.NewSource(seed*100 + int64(k)))
			for r := 0; r < rounds; r++ {
				dev, _, err := d.getDevice(name, pm[0])
				if err != nil {
					failSends.Add(1)
					continue
				}
				to := 300 * time.Millisecond
				if rnd.Intn(4) == 0 {
					to = time.Duration(rnd.Intn(3000)) * time.Microsecond
				}
				ctx, cancel := context.WithTimeout(context.Background(), to)
				err = dev.TrySend(ctx, &llrp.GetReaderConfig{}, &llrp.GetReaderConfigResponse{})
				cancel()
				if err == nil {
					okSends.Add(1)
				} else {
					failSends.Add(1)
				}
			}
		}(k)
	}
	// address flips: each closes the current connection and makes the supervisor dial the other reader
	wg.Add(1)
	go func() {
		defer wg.Done()
		for r := 0; r < rounds; r++ {
			time.Sleep(time.Duration(1+r%3) * time.Millisecond)
			if err := d.UpdateDevice(name, pm[(r+1)%2], models.Unlocked); err == nil {
				updates.Add(1)
			}
		}
	}()
	// keep-alives and an unsolicited event from whichever reader is connected
	wg.Add(1)
	go func() {
		defer wg.Done()
		for r := 0; r < rounds*4; r++ {
			time.Sleep(500 * time.Microsecond)
			for _, rd := range readers {
				_ = rd.write(c15Frame(c15MsgKeepAlive, uint32(5000+r), nil))
			}
		}
	}()
	if seed%3 == 0 {
		// remove and re-add the device while everything else is going on
		wg.Add(1)
		go func() {
			defer wg.Done()
			time.Sleep(3 * time.Millisecond)
			_ = d.RemoveDevice(name, pm[0])
			time.Sleep(time.Millisecond)
			_ = d.AddDevice(name, pm[1], models.Unlocked)
		}()
	}
	if seed%2 == 0 {
		wg.Wait()
		_ = d.Stop(false)
	} else {
		time.Sleep(time.Duration(2+seed%5) * time.Millisecond)
		// never Stop(true): it hands context.Background() to closeLocked, whose graceful Shutdown then
		// waits for ever on a client that is not connected yet (a liveness matter, C09/C15, not a race)
		_ = d.Stop(false)
		wg.Wait()
	}
	time.Sleep(10 * time.Millisecond)
	return fmt.Sprintf("ok sends=%d fails=%d updates=%d published=%d conns=%d/%d acks=%d", okSends.Load(), failSends.Load(),
		updates.Load(), published.Load(), readers[0].conns.Load(), readers[1].conns.Load(), readers[0].acks.Load()+readers[1].acks.Load())
}

func TestVerifC20(t *testing.T) {
	lines, w, done := verifIO(t)
	defer done()
	c15InstallDNS()
	oldQ, oldS := retry.Quick, retry.Slow
	retry.Quick = retry.ExpBackOff{BackOff: c15QuickWait, Max: c15QuickWait, Jitter: false, KeepErrs: 10}
	retry.Slow = retry.ExpBackOff{BackOff: c15SlowWait, Max: c15SlowWait, Jitter: false, KeepErrs: 10}
	defer func() { retry.Quick, retry.Slow = oldQ, oldS }()

	out := make([]string, len(lines))
	sem := make(chan struct{}, 8)
	var wg sync.WaitGroup
	for i, line := range lines {
		f := strings.Fields(line)
		if len(f) < 3 {
			out[i] = "!badrequest"
			continue
		}
		wg.Add(1)
		sem <- struct{}{}
		go func(i int, f []string) {
			defer wg.Done()
			defer func() { <-sem }()
			switch f[0] {
			case "c15":
				out[i] = c15RunScript(f[1], f[2] == "1", f[3:])
			case "c13":
				out[i] = c13RunScenario(f[1:])
			case "dev":
				seed, _ := strconv.ParseInt(f[2], 10, 64)
				nc, rounds := 3, 6
				if len(f) > 3 {
					nc, _ = strconv.Atoi(f[3])
				}
				if len(f) > 4 {
					rounds, _ = strconv.Atoi(f[4])
				}
				out[i] = c20Dev(f[1], seed, nc, rounds)
			default:
				out[i] = "!badrequest"
			}
		}(i, f)
	}
	wg.Wait()
	for _, o := range out {
		fmt.Fprintln(w, o)
	}
}
