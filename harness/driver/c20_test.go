//go:build verif

package driver

// C20 — race scenarios for the device supervisor and the driver's device table, meant to be
// compiled with -race together with c15_test.go and c13_test.go (whose scripted readers and
// scenario runners are reused unchanged):
//
//	c15 <id> <up0> <tok> ...      a C15 supervision script (dial outcomes, Stop, UpdateAddr, TrySend)
//	c13 <id> <ndev> <seed> <step> ...   a C13 publish scenario (reports/events while commands are in flight)
//	dev <id> <seed> <callers> <rounds>  own scenario: one driver, two loopback readers, concurrent
//	                              TrySend / UpdateDevice (address flips) / RemoveDevice / AddDevice / Stop
//
// One answer line per request; data-race reports go to GORACE's log_path and are judged by
// checks/c20.py.

import (
	"context"
	"encoding/binary"
	"fmt"
	"io"
	"math/rand"
	"net"
	"strconv"
	"strings"
	"sync"
	"sync/atomic"
	"testing"
	"time"

	"github.com/edgexfoundry/device-sdk-go/v4/pkg/interfaces"
	dsModels "github.com/edgexfoundry/device-sdk-go/v4/pkg/models"
	edgexErr "github.com/edgexfoundry/go-mod-core-contracts/v4/errors"
	"github.com/edgexfoundry/go-mod-core-contracts/v4/models"

	"github.com/edgexfoundry/device-rfid-llrp-go/internal/retry"
	"github.com/edgexfoundry/device-rfid-llrp-go/pkg/llrp"
)

// ---- own scripted reader (frames built and parsed here; only the RUNNERS of c15/c13 are reused)

func c20Frame(typ int, id uint32, payload []byte) []byte {
	b := make([]byte, 10+len(payload))
	binary.BigEndian.PutUint16(b[0:2], 1<<10|uint16(typ&0x3ff))
	binary.BigEndian.PutUint32(b[2:6], uint32(10+len(payload)))
	binary.BigEndian.PutUint32(b[6:10], id)
	copy(b[10:], payload)
	return b
}

func c20Status(code int) []byte { return []byte{0x01, 0x1F, 0, 8, byte(code >> 8), byte(code), 0, 0} }

// ReaderEventNotificationData{UTCTimestamp, ConnectionAttemptEvent(success)}
var c20ConnEvent = []byte{0x00, 0xF6, 0, 22, 0x00, 0x80, 0, 12, 0, 5, 0xA7, 0x38, 0x13, 0x3C, 0x2C, 0x9E, 0x01, 0x00, 0, 6, 0, 0}

type c20Reader struct {
	ln    net.Listener
	wmu   sync.Mutex
	conn  net.Conn
	ready chan struct{}
	once  sync.Once
	acks  atomic.Int64
	conns atomic.Int64
}

func (rd *c20Reader) write(b []byte) error {
	rd.wmu.Lock()
	defer rd.wmu.Unlock()
	if rd.conn == nil {
		return fmt.Errorf("not connected")
	}
	_, err := rd.conn.Write(b)
	return err
}

func (rd *c20Reader) serve() {
	hdr := make([]byte, 10)
	for {
		c, err := rd.ln.Accept()
		if err != nil {
			return
		}
		rd.conns.Add(1)
		rd.wmu.Lock()
		rd.conn = c
		rd.wmu.Unlock()
		rd.write(c20Frame(63, 1, c20ConnEvent))
		for {
			if _, err := io.ReadFull(c, hdr); err != nil {
				break
			}
			typ := int(binary.BigEndian.Uint16(hdr[0:2]) & 0x3ff)
			n := binary.BigEndian.Uint32(hdr[2:6])
			id := binary.BigEndian.Uint32(hdr[6:10])
			if n < 10 || n > 1<<20 {
				break
			}
			if _, err := io.CopyN(io.Discard, c, int64(n-10)); err != nil {
				break
			}
			switch typ {
			case 46: // GetSupportedVersion
				rd.write(c20Frame(56, id, append([]byte{2 << 5, 2 << 5}, c20Status(0)...)))
			case 3: // SetReaderConfig
				rd.write(c20Frame(13, id, c20Status(0)))
				rd.once.Do(func() { close(rd.ready) })
			case 72: // KeepAliveAck
				rd.acks.Add(1)
			case 14: // CloseConnection
				rd.write(c20Frame(4, id, c20Status(0)))
				time.Sleep(2 * time.Millisecond)
				c.Close()
			case 2: // GetReaderConfig: answer late, so that other traffic meets a command in flight
				go func(id uint32) {
					time.Sleep(4 * time.Millisecond)
					rd.write(c20Frame(12, id, c20Status(0)))
				}(id)
			default:
				rd.write(c20Frame(100, id, c20Status(109)))
			}
		}
		c.Close()
	}
}

type c20SDK struct{ interfaces.DeviceServiceSDK }

func (c20SDK) UpdateDeviceOperatingState(string, models.OperatingState) error { return nil }

type c20Logger struct{}

func (c20Logger) SetLogLevel(string) edgexErr.EdgeX { return nil }
func (c20Logger) LogLevel() string                  { return "ERROR" }
func (c20Logger) Debug(string, ...interface{})      {}
func (c20Logger) Error(string, ...interface{})      {}
func (c20Logger) Info(string, ...interface{})       {}
func (c20Logger) Trace(string, ...interface{})      {}
func (c20Logger) Warn(string, ...interface{})       {}
func (c20Logger) Debugf(string, ...interface{})     {}
func (c20Logger) Errorf(string, ...interface{})     {}
func (c20Logger) Infof(string, ...interface{})      {}
func (c20Logger) Tracef(string, ...interface{})     {}
func (c20Logger) Warnf(string, ...interface{})      {}

func c20Dev(id string, seed int64, ncallers, rounds int) string {
	asyncCh := make(chan *dsModels.AsyncValues, 4)
	d := &Driver{lc: c20Logger{}, asyncCh: asyncCh, svc: c20SDK{},
		activeDevices: make(map[string]*LLRPDevice), done: make(chan struct{}), config: &ServiceConfig{}}
	stopCollect := make(chan struct{})
	var published atomic.Int64
	go func() {
		for {
			select {
			case <-asyncCh:
				published.Add(1)
			case <-stopCollect:
				return
			}
		}
	}()
	defer close(stopCollect)

	var readers [2]*c20Reader
	var pm [2]protocolMap
	for i := range readers {
		ln, err := net.Listen("tcp4", "127.0.0.1:0")
		if err != nil {
			return "!listen"
		}
		defer ln.Close()
		readers[i] = &c20Reader{ln: ln, ready: make(chan struct{})}
		go readers[i].serve()
		pm[i] = protocolMap{"tcp": {"host": "127.0.0.1", "port": strconv.Itoa(ln.Addr().(*net.TCPAddr).Port)}}
	}
	name := "c20-" + id
	if err := d.AddDevice(name, pm[0], models.Unlocked); err != nil {
		return "!adddevice " + err.Error()
	}
	select {
	case <-readers[0].ready:
	case <-time.After(5 * time.Second):
		return "!notready"
	}

	var wg sync.WaitGroup
	var okSends, failSends, updates atomic.Int64
	for k := 0; k < ncallers; k++ {
		wg.Add(1)
		go func(k int) {
			defer wg.Done()
			rnd := rand.New(rand.NewSource(seed*100 + int64(k)))
			for r := 0; r < rounds; r++ {
				dev, _, err := d.getDevice(name, pm[0])
				if err != nil {
					failSends.Add(1)
					continue
				}
				to := 300 * time.Millisecond
				if rnd.Intn(4) == 0 {
					to = time.Duration(rnd.Intn(3000)) * time.Microsecond
				}
				ctx, cancel := context.WithTimeout(context.Background(), to)
				err = dev.TrySend(ctx, &llrp.GetReaderConfig{}, &llrp.GetReaderConfigResponse{})
				cancel()
				if err == nil {
					okSends.Add(1)
				} else {
					failSends.Add(1)
				}
			}
		}(k)
	}
	// address flips: each closes the current connection and makes the supervisor dial the other reader
	wg.Add(1)
	go func() {
		defer wg.Done()
		for r := 0; r < rounds; r++ {
			time.Sleep(time.Duration(1+r%3) * time.Millisecond)
			if err := d.UpdateDevice(name, pm[(r+1)%2], models.Unlocked); err == nil {
				updates.Add(1)
			}
		}
	}()
	// keep-alives and an unsolicited event from whichever reader is connected
	wg.Add(1)
	go func() {
		defer wg.Done()
		for r := 0; r < rounds*4; r++ {
			time.Sleep(500 * time.Microsecond)
			for _, rd := range readers {
				_ = rd.write(c20Frame(62, uint32(5000+r), nil))
			}
		}
	}()
	if seed%3 == 0 {
		// remove and re-add the device while everything else is going on
		wg.Add(1)
		go func() {
			defer wg.Done()
			time.Sleep(3 * time.Millisecond)
			_ = d.RemoveDevice(name, pm[0])
			time.Sleep(time.Millisecond)
			_ = d.AddDevice(name, pm[1], models.Unlocked)
		}()
	}
	if seed%2 == 0 {
		wg.Wait()
		_ = d.Stop(false)
	} else {
		time.Sleep(time.Duration(2+seed%5) * time.Millisecond)
		// never Stop(true): it hands context.Background() to closeLocked, whose graceful Shutdown then
		// waits for ever on a client that is not connected yet (a liveness matter, C09/C15, not a race)
		_ = d.Stop(false)
		wg.Wait()
	}
	time.Sleep(10 * time.Millisecond)
	return fmt.Sprintf("ok sends=%d fails=%d updates=%d published=%d conns=%d/%d acks=%d", okSends.Load(), failSends.Load(),
		updates.Load(), published.Load(), readers[0].conns.Load(), readers[1].conns.Load(), readers[0].acks.Load()+readers[1].acks.Load())
}

// ------------------------------------------------------------------ report bursts with a slow consumer
//
// pub <id> <seed> <bursts> <burstlen> <tags>: the reader sends bursts of ROAccessReports back to back; report r
// carries <tags> TagReportData whose EPC-96 encodes (r, tag index). The consumer of the asynchronous-values
// channel is slow: it takes an event, waits, and only then reads the CONTENT of the report (every tag of
// every event), i.e. while later reports are being decoded and published. Besides the race reports this
// produces under -race, each event's content is compared with what was sent.
func c20Pub(id string, seed int64, bursts, burstLen, tags int) string {
	asyncCh := make(chan *dsModels.AsyncValues, 256)
	d := &Driver{lc: c20Logger{}, asyncCh: asyncCh, svc: c20SDK{},
		activeDevices: make(map[string]*LLRPDevice), done: make(chan struct{}), config: &ServiceConfig{}}
	ln, err := net.Listen("tcp4", "127.0.0.1:0")
	if err != nil {
		return "!listen"
	}
	defer ln.Close()
	rd := &c20Reader{ln: ln, ready: make(chan struct{})}
	go rd.serve()
	name := "c20-" + id
	if err := d.AddDevice(name, protocolMap{"tcp": {"host": "127.0.0.1", "port": strconv.Itoa(ln.Addr().(*net.TCPAddr).Port)}}, models.Unlocked); err != nil {
		return "!adddevice " + err.Error()
	}
	select {
	case <-rd.ready:
	case <-time.After(5 * time.Second):
		return "!notready"
	}
	total := bursts * burstLen
	rnd := rand.New(rand.NewSource(seed))
	crnd := rand.New(rand.NewSource(seed + 1)) // the consumer's own source
	seen := map[uint32]int{}
	corrupt, events := 0, 0
	firstBad := ""
	done := make(chan struct{})
	go func() {
		defer close(done)
		idle := time.NewTimer(time.Second)
		for events < total {
			idle.Reset(time.Second)
			select {
			case av := <-asyncCh:
				for _, cv := range av.CommandValues {
					if cv.DeviceResourceName != ResourceROAccessReport {
						continue
					}
					time.Sleep(time.Duration(100+crnd.Intn(600)) * time.Microsecond) // slow consumer
					events++
					rep, ok := cv.Value.(*llrp.ROAccessReport)
					if !ok {
						corrupt++
						continue
					}
					bad := len(rep.TagReportData) != tags
					var r0 uint32
					for j := range rep.TagReportData {
						epc := rep.TagReportData[j].EPC96.EPC
						if len(epc) != 12 {
							bad = true
							continue
						}
						r, k := binary.BigEndian.Uint32(epc[0:4]), binary.BigEndian.Uint32(epc[4:8])
						if j == 0 {
							r0 = r
						}
						if r != r0 || int(k) != j {
							bad = true
						}
					}
					if bad {
						corrupt++
						if firstBad == "" {
							firstBad = fmt.Sprintf("event#%d", events)
						}
					} else {
						seen[r0]++
					}
				}
			case <-idle.C:
				return
			}
		}
	}()
	for b := 0; b < bursts; b++ {
		for i := 0; i < burstLen; i++ {
			r := uint32(b*burstLen + i + 1)
			var payload []byte
			for k := 0; k < tags; k++ {
				tr := []byte{0x00, 0xF0, 0, 17, 0x8D, 0, 0, 0, 0, 0, 0, 0, 0, 0xC2, 0x0C, 0x20, 0x20}
				binary.BigEndian.PutUint32(tr[5:9], r)
				binary.BigEndian.PutUint32(tr[9:13], uint32(k))
				payload = append(payload, tr...)
			}
			if err := rd.write(c20Frame(61, r, payload)); err != nil {
				return "!write " + err.Error()
			}
		}
		time.Sleep(time.Duration(500+rnd.Intn(1500)) * time.Microsecond)
	}
	<-done
	dup := 0
	for _, n := range seen {
		if n > 1 {
			dup += n - 1
		}
	}
	_ = d.Stop(false)
	return fmt.Sprintf("ok pub sent=%d events=%d intact=%d corrupt=%d duplicated=%d first_bad=%s", total, events, len(seen), corrupt, dup, firstBad)
}

func TestVerifC20(t *testing.T) {
	lines, w, done := verifIO(t)
	defer done()
	c15InstallDNS()
	oldQ, oldS := retry.Quick, retry.Slow
	retry.Quick = retry.ExpBackOff{BackOff: c15QuickWait, Max: c15QuickWait, Jitter: false, KeepErrs: 10}
	retry.Slow = retry.ExpBackOff{BackOff: c15SlowWait, Max: c15SlowWait, Jitter: false, KeepErrs: 10}
	defer func() { retry.Quick, retry.Slow = oldQ, oldS }()

	out := make([]string, len(lines))
	sem := make(chan struct{}, 8)
	var wg sync.WaitGroup
	for i, line := range lines {
		f := strings.Fields(line)
		if len(f) < 3 {
			out[i] = "!badrequest"
			continue
		}
		wg.Add(1)
		sem <- struct{}{}
		go func(i int, f []string) {
			defer wg.Done()
			defer func() { <-sem }()
			switch f[0] {
			case "c15":
				out[i] = c15RunScript(f[1], f[2] == "1", f[3:])
			case "c13":
				out[i] = c13RunScenario(f[1:])
			case "pub":
				seed, _ := strconv.ParseInt(f[2], 10, 64)
				nb, bl, tg := 6, 4, 5
				if len(f) > 5 {
					nb, _ = strconv.Atoi(f[3])
					bl, _ = strconv.Atoi(f[4])
					tg, _ = strconv.Atoi(f[5])
				}
				out[i] = c20Pub(f[1], seed, nb, bl, tg)
			case "dev":
				seed, _ := strconv.ParseInt(f[2], 10, 64)
				nc, rounds := 3, 6
				if len(f) > 3 {
					nc, _ = strconv.Atoi(f[3])
				}
				if len(f) > 4 {
					rounds, _ = strconv.Atoi(f[4])
				}
				out[i] = c20Dev(f[1], seed, nc, rounds)
			default:
				out[i] = "!badrequest"
			}
		}(i, f)
	}
	wg.Wait()
	for _, o := range out {
		fmt.Fprintln(w, o)
	}
}

// ------------------------------------------------------------------ concurrent back-off
//
// bo <id> <seed> <ndead> <ms>: one driver; <ndead> devices whose address refuses connections (their
// supervisors fail, back off and redial all the time), one device with a live reader whose address is flipped
// (connections reset) while callers TrySend (retrying when the client was closed under them). The retry
// policies keep their JITTER (only the time scale is shrunk), so every wait goes through the package's random
// back-off computation from several goroutines at once. Own test function = own process: it replaces
// retry.Quick/Slow before anything runs.
func c20Backoff(id string, seed int64, ndead, ms int) string {
	asyncCh := make(chan *dsModels.AsyncValues, 4)
	d := &Driver{lc: c20Logger{}, asyncCh: asyncCh, svc: c20SDK{},
		activeDevices: make(map[string]*LLRPDevice), done: make(chan struct{}), config: &ServiceConfig{}}
	stopCollect := make(chan struct{})
	go func() {
		for {
			select {
			case <-asyncCh:
			case <-stopCollect:
				return
			}
		}
	}()
	defer close(stopCollect)
	// a port nobody listens on
	dl, err := net.Listen("tcp4", "127.0.0.1:0")
	if err != nil {
		return "!listen"
	}
	deadPort := dl.Addr().(*net.TCPAddr).Port
	dl.Close()
	dead := protocolMap{"tcp": {"host": "127.0.0.1", "port": strconv.Itoa(deadPort)}}
	var readers [2]*c20Reader
	var pm [2]protocolMap
	for i := range readers {
		ln, err := net.Listen("tcp4", "127.0.0.1:0")
		if err != nil {
			return "!listen"
		}
		defer ln.Close()
		readers[i] = &c20Reader{ln: ln, ready: make(chan struct{})}
		go readers[i].serve()
		pm[i] = protocolMap{"tcp": {"host": "127.0.0.1", "port": strconv.Itoa(ln.Addr().(*net.TCPAddr).Port)}}
	}
	for i := 0; i < ndead; i++ {
		if err := d.AddDevice(fmt.Sprintf("c20-%s-dead%d", id, i), dead, models.Unlocked); err != nil {
			return "!adddevice " + err.Error()
		}
	}
	live := "c20-" + id + "-live"
	if err := d.AddDevice(live, pm[0], models.Unlocked); err != nil {
		return "!adddevice " + err.Error()
	}
	deadline := time.Now().Add(time.Duration(ms) * time.Millisecond)
	var wg sync.WaitGroup
	var sends, fails atomic.Int64
	for k := 0; k < 3; k++ {
		wg.Add(1)
		go func(k int) {
			defer wg.Done()
			for time.Now().Before(deadline) {
				dev, _, err := d.getDevice(live, pm[0])
				if err != nil {
					return
				}
				ctx, cancel := context.WithTimeout(context.Background(), 40*time.Millisecond)
				if dev.TrySend(ctx, &llrp.GetReaderConfig{}, &llrp.GetReaderConfigResponse{}) == nil {
					sends.Add(1)
				} else {
					fails.Add(1)
				}
				cancel()
			}
		}(k)
	}
	wg.Add(1)
	go func() {
		defer wg.Done()
		for r := 0; time.Now().Before(deadline); r++ {
			time.Sleep(9 * time.Millisecond)
			_ = d.UpdateDevice(live, pm[(r+1)%2], models.Unlocked)
		}
	}()
	wg.Wait()
	_ = d.Stop(false)
	time.Sleep(10 * time.Millisecond)
	return fmt.Sprintf("ok sends=%d fails=%d conns=%d/%d", sends.Load(), fails.Load(), readers[0].conns.Load(), readers[1].conns.Load())
}

func TestVerifC20Backoff(t *testing.T) {
	lines, w, done := verifIO(t)
	defer done()
	oldQ, oldS := retry.Quick, retry.Slow
	retry.Quick.BackOff, retry.Quick.Max = 200*time.Microsecond, 2*time.Millisecond
	retry.Slow.BackOff, retry.Slow.Max = 300*time.Microsecond, 3*time.Millisecond
	defer func() { retry.Quick, retry.Slow = oldQ, oldS }()
	for _, line := range lines {
		f := strings.Fields(line)
		if len(f) < 5 || f[0] != "bo" {
			fmt.Fprintln(w, "!badrequest")
			continue
		}
		seed, _ := strconv.ParseInt(f[2], 10, 64)
		nd, _ := strconv.Atoi(f[3])
		ms, _ := strconv.Atoi(f[4])
		fmt.Fprintln(w, c20Backoff(f[1], seed, nd, ms))
	}
}
