//go:build verif

package driver

import (
	"context"
	"encoding/binary"
	"fmt"
	"io"
	"net"
	"regexp"
	"sort"
	"strconv"
	"strings"
	"sync"
	"sync/atomic"
	"testing"
	"time"

	"github.com/edgexfoundry/device-sdk-go/v4/pkg/interfaces/mocks"
	dsModels "github.com/edgexfoundry/device-sdk-go/v4/pkg/models"
	edgexErr "github.com/edgexfoundry/go-mod-core-contracts/v4/errors"
	"github.com/edgexfoundry/go-mod-core-contracts/v4/models"
)

// logger that keeps the Debug lines (the probe estimate is only visible there)
type c16Logger struct {
	mu    *sync.Mutex
	debug *[]string
}

func (l c16Logger) SetLogLevel(string) edgexErr.EdgeX { return nil }
func (l c16Logger) LogLevel() string                  { return "DEBUG" }
func (l c16Logger) Debug(m string, _ ...interface{}) {
	l.mu.Lock()
	*l.debug = append(*l.debug, m)
	l.mu.Unlock()
}
func (l c16Logger) Error(string, ...interface{})  {}
func (l c16Logger) Info(string, ...interface{})   {}
func (l c16Logger) Trace(string, ...interface{})  {}
func (l c16Logger) Warn(string, ...interface{})   {}
func (l c16Logger) Debugf(string, ...interface{}) {}
func (l c16Logger) Errorf(string, ...interface{}) {}
func (l c16Logger) Infof(string, ...interface{})  {}
func (l c16Logger) Tracef(string, ...interface{}) {}
func (l c16Logger) Warnf(string, ...interface{})  {}

var c16EstRe = regexp.MustCompile(`total estimated network probes: (-?\d+)`)

// c16Discover runs autoDiscover itself over loopback subnets (all of 127/8 is local): a listener
// on every IPv4 address records which local address each probe connected to and hangs up.
// Answer: "<estimate logged> <probes> <probed addresses, sorted>"
func c16Discover(asyncLimit int, subnets []string) string {
	return c16DiscoverReg(asyncLimit, subnets, nil)
}

// c16DiscoverReg: the same with devices already registered in EdgeX and operating (UP) at the given
// addresses on the scanned port: discovery enumerates them like every other address of their subnet
// (the estimate counts them) but does not probe them. The run gets 25 s.
// c16Slow: when set, every probed host behaves as a SLOW reader: each of its answers comes after 0.9 of the probe
// timeout (connection event, the answer to GetSupportedVersion, then it hangs up on the next request), so one probe
// takes well over twice the probe timeout although no single step exceeds it.
var c16Slow atomic.Bool

func c16SlowHost(c net.Conn, step time.Duration) {
	defer c.Close()
	frame := func(typ uint16, id uint32, payload []byte) []byte {
		b := make([]byte, 10, 10+len(payload))
		binary.BigEndian.PutUint16(b[0:], 1<<10|typ)
		binary.BigEndian.PutUint32(b[2:], uint32(10+len(payload)))
		binary.BigEndian.PutUint32(b[6:], id)
		return append(b, payload...)
	}
	time.Sleep(step)
	// ReaderEventNotification{UTCTimestamp 1, ConnectionAttemptEvent Success}
	if _, err := c.Write(frame(63, 1, []byte{0x00, 0xF6, 0x00, 0x16, 0x00, 0x80, 0x00, 0x0C, 0, 0, 0, 0, 0, 0, 0, 1, 0x01, 0x00, 0x00, 0x06, 0, 0})); err != nil {
		return
	}
	hdr := make([]byte, 10)
	for n := 0; n < 2; n++ {
		_ = c.SetReadDeadline(time.Now().Add(10 * time.Second))
		if _, err := io.ReadFull(c, hdr); err != nil {
			return
		}
		l := binary.BigEndian.Uint32(hdr[2:6])
		if l > 10 {
			if _, err := io.CopyN(io.Discard, c, int64(l-10)); err != nil {
				return
			}
		}
		time.Sleep(step)
		if n == 0 {
			// ERROR_MESSAGE{LLRPStatus VersionUnsupported}: a 1.0.1 reader declining GetSupportedVersion
			if _, err := c.Write(frame(100, binary.BigEndian.Uint32(hdr[6:10]), []byte{0x01, 0x1F, 0x00, 0x08, 0x00, 0x6E, 0x00, 0x00})); err != nil {
				return
			}
		}
	}
}

func c16DiscoverReg(asyncLimit int, subnets []string, registered []uint32) string {
	ln, err := net.Listen("tcp4", "0.0.0.0:0")
	if err != nil {
		return "error " + err.Error()
	}
	if registered != nil {
		port := strconv.Itoa(ln.Addr().(*net.TCPAddr).Port)
		var devs []models.Device
		for i, a := range registered {
			host := net.IPv4(byte(a>>24), byte(a>>16), byte(a>>8), byte(a)).String()
			devs = append(devs, models.Device{Name: "registered-" + strconv.Itoa(i), OperatingState: models.Up, AdminState: models.Unlocked,
				Protocols: map[string]models.ProtocolProperties{"tcp": {"host": host, "port": port}}})
		}
		sm := &mocks.DeviceServiceSDK{}
		sm.On("Devices").Return(devs)
		oldSvc := driver.svc
		driver.svc = sm
		defer func() { driver.svc = oldSvc }()
	}
	var mu sync.Mutex
	var got []uint32
	accDone := make(chan struct{})
	go func() {
		defer close(accDone)
		for {
			c, err := ln.Accept()
			if err != nil {
				return
			}
			ip := c.LocalAddr().(*net.TCPAddr).IP.To4()
			mu.Lock()
			got = append(got, uint32(ip[0])<<24|uint32(ip[1])<<16|uint32(ip[2])<<8|uint32(ip[3]))
			mu.Unlock()
			if c16Slow.Load() {
				go c16SlowHost(c, 450*time.Millisecond)
				continue
			}
			_ = c.Close()
		}
	}()
	var lmu sync.Mutex
	var dbg []string
	old := driver.lc
	driver.lc = c16Logger{mu: &lmu, debug: &dbg}
	done := make(chan struct{})
	go func() {
		defer close(done)
		autoDiscover(context.Background(), discoverParams{
			subnets:    subnets,
			asyncLimit: asyncLimit,
			timeout:    500 * time.Millisecond,
			scanPort:   strconv.Itoa(ln.Addr().(*net.TCPAddr).Port),
		})
	}()
	returned := true
	select {
	case <-done:
	case <-time.After(map[bool]time.Duration{false: 60 * time.Second, true: 25 * time.Second}[registered != nil]):
		returned = false
	}
	driver.lc = old
	// connections that completed in the kernel but were not accepted yet
	for settle, last := 0, -1; settle < 5; {
		time.Sleep(20 * time.Millisecond)
		mu.Lock()
		n := len(got)
		mu.Unlock()
		if n == last {
			settle++
		} else {
			settle, last = 0, n
		}
	}
	_ = ln.Close()
	<-accDone
	if !returned {
		return "error autoDiscover did not return"
	}
	est := "none"
	lmu.Lock()
	for _, m := range dbg {
		if g := c16EstRe.FindStringSubmatch(m); g != nil {
			est = g[1]
		}
	}
	lmu.Unlock()
	mu.Lock()
	defer mu.Unlock()
	sort.Slice(got, func(i, j int) bool { return got[i] < got[j] })
	var sb strings.Builder
	fmt.Fprintf(&sb, "%s %d", est, len(got))
	for _, a := range got {
		sb.WriteByte(' ')
		sb.WriteString(strconv.FormatUint(uint64(a), 10))
	}
	return sb.String()
}

// request lines (one answer line each, same format as oracle/c16):
//
//	gen <cidr>            full enumeration: "<count> a1 a2 ..."
//	sum <cidr>            full enumeration: "<count> <first> <last> <hash>"
//	head <cidr> <n>       first n addresses then cancel: "<returned> a1 .. an"
//	cancel <cidr>         no consumer, cancel: "<returned>"
//	sz <p>                computeNetSz(p)
//	slow <cidr> <k> <ms>  full enumeration by a consumer that pauses <ms> after k addresses (answer as gen)
//	disc <limit> <cidr,cidr,..>  autoDiscover over loopback subnets: "<estimate> <count> <sorted addresses>"
//	discreg <limit> <cidrs> <a,a,..>  the same with operating devices registered at those addresses (not probed, but enumerated)
func TestVerifC16(t *testing.T) {
	lines, w, done := verifIO(t)
	defer done()
	for _, line := range lines {
		f := strings.Fields(line)
		switch f[0] {
		case "gen", "sum":
			_, ipnet, err := net.ParseCIDR(f[1])
			if err != nil {
				fmt.Fprintf(w, "error %v\n", err)
				continue
			}
			ch := make(chan uint32, 1024)
			go func() {
				ipGenerator(context.Background(), ipnet, ch)
				close(ch)
			}()
			if f[0] == "gen" {
				var sb strings.Builder
				n := 0
				for ip := range ch {
					sb.WriteByte(' ')
					sb.WriteString(strconv.FormatUint(uint64(ip), 10))
					n++
				}
				fmt.Fprintf(w, "%d%s\n", n, sb.String())
			} else {
				n, first, last, h := 0, int64(-1), int64(-1), uint64(0)
				for ip := range ch {
					if n == 0 {
						first = int64(ip)
					}
					last = int64(ip)
					h = (h*31 + uint64(ip)) & 0xFFFFFFFFFFFF
					n++
				}
				fmt.Fprintf(w, "%d %d %d %d\n", n, first, last, h)
			}
		case "rawgen", "rawgen16":
			// an IPNet built by hand: the IP field keeps its host bits (not what ParseCIDR returns);
			// rawgen16 uses Go's 16-byte form of the IPv4 address (what net.IPv4 / net.ParseIP return)
			ip := net.ParseIP(f[1]).To4()
			if f[0] == "rawgen16" && ip != nil {
				ip = net.IPv4(ip[0], ip[1], ip[2], ip[3])
			}
			p, _ := strconv.Atoi(f[2])
			if ip == nil {
				fmt.Fprintf(w, "error bad ip\n")
				continue
			}
			ipnet := &net.IPNet{IP: ip, Mask: net.CIDRMask(p, 32)}
			ch := make(chan uint32, 1024)
			go func() {
				ipGenerator(context.Background(), ipnet, ch)
				close(ch)
			}()
			var sb strings.Builder
			n := 0
			for ipv := range ch {
				sb.WriteByte(' ')
				sb.WriteString(strconv.FormatUint(uint64(ipv), 10))
				n++
			}
			fmt.Fprintf(w, "%d%s\n", n, sb.String())
		case "head":
			_, ipnet, err := net.ParseCIDR(f[1])
			if err != nil {
				fmt.Fprintf(w, "error %v\n", err)
				continue
			}
			n, _ := strconv.Atoi(f[2])
			ctx, cancel := context.WithCancel(context.Background())
			ch := make(chan uint32) // unbuffered: the generator blocks in its send
			ret := make(chan struct{})
			go func() {
				ipGenerator(ctx, ipnet, ch)
				close(ret)
			}()
			var sb strings.Builder
			got := 0
		recv:
			for got < n {
				select {
				case ip := <-ch:
					sb.WriteByte(' ')
					sb.WriteString(strconv.FormatUint(uint64(ip), 10))
					got++
				case <-ret:
					break recv
				}
			}
			cancel()
			returned := waitRet(ret)
			fmt.Fprintf(w, "%v%s\n", returned, sb.String())
		case "cancel":
			_, ipnet, err := net.ParseCIDR(f[1])
			if err != nil {
				fmt.Fprintf(w, "error %v\n", err)
				continue
			}
			ctx, cancel := context.WithCancel(context.Background())
			ch := make(chan uint32)
			ret := make(chan struct{})
			go func() {
				ipGenerator(ctx, ipnet, ch)
				close(ret)
			}()
			time.Sleep(2 * time.Millisecond) // let it reach its first send
			cancel()
			fmt.Fprintf(w, "%v\n", waitRet(ret))
		case "cancelroom":
			// cancelroom <cidr> <buf>: the context is cancelled BEFORE the call and the generator never has to wait for its
			// consumer (buf > 0: a channel with that much room; buf = 0: a goroutine that takes every address at once)
			// -> "<returned> <addresses handed over>"
			_, ipnet, err := net.ParseCIDR(f[1])
			if err != nil {
				fmt.Fprintf(w, "error %v\n", err)
				continue
			}
			buf, _ := strconv.Atoi(f[2])
			ctx, cancel := context.WithCancel(context.Background())
			cancel()
			ch := make(chan uint32, buf)
			var taken int64
			stop := make(chan struct{})
			if buf == 0 {
				go func() {
					for {
						select {
						case <-ch:
							atomic.AddInt64(&taken, 1)
						case <-stop:
							return
						}
					}
				}()
			}
			ret := make(chan struct{})
			go func() {
				ipGenerator(ctx, ipnet, ch)
				close(ret)
			}()
			ok := waitRet(ret)
			close(stop)
			fmt.Fprintf(w, "%v %d\n", ok, int64(len(ch))+atomic.LoadInt64(&taken))
		case "slow":
			_, ipnet, err := net.ParseCIDR(f[1])
			if err != nil {
				fmt.Fprintf(w, "error %v\n", err)
				continue
			}
			k, _ := strconv.Atoi(f[2])
			ms, _ := strconv.Atoi(f[3])
			ch := make(chan uint32) // unbuffered: the generator waits for the consumer
			go func() {
				ipGenerator(context.Background(), ipnet, ch)
				close(ch)
			}()
			var sb strings.Builder
			n := 0
			for ip := range ch {
				sb.WriteByte(' ')
				sb.WriteString(strconv.FormatUint(uint64(ip), 10))
				n++
				if n == k {
					time.Sleep(time.Duration(ms) * time.Millisecond)
				}
			}
			fmt.Fprintf(w, "%d%s\n", n, sb.String())
		case "disc":
			limit, _ := strconv.Atoi(f[1])
			var subnets []string
			if len(f) > 2 {
				for _, c := range strings.Split(f[2], ",") {
					if c == "-" {
						c = "" // an empty entry of the configured list
					}
					subnets = append(subnets, c)
				}
			}
			fmt.Fprintf(w, "%s\n", c16Discover(limit, subnets))
		case "discslow":
			// disc against slow readers (see c16Slow): an uncancelled run enumerates every host however long the probes take
			limit, _ := strconv.Atoi(f[1])
			c16Slow.Store(true)
			fmt.Fprintf(w, "%s\n", c16Discover(limit, strings.Split(f[2], ",")))
			c16Slow.Store(false)
		case "discreg":
			// disc with devices registered and operating at the listed addresses (uint32, comma separated)
			limit, _ := strconv.Atoi(f[1])
			subnets := strings.Split(f[2], ",")
			reg := []uint32{}
			for _, x := range strings.Split(f[3], ",") {
				v, _ := strconv.ParseUint(x, 10, 32)
				reg = append(reg, uint32(v))
			}
			fmt.Fprintf(w, "%s\n", c16DiscoverReg(limit, subnets, reg))
		case "disccancel":
			// autoDiscover over large loopback subnets against a closed port, cancelled after <ms>:
			// "true" iff the call returns within 5 s of the cancellation
			limit, _ := strconv.Atoi(f[1])
			ms, _ := strconv.Atoi(f[2])
			ctx, cancel := context.WithCancel(context.Background())
			var lmu sync.Mutex
			var dbg []string
			old := driver.lc
			driver.lc = c16Logger{mu: &lmu, debug: &dbg}
			ret := make(chan struct{})
			go func() {
				autoDiscover(ctx, discoverParams{subnets: strings.Split(f[3], ","), asyncLimit: limit,
					timeout: 300 * time.Millisecond, scanPort: "1"})
				close(ret)
			}()
			time.Sleep(time.Duration(ms) * time.Millisecond)
			cancel()
			ok := false
			select {
			case <-ret:
				ok = true
			case <-time.After(5 * time.Second):
			}
			driver.lc = old
			fmt.Fprintf(w, "%v\n", ok)
		case "drvcancel":
			// the same through the Driver's own entry point: Driver.discover(ctx) with the configured maximum duration
			// <maxsec> (0 = none), cancelled by its caller after <ms>: "true" iff it returns within 5 s of the cancellation
			limit, _ := strconv.Atoi(f[1])
			ms, _ := strconv.Atoi(f[2])
			maxSec, _ := strconv.Atoi(f[4])
			var lmu sync.Mutex
			var dbg []string
			old := driver.lc
			driver.lc = c16Logger{mu: &lmu, debug: &dbg}
			devCh := make(chan []dsModels.DiscoveredDevice, 4)
			d := &Driver{lc: driver.lc, svc: driver.svc, deviceCh: devCh, activeDevices: map[string]*LLRPDevice{}, done: make(chan struct{}),
				config: &ServiceConfig{AppCustom: CustomConfig{DiscoverySubnets: f[3], ProbeAsyncLimit: limit, ProbeTimeoutSeconds: 1,
					ScanPort: "1", MaxDiscoverDurationSeconds: maxSec}}}
			ctx, cancel := context.WithCancel(context.Background())
			ret := make(chan struct{})
			go func() {
				d.discover(ctx)
				close(ret)
			}()
			time.Sleep(time.Duration(ms) * time.Millisecond)
			cancel()
			ok := false
			select {
			case <-ret:
				ok = true
			case <-time.After(5 * time.Second):
			}
			driver.lc = old
			fmt.Fprintf(w, "%v\n", ok)
		case "sz":
			p, _ := strconv.Atoi(f[1])
			fmt.Fprintf(w, "%d\n", computeNetSz(p))
		default:
			fmt.Fprintf(w, "error bad request\n")
		}
	}
}

func waitRet(ret chan struct{}) bool {
	select {
	case <-ret:
		return true
	case <-time.After(3 * time.Second):
		return false
	}
}
