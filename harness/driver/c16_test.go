//go:build verif

package driver

import (
	"context"
	"fmt"
	"net"
	"strconv"
	"strings"
	"testing"
	"time"
)

// request lines (one answer line each, same format as oracle/c16):
//   gen <cidr>            full enumeration: "<count> a1 a2 ..."
//   sum <cidr>            full enumeration: "<count> <first> <last> <hash>"
//   head <cidr> <n>       first n addresses then cancel: "<returned> a1 .. an"
//   cancel <cidr>         no consumer, cancel: "<returned>"
//   sz <p>                computeNetSz(p)
func TestVerifC16(t *testing.T) {
	lines, w, done := verifIO(t)
	defer done()
	for _, line := range lines {
		f := strings.Fields(line)
		switch f[0] {
		case "gen", "sum":
			_, ipnet, err := net.ParseCIDR(f[1])
			if err != nil {
				fmt.Fprintf(w, "error %v\n", err)
				continue
			}
			ch := make(chan uint32, 1024)
			go func() {
				ipGenerator(context.Background(), ipnet, ch)
				close(ch)
			}()
			if f[0] == "gen" {
				var sb strings.Builder
				n := 0
				for ip := range ch {
					sb.WriteByte(' ')
					sb.WriteString(strconv.FormatUint(uint64(ip), 10))
					n++
				}
				fmt.Fprintf(w, "%d%s\n", n, sb.String())
			} else {
				n, first, last, h := 0, int64(-1), int64(-1), uint64(0)
				for ip := range ch {
					if n == 0 {
						first = int64(ip)
					}
					last = int64(ip)
					h = (h*31 + uint64(ip)) & 0xFFFFFFFFFFFF
					n++
				}
				fmt.Fprintf(w, "%d %d %d %d\n", n, first, last, h)
			}
		case "rawgen":
			// an IPNet built by hand: the IP field keeps its host bits (not what ParseCIDR returns)
			ip := net.ParseIP(f[1]).To4()
			p, _ := strconv.Atoi(f[2])
			if ip == nil {
				fmt.Fprintf(w, "error bad ip\n")
				continue
			}
			ipnet := &net.IPNet{IP: ip, Mask: net.CIDRMask(p, 32)}
			ch := make(chan uint32, 1024)
			go func() {
				ipGenerator(context.Background(), ipnet, ch)
				close(ch)
			}()
			var sb strings.Builder
			n := 0
			for ipv := range ch {
				sb.WriteByte(' ')
				sb.WriteString(strconv.FormatUint(uint64(ipv), 10))
				n++
			}
			fmt.Fprintf(w, "%d%s\n", n, sb.String())
		case "head":
			_, ipnet, err := net.ParseCIDR(f[1])
			if err != nil {
				fmt.Fprintf(w, "error %v\n", err)
				continue
			}
			n, _ := strconv.Atoi(f[2])
			ctx, cancel := context.WithCancel(context.Background())
			ch := make(chan uint32) // unbuffered: the generator blocks in its send
			ret := make(chan struct{})
			go func() {
				ipGenerator(ctx, ipnet, ch)
				close(ret)
			}()
			var sb strings.Builder
			got := 0
		recv:
			for got < n {
				select {
				case ip := <-ch:
					sb.WriteByte(' ')
					sb.WriteString(strconv.FormatUint(uint64(ip), 10))
					got++
				case <-ret:
					break recv
				}
			}
			cancel()
			returned := waitRet(ret)
			fmt.Fprintf(w, "%v%s\n", returned, sb.String())
		case "cancel":
			_, ipnet, err := net.ParseCIDR(f[1])
			if err != nil {
				fmt.Fprintf(w, "error %v\n", err)
				continue
			}
			ctx, cancel := context.WithCancel(context.Background())
			ch := make(chan uint32)
			ret := make(chan struct{})
			go func() {
				ipGenerator(ctx, ipnet, ch)
				close(ret)
			}()
			time.Sleep(2 * time.Millisecond) // let it reach its first send
			cancel()
			fmt.Fprintf(w, "%v\n", waitRet(ret))
		case "sz":
			p, _ := strconv.Atoi(f[1])
			fmt.Fprintf(w, "%d\n", computeNetSz(p))
		default:
			fmt.Fprintf(w, "error bad request\n")
		}
	}
}

func waitRet(ret chan struct{}) bool {
	select {
	case <-ret:
		return true
	case <-time.After(3 * time.Second):
		return false
	}
}
