//go:build verif

package driver

// C13 — every tag report and reader event reaches EdgeX exactly once. One request line = one
// scenario (same format as oracle/c13):
//
//	<id> <ndev> <seed> <step> ...
//
// steps: dR<v> ROAccessReport variant v from device d, dE<v> ReaderEventNotification variant v
// (v=4 carries a successful ConnectionAttemptEvent), dr<v>/de<v> a report/event the decoder
// rejects, dM / dL a well-formed report just under / over the client's 640 KiB buffer limit, dK keep-alive,
// dT<k> a request with a 30 ms deadline that the reader answers at once (0), in two pieces around
// the deadline (1, 4), late (2) or never (3) (9: through the driver, pieces 21 s apart),
// d+<modes> (anywhere in the list) how device d's first connections fail before the normal one
// (s: SetReaderConfig rejected, x: dropped after the connection event, y: dropped when
// SetReaderConfig arrives, w: SetReaderConfig never answered), dC<k> command through the driver (0-3 reads, 4 write ROSpecID/Enable).
// d~<flags> (anywhere): what EdgeX and the reader are like for device d — u: the reader has no UTC
// clock (its connection events and what it flushes on close are uptime-stamped); s / d: the device
// is already registered when the service starts (Driver.Start), operating state UP / DOWN (others
// are added through Driver.AddDevice, UP); h: the SDK's UpdateDeviceOperatingState(Up) does not
// return until released (step dH, or before dF / dZ, or when the device's steps are through);
// l: it takes 25 ms; f: it returns an error; g: UpdateDeviceOperatingState(Down) returns an error.
// dY: an outage during which the reader refuses connections until the device has been marked DOWN.
// dQ<e><c><kind><v>: the reader begins message <kind><v> (R/E) — the header announces all of it —
// and its connection ends after a part: e = f (end of stream: the reader shuts its sending side
// down and waits for the device to close), h (the reader's end is closed at once), r (reset);
// c = class of the offset at which the message is cut (see c13CutOffset). Nothing may be
// published for that message; the device reconnects.
//
// ndev real LLRPDevices are created by the driver itself (AddDevice -> getDevice ->
// NewLLRPDevice) on ONE Driver, i.e. one asynchronous-values channel, each connected to its own
// scripted loopback reader (frame code of c15_test.go). Every device's reader sends its steps in
// order, the devices run concurrently, commands are issued concurrently and answered late, so
// reports arrive while commands are in flight. The test reads the channel and matches every value
// against what was sent: content = what the library's decoder gives for the bytes that were sent.
//
// answer: "<n> d:RO:i d:REN:i ... | acks=a/k cmds=ok/n timed=ok/n other=n conns=n errs=n sent=d:i,..";
// sent = the connection events the readers really sent (2000+100d+n for connection n of device d);
// d = index of the
// device NAME the value was published under, i = index of the step whose content it carries
// anomalies start with '!'. Output lines are "S <i>" / "R <i> <answer>" (see TestVerifC13).

import (
	"context"
	"encoding/binary"
	"fmt"
	"io"
	"math/rand"
	"net"
	"reflect"
	"sort"
	"strconv"
	"strings"
	"sync"
	"sync/atomic"
	"testing"
	"time"

	"github.com/edgexfoundry/device-sdk-go/v4/pkg/interfaces"
	dsModels "github.com/edgexfoundry/device-sdk-go/v4/pkg/models"
	"github.com/edgexfoundry/go-mod-core-contracts/v4/common"
	"github.com/edgexfoundry/go-mod-core-contracts/v4/models"

	"github.com/edgexfoundry/device-rfid-llrp-go/internal/retry"
	"github.com/edgexfoundry/device-rfid-llrp-go/pkg/llrp"
)

// the SDK as the driver sees it: the devices registered in EdgeX when the service starts, and
// UpdateDeviceOperatingState, recorded, per device slow (parked until released / 25 ms) or failing
type c13SDK struct {
	interfaces.DeviceServiceSDK
	devs []models.Device
	beh  map[string]*c13SDKDev
}

type c13SDKDev struct {
	rd                     *c13Reader
	hold                   atomic.Bool // calls with Up park until release()
	slow, fail, failDown   bool
	rel                    chan struct{}
	relOnce                sync.Once
	parked, parkedTotal    atomic.Int64
	upCalls, downCalls     atomic.Int64
	upFailed, returnedLate atomic.Int64
}

func (b *c13SDKDev) release() {
	b.hold.Store(false)
	b.relOnce.Do(func() { close(b.rel) })
}

func (s *c13SDK) Devices() []models.Device { return s.devs }

func (s *c13SDK) UpdateDeviceOperatingState(name string, st models.OperatingState) error {
	b := s.beh[name]
	if b == nil {
		return nil
	}
	if st != models.Up {
		b.downCalls.Add(1)
		if b.failDown {
			return fmt.Errorf("scripted failure of the operating-state update")
		}
		return nil
	}
	b.upCalls.Add(1)
	if b.hold.Load() {
		if !b.rd.inNormal() {
			// a connection that is scripted to fail: core-metadata is unreachable (the flag stays DOWN)
			b.upFailed.Add(1)
			return fmt.Errorf("scripted failure of the operating-state update")
		}
		b.parked.Add(1)
		b.parkedTotal.Add(1)
		select {
		case <-b.rel:
		case <-time.After(30 * time.Second):
		}
		b.parked.Add(-1)
		b.returnedLate.Add(1)
	} else if b.slow {
		time.Sleep(25 * time.Millisecond)
	}
	if b.fail {
		b.upFailed.Add(1)
		return fmt.Errorf("scripted failure of the operating-state update")
	}
	return nil
}

type c13Reader struct {
	ln  net.Listener
	ln2 net.Listener // the address the device is moved to by a 'U1' step (and back)
	idx int
	// okConns counts the connections on which the device's SetReaderConfig was answered with success
	okConns atomic.Int64
	// early: frames to send on the first working connection before answering GetSupportedVersion
	// ('a'), between that answer and the answer to SetProtocolVersion ('b'), and before answering
	// the device's own SetReaderConfig ('c'); twoStep: negotiate in two steps (current 1.0.1, max 1.1)
	early   map[byte][][]byte
	twoStep bool
	// first messages actually sent, one per connection (what must be published for it)
	fmu   sync.Mutex
	first []c13First
	// paused: the reader does not take anything off the wire (its receive side is stalled)
	paused atomic.Bool
	// late: reports/events flushed between receiving CloseConnection and answering it
	late  []c13First
	wmu   sync.Mutex
	conn  net.Conn
	ready chan struct{}
	once  sync.Once
	acks  atomic.Int64
	conns atomic.Int64
	// modes: how the first connections go wrong, one character per connection, before the
	// normal one: 's' the device's SetReaderConfig is answered with an error status, 'x' the
	// connection drops right after the connection event, 'y' it drops when SetReaderConfig
	// arrives (unanswered), 'w' SetReaderConfig is never answered (the device waits its 20 s)
	modes    string
	stallGRC atomic.Bool // answer the next GetReaderConfig in two pieces, 21 s apart
	stall    time.Duration
	// uptime: the reader has no UTC clock; its own events are stamped with Uptime
	uptime bool
	// curN: index of the current connection (among those on which a first message was sent)
	curN atomic.Int64
	// okCur: the device's SetReaderConfig was answered with success on the current connection
	okCur atomic.Bool
	// refuse: connections are closed as soon as they are accepted, nothing is sent (outage)
	refuse  atomic.Bool
	refused atomic.Int64
	// mute: the sending side is shut down; requests are read and not answered
	mute atomic.Bool
	sdk  *c13SDKDev
}

// is the reader in a connection that is not scripted to fail?
func (rd *c13Reader) inNormal() bool { return int(rd.curN.Load()) >= len(rd.modes) }

// reconnected: a connection was accepted after the mark (a value of conns) and has got as far as
// the device's SetReaderConfig being answered, or — while the SDK's operating-state calls are
// held back, which comes first — as far as such a call
func (rd *c13Reader) reconnected(mark int64) bool {
	if rd.conns.Load() <= mark {
		return false
	}
	return rd.okCur.Load() || (rd.sdk != nil && rd.sdk.hold.Load() && rd.sdk.parked.Load() > 0)
}

// cut sends the beginning of a frame and ends the connection: 'f' end of stream (the sending
// side is shut down, the reader waits for the device to close), 'h' the reader's end is closed,
// 'r' reset
func (rd *c13Reader) cut(part []byte, how byte) {
	rd.wmu.Lock()
	defer rd.wmu.Unlock()
	c := rd.conn
	if c == nil {
		return
	}
	c.Write(part)
	tc, _ := c.(*net.TCPConn)
	switch {
	case how == 'f' && tc != nil:
		rd.mute.Store(true)
		tc.CloseWrite()
	case how == 'r' && tc != nil:
		time.Sleep(3 * time.Millisecond) // let the part arrive before the reset
		tc.SetLinger(0)
		c.Close()
	default:
		time.Sleep(time.Millisecond)
		c.Close()
	}
}

type c13First struct {
	typ     int
	payload []byte
}

// c13Gated is the reader's end of a connection whose Read waits while the reader is paused
type c13Gated struct {
	net.Conn
	rd *c13Reader
}

func (g c13Gated) Read(b []byte) (int, error) {
	for g.rd.paused.Load() {
		time.Sleep(time.Millisecond)
	}
	return g.Conn.Read(b)
}

// first message of connection n of device d for a given mode: a successful connection event, or
// ('1'..'4') a ReaderEventNotification whose ConnectionAttemptEvent reports a failed attempt
// (another connection exists, reader/client initiated; failed for another reason; attempted
// again), with further event parameters attached for the even ones, or ('n') an event without
// any ConnectionAttemptEvent, or ('o') an ROAccessReport
func c13FirstMessage(d, n int, mode byte, uptime bool) c13First {
	utc := c13ConnUTC(d, n)
	ts := []byte{0x00, 0x80, 0x00, 0x0C, 0, 0, 0, 0, 0, 0, 0, 0}
	if uptime { // a reader without UTC clock: the Uptime parameter (129), microseconds since it started
		ts[1] = 0x81
		utc -= 1600000000000000 - 50000000
	}
	binary.BigEndian.PutUint64(ts[4:], utc)
	ren := func(params ...[]byte) c13First {
		body := append([]byte{}, ts...)
		for _, p := range params {
			body = append(body, p...)
		}
		b := append([]byte{0x00, 0xF6, byte((len(body) + 4) >> 8), byte(len(body) + 4)}, body...)
		return c13First{c15MsgReaderEventNotification, b}
	}
	gpi := []byte{0x00, 0xF8, 0x00, 0x07, 0x00, 0x02, 0x80}     // GPIEvent port 2, true
	antenna := []byte{0x00, 0xFF, 0x00, 0x07, 0x01, 0x00, 0x03} // AntennaEvent connected, antenna 3
	attempt := func(st int) []byte { return []byte{0x01, 0x00, 0x00, 0x06, byte(st >> 8), byte(st)} }
	switch mode {
	case '1', '2', '3', '4':
		st := int(mode - '0')
		if st%2 == 0 {
			return ren(gpi, attempt(st))
		}
		return ren(attempt(st))
	case 'n':
		return ren(antenna)
	case 'o':
		// TagReportData{EPC96 (TV 13), ROSpecID (TV 9)} with the time stamp's low bytes as EPC
		epc := append([]byte{0x8D}, ts[4:]...)
		epc = append(epc, 0xAA, 0xBB, 0xCC, 0xDD)
		body := append(epc, 0x89, 0, 0, byte(d), byte(n))
		return c13First{c15MsgROAccessReport, append([]byte{0x00, 0xF0, 0x00, byte(len(body) + 4)}, body...)}
	}
	if uptime {
		return ren(attempt(0))
	}
	return c13First{c15MsgReaderEventNotification, c15ConnEvent(0, utc)}
}

// the n-th connection of device d announces itself with a distinct time stamp
func c13ConnUTC(d, n int) uint64 { return 1600000000000000 + uint64(1000*d+n) }
func c13ConnIdx(d, n int) int    { return 2000 + 100*d + n }
func c13LateIdx(d, m int) int    { return 3000 + 100*d + m }

var c13Replies = map[int]int{1: 11, 2: 12, 3: 13, 20: 30, 24: 34, 26: 36, 44: 54}

func (rd *c13Reader) write(b []byte) error {
	rd.wmu.Lock()
	defer rd.wmu.Unlock()
	if rd.conn == nil {
		return fmt.Errorf("not connected")
	}
	_, err := rd.conn.Write(b)
	return err
}

// writeTo writes an answer on the connection the request came in on — never on a later one
func (rd *c13Reader) writeTo(c net.Conn, b []byte) {
	rd.wmu.Lock()
	defer rd.wmu.Unlock()
	if rd.conn == c {
		c.Write(b)
	}
}

// writeSplit writes b[:cut], waits, writes the rest, on the connection the request came in on;
// nothing else gets in between
func (rd *c13Reader) writeSplit(c net.Conn, b []byte, cut int, wait time.Duration) {
	rd.wmu.Lock()
	defer rd.wmu.Unlock()
	if rd.conn != c {
		return
	}
	c.Write(b[:cut])
	time.Sleep(wait)
	c.Write(b[cut:])
}

func (rd *c13Reader) drop() {
	rd.wmu.Lock()
	if rd.conn != nil {
		rd.conn.Close()
	}
	rd.wmu.Unlock()
}

func (rd *c13Reader) flushEarly(phase byte) {
	rd.wmu.Lock()
	fr := rd.early[phase]
	delete(rd.early, phase)
	rd.wmu.Unlock()
	for _, b := range fr {
		rd.write(b)
	}
}

func (rd *c13Reader) serve() {
	accepted := make(chan net.Conn, 8)
	for _, ln := range []net.Listener{rd.ln, rd.ln2} {
		go func(ln net.Listener) {
			for {
				c, err := ln.Accept()
				if err != nil {
					return
				}
				accepted <- c
			}
		}(ln)
	}
	for n := 0; ; n++ {
		c := <-accepted
		if rd.refuse.Load() {
			// outage: whoever connects is turned away before anything is said
			c.Close()
			rd.refused.Add(1)
			n--
			continue
		}
		mode := byte(0)
		if n < len(rd.modes) {
			mode = rd.modes[n]
		}
		rd.curN.Store(int64(n))
		rd.mute.Store(false)
		rd.okCur.Store(false)
		rd.wmu.Lock()
		rd.conn = c
		rd.wmu.Unlock()
		if tc, ok := c.(*net.TCPConn); ok {
			tc.SetReadBuffer(256 << 10) // fixed (no autotuning): the 16 MiB request of an F step exceeds what both ends buffer
		}
		fm := c13FirstMessage(rd.idx, n, mode, rd.uptime)
		rd.fmu.Lock()
		rd.first = append(rd.first, fm)
		rd.fmu.Unlock()
		rd.write(c15Frame(fm.typ, 1, fm.payload))
		rd.conns.Add(1)
		if mode == 'x' {
			time.Sleep(2 * time.Millisecond)
			c.Close()
			continue
		}
		if strings.IndexByte("1234no", mode) >= 0 && mode != 0 {
			// not a successful connection event: the device gives the connection up
			c.SetReadDeadline(time.Now().Add(2 * time.Second))
			io.Copy(io.Discard, c)
			c.Close()
			continue
		}
		okHere := false
		gc := c13Gated{Conn: c, rd: rd}
		for {
			typ, id, payload, err := c15ReadFrame(gc)
			if err != nil {
				break
			}
			if rd.mute.Load() {
				continue
			}
			switch {
			case typ == c15MsgGetSupportedVersion:
				cur := byte(2 << 5)
				if mode == 0 {
					rd.flushEarly('a')
					if rd.twoStep {
						cur = 1 << 5 // the device will ask for 1.1 with SetProtocolVersion
					}
				}
				rd.write(c15Frame(c15MsgGetSupportedVersionResp, id, append([]byte{cur, 2 << 5}, c15Status(0)...)))
			case typ == 47: // SetProtocolVersion
				if mode == 0 {
					rd.flushEarly('b')
				}
				rd.write(c15Frame(57, id, c15Status(0)))
			case typ == c15MsgSetReaderConfig && mode == 's':
				rd.write(c15Frame(c15MsgSetReaderConfigResp, id, c15Status(100)))
			case typ == c15MsgSetReaderConfig && mode == 'y':
				c.Close()
			case typ == c15MsgSetReaderConfig && mode == 'w':
			case typ == c15MsgSetReaderConfig:
				rd.flushEarly('c')
				rd.write(c15Frame(c15MsgSetReaderConfigResp, id, c15Status(0)))
				if !okHere {
					okHere = true
					rd.okConns.Add(1)
				}
				rd.okCur.Store(true)
				rd.once.Do(func() { close(rd.ready) })
			case typ == c15MsgKeepAliveAck:
				rd.acks.Add(1)
			case typ == c15MsgCloseConnection:
				// a reader flushes what it has before it answers: one report and one event per close
				rd.fmu.Lock()
				m := len(rd.late)
				lr := c13FirstMessage(rd.idx, 500+m, 'o', rd.uptime)
				le := c13FirstMessage(rd.idx, 501+m, '2', rd.uptime)
				rd.late = append(rd.late, lr, le)
				rd.fmu.Unlock()
				rd.write(c15Frame(lr.typ, uint32(8000+m), lr.payload))
				rd.write(c15Frame(le.typ, uint32(8001+m), le.payload))
				rd.write(c15Frame(c15MsgCloseConnectionResponse, id, c15Status(0)))
				time.Sleep(2 * time.Millisecond)
				c.Close()
			case typ == 1023 && len(payload) >= 6:
				// a request of a 'T' step; payload[5] says how to answer (see c13Timed)
				reply := c15Frame(1023, id, []byte{0, 0, 0x65, 0x1A, 9, 1, 2, 3, 4, 5, 6, 7, 8})
				switch payload[5] {
				case 0:
					rd.write(reply)
				case 1: // header and part of the payload now, the rest after the caller gave up
					go rd.writeSplit(c, reply, 15, rd.stall)
				case 2: // everything, but only after the caller gave up
					go func() { time.Sleep(rd.stall); rd.writeTo(c, reply) }()
				case 3: // never
				default: // header now, payload after the caller gave up
					go rd.writeSplit(c, reply, 10, rd.stall)
				}
			case typ == c15MsgGetReaderConfig && rd.stallGRC.CompareAndSwap(true, false):
				go rd.writeSplit(c, c15Frame(c15MsgGetReaderConfigResp, id, c15Status(0)), 14, 21*time.Second)
			default:
				if rt, ok := c13Replies[typ]; ok {
					// answer late, so that reports sent meanwhile meet a command in flight
					go func(rt int, id uint32) {
						time.Sleep(8 * time.Millisecond)
						rd.writeTo(c, c15Frame(rt, id, c15Status(0)))
					}(rt, id)
				} else {
					rd.write(c15Frame(c15MsgErrorMessage, id, c15Status(109)))
				}
			}
		}
		c.Close()
	}
}

// request of an 'F' step: 16 MiB of CustomMessage, more than the socket buffers hold, so that the
// client's writer sits in Write for as long as the reader does not read
type c13Big struct{}

func (c13Big) Type() llrp.MessageType { return llrp.MsgCustomMessage }
func (c13Big) MarshalBinary() ([]byte, error) {
	b := make([]byte, 16<<20)
	copy(b, []byte{0, 0, 0x65, 0x1A, 9, 0})
	return b, nil
}

// request of a 'T' step: a CustomMessage whose first data byte tells the scripted reader how to
// answer; sent through LLRPDevice.TrySend with a deadline shorter than the reader's stall
type c13Timed struct{ plan byte }

func (c13Timed) Type() llrp.MessageType { return llrp.MsgCustomMessage }
func (t c13Timed) MarshalBinary() ([]byte, error) {
	return []byte{0, 0, 0x65, 0x1A, 9, t.plan}, nil
}

func c13u16(v int) *uint16 { x := uint16(v); return &x }

// well-formed contents; i (the step index) is embedded so that every message is distinct
func c13Report(v, i int, rnd *rand.Rand) *llrp.ROAccessReport {
	rs := llrp.ROSpecID(i + 1)
	tag := func(k int) llrp.TagReportData {
		epc := make([]byte, 12)
		rnd.Read(epc)
		ant := llrp.AntennaID(1 + k%4)
		rssi := llrp.PeakRSSI(-30 - k)
		cnt := llrp.TagSeenCount(1 + k)
		r := rs
		return llrp.TagReportData{EPC96: llrp.EPC96{EPC: epc}, ROSpecID: &r, AntennaID: &ant, PeakRSSI: &rssi, TagSeenCount: &cnt}
	}
	switch v % 9 {
	case 7: // heterogeneous tags: each with another set of optional parameters, 96-bit and longer EPCs mixed
		a := tag(0)
		f := llrp.FirstSeenUTC(1600000000000000 + uint64(i))
		ci := llrp.ChannelIndex(7)
		crc := llrp.C1G2CRC(0x1234)
		a.FirstSeenUTC, a.ChannelIndex, a.C1G2CRC = &f, &ci, &crc
		a.Custom = []llrp.Custom{{VendorID: 25882, Subtype: 1, Data: []byte{1, 2, 3}}}
		b := llrp.TagReportData{EPCData: llrp.EPCData{EPCNumBits: 128, EPC: []byte{0, 1, 2, 3, 4, 5, 6, 7, 8, 9, 10, 11, 12, 13, 14, byte(i)}}}
		c := tag(2)
		c.ROSpecID, c.AntennaID, c.PeakRSSI = nil, nil, nil
		lu := llrp.LastSeenUptime(77000 + uint64(i))
		as := llrp.AccessSpecID(9)
		c.LastSeenUptime, c.AccessSpecID = &lu, &as
		d := llrp.TagReportData{EPCData: llrp.EPCData{EPCNumBits: 20, EPC: []byte{0xAB, 0xCD, 0xE0}}}
		sp := llrp.SpecIndex(2)
		d.SpecIndex = &sp
		e := tag(4)
		return &llrp.ROAccessReport{TagReportData: []llrp.TagReportData{a, b, c, d, e}}
	case 8: // heterogeneous survey data and custom parameters next to tags
		r1, r2 := rs, llrp.SpecIndex(3)
		return &llrp.ROAccessReport{
			TagReportData: []llrp.TagReportData{tag(0), {EPCData: llrp.EPCData{EPCNumBits: 64, EPC: []byte{9, 8, 7, 6, 5, 4, 3, byte(i)}}}},
			RFSurveyReportData: []llrp.RFSurveyReportData{
				{ROSpecID: &r1, FrequencyRSSILevelEntries: []llrp.FrequencyRSSILevelEntry{{Frequency: 902750, Bandwidth: 500, AverageRSSI: -60, PeakRSSI: -50, UTCTimestamp: llrp.UTCTimestamp(1600000000000000 + uint64(i))}},
					Custom: []llrp.Custom{{VendorID: 1, Subtype: 2, Data: []byte{byte(i)}}}},
				{SpecIndex: &r2, FrequencyRSSILevelEntries: []llrp.FrequencyRSSILevelEntry{
					{Frequency: 903250, Bandwidth: 250, AverageRSSI: -61, PeakRSSI: -51, Uptime: llrp.Uptime(5000 + i)},
					{Frequency: 903750, Bandwidth: 250, AverageRSSI: -62, PeakRSSI: -52, Uptime: llrp.Uptime(6000 + i)}}}},
			Custom: []llrp.Custom{{VendorID: 25882, Subtype: uint32(i), Data: []byte{1}}, {VendorID: 7, Subtype: 0, Data: []byte{2, 3, 4, 5}}}}
	case 0: // a report without tags, told apart by a custom parameter
		return &llrp.ROAccessReport{Custom: []llrp.Custom{{VendorID: 25882, Subtype: uint32(i), Data: []byte{byte(i), 1, 2}}}}
	case 1:
		return &llrp.ROAccessReport{TagReportData: []llrp.TagReportData{tag(0)}}
	case 2: // several tags, UTC stamps
		var tags []llrp.TagReportData
		for k := 0; k < 3+i%3; k++ {
			t := tag(k)
			f := llrp.FirstSeenUTC(1600000000000000 + uint64(i)*1000 + uint64(k))
			l := llrp.LastSeenUTC(uint64(f) + 500)
			t.FirstSeenUTC, t.LastSeenUTC = &f, &l
			tags = append(tags, t)
		}
		return &llrp.ROAccessReport{TagReportData: tags}
	case 3: // uptime stamps (reader without UTC clock)
		t := tag(0)
		f := llrp.FirstSeenUptime(1000000 + uint64(i))
		l := llrp.LastSeenUptime(2000000 + uint64(i))
		t.FirstSeenUptime, t.LastSeenUptime = &f, &l
		return &llrp.ROAccessReport{TagReportData: []llrp.TagReportData{t, tag(1)}}
	case 4: // variable-length EPC, more optional fields
		t := tag(0)
		t.EPC96 = llrp.EPC96{}
		epc := make([]byte, 2+2*(i%9))
		rnd.Read(epc)
		t.EPCData = llrp.EPCData{EPCNumBits: uint16(len(epc) * 8), EPC: epc}
		si := llrp.SpecIndex(1)
		ip := llrp.InventoryParameterSpecID(7)
		ci := llrp.ChannelIndex(3)
		as := llrp.AccessSpecID(i)
		crc := llrp.C1G2CRC(0xBEEF)
		t.SpecIndex, t.InventoryParameterSpecID, t.ChannelIndex, t.AccessSpecID, t.C1G2CRC = &si, &ip, &ci, &as, &crc
		return &llrp.ROAccessReport{TagReportData: []llrp.TagReportData{t}}
	case 5: // RF survey data, one entry UTC one uptime
		r := rs
		return &llrp.ROAccessReport{RFSurveyReportData: []llrp.RFSurveyReportData{{ROSpecID: &r,
			FrequencyRSSILevelEntries: []llrp.FrequencyRSSILevelEntry{
				{Frequency: 902750, Bandwidth: 500, AverageRSSI: -60, PeakRSSI: -50, UTCTimestamp: llrp.UTCTimestamp(1600000000000000 + uint64(i))},
				{Frequency: 903250, Bandwidth: 500, AverageRSSI: -61, PeakRSSI: -51, Uptime: llrp.Uptime(5000 + i)},
			}}}}
	default: // many tags
		var tags []llrp.TagReportData
		for k := 0; k < 40; k++ {
			tags = append(tags, tag(k))
		}
		return &llrp.ROAccessReport{TagReportData: tags}
	}
}

// number of event shapes; 7..13 are stamped with Uptime (a reader without UTC clock), one of every kind
const c13EventShapes = 14

// shapes that carry a successful ConnectionAttemptEvent (their publisher runs onConnect first)
func c13IsConnSuccess(v int) bool { return v%c13EventShapes == 4 || v%c13EventShapes == 11 }

func c13Event(v, i int) *llrp.ReaderEventNotification {
	utc := llrp.UTCTimestamp(1600000001000000 + uint64(i))
	d := llrp.ReaderEventNotificationData{UTCTimestamp: utc}
	if v%c13EventShapes >= 7 {
		d.UTCTimestamp = 0
		d.Uptime = llrp.Uptime(555000000 + 1000*uint64(v%c13EventShapes) + uint64(i))
	}
	switch v % c13EventShapes {
	case 7: // uptime-stamped from here on: GPI
		d.GPIEvent = &llrp.GPIEvent{Port: uint16(1 + i%4), Event: i%2 == 1}
	case 8: // exception with text and references
		rs, ant, op := llrp.ROSpecID(i+1), llrp.AntennaID(2), llrp.OpSpecID(5)
		d.ReaderExceptionEvent = &llrp.ReaderExceptionEvent{Message: fmt.Sprintf("uptime exception %d", i), ROSpecID: &rs, AntennaID: &ant, OpSpecID: &op}
	case 9: // ROSpec / AISpec (with singulation details) / spec loop
		d.ROSpecEvent = &llrp.ROSpecEvent{Event: llrp.ROSpecEventType(i % 3), ROSpecID: uint32(i + 1)}
		d.AISpecEvent = &llrp.AISpecEvent{Event: 0, ROSpecID: uint32(i + 1), SpecIndex: 2,
			SingulationDetails: &llrp.C1G2SingulationDetails{NumCollisionSlots: 3, NumEmptySlots: uint16(i)}}
		d.SpecLoopEvent = &llrp.SpecLoopEvent{ROSpecID: uint32(i + 1), LoopCount: 7}
	case 10: // hopping, buffer level, overflow, antenna
		h := llrp.HoppingEvent(uint16(i + 1))
		w := llrp.ReportBufferLevelWarningEvent(uint8(i % 100))
		d.HoppingEvent, d.ReportBufferLevelWarningEvent = &h, &w
		d.ReportBufferOverflowErrorEvent = &llrp.ReportBufferOverflowErrorEvent{}
		d.AntennaEvent = &llrp.AntennaEvent{Event: llrp.AntennaEventType(i % 2), AntennaID: llrp.AntennaID(1 + i%4)}
	case 11: // a successful connection attempt event in mid-stream
		ce := llrp.ConnectionAttemptEvent(llrp.ConnSuccess)
		d.ConnectionAttemptEvent = &ce
	case 12: // the reader announces that it closes the connection (it does not), custom data
		d.ConnectionCloseEvent = &llrp.ConnectionCloseEvent{}
		d.Custom = []llrp.Custom{{VendorID: 25882, Subtype: uint32(i), Data: []byte{byte(i), 9}}}
	case 13: // many events in one notification
		h := llrp.HoppingEvent(uint16(i + 1))
		d.HoppingEvent = &h
		d.GPIEvent = &llrp.GPIEvent{Port: 3, Event: true}
		d.ROSpecEvent = &llrp.ROSpecEvent{Event: 1, ROSpecID: uint32(i + 1), PreemptingROSpecID: 2}
		d.RFSurveyEvent = &llrp.RFSurveyEvent{Event: llrp.RFSurveyEventType(i % 2), ROSpecID: uint32(i + 1)}
		d.AISpecEvent = &llrp.AISpecEvent{Event: 0, ROSpecID: uint32(i + 1), SpecIndex: 1}
		d.AntennaEvent = &llrp.AntennaEvent{Event: 1, AntennaID: 4}
		ce := llrp.ConnectionAttemptEvent(llrp.ConnExistsReaderInitiated)
		d.ConnectionAttemptEvent = &ce
	case 0:
		d.GPIEvent = &llrp.GPIEvent{Port: uint16(1 + i%4), Event: i%2 == 0}
	case 1: // uptime-stamped
		d.UTCTimestamp = 0
		d.Uptime = llrp.Uptime(123456789 + i)
		d.AntennaEvent = &llrp.AntennaEvent{Event: llrp.AntennaEventType(i % 2), AntennaID: llrp.AntennaID(1 + i%4)}
	case 2:
		rs := llrp.ROSpecID(i + 1)
		d.ReaderExceptionEvent = &llrp.ReaderExceptionEvent{Message: fmt.Sprintf("exception %d: antenna lost é", i), ROSpecID: &rs}
	case 3:
		d.ROSpecEvent = &llrp.ROSpecEvent{Event: llrp.ROSpecEventType(i % 3), ROSpecID: uint32(i + 1), PreemptingROSpecID: uint32(i % 2)}
		d.AISpecEvent = &llrp.AISpecEvent{Event: 0, ROSpecID: uint32(i + 1), SpecIndex: 1}
	case 4: // a successful connection attempt event in mid-stream
		ce := llrp.ConnectionAttemptEvent(llrp.ConnSuccess)
		d.ConnectionAttemptEvent = &ce
	case 5:
		h := llrp.HoppingEvent(uint16(i + 1))
		w := llrp.ReportBufferLevelWarningEvent(uint8(50 + i%50))
		d.HoppingEvent, d.ReportBufferLevelWarningEvent = &h, &w
		d.ReportBufferOverflowErrorEvent = &llrp.ReportBufferOverflowErrorEvent{}
	default: // uptime-stamped, several events
		d.UTCTimestamp = 0
		d.Uptime = llrp.Uptime(987654321 + i)
		d.RFSurveyEvent = &llrp.RFSurveyEvent{Event: llrp.RFSurveyEventType(i % 2), ROSpecID: uint32(i + 1)}
		d.GPIEvent = &llrp.GPIEvent{Port: 2, Event: true}
	}
	return &llrp.ReaderEventNotification{ReaderEventNotificationData: d}
}

// payloads the decoders reject with an error (a TLV length beyond the buffer, a wrong first
// parameter, left-over bytes); never a TLV length below 4 (C11's business)
func c13BadReport(v int) []byte {
	switch v % 3 {
	case 0:
		return []byte{0x00, 0xF0, 0x01, 0x00} // TagReportData says 256 bytes
	case 1:
		return []byte{0x00, 0xF0, 0x00, 0x08, 0x00, 0xF1, 0x00, 0x20} // EPCData inside says 32 bytes, 4 remain
	default:
		return []byte{0x03, 0x33, 0x00, 0x04, 0, 0, 0, 0} // unknown parameter, bytes remain
	}
}

func c13BadEvent(v int) []byte {
	ts := []byte{0x00, 0x80, 0x00, 0x0C, 0, 5, 0xAF, 0x2F, 0x9C, 0x2A, 0, 1}
	switch v % 3 {
	case 0: // GPIEvent says 64 bytes
		return append(append([]byte{0x00, 0xF6, 0x00, 0x14}, ts...), 0x00, 0xF8, 0x00, 0x40)
	case 1: // first parameter is neither UTCTimestamp nor Uptime
		return []byte{0x00, 0xF6, 0x00, 0x10, 0x00, 0xF8, 0x00, 0x0C, 0, 1, 0x80, 0, 0, 0, 0, 0}
	default: // bytes after the ReaderEventNotificationData
		return append(append([]byte{0x00, 0xF6, 0x00, 0x10}, ts...), 0xDE, 0xAD, 0xBE, 0xEF)
	}
}

type c13Step struct {
	dev, idx int
	kind     byte
	variant  int
	payload  []byte
	typ      int
	want     interface{} // decoded content expected to be published (nil: nothing)
	used     int
	// 'Q' steps: how the connection ends, where the message is cut (bytes of the payload sent;
	// -k: only k bytes of the header), and what the part of the payload that is sent decodes to
	// (nil: the decoder rejects it)
	endHow  byte
	cutAt   int
	partial interface{}
}

// TV parameter sizes (type octet included), LLRP 1.1 section 17.2.x
var c13TVLen = map[int]int{1: 3, 2: 9, 3: 9, 4: 9, 5: 9, 6: 2, 7: 3, 8: 3, 9: 5, 10: 3, 11: 3, 12: 3, 13: 13, 14: 3, 15: 3, 16: 5, 17: 3, 18: 5, 19: 3, 20: 3}

// c13Boundaries walks a sequence of parameters and returns the offsets at which a parameter
// ends, top-level ones and nested ones (children of TLVs that consist of parameters after a
// fixed part of fix[type] bytes) separately
func c13Boundaries(b []byte, base int, depth int, top, nested *[]int) {
	fix := map[int]int{240: 0, 246: 0, 242: 0, 241: -1, 243: 10, 252: -2, 254: 7}
	for off := 0; off < len(b); {
		if b[off]&0x80 != 0 {
			n := c13TVLen[int(b[off]&0x7f)]
			if n == 0 || off+n > len(b) {
				return
			}
			off += n
		} else {
			if off+4 > len(b) {
				return
			}
			typ := int(b[off]&3)<<8 | int(b[off+1])
			n := int(b[off+2])<<8 | int(b[off+3])
			if n < 4 || off+n > len(b) {
				return
			}
			if f, ok := fix[typ]; ok && f >= 0 && 4+f <= n && depth < 3 {
				c13Boundaries(b[off+4+f:off+n], base+off+4+f, depth+1, top, nested)
			}
			off += n
		}
		if depth == 0 {
			*top = append(*top, base+off)
		} else {
			*nested = append(*nested, base+off)
		}
	}
}

// c13CutOffset chooses where a message is cut, by class: 0 the header alone, 1 inside the header,
// 2 a proper prefix of the payload that the decoder accepts on its own, 3 / 4 / 9 a / the last /
// the first boundary between top-level parameters, 5 inside the header of a parameter, 6 a
// boundary between nested parameters, 7 one byte short, 8 anywhere. Returned: bytes of the
// payload sent, or -k for k bytes of the header only.
func c13CutOffset(class int, payload []byte, decodes func([]byte) bool, rnd *rand.Rand) int {
	var top, nested []int
	c13Boundaries(payload, 0, 0, &top, &nested)
	proper := func(l []int) []int {
		var r []int
		for _, o := range l {
			if o > 0 && o < len(payload) {
				r = append(r, o)
			}
		}
		return r
	}
	top, nested = proper(top), proper(nested)
	pick := func(l []int) int {
		if len(l) == 0 {
			return rnd.Intn(len(payload))
		}
		return l[rnd.Intn(len(l))]
	}
	switch class % 10 {
	case 0:
		return 0
	case 1:
		return -(1 + rnd.Intn(9))
	case 2:
		var ok []int
		for o := 1; o < len(payload); o++ {
			if decodes(payload[:o]) {
				ok = append(ok, o)
			}
		}
		if len(ok) == 0 {
			return pick(top)
		}
		return pick(ok)
	case 3:
		return pick(top)
	case 4:
		if len(top) > 0 {
			return top[len(top)-1]
		}
		return pick(nested)
	case 9:
		if len(top) > 0 {
			return top[0]
		}
		return pick(nested)
	case 5:
		o := pick(append(append([]int{0}, top...), nested...)) + 1 + rnd.Intn(3)
		if o >= len(payload) {
			o = len(payload) - 1
		}
		return o
	case 6:
		return pick(nested)
	case 7:
		return len(payload) - 1
	}
	return rnd.Intn(len(payload))
}

// c13Decodes: does the library's decoder accept these bytes as the payload of the type?
func c13Decodes(typ int, b []byte) (v interface{}, ok bool) {
	defer func() {
		if recover() != nil {
			v, ok = nil, false
		}
	}()
	if typ == c15MsgROAccessReport {
		w := &llrp.ROAccessReport{}
		return w, w.UnmarshalBinary(b) == nil
	}
	w := &llrp.ReaderEventNotification{}
	return w, w.UnmarshalBinary(b) == nil
}

// c13Diff lists the paths of the leaves in which two values of one type differ (at most max)
func c13Diff(a, b reflect.Value, path string, out *[]string, max int) {
	if len(*out) >= max {
		return
	}
	if a.Kind() != b.Kind() || a.Type() != b.Type() {
		*out = append(*out, path)
		return
	}
	switch a.Kind() {
	case reflect.Ptr, reflect.Interface:
		if a.IsNil() || b.IsNil() {
			if a.IsNil() != b.IsNil() {
				*out = append(*out, path)
			}
			return
		}
		c13Diff(a.Elem(), b.Elem(), path, out, max)
	case reflect.Struct:
		for i := 0; i < a.NumField(); i++ {
			c13Diff(a.Field(i), b.Field(i), path+"."+a.Type().Field(i).Name, out, max)
		}
	case reflect.Slice, reflect.Array:
		if a.Kind() == reflect.Slice && a.Type().Elem().Kind() == reflect.Uint8 {
			if !reflect.DeepEqual(a.Interface(), b.Interface()) {
				*out = append(*out, path)
			}
			return
		}
		if a.Len() != b.Len() {
			*out = append(*out, path+".len")
			return
		}
		for i := 0; i < a.Len(); i++ {
			c13Diff(a.Index(i), b.Index(i), fmt.Sprintf("%s[%d]", path, i), out, max)
		}
	default:
		if !reflect.DeepEqual(a.Interface(), b.Interface()) {
			*out = append(*out, path)
		}
	}
}


// c13ProbeProcessReport answers the question "what would processReport do with a report that
// carries only the uptime parameters": it calls the function directly (the supervised code never
// does on the unchanged tree: l.readerStart is never assigned, see notes/C13.md)
func c13ProbeProcessReport() (res string) {
	defer func() {
		if r := recover(); r != nil {
			res = fmt.Sprintf("probe processReport(uptime-only tag): panics: %v", r)
		}
	}()
	f := llrp.FirstSeenUptime(1000)
	rep := &llrp.ROAccessReport{TagReportData: []llrp.TagReportData{{EPC96: llrp.EPC96{EPC: make([]byte, 12)}, FirstSeenUptime: &f}}}
	processReport(time.Now(), rep)
	return "probe processReport(uptime-only tag): returns"
}

func c13RunScenario(f []string) string {
	if len(f) >= 1 && f[0] == "probe" {
		return c13ProbeProcessReport()
	}
	if len(f) < 3 {
		return "!badrequest"
	}
	id := f[0]
	ndev, _ := strconv.Atoi(f[1])
	seed, _ := strconv.ParseInt(f[2], 10, 64)
	rnd := rand.New(rand.NewSource(seed))
	var errs atomic.Int64
	asyncCh := make(chan *dsModels.AsyncValues, 1)
	sdk := &c13SDK{beh: map[string]*c13SDKDev{}}
	d := &Driver{lc: c15Logger{errs: &errs}, asyncCh: asyncCh, svc: sdk,
		activeDevices: make(map[string]*LLRPDevice), done: make(chan struct{}), config: &ServiceConfig{}}

	// collector: the SDK's side of the channel, a little sluggish so that publishers queue up
	type got struct {
		v  *dsModels.AsyncValues
		at time.Time
	}
	var gmu sync.Mutex
	var gots []got
	stopCollect := make(chan struct{})
	collectDone := make(chan struct{})
	crnd := rand.New(rand.NewSource(seed + 1))
	var pausedUntil atomic.Int64 // the consumer of the channel takes nothing before this time (unix nano)
	collectorPaused := func() bool { return time.Now().UnixNano() < pausedUntil.Load() }
	go func() {
		defer close(collectDone)
		for {
			for collectorPaused() {
				time.Sleep(time.Millisecond)
			}
			select {
			case v := <-asyncCh:
				gmu.Lock()
				gots = append(gots, got{v, time.Now()})
				gmu.Unlock()
				if crnd.Intn(4) == 0 {
					time.Sleep(time.Duration(crnd.Intn(400)) * time.Microsecond)
				}
			case <-stopCollect:
				return
			}
		}
	}()
	count := func() int {
		gmu.Lock()
		defer gmu.Unlock()
		n := 0
		for _, g := range gots {
			for _, cv := range g.v.CommandValues {
				if cv.DeviceResourceName == ResourceROAccessReport || cv.DeviceResourceName == ResourceReaderNotification {
					n++
				}
			}
		}
		return n
	}

	countDev := func(name string) int {
		gmu.Lock()
		defer gmu.Unlock()
		n := 0
		for _, g := range gots {
			if g.v.DeviceName != name {
				continue
			}
			for _, cv := range g.v.CommandValues {
				if cv.DeviceResourceName == ResourceROAccessReport || cv.DeviceResourceName == ResourceReaderNotification {
					n++
				}
			}
		}
		return n
	}
	earlyWant := make([]int, ndev)

	readers := make([]*c13Reader, ndev)
	names := make([]string, ndev)
	var devFlags []string
	steps := []*c13Step{}
	t0 := time.Now()
	for i := 0; i < ndev; i++ {
		ln, err := net.Listen("tcp4", "127.0.0.1:0")
		if err != nil {
			return "!listen"
		}
		defer ln.Close()
		ln2, err := net.Listen("tcp4", "127.0.0.1:0")
		if err != nil {
			return "!listen"
		}
		defer ln2.Close()
		rd := &c13Reader{ln: ln, ln2: ln2, idx: i, ready: make(chan struct{}), stall: 90 * time.Millisecond, early: map[byte][][]byte{}}
		flags := ""
		for _, st := range f[3:] {
			if len(st) > 2 && st[1] == '+' && int(st[0]-'0') == i {
				rd.modes = st[2:]
			}
			if len(st) > 2 && st[1] == '~' && int(st[0]-'0') == i {
				flags += st[2:]
			}
		}
		readers[i] = rd
		names[i] = fmt.Sprintf("c13-%s-dev%d", id, i)
		rd.uptime = strings.Contains(flags, "u")
		rd.sdk = &c13SDKDev{rd: rd, rel: make(chan struct{}), slow: strings.Contains(flags, "l"),
			fail: strings.Contains(flags, "f"), failDown: strings.Contains(flags, "g")}
		rd.sdk.hold.Store(strings.Contains(flags, "h"))
		sdk.beh[names[i]] = rd.sdk
		devFlags = append(devFlags, flags)
	}
	protoOf := func(di, which int) protocolMap {
		ln := readers[di].ln
		if which == 1 {
			ln = readers[di].ln2
		}
		return protocolMap{"tcp": {"host": "127.0.0.1", "port": strconv.Itoa(ln.Addr().(*net.TCPAddr).Port)}}
	}
	// the script
	perDev := make([][]*c13Step, ndev)
	var notes []string
	for i, st := range f[3:] {
		if len(st) < 2 || int(st[0]-'0') >= ndev {
			return "!badstep:" + st
		}
		s := &c13Step{dev: int(st[0] - '0'), idx: i, kind: st[1]}
		if len(st) > 2 {
			s.variant, _ = strconv.Atoi(st[2:])
		}
		phase := byte(0)
		if st[1] == '@' { // d@<phase><kind><variant>: sent while the connection is still being set up
			if len(st) < 4 {
				return "!badstep:" + st
			}
			phase, s.kind = st[2], st[3]
			s.variant, _ = strconv.Atoi(st[4:])
			if s.kind != 'R' && s.kind != 'E' && s.kind != 'r' && s.kind != 'e' {
				return "!badstep:" + st
			}
		}
		switch s.kind {
		case 'R':
			m := c13Report(s.variant, i, rnd)
			b, err := m.MarshalBinary()
			if err != nil {
				return "!marshal " + err.Error()
			}
			w := &llrp.ROAccessReport{}
			if err := w.UnmarshalBinary(b); err != nil {
				return "!selfdecode " + err.Error()
			}
			// the reference is the value the script built, before any encoding or decoding; the
			// library's own decoding of the bytes must agree with it to begin with
			if !reflect.DeepEqual(w, m) {
				notes = append(notes, fmt.Sprintf("!decoder-vs-source:%d", i))
			}
			s.payload, s.typ, s.want = b, c15MsgROAccessReport, m
		case 'E':
			m := c13Event(s.variant, i)
			b, err := m.MarshalBinary()
			if err != nil {
				return "!marshal " + err.Error()
			}
			w := &llrp.ReaderEventNotification{}
			if err := w.UnmarshalBinary(b); err != nil {
				return "!selfdecode " + err.Error()
			}
			if !reflect.DeepEqual(w, m) {
				notes = append(notes, fmt.Sprintf("!decoder-vs-source:%d", i))
			}
			s.payload, s.typ, s.want = b, c15MsgReaderEventNotification, m
		case 'M', 'L':
			// well-formed and large: 'M' just under llrp.MaxBufferedPayloadSz (must be published),
			// 'L' above it (Message.data refuses it: treated like a message that fails to decode)
			n := 20000
			if s.kind == 'L' {
				n = 23000
			}
			m := c13Report(1, i, rnd)
			for k := 1; k < n; k++ {
				t := m.TagReportData[0]
				cnt := llrp.TagSeenCount(k)
				t.TagSeenCount = &cnt
				m.TagReportData = append(m.TagReportData, t)
			}
			b, err := m.MarshalBinary()
			if err != nil {
				return "!marshal " + err.Error()
			}
			s.payload, s.typ = b, c15MsgROAccessReport
			if (len(b) > int(llrp.MaxBufferedPayloadSz)) != (s.kind == 'L') {
				notes = append(notes, fmt.Sprintf("!badgen:%s:%d", st, len(b)))
			}
			if s.kind == 'M' {
				w := &llrp.ROAccessReport{}
				if err := w.UnmarshalBinary(b); err != nil {
					return "!selfdecode " + err.Error()
				}
				s.want = w
			}
		case 'r':
			s.payload, s.typ = c13BadReport(s.variant), c15MsgROAccessReport
			if (&llrp.ROAccessReport{}).UnmarshalBinary(s.payload) == nil {
				notes = append(notes, "!badgen:"+st)
			}
		case 'e':
			s.payload, s.typ = c13BadEvent(s.variant), c15MsgReaderEventNotification
			if (&llrp.ReaderEventNotification{}).UnmarshalBinary(s.payload) == nil {
				notes = append(notes, "!badgen:"+st)
			}
		case 'Q':
			// dQ<e><c><kind><v>: message <kind><v> is begun and its connection ends after a part
			if len(st) < 6 || strings.IndexByte("fhr", st[2]) < 0 || st[3] < '0' || st[3] > '9' || (st[4] != 'R' && st[4] != 'E') {
				return "!badstep:" + st
			}
			s.endHow = st[2]
			s.variant, _ = strconv.Atoi(st[5:])
			var b []byte
			var err error
			if st[4] == 'R' {
				s.typ = c15MsgROAccessReport
				b, err = c13Report(s.variant, i, rnd).MarshalBinary()
			} else {
				s.typ = c15MsgReaderEventNotification
				b, err = c13Event(s.variant, i).MarshalBinary()
			}
			if err != nil || len(b) < 2 {
				return "!marshal"
			}
			s.payload = b
			typ := s.typ
			s.cutAt = c13CutOffset(int(st[3]-'0'), b, func(p []byte) bool { _, ok := c13Decodes(typ, p); return ok }, rnd)
			if s.cutAt >= 0 {
				if v, ok := c13Decodes(typ, b[:s.cutAt]); ok {
					s.partial = v
				}
			}
		case 'K', 'C', 'T', 'U', 'X', 'Z', 'F', 'G', 'P', 'H', 'Y':
		case '+', '~':
			continue
		default:
			return "!badstep:" + st
		}
		steps = append(steps, s)
		if phase != 0 {
			rd := readers[s.dev]
			rd.early[phase] = append(rd.early[phase], c15Frame(s.typ, uint32(5000+s.idx), s.payload))
			rd.twoStep = true
			if s.want != nil {
				earlyWant[s.dev]++
			}
			continue
		}
		perDev[s.dev] = append(perDev[s.dev], s)
	}
	// devices that EdgeX already knows when the service starts (UP or DOWN) come from Driver.Start,
	// the others are added afterwards
	atStart := false
	for i, rd := range readers {
		go rd.serve()
		if strings.ContainsAny(devFlags[i], "sd") {
			st := models.OperatingState(models.Up)
			if strings.Contains(devFlags[i], "d") {
				st = models.Down
			}
			sdk.devs = append(sdk.devs, models.Device{Name: names[i], Protocols: protoOf(i, 0), OperatingState: st, AdminState: models.Unlocked})
			atStart = true
		}
	}
	if atStart {
		if err := d.Start(); err != nil {
			return "!start " + err.Error()
		}
	}
	for i := range readers {
		if strings.ContainsAny(devFlags[i], "sd") {
			continue
		}
		if err := d.AddDevice(names[i], protoOf(i, 0), models.Unlocked); err != nil {
			return "!adddevice " + err.Error()
		}
	}
	for _, rd := range readers {
		patience := 8 * time.Second
		if strings.Contains(rd.modes, "w") {
			patience = 40 * time.Second
		}
		// ready: the device's SetReaderConfig was answered, or (which comes first when the SDK's
		// operating-state call is held back) its connection event is being processed
		for dl := time.Now().Add(patience); ; {
			select {
			case <-rd.ready:
			default:
				if rd.sdk.parked.Load() == 0 {
					if time.Now().After(dl) {
						return "!notready"
					}
					time.Sleep(200 * time.Microsecond)
					continue
				}
			}
			break
		}
	}

	delays := make([]time.Duration, len(f))
	for i := range delays {
		delays[i] = time.Duration(rnd.Intn(1500)) * time.Microsecond
	}

	var wg sync.WaitGroup
	var cmdOK, cmdN, kaN, tOK, tN, stuck, noReconnect, heldBack atomic.Int64
	for di := 0; di < ndev; di++ {
		wg.Add(1)
		go func(di int) {
			defer wg.Done()
			rd := readers[di]
			var mine sync.WaitGroup // this device's commands and requests still under way
			where := 0              // which of its two addresses the device is configured with
			// bounded: an operation of the service that never returns must not hang the scenario
			bounded := func(what string, limit time.Duration, op func()) {
				done := make(chan struct{})
				go func() { op(); close(done) }()
				select {
				case <-done:
				case <-time.After(limit):
					stuck.Add(1)
				}
			}
			waitOK := func(mark int64) {
				for dl := time.Now().Add(6 * time.Second); !rd.reconnected(mark) && time.Now().Before(dl); {
					time.Sleep(500 * time.Microsecond)
				}
				if !rd.reconnected(mark) {
					noReconnect.Add(1)
				}
			}
			// the SDK's operating-state calls return now; wait until the connection set-up that
			// was waiting for them is through (the device's SetReaderConfig answered)
			releaseAndSettle := func() {
				if !rd.sdk.hold.Load() {
					return
				}
				rd.sdk.release()
				for dl := time.Now().Add(3 * time.Second); (rd.sdk.parked.Load() > 0 || rd.okConns.Load() == 0) && time.Now().Before(dl); {
					time.Sleep(500 * time.Microsecond)
				}
				time.Sleep(2 * time.Millisecond)
			}
			// what this device must have published by now: everything sent before step k, except
			// the connection events whose publishers are waiting for the SDK
			needBefore := func(k int) int {
				rd.fmu.Lock()
				need := len(rd.first) + len(rd.late) + earlyWant[di]
				rd.fmu.Unlock()
				for _, p := range perDev[di][:k] {
					if p.want != nil {
						need++
					}
				}
				return need - int(rd.sdk.parked.Load())
			}
			waitBefore := func(k int, limit time.Duration) {
				for dl := time.Now().Add(limit); countDev(names[di]) < needBefore(k) && time.Now().Before(dl); {
					time.Sleep(500 * time.Microsecond)
				}
			}
			// before the reader reads again: everything it sent meanwhile must have been published
			// already (bounded wait: a measurement)
			resume := func(k int) {
				if !rd.paused.Load() {
					return
				}
				rd.fmu.Lock()
				need := len(rd.first) + len(rd.late) + earlyWant[di]
				rd.fmu.Unlock()
				stallAt := 0
				for j, p := range perDev[di][:k] {
					if p.kind == 'F' {
						stallAt = j
					}
				}
				for j, p := range perDev[di][:k] {
					// (a successful connection event sent during the stall is published only after the
					// SetReaderConfig exchange it triggers, which waits for the blocked writer)
					if p.want != nil && !(j > stallAt && p.kind == 'E' && c13IsConnSuccess(p.variant)) {
						need++
					}
				}
				for dl := time.Now().Add(1500 * time.Millisecond); countDev(names[di]) < need && (time.Now().Before(dl) || collectorPaused()); {
					time.Sleep(2 * time.Millisecond)
					if collectorPaused() {
						dl = time.Now().Add(1500 * time.Millisecond)
					}
				}
				if got := countDev(names[di]); got < need {
					heldBack.Add(int64(need - got))
				}
				rd.paused.Store(false)
			}
			defer resume(len(perDev[di]))
			defer rd.sdk.release()
			for k, s := range perDev[di] {
				time.Sleep(delays[s.idx%len(delays)])
				switch s.kind {
				case 'H':
					rd.sdk.release()
				case 'Y':
					// outage: the reader's end goes away and connections are refused until the
					// device has been marked DOWN (or, if it was DOWN already, a few attempts failed)
					before := rd.conns.Load()
					downs := rd.sdk.downCalls.Load()
					rd.refused.Store(0)
					rd.refuse.Store(true)
					rd.drop()
					for dl := time.Now().Add(3 * time.Second); rd.sdk.downCalls.Load() == downs && rd.refused.Load() < 5 && time.Now().Before(dl); {
						time.Sleep(time.Millisecond)
					}
					rd.refuse.Store(false)
					waitOK(before)
				case 'Q':
					// a message is begun and the connection ends before all of it was sent
					before := rd.conns.Load()
					if s.endHow != 'f' {
						// (a reset may overtake what is still on its way: wait for what was sent before)
						waitBefore(k, time.Second)
					}
					fr := c15Frame(s.typ, uint32(5000+s.idx), s.payload)
					part := fr[:10+s.cutAt]
					if s.cutAt < 0 {
						part = fr[:-s.cutAt]
					}
					rd.cut(part, s.endHow)
					waitOK(before)
				case 'P':
					// back-pressure: the consumer of the asynchronous-values channel takes nothing
					// for variant/10 seconds; every device goes on publishing meanwhile
					pausedUntil.Store(time.Now().Add(time.Duration(s.variant) * 100 * time.Millisecond).UnixNano())
				case 'F':
					// the reader's receive side stalls: it stops taking bytes off the wire while a
					// large request is on its way (so the client's writer blocks in Write), and its
					// KeepAlive timer fires k times; what follows is sent behind that backlog
					releaseAndSettle()
					// (what is measured is what is sent behind the backlog: connection events of
					// earlier connections whose publishers are still talking to the SDK / the reader
					// are waited for first)
					waitBefore(k, 1500*time.Millisecond)
					rd.paused.Store(true)
					wg.Add(1)
					mine.Add(1)
					go func() {
						defer wg.Done()
						defer mine.Done()
						dev, _, err := d.getDevice(names[di], nil)
						if err != nil {
							return
						}
						ctx, cancel := context.WithTimeout(context.Background(), 15*time.Second)
						_ = dev.TrySend(ctx, c13Big{}, &llrp.CustomMessage{})
						cancel()
					}()
					time.Sleep(40 * time.Millisecond) // the request fills the socket buffers
					nka := []int{7, 20, 100}[s.variant%3]
					for i := 0; i < nka; i++ {
						kaN.Add(1)
						rd.write(c15Frame(c15MsgKeepAlive, uint32(900000+1000*s.idx+i), nil))
					}
				case 'G':
					resume(k)
				case 'U':
					// EdgeX updates the device: same address (0, nothing should happen, in the
					// background) or the other address (1: connection closed, reconnect there)
					if s.variant%2 == 0 {
						wg.Add(1)
						go func(where int) {
							defer wg.Done()
							bounded("update", 3*time.Second, func() { _ = d.UpdateDevice(names[di], protoOf(di, where), models.Unlocked) })
						}(where)
						continue
					}
					before := rd.conns.Load()
					where = 1 - where
					bounded("update", 3*time.Second, func() { _ = d.UpdateDevice(names[di], protoOf(di, where), models.Unlocked) })
					waitOK(before)
				case 'X':
					// outage: the reader's side of the connection goes away; the device reconnects
					before := rd.conns.Load()
					rd.drop()
					waitOK(before)
				case 'Z':
					// this device is removed while the others go on; nothing more is sent for it.
					// (Its own commands are allowed to finish first: a request caught by the removal
					// waits for the 20 s deadline on the client the supervisor leaves behind.)
					// (so are the publishers of its connection events, which talk to the SDK and then to
					// the reader: caught by the removal they would wait for the 20 s deadline as well)
					releaseAndSettle()
					waitBefore(k, 1500*time.Millisecond)
					bounded("commands", 3*time.Second, mine.Wait)
					bounded("remove", 3*time.Second, func() { _ = d.RemoveDevice(names[di], nil) })
					for _, rest := range perDev[di][k+1:] {
						rest.want = nil
					}
					return
				case 'K':
					kaN.Add(1)
					rd.write(c15Frame(c15MsgKeepAlive, uint32(7000+s.idx), nil))
				case 'T':
					// a request with a short deadline; the reader answers slowly, in pieces, or never
					tN.Add(1)
					wg.Add(1)
					mine.Add(1)
					go func(s *c13Step) {
						defer wg.Done()
						defer mine.Done()
						if s.variant == 9 { // through the driver (20 s deadline), reply split 21 s apart
							rd.stallGRC.Store(true)
							_, _ = d.HandleReadCommands(names[s.dev], nil,
								[]dsModels.CommandRequest{{DeviceResourceName: ResourceReaderConfig, Type: common.ValueTypeObject}})
							time.Sleep(1500 * time.Millisecond) // until the reader has finished its reply
							return
						}
						dev, _, err := d.getDevice(names[s.dev], nil)
						if err != nil {
							return
						}
						ctx, cancel := context.WithTimeout(context.Background(), 30*time.Millisecond)
						err = dev.TrySend(ctx, c13Timed{plan: byte(s.variant % 5)}, &llrp.CustomMessage{})
						cancel()
						if err == nil {
							tOK.Add(1)
						}
						if s.variant%5 != 0 && s.variant%5 != 3 {
							time.Sleep(rd.stall) // until the reader has finished its reply
						}
					}(s)
				case 'C':
					cmdN.Add(1)
					wg.Add(1)
					mine.Add(1)
					go func(s *c13Step) {
						defer wg.Done()
						defer mine.Done()
						var err error
						if s.variant%5 == 4 {
							cv1, _ := dsModels.NewCommandValue(ResourceROSpecID, common.ValueTypeUint32, uint32(s.idx+1))
							cv2, _ := dsModels.NewCommandValue(ResourceAction, common.ValueTypeString, ActionEnable)
							err = d.HandleWriteCommands(names[s.dev], nil,
								[]dsModels.CommandRequest{{DeviceResourceName: ResourceROSpecID, Type: common.ValueTypeUint32},
									{DeviceResourceName: ResourceAction, Type: common.ValueTypeString}},
								[]*dsModels.CommandValue{cv1, cv2})
						} else {
							res := []string{ResourceReaderConfig, ResourceReaderCap, ResourceROSpec, ResourceAccessSpec}[s.variant%5]
							_, err = d.HandleReadCommands(names[s.dev], nil,
								[]dsModels.CommandRequest{{DeviceResourceName: res, Type: common.ValueTypeObject}})
						}
						if err == nil {
							cmdOK.Add(1)
						}
					}(s)
				default:
					rd.write(c15Frame(s.typ, uint32(5000+s.idx), s.payload))
				}
			}
		}(di)
	}
	wg.Wait()

	// every connection event the readers sent must be published too
	connSteps := func() []*c13Step {
		var cs []*c13Step
		for di, rd := range readers {
			rd.fmu.Lock()
			firsts := append([]c13First{}, rd.first...)
			lates := append([]c13First{}, rd.late...)
			rd.fmu.Unlock()
			for m, fm := range lates {
				if fm.typ == c15MsgROAccessReport {
					w := &llrp.ROAccessReport{}
					if w.UnmarshalBinary(fm.payload) == nil {
						cs = append(cs, &c13Step{dev: di, idx: c13LateIdx(di, m), kind: 'R', want: w})
					}
				} else {
					ce := &llrp.ReaderEventNotification{}
					if ce.UnmarshalBinary(fm.payload) == nil {
						cs = append(cs, &c13Step{dev: di, idx: c13LateIdx(di, m), kind: 'E', want: ce})
					}
				}
			}
			for n, fm := range firsts {
				if fm.typ == c15MsgROAccessReport {
					w := &llrp.ROAccessReport{}
					if w.UnmarshalBinary(fm.payload) == nil {
						cs = append(cs, &c13Step{dev: di, idx: c13ConnIdx(di, n), kind: 'R', want: w})
					}
					continue
				}
				ce := &llrp.ReaderEventNotification{}
				if ce.UnmarshalBinary(fm.payload) == nil {
					cs = append(cs, &c13Step{dev: di, idx: c13ConnIdx(di, n), kind: 'E', want: ce})
				} else {
					cs = append(cs, &c13Step{dev: di, idx: c13ConnIdx(di, n), kind: '?'})
				}
			}
		}
		return cs
	}
	want := 0
	for _, c := range connSteps() {
		if c.want != nil {
			want++
		}
	}
	for _, s := range steps {
		if s.want != nil {
			want++
		}
	}
	// wait for everything that must come; give up when nothing has arrived for a second
	deadline := time.Now().Add(10 * time.Second)
	for last, since := count(), time.Now(); last < want && time.Now().Before(deadline) && time.Since(since) < time.Second; {
		time.Sleep(2 * time.Millisecond)
		if n := count(); n != last || collectorPaused() {
			last, since = n, time.Now()
			if collectorPaused() {
				deadline = time.Now().Add(10 * time.Second)
			}
		}
	}
	// quiescence: nothing more for a while (duplicates would show up here)
	for last, since := count(), time.Now(); time.Since(since) < 150*time.Millisecond; {
		time.Sleep(5 * time.Millisecond)
		if n := count(); n != last {
			last, since = n, time.Now()
		}
	}
	var acks int64
	for _, rd := range readers {
		acks += rd.acks.Load()
	}
	var rwg sync.WaitGroup
	for i := range names {
		rwg.Add(1)
		go func(n string) {
			defer rwg.Done()
			done := make(chan struct{})
			go func() { _ = d.RemoveDevice(n, nil); close(done) }()
			select {
			case <-done:
			case <-time.After(3 * time.Second):
			}
		}(names[i])
	}
	rwg.Wait()
	// what the readers flushed while the connections were being shut down must arrive as well
	wantAll := 0
	for _, c := range connSteps() {
		if c.want != nil {
			wantAll++
		}
	}
	for _, s := range steps {
		if s.want != nil {
			wantAll++
		}
	}
	for last, since := count(), time.Now(); last < wantAll && time.Since(since) < 700*time.Millisecond; {
		time.Sleep(2 * time.Millisecond)
		if n := count(); n != last {
			last, since = n, time.Now()
		}
	}
	time.Sleep(60 * time.Millisecond)
	close(stopCollect)
	<-collectDone

	// match what was published against what was sent
	cs := connSteps()
	var sent []string
	for _, c := range cs {
		if c.kind == '?' {
			notes = append(notes, fmt.Sprintf("!badgen:first:%d", c.idx))
			continue
		}
		sent = append(sent, fmt.Sprintf("%d:%d:%s", c.dev, c.idx, map[byte]string{'R': "RO", 'E': "REN"}[c.kind]))
	}
	steps = append(steps, cs...)
	devIdx := func(name string) string {
		for i, n := range names {
			if n == name {
				return strconv.Itoa(i)
			}
		}
		return "?"
	}
	var toks []string
	other := 0
	for _, g := range gots {
		if len(g.v.CommandValues) != 1 {
			toks = append(toks, fmt.Sprintf("!values:%d", len(g.v.CommandValues)))
		}
		for _, cv := range g.v.CommandValues {
			res := ""
			switch cv.DeviceResourceName {
			case ResourceROAccessReport:
				res = "RO"
			case ResourceReaderNotification:
				res = "REN"
			default:
				other++
				continue
			}
			// which sent message is this the content of?
			val := cv.Value
			resOfVal := ""
			// content: the published value must equal, field by field, the decoding of the bytes
			// the reader sent — nothing added (no time of ours), nothing dropped
			if _, ok := val.(*llrp.ReaderEventNotification); ok {
				resOfVal = "REN"
			} else if _, ok := val.(*llrp.ROAccessReport); ok {
				resOfVal = "RO"
			}
			var hit *c13Step
			for _, s := range steps {
				if s.want != nil && reflect.TypeOf(s.want) == reflect.TypeOf(val) && reflect.DeepEqual(s.want, val) {
					if hit == nil || (hit.used > 0 && s.used == 0) {
						hit = s
					}
				}
			}
			if hit == nil {
				// the decoding of the part of a message whose connection ended before the rest came?
				for _, s := range steps {
					if s.kind == 'Q' && s.partial != nil && reflect.TypeOf(s.partial) == reflect.TypeOf(val) && reflect.DeepEqual(s.partial, val) {
						hit = s
						break
					}
				}
				if hit != nil {
					toks = append(toks, fmt.Sprintf("!partial:%s:%s:%d:%d/%d", devIdx(g.v.DeviceName), res, hit.idx, hit.cutAt, len(hit.payload)))
					continue
				}
				// which message is it closest to, and in which fields does it differ?
				var best []string
				for _, s := range steps {
					if s.want == nil || reflect.TypeOf(s.want) != reflect.TypeOf(val) {
						continue
					}
					var df []string
					c13Diff(reflect.ValueOf(s.want), reflect.ValueOf(val), "", &df, 4)
					if len(df) > 0 && len(df) < 4 && (hit == nil || len(df) < len(best) || (len(df) == len(best) && s.used < hit.used)) {
						hit, best = s, df
					}
				}
				if hit != nil {
					hit.used++
					toks = append(toks, fmt.Sprintf("%s:%s:%d", devIdx(g.v.DeviceName), res, hit.idx))
					toks = append(toks, fmt.Sprintf("!differs:%s:%s:%d:%s", devIdx(g.v.DeviceName), res, hit.idx, strings.Join(best, ",")))
					continue
				}
			}
			switch {
			case hit == nil:
				toks = append(toks, fmt.Sprintf("!unmatched:%s:%s", devIdx(g.v.DeviceName), res))
			default:
				hit.used++
				toks = append(toks, fmt.Sprintf("%s:%s:%d", devIdx(g.v.DeviceName), res, hit.idx))
				if resOfVal != res {
					toks = append(toks, fmt.Sprintf("!resource:%s-for-%s:%d", res, resOfVal, hit.idx))
				}
			}
			if cv.Type != common.ValueTypeObject {
				toks = append(toks, "!type:"+cv.Type)
			}
		}
	}
	sort.Strings(toks)
	toks = append(toks, notes...)
	var conns int64
	for _, rd := range readers {
		conns += rd.conns.Load()
	}
	var cuts []string
	for _, s := range steps {
		if s.kind == 'Q' {
			dec := "-"
			if s.partial != nil {
				dec = "d" // the part that is sent decodes on its own
			}
			cuts = append(cuts, fmt.Sprintf("%d:%d/%d%s", s.idx, s.cutAt, len(s.payload), dec))
		}
	}
	var sdkUp, sdkDown, sdkLate, sdkFailed int64
	for _, rd := range readers {
		sdkUp += rd.sdk.upCalls.Load()
		sdkDown += rd.sdk.downCalls.Load()
		sdkLate += rd.sdk.returnedLate.Load()
		sdkFailed += rd.sdk.upFailed.Load()
	}
	return fmt.Sprintf("%d %s | acks=%d/%d cmds=%d/%d timed=%d/%d other=%d conns=%d errs=%d stuck=%d noreconnect=%d heldback=%d sdk=%d/%d/%d/%d cuts=%s ms=%d sent=%s", len(toks), strings.Join(toks, " "),
		acks, kaN.Load(), cmdOK.Load(), cmdN.Load(), tOK.Load(), tN.Load(), other, conns, errs.Load(), stuck.Load(), noReconnect.Load(), heldBack.Load(),
		sdkUp, sdkLate, sdkFailed, sdkDown, strings.Join(cuts, ","), time.Since(t0).Milliseconds(), strings.Join(sent, ","))
}

var _ = binary.BigEndian

func TestVerifC13(t *testing.T) {
	lines, w, done := verifIO(t)
	defer done()
	// reconnects after a scripted connection failure should not take the production back-off
	oldQ, oldS := retry.Quick, retry.Slow
	retry.Quick = retry.ExpBackOff{BackOff: 20 * time.Millisecond, Max: 20 * time.Millisecond, KeepErrs: 10}
	retry.Slow = retry.ExpBackOff{BackOff: 40 * time.Millisecond, Max: 40 * time.Millisecond, KeepErrs: 10}
	defer func() { retry.Quick, retry.Slow = oldQ, oldS }()
	// answers are written as they come, "S <i>" when scenario i starts and "R <i> <answer>" when it
	// is done, so that a crash of the process can be attributed to the scenarios then running
	var omu sync.Mutex
	emit := func(format string, a ...interface{}) {
		omu.Lock()
		fmt.Fprintf(w, format, a...)
		w.Flush()
		omu.Unlock()
	}
	sem := make(chan struct{}, 8)
	var wg sync.WaitGroup
	for i, line := range lines {
		wg.Add(1)
		sem <- struct{}{}
		go func(i int, f []string) {
			defer wg.Done()
			defer func() { <-sem }()
			emit("S %d\n", i)
			emit("R %d %s\n", i, c13RunScenario(f))
		}(i, strings.Fields(line))
	}
	wg.Wait()
}
