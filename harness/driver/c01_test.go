//go:build verif

package driver

// C01, driver level: the readings the device service produces are the values the Reader sent.
//
// A REAL Driver / LLRPDevice / llrp.Client (HandleReadCommands -> getDevice -> NewLLRPDevice -> TrySend -> SendFor -> UnmarshalBinary,
// and the registered MessageHandlers for ROAccessReport / ReaderEventNotification -> asyncCh) runs against a scripted Reader on a
// loopback socket. The Reader frames messages with its own code; the payloads it answers / sends are given by checks/c01_driver.py
// as hex (reference encodings of generated value trees). For every reading the harness reports the JSON text of its CommandValue's
// Value (what the SDK serialises later) and its re-encoding; `recheck` reports them AGAIN for every reading handed out so far, after
// later reads and reports have happened. Nothing is judged here.
//
//   init                                   -> ok                      (device created through getDevice, connected, configured)
//   read <res>=<hex> [<res>=<hex> ...]     -> ok <k>:<json hex>:<bin hex> ... n=<requests> | err <text hex> n=<requests>
//        one HandleReadCommands call with one request per item (res: cfg|cap|ro|as), the Reader answering the k-th with <hex>.
//        An item may script SEVERAL attempts, `<res>=<a1>/<a2>/...`: the Reader's answers to the 1st, 2nd, ... request of that type
//        during the call; an attempt is <hex> (the normal reply type), E<hex> (an ERROR_MESSAGE with that payload), X (the Reader
//        drops the connection instead of answering) or P<hex> (half of the reply frame, then the connection is dropped).
//        n = how many requests of the FIRST item's type the Reader received during the call (the attempts the service really made).
//   report <msgtype> <hex>                 -> ok <k>:<json hex>:<bin hex> | none | wrong <resource name>
//        the Reader sends the unsolicited message; the reading is the one that arrives on the SDK's async channel
//   recheck                                -> ok <json hex>:<bin hex> ...   (all readings so far, in the order they were handed out)
// <hex> may be `-` for empty.

import (
	"context"
	"encoding"
	"encoding/binary"
	"encoding/hex"
	"encoding/json"
	"fmt"
	"go/ast"
	"go/parser"
	"go/printer"
	"go/token"
	"io"
	"net"
	"os"
	"path/filepath"
	"sort"
	"strconv"
	"strings"
	"sync"
	"testing"
	"time"

	"github.com/edgexfoundry/device-sdk-go/v4/pkg/interfaces/mocks"
	dsModels "github.com/edgexfoundry/device-sdk-go/v4/pkg/models"
	"github.com/edgexfoundry/go-mod-core-contracts/v4/clients/logger"
	"github.com/edgexfoundry/go-mod-core-contracts/v4/common"
	"github.com/stretchr/testify/mock"
)

var c01StatusOK = []byte{0x01, 0x1F, 0x00, 0x08, 0x00, 0x00, 0x00, 0x00}

type c01Reply struct {
	kind    byte // 0 reply of the request's response type, 'E' ERROR_MESSAGE, 'X' drop the connection, 'P' half a frame then drop
	payload []byte
}

type c01Reader struct {
	ln      net.Listener
	mu      sync.Mutex // guards everything below and serialises writes
	conn    net.Conn
	replies map[uint16][]c01Reply // request type -> the next answers
	conns   int
	seen    map[uint16]int
}

func c01Frame(ver uint8, typ uint16, id uint32, payload []byte) []byte {
	buf := make([]byte, 10+len(payload))
	binary.BigEndian.PutUint16(buf[0:], uint16(ver&7)<<10|typ&0x3FF)
	binary.BigEndian.PutUint32(buf[2:], uint32(10+len(payload)))
	binary.BigEndian.PutUint32(buf[6:], id)
	copy(buf[10:], payload)
	return buf
}

func (r *c01Reader) write(conn net.Conn, b []byte) error {
	r.mu.Lock()
	defer r.mu.Unlock()
	_, err := conn.Write(b)
	return err
}

func newC01Reader(t *testing.T) *c01Reader {
	ln, err := net.Listen("tcp", "127.0.0.1:0")
	if err != nil {
		t.Fatal(err)
	}
	r := &c01Reader{ln: ln, replies: map[uint16][]c01Reply{}, seen: map[uint16]int{}}
	go func() {
		for {
			conn, err := ln.Accept()
			if err != nil {
				return
			}
			r.mu.Lock()
			r.conn = conn
			r.conns++
			r.mu.Unlock()
			go r.serve(conn)
		}
	}()
	return r
}

func (r *c01Reader) serve(conn net.Conn) {
	defer conn.Close()
	// ReaderEventNotification (63): ReaderEventNotificationData(246){UTCTimestamp(128), ConnectionAttemptEvent(256)=Success}
	ren := []byte{0x00, 0xF6, 0x00, 0x16,
		0x00, 0x80, 0x00, 0x0C, 0, 5, 0xE0, 0, 0, 0, 0, 1,
		0x01, 0x00, 0x00, 0x06, 0x00, 0x00}
	if r.write(conn, c01Frame(1, 63, 1, ren)) != nil {
		return
	}
	hdr := make([]byte, 10)
	for {
		if _, err := io.ReadFull(conn, hdr); err != nil {
			return
		}
		w := binary.BigEndian.Uint16(hdr[0:])
		ver, typ := uint8(w>>10&7), w&0x3FF
		ln := binary.BigEndian.Uint32(hdr[2:])
		id := binary.BigEndian.Uint32(hdr[6:])
		if ln < 10 || ln > 1<<24 {
			return
		}
		payload := make([]byte, ln-10)
		if _, err := io.ReadFull(conn, payload); err != nil {
			return
		}
		r.mu.Lock()
		r.seen[typ]++
		var scripted c01Reply
		have := false
		if q := r.replies[typ]; len(q) > 0 {
			scripted, have = q[0], true
			r.replies[typ] = q[1:]
		}
		r.mu.Unlock()
		var err error
		switch {
		case have && scripted.kind == 'X':
			return
		case have && scripted.kind == 'P':
			fr := c01Frame(ver, typ+10, id, scripted.payload)
			_ = r.write(conn, fr[:len(fr)/2])
			return
		case have && scripted.kind == 'E':
			err = r.write(conn, c01Frame(ver, 100, id, scripted.payload))
		case have:
			err = r.write(conn, c01Frame(ver, typ+10, id, scripted.payload))
		case typ == 46: // GetSupportedVersion -> current 1.0.1, max 1.0.1
			err = r.write(conn, c01Frame(ver, 56, id, append([]byte{1, 1}, c01StatusOK...)))
		case typ == 47:
			err = r.write(conn, c01Frame(ver, 57, id, c01StatusOK))
		case typ == 14: // CloseConnection
			_ = r.write(conn, c01Frame(ver, 4, id, c01StatusOK))
			return
		case typ == 72: // KeepAliveAck: no reply
		case typ == 1023:
			err = r.write(conn, c01Frame(ver, 1023, id, payload))
		case typ >= 1 && typ <= 3, typ >= 20 && typ <= 26, typ >= 40 && typ <= 44:
			err = r.write(conn, c01Frame(ver, typ+10, id, c01StatusOK))
		default: // ErrorMessage, M_UnsupportedMessage
			err = r.write(conn, c01Frame(ver, 100, id, []byte{0x01, 0x1F, 0x00, 0x08, 0x00, 0x6D, 0x00, 0x00}))
		}
		if err != nil {
			return
		}
	}
}

func c01Hex(s string) ([]byte, error) {
	if s == "-" {
		return nil, nil
	}
	return hex.DecodeString(s)
}

// what the SDK does with the reading later: serialise the Value; and what C01 says about it: it re-encodes to the bytes it came from
func c01Show(cv *dsModels.CommandValue) string {
	js, err := json.Marshal(cv.Value)
	j := hex.EncodeToString(js)
	if err != nil {
		j = "jsonerr"
	}
	b := "nomarshal"
	if m, ok := cv.Value.(encoding.BinaryMarshaler); ok {
		if bin, err := m.MarshalBinary(); err != nil {
			b = "binerr"
		} else if len(bin) == 0 {
			b = "-"
		} else {
			b = hex.EncodeToString(bin)
		}
	}
	return j + ":" + b
}

func TestVerifC01Driver(t *testing.T) {
	lines, w, done := verifIO(t)
	defer done()

	rd := newC01Reader(t)
	defer rd.ln.Close()
	_, portStr, _ := net.SplitHostPort(rd.ln.Addr().String())

	sdk := &mocks.DeviceServiceSDK{}
	sdk.On("UpdateDeviceOperatingState", mock.Anything, mock.Anything).Return(nil)
	asyncCh := make(chan *dsModels.AsyncValues, 1024)

	d := &Driver{
		lc:            logger.NewMockClient(),
		activeDevices: make(map[string]*LLRPDevice),
		asyncCh:       asyncCh,
		svc:           sdk,
		done:          make(chan struct{}),
	}
	const devName = "c01Reader"
	proto := protocolMap{"tcp": {"host": "127.0.0.1", "port": portStr}}
	resources := map[string]struct {
		name string
		typ  uint16
	}{
		"cfg": {ResourceReaderConfig, 2}, "cap": {ResourceReaderCap, 1}, "ro": {ResourceROSpec, 26}, "as": {ResourceAccessSpec, 44},
	}
	asyncName := map[uint16]string{61: ResourceROAccessReport, 63: ResourceReaderNotification}

	var readings []*dsModels.CommandValue
	nextAsync := func(wait time.Duration) *dsModels.AsyncValues {
		select {
		case av := <-asyncCh:
			return av
		case <-time.After(wait):
			return nil
		}
	}
	waitSeen := func(typ uint16, n int) bool {
		deadline := time.Now().Add(15 * time.Second)
		for time.Now().Before(deadline) {
			rd.mu.Lock()
			k := rd.seen[typ]
			rd.mu.Unlock()
			if k >= n {
				return true
			}
			time.Sleep(2 * time.Millisecond)
		}
		return false
	}

	handle := func(line string) (ans string) {
		defer func() {
			if r := recover(); r != nil {
				ans = "panic " + hex.EncodeToString([]byte(fmt.Sprint(r)))
			}
		}()
		f := strings.Fields(line)
		switch f[0] {
		case "init":
			if _, _, err := d.getDevice(devName, proto); err != nil {
				return "err " + hex.EncodeToString([]byte(err.Error()))
			}
			if !waitSeen(3, 1) {
				return "err " + hex.EncodeToString([]byte("no SetReaderConfig after connect"))
			}
			// the connection event of the scripted Reader is itself a reading: let it arrive, it is not part of the script
			if nextAsync(10*time.Second) == nil {
				return "err " + hex.EncodeToString([]byte("the connection event did not arrive on the async channel"))
			}
			return "ok"
		case "read":
			reqs := make([]dsModels.CommandRequest, 0, len(f)-1)
			var firstTyp uint16
			drops := false
			for i, it := range f[1:] {
				kv := strings.SplitN(it, "=", 2)
				res, ok := resources[kv[0]]
				if !ok || len(kv) != 2 {
					return "bad item " + it
				}
				if i == 0 {
					firstTyp = res.typ
				}
				for _, at := range strings.Split(kv[1], "/") {
					rp := c01Reply{}
					if at != "" && (at[0] == 'E' || at[0] == 'X' || at[0] == 'P') {
						rp.kind, at = at[0], at[1:]
						if at == "" {
							at = "-"
						}
					}
					payload, err := c01Hex(at)
					if err != nil {
						return "bad hex"
					}
					rp.payload = payload
					drops = drops || rp.kind == 'X' || rp.kind == 'P'
					rd.mu.Lock()
					rd.replies[res.typ] = append(rd.replies[res.typ], rp)
					rd.mu.Unlock()
				}
				reqs = append(reqs, dsModels.CommandRequest{DeviceResourceName: res.name, Type: common.ValueTypeObject})
			}
			rd.mu.Lock()
			seen0, conns0, cfg0 := rd.seen[firstTyp], rd.conns, rd.seen[3]
			rd.mu.Unlock()
			vals, err := d.HandleReadCommands(devName, proto, reqs)
			rd.mu.Lock()
			rd.replies = map[uint16][]c01Reply{} // a failed call leaves nothing behind for the next one
			n := " n=" + strconv.Itoa(rd.seen[firstTyp]-seen0)
			rd.mu.Unlock()
			if drops {
				// the Reader dropped the connection: the device dials again; its new connection event is a reading of its own and its
				// configuration exchange must be over before the script goes on
				deadline := time.Now().Add(20 * time.Second)
				for time.Now().Before(deadline) {
					rd.mu.Lock()
					again := rd.conns > conns0
					rd.mu.Unlock()
					if again {
						break
					}
					time.Sleep(2 * time.Millisecond)
				}
				if !waitSeen(3, cfg0+1) || nextAsync(10*time.Second) == nil {
					return "err " + hex.EncodeToString([]byte("the device did not come back after the Reader dropped the connection")) + n
				}
			}
			if err != nil {
				return "err " + hex.EncodeToString([]byte(err.Error())) + n
			}
			if len(vals) != len(reqs) {
				return "err " + hex.EncodeToString([]byte(fmt.Sprintf("%d values for %d requests", len(vals), len(reqs))))
			}
			var sb strings.Builder
			sb.WriteString("ok")
			for _, cv := range vals {
				if cv == nil {
					return "err " + hex.EncodeToString([]byte("nil CommandValue"))
				}
				readings = append(readings, cv)
				sb.WriteString(" " + strconv.Itoa(len(readings)-1) + ":" + c01Show(cv))
			}
			return sb.String() + n
		case "report":
			if len(f) != 3 {
				return "bad report needs <type> <hex>"
			}
			typ, err := strconv.Atoi(f[1])
			if err != nil {
				return "bad type"
			}
			payload, err := c01Hex(f[2])
			if err != nil {
				return "bad hex"
			}
			rd.mu.Lock()
			conn := rd.conn
			rd.mu.Unlock()
			if conn == nil || rd.write(conn, c01Frame(1, uint16(typ), 0, payload)) != nil {
				return "err " + hex.EncodeToString([]byte("reader cannot send"))
			}
			av := nextAsync(10 * time.Second)
			if av == nil || len(av.CommandValues) != 1 || av.CommandValues[0] == nil {
				return "none"
			}
			cv := av.CommandValues[0]
			if cv.DeviceResourceName != asyncName[uint16(typ)] {
				return "wrong " + cv.DeviceResourceName
			}
			readings = append(readings, cv)
			return "ok " + strconv.Itoa(len(readings)-1) + ":" + c01Show(cv)
		case "recheck":
			var sb strings.Builder
			sb.WriteString("ok")
			for _, cv := range readings {
				sb.WriteString(" " + c01Show(cv))
			}
			return sb.String()
		}
		return "bad unknown request " + f[0]
	}

	for _, line := range lines {
		w.WriteString(handle(line))
		w.WriteByte('\n')
	}

	ctx, cancel := context.WithTimeout(context.Background(), 2*time.Second)
	defer cancel()
	d.removeDevice(ctx, devName)
}

// ---------------------------------------------------------------- structural scan: what do the callers decode INTO?
//
// The generated decoders append repeated sub-parameters and leave what is absent on the wire untouched, so UnmarshalBinary (and
// json.Unmarshal) yield the value the bytes denote only when the receiver is a fresh value. TestVerifC01Scan lists every place in the
// non-test, non-generated Go sources of the repository that decodes into something (receiver of .UnmarshalBinary, second argument of
// json.Unmarshal, argument of (json.NewDecoder(..)).Decode, and — found by propagation — the corresponding argument of every function
// that passes one of its own parameters on to such a place: UnmarshalTo, SendFor, TrySend, ...), with a verdict:
//   fresh        allocated in this activation of the enclosing function (and inside the loop the decode is in): &T{..}, new(T), T{..},
//                var x T, or a field of such a value; decoded into at most once (or in exclusive branches)
//   passthrough  a parameter of the enclosing function (the obligation moves to its callers, which are scanned too)
//   repeated     a parameter, but the decode sits in a loop or in a closure handed to someone else (a retry helper): the same value may
//                be decoded into more than once; whether it is depends on WHEN the code repeats (after a failure that happened before
//                or after the decode), which is not syntactic: the driver-level scripts must exercise the repetition
//   retained     anything else: package variable, field of a receiver/parameter, map or slice element, result of a call, variable
//                captured from an enclosing function, variable declared outside the loop, a second decode into the same variable
// Syntactic, by name (go/parser with its object resolution, no type checker); the request names the root directory.
//   scan <root> -> one line per site: site \t <file>:<line> \t <function> \t <callee> \t <target> \t <verdict> \t <reason>, then `end <n files>`

type c01Fn struct {
	name   string
	method bool
	dir    string
	params []*ast.Object
}

type c01SinkKey struct {
	name   string
	method bool
	arg    int
}

func c01ExprString(fset *token.FileSet, e ast.Expr) string {
	var sb strings.Builder
	_ = printer.Fprint(&sb, fset, e)
	s := strings.Join(strings.Fields(sb.String()), " ")
	if len(s) > 80 {
		s = s[:80] + "…"
	}
	return s
}

func c01Within(n ast.Node, outer ast.Node) bool {
	return outer != nil && n.Pos() >= outer.Pos() && n.End() <= outer.End()
}

type c01Scan struct {
	fset  *token.FileSet
	sinks map[c01SinkKey]bool
	fresh int
}

// rootIdent strips &, *, parens and field selections: &x.a.b -> x
func c01Root(e ast.Expr) (root *ast.Ident, viaField bool, other ast.Expr) {
	for {
		switch v := e.(type) {
		case *ast.ParenExpr:
			e = v.X
		case *ast.UnaryExpr:
			if v.Op != token.AND {
				return nil, viaField, e
			}
			e = v.X
		case *ast.StarExpr:
			e = v.X
		case *ast.SelectorExpr:
			viaField = true
			e = v.X
		case *ast.Ident:
			return v, viaField, nil
		default:
			return nil, viaField, e
		}
	}
}

func c01IsAlloc(e ast.Expr) bool {
	switch v := e.(type) {
	case *ast.ParenExpr:
		return c01IsAlloc(v.X)
	case *ast.UnaryExpr:
		if v.Op == token.AND {
			if _, ok := v.X.(*ast.CompositeLit); ok {
				return true
			}
		}
	case *ast.CompositeLit:
		return true
	case *ast.CallExpr:
		if id, ok := v.Fun.(*ast.Ident); ok && id.Name == "new" && id.Obj == nil && len(v.Args) == 1 {
			return true
		}
	}
	return false
}

// classify the decode target `e` of the call at the top of `stack`
func (s *c01Scan) classify(e ast.Expr, stack []ast.Node, depth int) (verdict, reason string, param *ast.Object) {
	if c01IsAlloc(e) {
		return "fresh", "allocated in the call", nil
	}
	root, viaField, other := c01Root(e)
	if root == nil {
		return "retained", "not a variable allocated here: " + c01ExprString(s.fset, other), nil
	}
	if root.Obj == nil {
		return "retained", "package-level or imported: " + root.Name, nil
	}
	// the enclosing functions, innermost first; the loops around the call inside the innermost function
	var fns []ast.Node
	var loop ast.Node
	for i := len(stack) - 1; i >= 0; i-- {
		switch n := stack[i].(type) {
		case *ast.FuncLit:
			// func(){...}() / go func(){...}() / defer func(){...}() runs once per activation of the function around it: not a boundary
			if c, ok := stack[i-1].(*ast.CallExpr); ok && c.Fun == ast.Expr(n) {
				continue
			}
			fns = append(fns, n)
		case *ast.FuncDecl:
			fns = append(fns, n)
		case *ast.ForStmt, *ast.RangeStmt:
			if len(fns) == 0 && loop == nil {
				loop = n
			}
		}
	}
	if len(fns) == 0 {
		return "retained", "outside any function", nil
	}
	inner := fns[0]
	switch d := root.Obj.Decl.(type) {
	case *ast.Field:
		for _, fn := range fns {
			var ft *ast.FuncType
			var recv *ast.FieldList
			switch f := fn.(type) {
			case *ast.FuncLit:
				ft = f.Type
			case *ast.FuncDecl:
				ft, recv = f.Type, f.Recv
			}
			if recv != nil && c01Within(d, recv) {
				if viaField {
					return "retained", "a field of the method's receiver " + root.Name, nil
				}
				return "passthrough", "the method's receiver", nil
			}
			if ft.Params != nil && c01Within(d, ft.Params) {
				if viaField {
					return "retained", "a field of the parameter " + root.Name, nil
				}
				if _, isLit := fn.(*ast.FuncLit); isLit {
					return "passthrough", "parameter of an anonymous function", nil
				}
				// between the decode and the function whose parameter it is: a loop, or a closure that is handed to someone
				// else (a retry helper, a callback) and may run any number of times -> possibly several decodes into ONE value
				for i := len(stack) - 1; i >= 0 && stack[i] != fn; i-- {
					switch n := stack[i].(type) {
					case *ast.ForStmt, *ast.RangeStmt:
						return "repeated", "parameter " + root.Name + " is decoded into inside a loop: possibly more than once per allocation", root.Obj
					case *ast.FuncLit:
						if c, ok := stack[i-1].(*ast.CallExpr); ok && c.Fun == ast.Expr(n) {
							continue
						}
						by := "a closure that may run more than once"
						if c, ok := stack[i-1].(*ast.CallExpr); ok {
							by = "a closure handed to " + c01ExprString(s.fset, c.Fun)
						}
						return "repeated", "parameter " + root.Name + " is decoded into inside " + by + ": possibly more than once per allocation", root.Obj
					}
				}
				return "passthrough", "parameter " + root.Name, root.Obj
			}
		}
		for k, fn := range fns {
			var ft *ast.FuncType
			switch f := fn.(type) {
			case *ast.FuncLit:
				ft = f.Type
			case *ast.FuncDecl:
				ft = f.Type
			}
			if ft.Results != nil && c01Within(d, ft.Results) {
				if k > 0 {
					return "retained", "the named result " + root.Name + " of an enclosing function, captured by a closure", nil
				}
				if loop != nil {
					return "retained", "the named result " + root.Name + " is decoded into inside a loop", nil
				}
				return "fresh", "named result " + root.Name + ", zero in every activation", nil
			}
		}
		return "retained", "cannot tell where " + root.Name + " comes from", nil
	case *ast.AssignStmt, *ast.ValueSpec:
		dn := d.(ast.Node)
		var body ast.Node
		switch f := inner.(type) {
		case *ast.FuncLit:
			body = f.Body
		case *ast.FuncDecl:
			body = f.Body
		}
		if !c01Within(dn, body) {
			if len(fns) > 1 {
				return "retained", root.Name + " is captured from the enclosing function: every call of the closure decodes into the same value", nil
			}
			return "retained", "package-level variable " + root.Name, nil
		}
		if loop != nil && !c01Within(dn, loop) {
			return "retained", root.Name + " is declared outside the loop it is decoded in", nil
		}
		// every assignment to the variable inside the function must allocate
		bad := ""
		ast.Inspect(body, func(n ast.Node) bool {
			switch a := n.(type) {
			case *ast.AssignStmt:
				for i, l := range a.Lhs {
					id, ok := l.(*ast.Ident)
					if !ok || id.Obj != root.Obj {
						continue
					}
					if len(a.Rhs) != len(a.Lhs) {
						bad = "assigned from " + c01ExprString(s.fset, a.Rhs[0])
					} else if !c01IsAlloc(a.Rhs[i]) {
						if depth < 3 {
							if v, _, _ := s.classify(a.Rhs[i], stack, depth+1); v == "fresh" {
								continue
							}
						}
						bad = "assigned from " + c01ExprString(s.fset, a.Rhs[i])
					}
				}
			case *ast.ValueSpec:
				for i, id := range a.Names {
					if id.Obj != root.Obj || len(a.Values) == 0 {
						continue
					}
					if len(a.Values) != len(a.Names) || !c01IsAlloc(a.Values[i]) {
						bad = "initialised from " + c01ExprString(s.fset, a.Values[0])
					}
				}
			case *ast.RangeStmt:
				for _, l := range []ast.Expr{a.Key, a.Value} {
					if id, ok := l.(*ast.Ident); ok && id.Obj == root.Obj {
						bad = "a range variable over " + c01ExprString(s.fset, a.X)
					}
				}
			}
			return true
		})
		if bad != "" {
			return "retained", root.Name + " is " + bad, nil
		}
		return "fresh", "local " + root.Name + ", allocated in this activation", nil
	}
	return "retained", "cannot tell where " + root.Name + " comes from", nil
}

// exclusive: are the two nodes in different branches of an if/else or different clauses of a switch/select?
func c01Exclusive(a, b []ast.Node) bool {
	n := len(a)
	if len(b) < n {
		n = len(b)
	}
	i := 0
	for i < n && a[i] == b[i] {
		i++
	}
	if i == 0 || i >= len(a) || i >= len(b) {
		return false
	}
	switch p := a[i-1].(type) {
	case *ast.IfStmt:
		// `if x.Unmarshal(b) != nil { ... x.Unmarshal(b) ... }`: the second is reached only when the first failed
		if p.Cond != nil && a[i] == ast.Node(p.Cond) && b[i] == ast.Node(p.Body) {
			if be, ok := p.Cond.(*ast.BinaryExpr); ok && be.Op == token.NEQ && c01ExprString(token.NewFileSet(), be.Y) == "nil" {
				return true
			}
		}
		return (a[i] == ast.Node(p.Body) && b[i] == p.Else) || (b[i] == ast.Node(p.Body) && a[i] == p.Else)
	case *ast.BlockStmt:
		_, ca := a[i].(*ast.CaseClause)
		_, cb := b[i].(*ast.CaseClause)
		_, ma := a[i].(*ast.CommClause)
		_, mb := b[i].(*ast.CommClause)
		return (ca && cb) || (ma && mb)
	}
	return false
}

func c01ScanTree(root string) ([]string, error) {
	fset := token.NewFileSet()
	type pf struct {
		rel string
		dir string
		f   *ast.File
	}
	var files []pf
	err := filepath.Walk(root, func(p string, info os.FileInfo, err error) error {
		if err != nil {
			return nil
		}
		base := filepath.Base(p)
		if info.IsDir() {
			if p != root && (strings.HasPrefix(base, ".") || base == "vendor" || base == "testdata") {
				return filepath.SkipDir
			}
			return nil
		}
		if !strings.HasSuffix(base, ".go") || strings.HasSuffix(base, "_test.go") || strings.HasPrefix(base, "generated_") || strings.HasPrefix(base, "zz_verif") {
			return nil
		}
		f, err := parser.ParseFile(fset, p, nil, 0)
		if err != nil {
			return fmt.Errorf("%s: %v", p, err)
		}
		rel, _ := filepath.Rel(root, p)
		files = append(files, pf{rel: rel, dir: filepath.Dir(rel), f: f})
		return nil
	})
	if err != nil {
		return nil, err
	}
	s := &c01Scan{fset: fset, sinks: map[c01SinkKey]bool{{"UnmarshalBinary", true, -1}: true}}
	paramIndex := func(fd *ast.FuncDecl, obj *ast.Object) int {
		k := 0
		for _, fl := range fd.Type.Params.List {
			for _, nm := range fl.Names {
				if nm.Obj == obj {
					return k
				}
				k++
			}
			if len(fl.Names) == 0 {
				k++
			}
		}
		return -2
	}
	var out []string
	for round := 0; round < 8; round++ {
		out = out[:0]
		grew := false
		type site struct {
			stack []ast.Node
			obj   *ast.Object
			fn    ast.Node
			idx   int
		}
		for _, file := range files {
			var stack []ast.Node
			var sites []site
			ast.Inspect(file.f, func(n ast.Node) bool {
				if n == nil {
					stack = stack[:len(stack)-1]
					return true
				}
				stack = append(stack, n)
				call, ok := n.(*ast.CallExpr)
				if !ok {
					return true
				}
				var target ast.Expr
				callee := ""
				switch fun := call.Fun.(type) {
				case *ast.SelectorExpr:
					nm := fun.Sel.Name
					if id, ok := fun.X.(*ast.Ident); ok && id.Obj == nil && id.Name == "json" && nm == "Unmarshal" && len(call.Args) == 2 {
						target, callee = call.Args[1], "json.Unmarshal"
					} else if inner, ok := fun.X.(*ast.CallExpr); ok && nm == "Decode" && len(call.Args) == 1 && strings.HasSuffix(c01ExprString(fset, inner.Fun), "NewDecoder") {
						target, callee = call.Args[0], c01ExprString(fset, inner.Fun)+"().Decode"
					} else if s.sinks[c01SinkKey{nm, true, -1}] {
						target, callee = fun.X, "."+nm
					} else {
						for a := range call.Args {
							// a method sink, or a plain function of another package called with its package name
							if s.sinks[c01SinkKey{nm, true, a}] || s.sinks[c01SinkKey{nm, false, a}] {
								target, callee = call.Args[a], "."+nm
							}
						}
					}
				case *ast.Ident:
					for a := range call.Args {
						if s.sinks[c01SinkKey{fun.Name, false, a}] {
							target, callee = call.Args[a], fun.Name
						}
					}
				}
				if target == nil {
					return true
				}
				verdict, reason, param := s.classify(target, stack, 0)
				var fd *ast.FuncDecl
				fname := "<file level>"
				for i := len(stack) - 1; i >= 0; i-- {
					if f, ok := stack[i].(*ast.FuncDecl); ok {
						fd = f
						fname = f.Name.Name
						if f.Recv != nil && len(f.Recv.List) == 1 {
							fname = strings.TrimPrefix(c01ExprString(fset, f.Recv.List[0].Type), "*") + "." + fname
						}
						break
					}
				}
				if (verdict == "passthrough" || verdict == "repeated") && fd != nil {
					key := c01SinkKey{fd.Name.Name, fd.Recv != nil, -1}
					if param != nil {
						key.arg = paramIndex(fd, param)
					}
					if (param != nil || reason == "the method's receiver") && key.arg != -2 && !s.sinks[key] {
						s.sinks[key] = true
						grew = true
					}
				}
				if verdict == "fresh" {
					if root, _, _ := c01Root(target); root != nil && root.Obj != nil {
						var inner ast.Node
						for i := len(stack) - 1; i >= 0 && inner == nil; i-- {
							switch f := stack[i].(type) {
							case *ast.FuncLit:
								if c, ok := stack[i-1].(*ast.CallExpr); ok && c.Fun == ast.Expr(f) {
									continue
								}
								inner = f
							case *ast.FuncDecl:
								inner = f
							}
						}
						for _, o := range sites {
							if o.obj == root.Obj && o.fn == inner && !c01Exclusive(o.stack, stack) {
								verdict, reason = "retained", root.Name+" is decoded into more than once in this function (first at line "+strconv.Itoa(fset.Position(o.stack[len(o.stack)-1].Pos()).Line)+")"
							}
						}
						sites = append(sites, site{stack: append([]ast.Node(nil), stack...), obj: root.Obj, fn: inner})
					}
				}
				pos := fset.Position(call.Pos())
				out = append(out, strings.Join([]string{"site", file.rel + ":" + strconv.Itoa(pos.Line), fname, callee, c01ExprString(fset, target), verdict, reason}, "\t"))
				return true
			})
		}
		if !grew {
			break
		}
	}
	var sk []string
	for k := range s.sinks {
		sk = append(sk, fmt.Sprintf("%s/%d", k.name, k.arg))
	}
	sort.Strings(sk)
	out = append(out, "end "+strconv.Itoa(len(files))+" "+strings.Join(sk, ","))
	return out, nil
}

func TestVerifC01Scan(t *testing.T) {
	lines, w, done := verifIO(t)
	defer done()
	for _, line := range lines {
		f := strings.Fields(line)
		if len(f) != 2 || f[0] != "scan" {
			w.WriteString("bad request\n")
			continue
		}
		out, err := c01ScanTree(f[1])
		if err != nil {
			w.WriteString("err " + strings.ReplaceAll(err.Error(), "\n", " ") + "\n")
			continue
		}
		for _, l := range out {
			w.WriteString(l + "\n")
		}
	}
}
