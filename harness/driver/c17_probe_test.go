//go:build verif

package driver

// Probe-level part of the C17 harness: the only file that calls probe() itself. Kept apart so that a change of probe()'s
// signature breaks this file alone (see c17_test.go).

import (
	"fmt"
	"net"
	"strconv"
	"strings"
	"time"
)

func init() {
	c17NameFn = c17Name
	c17ProbeFn = c17Probe
}

// c17Panic is the error class of a probe that panicked on the calling goroutine (recovered here, so that the
// harness survives and the panic is attributed to the scenario that caused it)
type c17Panic struct{ msg string }

func (p c17Panic) Error() string { return p.msg }

// c17SafeProbe calls probe under recover. A panic in a goroutine that the code under test spawns cannot be
// recovered here: it kills the process, and the check then re-runs the requests in supervised child processes.
func c17SafeProbe(host, port string, timeout time.Duration) (info *discoveryInfo, err error) {
	defer func() {
		if r := recover(); r != nil {
			info, err = nil, c17Panic{strings.Join(strings.Fields(fmt.Sprint(r)), " ")}
		}
	}()
	return probe(host, port, timeout)
}

// "name <vendor> <model> <idtype> <ridhex|-> <fwhex|-> <caps:0|1> <ident:0|1> <mode>"
// answer: "ok name=<hex> v=<n> m=<n> fw=<hex> dd=<hex> pen=<s> model=<s> ddfw=<hex> host=<0|1>" | "err" | "blocked"
//         | "panic <message>"
func c17Name(f []string, h *c17Host) string {
	v, _ := strconv.ParseUint(f[1], 10, 32)
	m, _ := strconv.ParseUint(f[2], 10, 32)
	it, _ := strconv.ParseUint(f[3], 10, 8)
	id := c17Identity{hasCaps: f[6] == "1", vendor: uint32(v), model: uint32(m), fw: c17Unhex(f[5]),
		hasIdent: f[7] == "1", idType: byte(it), rid: c17Unhex(f[4])}
	mode := "correct"
	if len(f) > 8 {
		mode = f[8]
	}
	if mode == "correct-nosens" {
		id.noSens = true
	}
	h.setScript(mode, id)
	type res struct {
		info *discoveryInfo
		err  error
	}
	ch := make(chan res, 1)
	port := h.port()
	go func() {
		info, err := c17SafeProbe("127.0.0.1", port, 2*time.Second)
		ch <- res{info, err}
	}()
	select {
	case r := <-ch:
		if p, ok := r.err.(c17Panic); ok {
			return "panic " + p.msg
		}
		if r.err != nil || r.info == nil {
			return "err"
		}
		dd := newDiscoveredDevice(r.info)
		md := dd.Protocols["metadata"]
		tcp := dd.Protocols["tcp"]
		hostOK := 0
		if r.info.host == "127.0.0.1" && r.info.port == port && tcp["host"] == "127.0.0.1" && tcp["port"] == port {
			hostOK = 1
		}
		return fmt.Sprintf("ok name=%s v=%d m=%d fw=%s dd=%s pen=%v model=%v ddfw=%s host=%d",
			c17Hex([]byte(r.info.deviceName)), r.info.vendor, r.info.model, c17Hex([]byte(r.info.fwVersion)),
			c17Hex([]byte(dd.Name)), md["vendorPEN"], md["model"], c17Hex([]byte(fmt.Sprint(md["fwVersion"]))), hostOK)
	case <-time.After(40 * time.Second):
		return "blocked"
	}
}

// "probe <mode> <timeout_ms> <budget_ms>"  (mode "refuse": nothing listens)
// answer: "returned <ok|err> <elapsed_ms> accepts=<n>" | "blocked accepts=<n> released=<true|false>"
func c17Probe(f []string) string {
	mode := f[1]
	to, _ := strconv.Atoi(f[2])
	budget, _ := strconv.Atoi(f[3])
	id := c17Identity{hasCaps: true, vendor: 25882, model: 2001002, fw: []byte("5.14.0.240"),
		hasIdent: true, idType: 0, rid: []byte{0, 0x16, 0x25, 0x12, 0x34, 0x56}}
	var h *c17Host
	var port string
	if mode == "refuse" {
		// find a port nobody listens on: open and close a listener
		ln, err := net.Listen("tcp4", "127.0.0.1:0")
		if err != nil {
			return "harness-error listen " + err.Error()
		}
		_, port, _ = net.SplitHostPort(ln.Addr().String())
		ln.Close()
	} else {
		var err error
		h, err = c17NewHost("127.0.0.1:0", mode, id)
		if err != nil {
			return "harness-error listen " + err.Error()
		}
		port = h.port()
	}
	type res struct {
		info *discoveryInfo
		err  error
	}
	ch := make(chan res, 1)
	t0 := time.Now()
	go func() {
		info, err := c17SafeProbe("127.0.0.1", port, time.Duration(to)*time.Millisecond)
		ch <- res{info, err}
	}()
	acc := func() int {
		if h == nil {
			return 0
		}
		return h.nAccepts()
	}
	select {
	case r := <-ch:
		el := time.Since(t0).Milliseconds()
		if h != nil {
			h.Close()
		}
		if p, ok := r.err.(c17Panic); ok {
			return "panic " + p.msg
		}
		cls := "err"
		if r.err == nil && r.info != nil {
			cls = "ok"
		}
		return fmt.Sprintf("returned %s %d accepts=%d", cls, el, acc())
	case <-time.After(time.Duration(budget) * time.Millisecond):
		// watchdog: the probe is still blocked. Release it by closing the host's side.
		n := acc()
		if h != nil {
			h.Close()
		}
		released := false
		select {
		case <-ch:
			released = true
		case <-time.After(25 * time.Second):
		}
		return fmt.Sprintf("blocked accepts=%d released=%v", n, released)
	}
}

