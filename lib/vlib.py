"""Shared machinery for the /verif checks (python3 stdlib only)."""
import fcntl, glob, hashlib, json, os, re, subprocess, sys, time

ROOT = os.path.dirname(os.path.dirname(os.path.abspath(__file__)))
REPO = os.environ.get("VERIF_REPO", "/repo")
COQ = os.path.join(ROOT, "coq")
BUILD = os.environ.get("VERIF_BUILD", os.path.join(ROOT, "build"))
GEN = os.path.join(BUILD, "gen")
# a run against another tree (VERIF_BUILD set, e.g. a mutated scratch worktree) must not overwrite
# the evidence and replays of /verif's own runs against /repo
_PRIVATE = "VERIF_BUILD" in os.environ
REPLAYS = os.path.join(BUILD, "replays") if _PRIVATE else os.path.join(ROOT, "replays")
EVID = os.path.join(BUILD, "evidence") if _PRIVATE else os.path.join(ROOT, "evidence")

GOENV = dict(os.environ, GOFLAGS="-mod=mod", GOPROXY="off", GOSUMDB="off",
             GOTOOLCHAIN="local", CGO_ENABLED=os.environ.get("CGO_ENABLED", "0"))

PKG_PATH = {"driver": "internal/driver", "llrp": "pkg/llrp", "retry": "internal/retry"}


def sh(cmd, cwd=None, env=None, timeout=1200, inp=None):
    """run a command, return (rc, stdout+stderr)"""
    try:
        p = subprocess.run(cmd, cwd=cwd, env=env, input=inp, stdout=subprocess.PIPE,
                           stderr=subprocess.STDOUT, timeout=timeout, shell=isinstance(cmd, str),
                           universal_newlines=True)
        return p.returncode, p.stdout
    except subprocess.TimeoutExpired as e:
        out = e.stdout if isinstance(e.stdout, str) else (e.stdout or b"").decode("utf8", "replace")
        return 124, (out or "") + "\n[timeout after %ss]" % timeout


class Lock:
    def __init__(self, name):
        d = os.path.join(ROOT, "build") if name.startswith(("coq", "oracle")) else BUILD
        os.makedirs(d, exist_ok=True)
        self.path = os.path.join(d, name + ".lock")

    def __enter__(self):
        self.f = open(self.path, "w")
        fcntl.flock(self.f, fcntl.LOCK_EX)
        return self

    def __exit__(self, *a):
        fcntl.flock(self.f, fcntl.LOCK_UN)
        self.f.close()


# ---------------------------------------------------------------- Coq
def coq_build(targets=None, clean=False, remove=None):
    """full .vo build of the hand-written development (never -vos). Returns (ok, log).
    [remove]: files deleted under the lock first (forces a target to be re-checked)."""
    with Lock("coq"):
        for f in remove or []:
            try:
                os.remove(f)
            except OSError:
                pass
        rc, out = sh([os.path.join(ROOT, "tools", "mkcoqproject.sh")])
        if rc != 0:
            return False, out
        if clean:
            sh(["make", "clean"], cwd=COQ)
        cmd = ["make", "-j16", "COQC=timeout 900 coqc"] + (targets or [])
        rc, out2 = sh(cmd, cwd=COQ, timeout=3000)
        return rc == 0, out + out2


def coqc(vfile, cwd=None, extra=None, timeout=900):
    cmd = ["coqc", "-Q", COQ, "LLRP"] + (extra or []) + [vfile]
    return sh(cmd, cwd=cwd or os.path.dirname(vfile), timeout=timeout)


THEOREM_RE = re.compile(r"^\s*(Theorem|Lemma|Corollary|Example|Fact|Proposition)\s+([A-Za-z0-9_']+)", re.M)
FORBIDDEN_RE = re.compile(r"\b(Admitted|admit|Axiom|Parameter|Conjecture|Hypothesis|Variable|Admit Obligations|"
                          r"Unset Guard Checking|bypass_check|Unset Universe Checking|Unset Positivity Checking|"
                          r"native_compute)\b")


def strip_comments(src):
    out, depth, i = [], 0, 0
    while i < len(src):
        if src.startswith("(*", i):
            depth += 1; i += 2
        elif src.startswith("*)", i) and depth > 0:
            depth -= 1; i += 2
        else:
            if depth == 0:
                out.append(src[i])
            i += 1
    return "".join(out)


def coq_deps(vfile):
    """transitive LLRP.* dependencies of a .v file (paths), via coqdep."""
    seen, todo = [], [vfile]
    while todo:
        f = todo.pop()
        if f in seen or not os.path.exists(f):
            continue
        seen.append(f)
        src = strip_comments(open(f).read())
        for m in re.finditer(r"From\s+LLRP\s+Require\s+(?:Import\s+|Export\s+)?([\w.\s]+?)\.(?=\s|$)", src):
            for mod in m.group(1).split():
                todo.append(os.path.join(COQ, *mod.split(".")) + ".v")
        for m in re.finditer(r"(?<!LLRP\s)Require\s+(?:Import\s+|Export\s+)?((?:LLRP\.[\w.]+\s*)+)\.(?=\s|$)", src):
            for mod in m.group(1).split():
                todo.append(os.path.join(COQ, *mod.split(".")[1:]) + ".v")
    return seen


def check_props(pid, extra_files=None):
    """Build the development, then compile Props/<pid>.v afresh and read Print Assumptions.
    Returns dict(ok, theorems, obligations, discharged, assumptions, log, forbidden)."""
    res = dict(ok=False, theorems=[], obligations=0, discharged=0, assumptions={}, log="", forbidden=[])
    props = os.path.join(COQ, "Props", pid + ".v")
    ok, log = coq_build(["Props/%s.vo" % pid], remove=[props + "o"])
    res["log"] = log[-6000:]
    files = coq_deps(props) + list(extra_files or [])
    nlemmas = 0
    for f in files:
        src = strip_comments(open(f).read())
        nlemmas += len(THEOREM_RE.findall(src))
        for m in FORBIDDEN_RE.finditer(src):
            # Variable/Hypothesis are allowed inside sections only
            if m.group(1) in ("Variable", "Hypothesis") and "Section" in src[:m.start()]:
                continue
            res["forbidden"].append("%s: %s" % (os.path.relpath(f, ROOT), m.group(1)))
    psrc = strip_comments(open(props).read())
    res["theorems"] = [n for k, n in THEOREM_RE.findall(psrc) if k == "Theorem"]
    res["obligations"] = nlemmas
    if not ok:
        res["failed_at"] = first_coq_error(log)
        return res
    out = log
    # parse Print Assumptions blocks
    blocks = re.split(r"\n(?=Closed under the global context|Axioms:)", "\n" + out)
    axioms = []
    closed = out.count("Closed under the global context")
    for m in re.finditer(r"Axioms:\n((?:.+\n?)+?)(?=\n\S|\Z)", out):
        axioms.append(m.group(1).strip())
    res["assumptions"] = dict(closed=closed, axiom_blocks=axioms, printed=closed + len(axioms))
    res["discharged"] = nlemmas
    res["ok"] = not res["forbidden"] and (closed + len(axioms) >= len(res["theorems"]))
    return res


def first_coq_error(log):
    m = re.search(r'File "([^"]+)", line (\d+), characters [^\n]*\n(Error:[^\n]*(?:\n[^\n]+){0,6})', log)
    if m:
        return "%s:%s %s" % (m.group(1), m.group(2), m.group(3)[:600])
    return log[-600:]


def build_oracle(oid):
    with Lock("oracle_" + oid):
        return sh([os.path.join(ROOT, "tools", "build_oracle.sh"), oid], timeout=900)


def run_oracle(oid, text, timeout=900, args=None):
    exe = os.path.join(BUILD, "oracle_" + oid)
    rc, out = sh([exe] + (args or []), inp=text, timeout=timeout)
    return rc, out


# ---------------------------------------------------------------- Go harness
def overlay_file(pkg, name, files):
    """write the -overlay JSON mapping harness/<pkg>/<files> into /repo/<pkgpath>/zz_verif_*"""
    os.makedirs(BUILD, exist_ok=True)
    rep = {}
    for f in files:
        src = f if os.path.isabs(f) else os.path.join(ROOT, "harness", pkg, f)
        if not os.path.exists(src):
            raise FileNotFoundError(src)
        rep[os.path.join(REPO, PKG_PATH[pkg], "zz_verif_" + os.path.basename(src))] = src
    path = os.path.join(BUILD, "overlay_%s.json" % name)
    with open(path, "w") as fh:
        json.dump({"Replace": rep}, fh, indent=1)
    return path


def build_harness(pkg, pid, files, race=False):
    """compile /repo's package <pkg> together with harness/<pkg>/common_test.go and <files>
    into the test binary build/<pkg>_<pid>[_race].test. Always rebuilt from /repo's current
    working tree (Go's build cache keeps this quick). Returns (ok, log, exe)."""
    name = "%s_%s%s" % (pkg, pid, "_race" if race else "")
    out = os.path.join(BUILD, name + ".test")
    with Lock("go_" + name):
        ov = overlay_file(pkg, name, ["common_test.go"] + [f for f in files if f != "common_test.go"])
        env = dict(GOENV)
        if race:
            env["CGO_ENABLED"] = "1"
        cmd = ["go", "test", "-c", "-tags", "verif", "-vet=off", "-overlay", ov, "-o", out]
        if race:
            cmd.append("-race")
        cmd.append("./" + PKG_PATH[pkg])
        rc, log = sh(cmd, cwd=REPO, env=env, timeout=1200)
    return rc == 0, log, out


def run_harness(exe, test, request_text, timeout=600, extra_env=None, tag="", cwd=None):
    """run one harness test of a compiled test binary on a request file (one request per line);
    the test writes one answer per line to $VERIF_OUT. returns (rc, answer lines, log)"""
    os.makedirs(GEN, exist_ok=True)
    base = os.path.join(GEN, "%s_%s_%d%s" % (os.path.basename(exe), test, os.getpid(), tag))
    with open(base + ".in", "w") as fh:
        fh.write(request_text)
    env = dict(GOENV, VERIF_IN=base + ".in", VERIF_OUT=base + ".out")
    env.update(extra_env or {})
    if os.path.exists(base + ".out"):
        os.remove(base + ".out")
    rc, log = sh([exe, "-test.run", "^" + test + "$", "-test.count=1", "-test.timeout", "%ds" % timeout],
                 cwd=cwd or BUILD, env=env, timeout=timeout + 30)
    lines = []
    if os.path.exists(base + ".out"):
        lines = open(base + ".out").read().split("\n")
        if lines and lines[-1] == "":
            lines.pop()
    for ext in (".in", ".out"):
        try:
            os.remove(base + ext)
        except OSError:
            pass
    return rc, lines, log


def repo_tree_hash():
    rc, out = sh("git -C %s rev-parse HEAD; git -C %s diff HEAD | sha1sum" % (REPO, REPO))
    return hashlib.sha1(out.encode()).hexdigest()[:16]


# ---------------------------------------------------------------- findings / evidence
def known_findings(pid):
    path = os.path.join(ROOT, "known_findings.json")
    if not os.path.exists(path):
        return []
    data = json.load(open(path))
    return [e for e in data.get("findings", []) if e.get("property") == pid and e.get("status") == "known"]


class Result:
    """collects what a check run did; turns it into exit status, VIOLATION lines and evidence"""

    def __init__(self, pid, tier, seed, level="proof"):
        self.pid, self.tier, self.seed, self.level = pid, tier, seed, level
        self.t0 = time.time()
        self.coverage = {}
        self.assumptions = []
        self.violations = []       # (signature, what, replay dict, found_input: bool)
        self.known_seen = []
        self.notes = []

    def violation(self, signature, what, replay, found_input=True):
        self.violations.append((signature, what, replay, found_input))

    def finish(self):
        os.makedirs(REPLAYS, exist_ok=True)
        os.makedirs(EVID, exist_ok=True)
        known = known_findings(self.pid)
        unlisted = []
        for sig, what, replay, found in self.violations:
            k = [e for e in known if e.get("signature") == sig]
            if k:
                if sig not in self.known_seen:
                    self.known_seen.append(sig)
                    print("KNOWN-FINDING: property=%s %s" % (self.pid, k[0].get("what", what)))
            else:
                unlisted.append((sig, what, replay, found))
        seen = set()
        nviol = 0
        for sig, what, replay, found in unlisted:
            if sig in seen:
                continue
            seen.add(sig)
            nviol += 1
            h = hashlib.sha1(sig.encode()).hexdigest()[:10]
            path = os.path.join(REPLAYS, "%s_%s.json" % (self.pid, h))
            body = dict(property=self.pid, signature=sig, what=what, seed=self.seed, tier=self.tier)
            body.update(replay or {})
            with open(path, "w") as fh:
                json.dump(body, fh, indent=1, default=str)
            print("VIOLATION property=%s replay=%s%s" % (self.pid, path, "" if found else " no-failing-input-found"))
            print("  " + what[:1500])
        ev = dict(property_id=self.pid, tier=self.tier, seed=self.seed, level=self.level,
                  coverage=self.coverage, assumptions=self.assumptions,
                  wall_s=round(time.time() - self.t0, 2), violations=nviol,
                  known_findings_observed=self.known_seen, notes=self.notes)
        with open(os.path.join(EVID, self.pid + ".json"), "w") as fh:
            json.dump(ev, fh, indent=1, default=str)
        print("%s %s tier=%s seed=%d wall=%.1fs violations=%d known=%d" % (
            self.pid, "FAIL" if nviol else "ok", self.tier, self.seed, time.time() - self.t0, nviol,
            len(self.known_seen)))
        return 1 if nviol else 0


def proof_part(res, pid, extra_files=None, proof_violation_search=None):
    """runs check_props and records the proof coverage; on failure calls the search callback
    (which should add violations with concrete inputs); if it adds none, reports
    no-failing-input-found naming the theorem/file that no longer checks."""
    pr = check_props(pid, extra_files)
    res.coverage.update(obligations=pr["obligations"], discharged=pr["discharged"],
                        property_theorems=pr["theorems"],
                        checker_cmd="tools/mkcoqproject.sh && make -C coq -j16 (full .vo) && coqc -Q coq LLRP coq/Props/%s.v" % pid,
                        print_assumptions=pr["assumptions"])
    if not pr["ok"]:
        before = len(res.violations)
        if proof_violation_search:
            proof_violation_search(pr)
        if len(res.violations) == before:
            res.violation("proof:" + pid, "proof obligation for %s no longer checks: %s %s" % (
                pid, pr.get("failed_at", ""), "; forbidden: %s" % pr["forbidden"] if pr["forbidden"] else ""),
                dict(kind="proof", theorem_file="coq/Props/%s.v" % pid, failed_at=pr.get("failed_at"),
                     log_tail=pr["log"][-3000:]), found_input=False)
    return pr


TRUSTED_COMMON = [
    "Coq 8.16.1 kernel; vm_compute for reflective finite checks; no native_compute",
    "axioms: none declared by the development; Print Assumptions output per theorem is recorded in coverage.print_assumptions",
    "extraction: Coq extraction + ExtrOcamlBasic only (no Extract Constant / Extract Inductive of our own); OCaml 4.13.1; hand-written line-protocol driver oracle/<id>/main.ml",
    "Go harness files compiled into /repo's packages with go test -tags verif -overlay (no change to /repo sources)",
]
