"""C16 — discovery enumerates exactly the host addresses of each configured subnet.
proof: coq/Props/C16.v over coq/Discover/Subnet.v; tie: Go ipGenerator/computeNetSz vs extracted model."""
import random
import vlib

PID = "C16"


def ip_s(a):
    return "%d.%d.%d.%d" % (a >> 24 & 255, a >> 16 & 255, a >> 8 & 255, a & 255)


def bases(seed, n_random):
    fixed = ["10.10.10.10", "192.168.1.110", "255.255.255.255", "255.255.255.252", "0.0.0.1", "127.0.0.1",
             "1.2.3.255", "1.2.255.255", "128.0.0.0", "172.16.255.1", "0.0.0.0", "223.255.255.254"]
    out = []
    for s in fixed:
        p = [int(x) for x in s.split(".")]
        out.append(p[0] << 24 | p[1] << 16 | p[2] << 8 | p[3])
    rnd = random.Random(seed)
    out += [rnd.getrandbits(32) for _ in range(n_random)]
    return out


def spec_ok(addr, p, got):
    """the property itself, evaluated on the implementation's output (independent of the model)"""
    h = 32 - p
    net = addr >> h << h
    if p >= 31:
        return got == [net]
    bc = net + (1 << h) - 1
    return len(got) == len(set(got)) and len(got) == bc - net - 1 and all(net < x < bc for x in got)


def entry_word(w):
    """a configured subnet entry as the model's [entry]: v4 a p | v6 p128 | bad (an independent reading of the CIDR text)"""
    import ipaddress
    try:
        n = ipaddress.ip_network(w, strict=False)
        if "/" not in w:
            return "bad"
    except ValueError:
        return "bad"
    if n.version == 4:
        a = int(ipaddress.ip_address(w.split("/")[0]))
        return "v4 %d %d" % (a, n.prefixlen)
    a6 = ipaddress.ip_address(w.split("/")[0])
    if a6.ipv4_mapped is not None and n.prefixlen >= 96:
        return "v4 %d %d" % (int(a6.ipv4_mapped), n.prefixlen - 96)
    return "v6 %d" % n.prefixlen


def run(tier, seed, replay=None):
    res = vlib.Result(PID, tier, seed)
    res.assumptions = vlib.TRUSTED_COMMON + [
        "net.ParseCIDR yields a 4-byte network address and a contiguous mask (modelled by umask_of p)",
        "Go channel/select semantics as in the gen process model (EvSend/EvSeeDone/EvReturn)",
        "cancellation: 'returns' is measured with a 3 s budget, not proved about wall-clock time",
        "autoDiscover end to end: probes are observed as TCP connections to loopback addresses (127/8); parsing of the configured strings "
        "(net.ParseCIDR, skipped entries) is exercised, not modelled; a stalled consumer is sampled at a few pause lengths (up to 10.5 s)",
    ]
    pr = vlib.proof_part(res, PID)
    rc, log = vlib.build_oracle("c16")
    if rc != 0:
        res.violation("oracle-build", "oracle for C16 does not build: " + log[-800:], dict(kind="build"), False)
        return res.finish()
    ok, log, exe = vlib.build_harness("driver", PID, ["c16_test.go"])
    if not ok:
        res.violation("harness-build", "Go harness does not build against /repo: " + log[-1500:], dict(kind="build"), False)
        return res.finish()

    thorough = tier == "thorough"
    bs = bases(seed, 40 if thorough else 8)
    cases = []   # (go request, oracle requests, kind, addr, p)
    if replay:
        import json
        rp = json.load(open(replay))
        cases = [tuple(c) for c in rp.get("cases", [])]
    else:
        for p in range(0, 33):
            cases.append(("sz %d" % p, ["sz %d" % p], "sz", 0, p))
        full_from = 13 if thorough else 16
        list_from = 22
        for a in bs:
            for p in range(2, 33):
                cidr = "%s/%d" % (ip_s(a), p)
                if p >= list_from:
                    cases.append(("gen " + cidr, ["gen %d %d" % (a, p)], "gen", a, p))
                elif p >= full_from:
                    cases.append(("sum " + cidr, ["sum %d %d" % (a, p)], "sum", a, p))
                else:
                    n = 512
                    cases.append(("head %s %d" % (cidr, n), ["nth %d %d %d" % (a, p, k) for k in range(n)], "head", a, p))
        for a in bs[:6]:
            for p in range(2, 33):
                cases.append(("cancel %s/%d" % (ip_s(a), p), [], "cancel", a, p))
        # cancelled before the call while the consumer side never makes the generator wait (a channel with room for the whole
        # network / a consumer that takes every address at once): cancelling STOPS the enumeration - with ctx.Done() ready at every
        # send, the chance that k addresses are handed over is 2^-k, so more than 64 is a generator that does not look at its context
        for i, a in enumerate(bs[:4]):
            for p, buf in ((12, 1 << 20), (16, 0), (20 - i, 1 << 12), (14 + i, 0)):
                cases.append(("cancelroom %s/%d %d" % (ip_s(a), p, buf), [], "cancelroom", a, p))
        # hand-built IPNets whose IP field keeps host bits (ipGenerator must mask itself), in the
        # 4-byte and in Go's 16-byte representation of an IPv4 address
        for a in bs:
            for p in range(20, 33):
                cases.append(("rawgen %s %d" % (ip_s(a), p), ["rawgen %d %d" % (a, p)], "rawgen", a, p))
                cases.append(("rawgen16 %s %d" % (ip_s(a), p), ["rawgen %d %d" % (a, p)], "rawgen", a, p))
        # IPv4 networks written as IPv4-mapped IPv6 CIDRs (autoDiscover accepts them as IPv4)
        for a in bs[:8]:
            for p in range(20, 33):
                cases.append(("gen ::ffff:%s/%d" % (ip_s(a), 96 + p), ["gen %d %d" % (a, p)], "gen", a, p))
            for p in (31, 32, 24):
                cases.append(("cancel ::ffff:%s/%d" % (ip_s(a), 96 + p), [], "cancel", a, p))
        # a consumer that stalls in the middle of the enumeration (longer than any plausible hand-over
        # timeout): the generator has to wait, every host still arrives exactly once
        stalls = [(bs[0], 29, 2, 3300), (bs[1], 30, 1, 1200)]
        if thorough:
            stalls += [(bs[2], 28, 5, 5500), (bs[3], 29, 1, 10500), (bs[4], 27, 29, 2200), (bs[5], 31, 1, 100)]
        for a, p, k, ms in stalls:
            cases.append(("slow %s/%d %d %d" % (ip_s(a), p, k, ms), ["gen %d %d" % (a, p)], "gen", a, p))
        # autoDiscover itself over several configured subnets (loopback addresses, every probe is
        # observed by a listener): the union of the enumerations and the logged probe estimate
        import random
        rnd = random.Random(seed * 7919 + 16)
        strata = [32, 31, 30, 29, 28, 27, 26] + ([25, 24] if thorough else [])
        drawn = [0]
        def lo_net():
            # prefixes are dealt round-robin so that every one occurs in every run; the base address is
            # random, every second one has all host bits set (the "last address" spelling of the network)
            p = strata[drawn[0] % len(strata)]
            a = (127 << 24) | (rnd.randrange(1, 255) << 16) | (rnd.randrange(0, 256) << 8) | rnd.randrange(0, 256)
            if drawn[0] % 2 == 0:
                a |= (1 << (32 - p)) - 1
            drawn[0] += 1
            return a, p
        for i in range(14 if thorough else 6):
            k = rnd.choice([1, 2, 2, 3, 3, 4])
            nets = [lo_net() for _ in range(k)]
            if i % 3 == 1:
                nets.append(nets[0])            # the same subnet configured twice
            words = ["%s/%d" % (ip_s(a), p) for a, p in nets]
            if i % 3 == 2:                       # one entry as IPv4-mapped CIDR, plus entries autoDiscover skips
                a, p = nets[-1]
                words[-1] = "::ffff:%s/%d" % (ip_s(a), 96 + p)
                words.insert(rnd.randrange(0, len(words) + 1), rnd.choice(["-", "bogus", "10.0.0.1", "300.1.1.0/24", "127.0.0.0/33"]))
                # and a genuine IPv6 network, which autoDiscover refuses: it enumerates nothing, so it adds nothing to the estimate
                v6 = ["::1/128", "fd00::1:0/120", "fe80::/64", "fd00::10/124", "2001:db8::/32", "fd00::ffff:0:0/97"]
                words.insert(rnd.randrange(0, len(words) + 1), v6[(i // 3 + seed) % len(v6)])
            limit = rnd.choice([1, 3, 16, 64, 5000])
            # the model reads the whole configured list, refused and malformed entries included (Discover/Entries.v)
            cases.append(("disc %d %s" % (limit, ",".join(words)),
                          ["ents " + " ".join(entry_word(w) for w in words)], "disc", len(nets), limit))
        # slow readers: each probe takes well over twice the probe timeout though no single step exceeds it; a run that nobody
        # cancels still enumerates every host (one worker, so the probes add up)
        a = (127 << 24) | (rnd.randrange(1, 255) << 16) | (rnd.randrange(0, 256) << 8) | (rnd.randrange(0, 32) * 8)
        cases.append(("discslow 1 %s/29" % ip_s(a), ["all %d 29" % a], "disc", 1, 1))
        # the same with devices already registered in EdgeX and operating at some of the enumerated addresses: they are enumerated
        # (the estimate counts them: it "equals the number enumerated") but not probed; incl. subnets ALL of whose hosts are registered
        def hosts_of(a, p):
            if p >= 31:
                return [a]
            net_ = a & ~((1 << (32 - p)) - 1) & 0xFFFFFFFF
            return list(range(net_ + 1, net_ + (1 << (32 - p)) - 1))
        for i in range(6 if thorough else 3):
            nets = [lo_net() for _ in range(rnd.choice([1, 2, 3]))]
            if i == 0:
                nets = [n for n in nets if n[1] <= 30][:1] + [(lo_net()[0], 32)]      # a /32 whose only address is registered
            hs = sorted(set(h for a, p in nets for h in hosts_of(a, p)))
            if i == 0:
                reg = [nets[-1][0]]
            elif i == 1:
                a, p = nets[0]
                reg = hosts_of(a, p) if len(hosts_of(a, p)) <= 6 else rnd.sample(hs, 3)   # every host of one subnet
            else:
                reg = rnd.sample(hs, min(len(hs), rnd.choice([1, 2, 5])))
            if len(nets) == 1 and set(reg) >= set(hs):
                limit = 4
            else:
                limit = rnd.choice([1, 3, 16, 5000])
            words = ["%s/%d" % (ip_s(a), p) for a, p in nets]
            cases.append(("discreg %d %s %s" % (limit, ",".join(words), ",".join(str(x) for x in reg)),
                          ["all " + " ".join("%d %d" % n for n in nets)], "discreg", len(nets), limit))
        # cancelling a whole autoDiscover run (several large subnets, refused probes, cancel after a
        # while): the call has to return
        for nets, ms in ([("127.0.0.0/10,127.64.0.0/10", 150), ("127.128.0.0/12,127.160.0.0/12,127.192.0.0/12", 60),
                          ("127.7.0.0/16", 40), ("127.8.0.0/14,127.12.0.1/32,127.16.0.0/14", 0)]
                         + ([("127.0.0.0/9,127.128.0.0/9", 700), ("127.32.0.0/11,127.64.0.0/11,127.96.0.0/11,127.128.0.0/11", 300)] if thorough else [])):
            for limit in ((1, 50) if thorough else (8,)):
                cases.append(("disccancel %d %d %s" % (limit, ms, nets), [], "disccancel", 0, 0))
        # ... and through the Driver's own entry point (Driver.discover(ctx)), with and without a configured maximum duration
        for nets, ms, mx in [("127.0.0.0/10,127.64.0.0/10", 120, 0), ("127.128.0.0/12,127.160.0.0/12", 60, 25), ("127.7.0.0/16", 0, 300)]:
            cases.append(("drvcancel 8 %d %s %d" % (ms, nets, mx), [], "drvcancel", 0, 0))
        if thorough:
            for a in bs[:1]:
                for p in (8,):
                    cases.append(("sum %s/%d" % (ip_s(a), p), ["sum %d %d" % (a, p)], "sum", a, p))

    rc, go_lines, glog = vlib.run_harness(exe, "TestVerifC16", "\n".join(c[0] for c in cases) + "\n", timeout=900)
    oreq = [q for c in cases for q in c[1]]
    orc, oout = vlib.run_oracle("c16", "\n".join(oreq) + "\n", timeout=900)
    olines = oout.split("\n")
    if rc != 0 and len(go_lines) < len(cases):
        # the process died while serving some request (answers are written at the end, so none is left): bisect for a request
        # that kills it when run alone; that request is the witness
        part = list(cases)
        for _ in range(14):
            if len(part) <= 1:
                break
            half = part[:len(part) // 2]
            rc2, l2, _ = vlib.run_harness(exe, "TestVerifC16", "\n".join(c[0] for c in half) + "\n", timeout=600, tag="_bis")
            part = half if (rc2 != 0 and len(l2) < len(half)) else part[len(part) // 2:]
        cul = part[0]
        rc2, l2, log2 = vlib.run_harness(exe, "TestVerifC16", cul[0] + "\n", timeout=300, tag="_bis")
        if rc2 != 0 and len(l2) < 1:
            m = [ln for ln in log2.split("\n") if ln.startswith(("panic:", "fatal error:"))]
            res.violation("process-crash:%s" % cul[2], "the process running discovery dies on the request '%s' (%s); every other run of this process is lost with it"
                          % (cul[0][:300], (m[0] if m else "rc=%s" % rc2)[:200]),
                          dict(kind="correspondence", correspondence="C16/ipGenerator-vs-ip_gen", cases=[list(cul)], observed=log2[-2500:], expected="an answer"))
            return res.finish()
    if rc != 0 or len(go_lines) != len(cases):
        res.violation("harness-run", "Go harness failed (rc=%s, %d/%d answers): %s" % (rc, len(go_lines), len(cases), glog[-1500:]),
                      dict(kind="harness", log=glog[-3000:]), False)
        return res.finish()

    oi = 0
    evals, nontriv, dist = 0, set(), {}
    samples = []
    for c, g in zip(cases, go_lines):
        req, oq, kind, a, p = c
        o = olines[oi:oi + len(oq)]
        oi += len(oq)
        evals += 1
        dist[kind] = dist.get(kind, 0) + 1
        if kind in ("disc", "discreg"):
            nontriv.add((kind, req))
        elif kind != "sz" and p <= 30:
            nontriv.add((kind, a, p))
        expect = None
        if kind in ("sz", "gen", "sum", "rawgen", "disc"):
            expect = o[0].strip()
        elif kind == "discreg":
            # the model's enumeration (estimate = its length) minus the registered addresses is what gets probed
            ow = o[0].split()
            reg = set(req.split()[3].split(","))
            probed = [x for x in ow[2:] if x not in reg]
            expect = " ".join([ow[0], str(len(probed))] + probed)
        elif kind == "head":
            vals = [x.strip() for x in o if x.strip() != "none"]
            expect = "true" + "".join(" " + v for v in vals)
        elif kind in ("cancel", "disccancel", "drvcancel"):
            expect = "true"
        elif kind == "cancelroom":
            gw = g.split()
            if len(gw) == 2 and gw[0] == "true" and gw[1].isdigit() and int(gw[1]) <= 64:
                continue
            expect = "true <at most 64>"
        if len(samples) < 6 and kind in ("gen", "head") and p in (29, 30, 13, 31):
            samples.append(dict(request=req, go=g[:200], model=expect[:200]))
        if g.strip() == expect:
            continue
        # correspondence broken at this input: evaluate the property on the implementation's behaviour
        replay_d = dict(kind="correspondence", correspondence="C16/ipGenerator-vs-ip_gen", cases=[list(c)],
                        observed=g[:2000], expected=expect[:2000])
        if kind == "drvcancel":
            res.violation("cancel-blocks:driver-discover", "Driver.discover over %s (async limit %s, MaxDiscoverDurationSeconds %s) had not returned 5 s after its caller cancelled the context (%s ms into the run): %s"
                          % (req.split()[3], req.split()[1], req.split()[4], req.split()[2], g[:200]), replay_d)
        elif kind == "disccancel":
            res.violation("cancel-blocks:autodiscover", "autoDiscover over %s (async limit %s) had not returned 5 s after its context was cancelled (%s ms into the run): %s"
                          % (req.split()[3], req.split()[1], req.split()[2], g[:200]), replay_d)
        elif kind == "cancelroom":
            res.violation("cancel-does-not-stop-enumeration", "ipGenerator for %s/%d called with a cancelled context and a consumer side that never makes it wait (%s) "
                          "handed over %s addresses (returned: %s): cancelling the run does not stop the enumeration"
                          % (ip_s(a), p, "channel with room for %s" % req.split()[2] if req.split()[2] != "0" else "a consumer taking every address at once",
                             (g.split() + ["?", "?"])[1], (g.split() + ["?"])[0]), replay_d)
        elif kind == "cancel":
            res.violation("cancel-blocks:/%d" % p if p >= 31 else "cancel-blocks:loop",
                          "ipGenerator for %s/%d did not return within 3s after cancellation with no consumer" % (ip_s(a), p), replay_d)
        elif kind == "discreg":
            gw, ew = g.split(), expect.split()
            regs = req.split()[3]
            if "did not return" in g:
                res.violation("registered-devices-block-discovery", "autoDiscover over %s with operating devices registered at %s (async limit %s) had not returned after 25 s "
                              "(%s addresses to enumerate, %s of them to probe)" % (req.split()[2], regs, req.split()[1], ew[0], ew[1]), replay_d)
            elif g.startswith("error") or len(gw) < 2:
                res.violation("autodiscover-fails", "autoDiscover over %s: %s" % (req.split()[2], g[:300]), replay_d)
            elif gw[1:] != ew[1:]:
                res.violation("enum-wrong:autodiscover-registered", "autoDiscover over %s with operating devices registered at %s probed %s addresses, the hosts of those subnets "
                              "without the registered ones are %s: observed %s" % (req.split()[2], regs, gw[1], ew[1], g[:300]), replay_d)
            else:
                res.violation("estimate-wrong:registered", "autoDiscover over %s with operating devices registered at %s logs a probe estimate of %s but enumerates %s addresses "
                              "(%s probed + the registered ones that are skipped)" % (req.split()[2], regs, gw[0], ew[0], gw[1]), replay_d)
        elif kind == "disc":
            gw, ew = g.split(), expect.split()
            if g.startswith("error") or len(gw) < 2:
                res.violation("autodiscover-fails", "autoDiscover over %s: %s" % (req.split()[2], g[:300]), replay_d)
            elif gw[1:] != ew[1:]:
                res.violation("enum-wrong:autodiscover", "autoDiscover over the subnets %s probed %s addresses, the hosts of those subnets are %s: "
                              "observed %s" % (req.split()[2], gw[1], ew[1], g[:300]), replay_d)
            else:
                res.violation("estimate-wrong:multi", "autoDiscover over the subnets %s logs a probe estimate of %s but enumerates %s addresses"
                              % (req.split()[2], gw[0], gw[1]), replay_d)
        elif kind == "rawgen":
            got = [int(x) for x in g.split()[1:]] if not g.startswith("error") else None
            if p <= 30 and (got is None or not spec_ok(a, p, got)):
                res.violation("enum-wrong:raw-ipnet", "ipGenerator on a hand-built IPNet{%s, /%d} (host bits set) does not enumerate exactly the hosts of that network: got %s" % (ip_s(a), p, g[:300]), replay_d)
            else:
                res.violation("raw-ipnet-differs", "ipGenerator on a hand-built IPNet{%s, /%d}: observed %s, model %s" % (ip_s(a), p, g[:200], expect[:200]), replay_d, p <= 30)
        elif kind == "gen":
            got = [int(x) for x in g.split()[1:]] if not g.startswith("error") else None
            if got is None or not spec_ok(a, p, got) or int(g.split()[0]) != len(got):
                res.violation("enum-wrong:%s" % kind, "ipGenerator(%s/%d) does not enumerate exactly the hosts: got %s" % (ip_s(a), p, g[:300]), replay_d)
            else:
                res.violation("order-differs", "ipGenerator(%s/%d) differs from the model though the host set is right" % (ip_s(a), p), replay_d, False)
        elif kind == "sz":
            if 2 <= p <= 32:
                res.violation("estimate-wrong", "computeNetSz(%d)=%s but the enumeration has %s addresses" % (p, g, expect), replay_d)
        elif kind == "head" and not g.startswith("true"):
            res.violation("cancel-blocks:loop", "ipGenerator(%s/%d) did not return after cancellation mid-enumeration" % (ip_s(a), p), replay_d)
        else:
            res.violation("enum-wrong:%s" % kind, "ipGenerator(%s/%d): observed %s, the exact enumeration gives %s" % (ip_s(a), p, g[:200], expect[:200]), replay_d)

    res.coverage.update(evaluations=evals, distinct_nontrivial=len(nontriv),
                        rule="cases = (base address, prefix) x {full enumeration p>=22, hashed enumeration, first-512 + cancel, cancel with no consumer} "
                             "+ computeNetSz 0..32 + stalled consumer + autoDiscover over 1-5 loopback subnets (probes observed by a listener, logged estimate); non-trivial iff prefix <= 30 (more than one host); distinct by (kind, address, prefix)",
                        samples=samples, input_distribution=dist, traces_validated_against_impl=evals,
                        trusted_base=res.assumptions)
    return res.finish()
