"""C01, driver level: "A value that additionally passes through the JSON form the device service uses for ... readings survives unchanged".

A REAL Driver / LLRPDevice / llrp.Client (harness/driver/c01_test.go) talks to a scripted Reader. The script reads the four readable
resources (ReaderConfig, ReaderCapabilities, ROSpec, AccessSpec) MANY times, also twice within one HandleReadCommands call, and lets the
Reader send ROAccessReports / ReaderEventNotifications; the payloads are the reference encodings (extracted Coq encoder) of generated
well-formed values with repeated and optional sub-parameters. Judged, per reading:
  * the JSON text of the CommandValue's Value (what the SDK serialises), parsed by python's own json module, is the model's
    Json.to_json of the value the Reader sent THAT time, and the Value re-encodes to the bytes the Reader sent that time
    (`reading-differs:<resource>:at-return`, `reading-reencodes-differently:<resource>:at-return`);
  * the same again for EVERY reading handed out so far after later reads / reports happened (`...:after-later-messages`): a reading is a
    value, it is serialised asynchronously, nothing that arrives later may change it.
Replay: the script (steps with value trees); a failing script is cut down to the steps of the failing resource before it is reported.

Attached to checks/c01.py through `attached(...)` like dec_fir.py (the step runs in a thread next to the codec pipeline)."""
import collections, contextlib, json, os, random, re, threading, time

import vlib

RES = [("cfg", "GetReaderConfigResponse"), ("cap", "GetReaderCapabilitiesResponse"), ("ro", "GetROSpecsResponse"), ("as", "GetAccessSpecsResponse")]
REPORTS = [(61, "ROAccessReport"), (63, "ReaderEventNotification")]
RES_NAME = {"cfg": "ReaderConfig", "cap": "ReaderCapabilities", "ro": "ROSpec", "as": "AccessSpec", 61: "ROAccessReport", 63: "ReaderEventNotification"}


def _success(L, G, c, v):
    """the same value with LLRPStatus.Status = Success (a reply with another status is turned into an error by SendFor)"""
    subs = list(v[3])
    for i, s in enumerate(c["subs"]):
        if s["name"] == "LLRPStatus" and s["arity"] == "one":
            st = subs[i]
            subs[i] = ['S', st[1], [['N', 0]] + list(st[2][1:]), st[3]]
    return ['S', v[1], v[2], subs]


def pick_values(L, G, seed, tier):
    """{container name: [case, ...]}: well-formed values, those with many repeated / optional sub-parameters first"""
    n = 120 if tier == "thorough" else 24
    by_name = {c["name"]: c for c in L.all}
    out = {}
    for _, name in RES + REPORTS + [(None, "ErrorMessage")]:
        c = by_name[name]
        rnd = random.Random("%d:c01driver:%s" % (seed, name))
        cases, seen = [], set()
        for kind, v in G.Gen(L, seed, tier).cases_for(c):
            if name != "ErrorMessage":
                v = _success(L, G, c, v)
            cs = G.make_case(L, c, v, kind)
            if cs["wf"] and cs["hash"] not in seen and cs["size"] <= 40000 and len(cs["tree"]) <= 60000:
                seen.add(cs["hash"])
                cases.append(cs)
        rich = sorted(cases, key=lambda cs: -(cs["repeated"] + cs["opt_present"]))[:n // 2]
        rest = [cs for cs in cases if cs not in rich]
        rnd.shuffle(rest)
        pick = rich + rest[:n - len(rich)]
        rnd.shuffle(pick)
        # a container's smallest value: after a rich reply, an (almost) empty one must not keep anything of the rich one
        pick.append(min(cases, key=lambda cs: len(cs["tree"])))
        out[name] = pick
    return out


def make_script(vals, seed):
    """steps: dict(op='read', items=[(res, tree)]) | dict(op='report', type=t, tree=tree) | dict(op='recheck')"""
    rnd = random.Random("%d:c01driver:script" % seed)
    steps = []
    n = max(len(vals[name]) for _, name in RES + REPORTS)
    for i in range(n):
        for res, name in RES:
            lst = vals[name]
            cs = lst[i % len(lst)]
            r = rnd.random()
            if r < 0.2:
                # the same reply twice in a row: everything that is repeated in it must still appear once per reading
                steps.append(dict(op="read", items=[(res, cs["tree"])]))
                steps.append(dict(op="read", items=[(res, cs["tree"])]))
            elif r < 0.4:
                # one call, several requests, the same resource more than once
                other = rnd.choice(RES)
                items = [(res, cs["tree"]), (other[0], rnd.choice(vals[other[1]])["tree"]), (res, rnd.choice(lst)["tree"])]
                steps.append(dict(op="read", items=items))
            else:
                steps.append(dict(op="read", items=[(res, cs["tree"])]))
        for typ, name in REPORTS:
            lst = vals[name]
            steps.append(dict(op="report", type=typ, tree=lst[i % len(lst)]["tree"]))
        if i % 6 == 5:
            steps.append(dict(op="recheck"))
    steps.append(dict(op="recheck"))
    return steps


def attempts_of(item):
    """item = (res, tree) | (res, [attempt, ...]); attempt = tree | ["ok"|"st"|"E"|"P", tree] | ["X"]
    ("ok": reply with status Success; "st": reply with another status; "E": ERROR_MESSAGE; "X": the Reader drops the connection;
    "P": half of the reply's frame, then the connection is dropped) -> (res, [[kind, tree or None], ...])"""
    res, a = item[0], item[1]
    if isinstance(a, str):
        return res, [["ok", a]]
    return res, [["ok", x] if isinstance(x, str) else [x[0], x[1] if len(x) > 1 else None] for x in a]


def status_codes():
    """every StatusCode the library defines (read from the tree under test) except Success, plus values it does not define"""
    codes = set()
    try:
        src = open(os.path.join(vlib.REPO, "pkg", "llrp", "generated_structs.go")).read()
        codes = set(int(x) for x in re.findall(r"=\s*StatusCode\((\d+)\)", src))
    except OSError:
        pass
    codes |= {1, 99, 113, 199, 210, 299, 302, 400, 401, 402, 65535}
    codes.discard(0)
    return sorted(codes)


def _with_status(L, G, c, v, status_sub):
    subs = list(v[3])
    for i, s in enumerate(c["subs"]):
        if s["name"] == "LLRPStatus" and s["arity"] == "one":
            subs[i] = status_sub
    return ['S', v[1], v[2], subs]


def retry_steps(L, G, vals, seed, tier):
    """exchanges whose FIRST answer is a failure of some class and whose second is a success: a reply with every non-Success status
    (carrying a description, FieldError, ParameterError and the sub-parameters of a rich value), an ERROR_MESSAGE, a dropped connection,
    a truncated reply. Whatever the service does (give up, or ask again), a reading it returns must be the reply that decided the exchange."""
    rnd = random.Random("%d:c01driver:retry" % seed)
    by_name = {c["name"]: c for c in L.all}
    stc = by_name["LLRPStatus"]
    # the richest LLRPStatus values the generator knows (description, FieldError, ParameterError chain)
    sts = []
    for kind, v in G.Gen(L, seed, tier).cases_for(stc):
        cs = G.make_case(L, stc, v, kind)
        if cs["wf"] and cs["utf8"] and cs["size"] < 600:
            sts.append((len(v[2][1][1]) > 0, cs["opt_present"], v))
    sts.sort(key=lambda x: (x[0], x[1]), reverse=True)
    sts = [v for _, _, v in sts[:12]] or [L.minimal(stc)]
    ems = [cs for cs in vals.get("ErrorMessage", [])]
    codes = status_codes()
    steps = []
    per_res = len(codes) if tier == "thorough" else max(1, (len(codes) + len(RES) - 1) // len(RES))
    k = 0
    for ri, (res, name) in enumerate(RES):
        c = by_name[name]
        lst = vals[name]
        rich = sorted(lst, key=lambda cs: -(cs["repeated"] + cs["opt_present"]))[:6]
        small = min(lst, key=lambda cs: len(cs["tree"]))
        mine = codes if tier == "thorough" else [codes[(ri * per_res + j) % len(codes)] for j in range(per_res)]
        if 401 not in mine:
            mine = mine + [401]
        for code in mine:
            a = rnd.choice(rich)
            st = rnd.choice(sts)
            failing = _with_status(L, G, c, G.parse(a["tree"]), ['S', st[1], [['N', code]] + list(st[2][1:]), st[3]])
            fc = G.make_case(L, c, failing, "retry-status-%d" % code)
            if not fc["wf"]:
                continue
            ok = small if k % 2 == 0 else rnd.choice(rich)
            k += 1
            steps.append(dict(op="read", items=[(res, [["st", fc["tree"]], ["ok", ok["tree"]]])]))
        ok = rnd.choice(rich)
        if ems:
            steps.append(dict(op="read", items=[(res, [["E", rnd.choice(ems)["tree"]], ["ok", ok["tree"]]])]))
        if tier == "thorough" or ri % 2 == 0:
            steps.append(dict(op="read", items=[(res, [["X"], ["ok", ok["tree"]]])]))
        if tier == "thorough" or ri == 1:      # (a truncated reply costs seconds: the client winds the broken connection down slowly)
            steps.append(dict(op="read", items=[(res, [["P", ok["tree"]], ["ok", small["tree"]]])]))
        steps.append(dict(op="recheck"))
    return steps


def trees_of(steps):
    out = []
    for s in steps:
        if s["op"] == "read":
            for it in s["items"]:
                out += [t for _, t in attempts_of(it)[1] if t]
        elif s["op"] == "report":
            out.append(s["tree"])
    return out


class Runner:
    def __init__(self):
        import codec_common as CC
        self.CC = CC
        self.W = CC.Workers("C01")
        self.exe = None
        self.ref = {}       # tree -> (payload hex, canonical JSON of the model)
        self.exchanges = collections.Counter()      # (first answer, outcome, requests made) of the scripted multi-attempt reads
        self.log = ""

    def build(self):
        ok, log, exe = vlib.build_harness("driver", "C01", ["c01_test.go"])
        self.exe = exe if ok else None
        self.log = log
        rc, olog = vlib.build_oracle("codec")
        self.W.oracle_ok = rc == 0 and os.path.exists(os.path.join(vlib.BUILD, "oracle_codec"))
        return ok, self.W.oracle_ok

    def reference(self, trees):
        todo = [t for t in dict.fromkeys(trees) if t not in self.ref]
        for t, a in zip(todo, self.W.oracle(["c01 " + t for t in todo])):
            parts = a.split("\t")
            if len(parts) != 3:
                continue
            st, hx, tr, hx2 = self.CC.split_rt(parts[0])
            js = parts[1].split(" ", 1)
            if st == "ok" and tr == t and hx == hx2 and js[0] in ("ok", "badtext") and len(js) == 2:
                self.ref[t] = (hx, js[1])

    def run(self, steps, tag=""):
        """-> (list of observations, error text). observation = dict(k=reading index, res=resource, tree=expected tree, phase=, json=, bin=)"""
        self.reference(trees_of(steps))
        lines, plan = ["init"], [None]
        for s in steps:
            if s["op"] == "read":
                if any(t not in self.ref for t in trees_of([s])):
                    continue
                words = []
                for it in s["items"]:
                    res, atts = attempts_of(it)
                    words.append(res + "=" + "/".join(({"ok": "", "st": "", "E": "E", "P": "P", "X": "X"}[k]) + ((self.ref[t][0] or "-") if t else "")
                                                      for k, t in atts))
                lines.append("read " + " ".join(words))
            elif s["op"] == "report":
                if s["tree"] not in self.ref:
                    continue
                lines.append("report %d %s" % (s["type"], self.ref[s["tree"]][0] or "-"))
            else:
                lines.append("recheck")
            plan.append(s)
        rc, out, log = vlib.run_harness(self.exe, "TestVerifC01Driver", "\n".join(lines) + "\n", timeout=600, tag=tag)
        if len(out) != len(lines):
            return [], "the driver harness answered %d of %d requests (rc %d): %s" % (len(out), len(lines), rc, log[-600:])
        if out[0] != "ok":
            return [], "init: " + _unhex(out[0])
        obs, expect = [], []        # expect[k] = (resource, tree) of reading k
        for si, (s, a) in enumerate(zip(plan[1:], out[1:])):
            f = a.split(" ")
            n = None
            if f[-1].startswith("n="):
                n = int(f.pop()[2:])
            if s["op"] == "recheck":
                if f[0] != "ok" or len(f) - 1 != len(expect):
                    return obs, "recheck answered `%s` for %d readings" % (a[:80], len(expect))
                for k, item in enumerate(f[1:]):
                    j, b = item.split(":")
                    o = dict(k=k, res=expect[k][0], tree=expect[k][1], phase="after-later-messages", json=j, bin=b, step=expect[k][4], attempts=expect[k][3])
                    if expect[k][2] is not None:
                        o["decided"] = expect[k][2]
                    obs.append(o)
                continue
            decided = None      # the attempt that decided the exchange of a scripted multi-attempt item: [kind, tree]
            if s["op"] == "read":
                want = []
                for i, it in enumerate(s["items"]):
                    res, atts = attempts_of(it)
                    if len(atts) > 1 or atts[0][0] != "ok":
                        # the answer that decided the exchange is the one to the LAST request the service made
                        decided = atts[n - 1] if (i == 0 and n is not None and 1 <= n <= len(atts)) else ["?", None]
                        self.exchanges[(atts[0][0], "reading" if f[0] == "ok" else "error", n)] += 1
                        want.append((RES_NAME[res], decided[1]))
                    else:
                        want.append((RES_NAME[res], atts[0][1]))
            else:
                want = [(RES_NAME[s["type"]], s["tree"])]
            if f[0] != "ok" or len(f) - 1 != len(want):
                if decided is not None and decided[0] != "ok" and f[0] == "err":
                    continue            # the deciding answer was a failure and the command failed: nothing is claimed about it
                obs.append(dict(k=None, res=want[0][0], tree=want[0][1], phase="at-return", failed=_unhex(a), step=s, attempts=n))
                if f[0] in ("none", "wrong", "panic") or s["op"] == "report":
                    return obs, None       # the stream of readings is out of step from here on
                continue
            for (res, t), item in zip(want, f[1:]):
                k, j, b = item.split(":")
                if int(k) != len(expect):
                    return obs, "reading index %s, expected %d" % (k, len(expect))
                expect.append((res, t, decided[0] if decided is not None else None, n, s))
                o = dict(k=int(k), res=res, tree=t, phase="at-return", json=j, bin=b, step=s, attempts=n)
                if decided is not None:
                    o["decided"] = decided[0]
                obs.append(o)
        return obs, None

    def judge(self, obs):
        """-> list of (signature, what, k)"""
        CC = self.CC
        out = []
        for o in obs:
            if "failed" in o:
                out.append(("reading-fails:%s" % o["res"], "%s: reading a value the Reader sent with status Success fails: %s" % (o["res"], o["failed"][:300]), o))
                continue
            if o["tree"] is None or o.get("decided", "ok") in ("E", "X", "P", "?"):
                out.append(("reading-without-deciding-reply:%s" % o["res"], "%s: the command returned reading #%s although the exchange was decided by %s after %s request(s)"
                            % (o["res"], o["k"], {"E": "an ERROR_MESSAGE", "X": "a dropped connection", "P": "a truncated reply"}.get(o.get("decided"), "an answer the script did not provide"),
                               o.get("attempts")), o))
                continue
            hx, model = self.ref[o["tree"]]
            extra = ""
            if o.get("attempts") and o["attempts"] > 1:
                extra = " [the service made %d requests; the reading is compared with the reply to the LAST one, which decided the exchange]" % o["attempts"]
            when = ("when HandleReadCommands / the handler returned it" if o["phase"] == "at-return"
                    else "when it is looked at again after later reads / reports (the SDK serialises readings asynchronously)")
            try:
                text = bytes.fromhex(o["json"]).decode("utf-8")
                canon = CC.canon_json(text)
            except Exception as e:
                text, canon = "", "<not readable: %r>" % (e,)
            if canon != model:
                k = CC.first_diff(canon, model)
                out.append(("reading-differs:%s:%s" % (o["res"], "after-retry" if (o.get("attempts") or 0) > 1 and o["phase"] == "at-return" else o["phase"]),
                            "%s: the JSON of reading #%d is not the JSON form of the value the Reader sent for it, %s (canonical form, offset %d of %d/%d): "
                            "reading=…%s… sent=…%s… (strings as hex)%s" % (o["res"], o["k"], when, k, len(canon), len(model), CC._ctx(canon, k), CC._ctx(model, k), extra), o))
            elif (o["bin"] if o["bin"] != "-" else "") != hx:
                b = o["bin"] if o["bin"] != "-" else ""
                out.append(("reading-reencodes-differently:%s:%s" % (o["res"], o["phase"]),
                            "%s: reading #%d does not re-encode to the bytes the Reader sent for it, %s (%s; offset %d, %d vs %d bytes)"
                            % (o["res"], o["k"], when, b[:24], CC.first_diff(b, hx) // 2, len(b) // 2, len(hx) // 2), o))
        return out


def _unhex(a):
    f = a.split(" ")
    if len(f) == 2 and f[0] in ("err", "panic"):
        try:
            return f[0] + ": " + bytes.fromhex(f[1]).decode("utf-8", "replace")
        except ValueError:
            pass
    return a[:300]


def cut_down(R, steps, sig, bad):
    """a shorter script that still shows the signature: only the steps that involve the failing resource, then only the last few of them"""
    res = sig.split(":")[1]

    def touches(s):
        if s["op"] == "read":
            return any(RES_NAME[r] == res for r, _ in s["items"])
        if s["op"] == "report":
            return RES_NAME[s["type"]] == res
        return False
    own = [s for s in steps if touches(s)]
    best = steps
    alone = [bad["step"]] if isinstance(bad.get("step"), dict) and bad["step"]["op"] != "recheck" else []
    for cand in (alone, own[:2], own[:4], own[-2:], own[:8], own[:16], own):
        if not cand or len(cand) >= len(best):
            continue
        cand = cand + [dict(op="recheck")]
        obs, err = R.run(cand, tag="_cut")
        if err is None and any(x[0] == sig for x in R.judge(obs)):
            best = cand
            break
    return best


def scan_sites(R, st):
    """structural obligation behind the readings: every non-test, non-generated place of the repository that decodes (UnmarshalBinary,
    json.Unmarshal, and whatever hands a parameter on to them: UnmarshalTo, SendFor, TrySend, ...) decodes into a value allocated in that
    activation — the generated decoders append to lists and leave absent optionals alone, so only then is the result the value on the wire"""
    rc, out, log = vlib.run_harness(R.exe, "TestVerifC01Scan", "scan %s\n" % vlib.REPO, timeout=120, tag="_scan")
    sites = [l.split("\t") for l in out if l.startswith("site\t")]
    end = [l for l in out if l.startswith("end ")]
    if not end or any(len(x) != 7 for x in sites):
        st.scan = dict(status="failed", log=(out[-1:] or [log[-300:]])[0][:300])
        st.findings.append(("decode-site-scan", "the scan of the repository's decode sites failed: %s" % st.scan["log"], dict(kind="scan"), False))
        return
    verdicts = {}
    for x in sites:
        verdicts[x[5]] = verdicts.get(x[5], 0) + 1
    st.scan = dict(status="scanned", files=int(end[0].split(" ")[1]), sites=len(sites), verdicts=verdicts,
                   decode_functions=end[0].split(" ")[2].split(",") if len(end[0].split(" ")) > 2 else [],
                   rule="fresh = &T{..} / new(T) / T{..} / var x T / named result / field of such, allocated in this activation and inside the loop the "
                        "decode is in, decoded into once; passthrough = a parameter (callers are scanned); anything else is reported")
    st.repeated = [dict(site=x[1], function=x[2], callee=x[3], target=x[4], reason=x[6]) for x in sites if x[5] == "repeated"]
    st.scan["repeated_sites"] = st.repeated
    seen = set()
    for _, where, fn, callee, target, verdict, reason in sites:
        if verdict != "retained":
            continue
        sig = "decode-into-retained-value:%s:%s" % (where.split(":")[0], fn)
        if sig in seen:
            continue
        seen.add(sig)
        st.findings.append((sig, "%s (%s): %s decodes into `%s`, which is not a value allocated for this decode (%s) — the generated decoders append repeated "
                            "sub-parameters and keep whatever is absent on the wire, so the result is the value the bytes denote only for a fresh receiver, "
                            "and every earlier holder of that value sees it change" % (where, fn, callee, target, reason),
                            dict(kind="scan", site=where, function=fn, callee=callee, target=target, reason=reason), False))


class State:
    def __init__(self):
        self.t0 = time.time()
        self.error = None
        self.scan = {}
        self.repeated = []
        self.findings = []      # (sig, what, replay[, found])
        self.cov = {}
        self.seconds = 0.0


def background(st, tier, seed, replay):
    try:
        import codec_gen as G
        R = Runner()
        ok, ok_or = R.build()
        if not ok:
            st.error = ("driver-harness-build", "harness/driver/c01_test.go does not build against the repo: " + R.log[-1200:])
            return
        if not ok_or:
            st.error = ("driver-oracle", "no oracle: the driver-level readings cannot be compared with the model")
            return
        L = G.Layout()
        if replay:
            rp = json.load(open(replay))
            if rp.get("kind") != "driver-readings":
                st.cov = dict(status="not part of this replay")
                return
            steps = [dict(s, items=[(x[0], x[1]) for x in s["items"]]) if s["op"] == "read" else s for s in rp["script"]]
            scripts = [steps] * 3
        else:
            vals = pick_values(L, G, seed, tier)
            scripts = [make_script(vals, seed) + retry_steps(L, G, vals, seed, tier)]
        reads = reports = rechecked = compared = multi = 0
        seen = {}
        for n, steps in enumerate(scripts):
            obs, err = R.run(steps, tag="_%d" % n)
            if err:
                st.error = ("driver-harness-run", err)
                return
            reads += sum(len(s["items"]) for s in steps if s["op"] == "read")
            multi += sum(1 for s in steps if s["op"] == "read" and any(len(attempts_of(it)[1]) > 1 for it in s["items"]))
            reports += sum(1 for s in steps if s["op"] == "report")
            rechecked += sum(1 for o in obs if o["phase"] != "at-return")
            compared += len(obs)
            for sig, what, o in R.judge(obs):
                if sig not in seen:
                    seen[sig] = (what, o, steps)
        for sig, (what, o, steps) in list(seen.items())[:6]:
            small = steps
            if not replay:
                try:
                    small = cut_down(R, steps, sig, o)
                except Exception as e:      # best effort
                    what += " [script not cut down: %r]" % (e,)
            script = [dict(s, items=[list(x) for x in s["items"]]) if s["op"] == "read" else s for s in small]
            trees = list(dict.fromkeys(trees_of(small)))
            st.findings.append((sig, what + " [script of %d step(s), %d value(s); expected value %s]" % (
                len(small), len(trees), o["tree"] if len(o["tree"]) < 400 else o["tree"][:400] + "…"),
                dict(kind="driver-readings", resource=o["res"], script=script, expected_tree=o["tree"], cases=[dict(tree=t) for t in trees[:50]])))
        scan_sites(R, st)
        # a value may be decoded into at most once per allocation. Sites where a passed-in value is decoded into inside a loop / retry closure
        # (verdict `repeated`) cannot be settled syntactically: they are settled by the failure-first exchanges above. If this run did not see
        # the service ask more than once in any exchange, those sites are unexamined and are reported.
        asked_again = sum(cnt for (first, outcome, n), cnt in R.exchanges.items() if n is not None and n > 1)
        if st.repeated and not replay:
            st.scan["repeated_sites_exercised_by"] = "%d exchange(s) in which the service made more than one request" % asked_again
            if asked_again == 0:
                for r in st.repeated:
                    st.findings.append(("decode-repeated-into-one-value:%s:%s" % (r["site"].split(":")[0], r["function"]),
                                        "%s (%s): %s may decode into `%s` more than once (%s) and no scripted exchange of this run made the service ask "
                                        "twice, so nothing shows that a second decode never lands on the result of a first" % (
                                            r["site"], r["function"], r["callee"], r["target"], r["reason"]), dict(kind="scan", **r), False))
        ex = {}
        for (first, outcome, n), cnt in sorted(R.exchanges.items(), key=str):
            ex["first answer %s -> %s after %s request(s)" % ({"st": "a non-Success status", "E": "ERROR_MESSAGE", "X": "connection dropped",
                                                               "P": "truncated reply then dropped", "ok": "Success"}.get(first, first), outcome, n)] = cnt
        st.cov = dict(status="run", decode_sites=st.scan, read_commands=reads, failure_first_exchanges=multi, exchange_outcomes=ex, reports_sent=reports, readings_compared=compared, rechecked_after_later_messages=rechecked,
                      values=len(R.ref), signatures=len(seen),
                      note="real Driver/LLRPDevice/llrp.Client against a scripted Reader (harness/driver/c01_test.go); each reading's JSON text "
                           "(python json parser, canonical form) == Json.to_json of the value sent that time, its MarshalBinary == the bytes sent; "
                           "all earlier readings compared again after later reads/reports")
    except Exception as e:
        st.error = ("driver-check-error", "checks/c01_driver.py failed: %r" % (e,))
    finally:
        st.seconds = time.time() - st.t0


TRUSTED = [
    "driver-level readings (checks/c01_driver.py): the SDK's later serialisation of a reading is taken to be json.Marshal of CommandValue.Value "
    "(ValueType Object); the scripted Reader frames messages with its own code and answers with the reference encodings (extracted Coq encoder)",
]


def step(res, st):
    for a in TRUSTED:
        if a not in res.assumptions:
            res.assumptions.append(a)
    cov = dict(st.cov, seconds=round(st.seconds, 1))
    res.coverage["driver_readings"] = cov
    if st.error:
        cov["status"] = st.error[0]
        res.violation(st.error[0], st.error[1], dict(kind="driver-readings"), False)
        return
    for f in st.findings:
        res.violation(f[0], f[1], f[2], f[3] if len(f) > 3 else True)


@contextlib.contextmanager
def attached(pid, tier, seed, replay=None):
    st = State()
    th = threading.Thread(target=background, args=(st, tier, seed, replay), daemon=True)
    th.start()
    orig = vlib.Result

    class ResultWithDriverReadings(orig):
        def finish(self):
            th.join(900)
            if th.is_alive():
                st.error = ("driver-timeout", "the driver-level script did not finish within 900 s")
            try:
                step(self, st)
            except Exception as e:
                self.violation("driver-check-error", "checks/c01_driver.py failed: %r" % (e,), dict(kind="driver-readings"), False)
            return orig.finish(self)

    vlib.Result = ResultWithDriverReadings
    try:
        yield st
    finally:
        vlib.Result = orig
