"""C19 — message header codec and message-type tables are exact and consistent.
proof:  coq/Props/C19.v over coq/Header/{Header,HeaderProofs,TablesCheck}.v and coq/Base/Bits.v
way 1:  the message-type functions are dumped from the running Go code for all 1024 codes into
        build/gen/C19/MsgTables.v; the closed obligations `checker gen_tables = true` are compiled
        against the generic soundness theorems on every run
way 2:  Go Header.UnmarshalBinary/MarshalBinary/WriteTo, Client.readHeader/writeHeader vs the
        extracted model, exhaustively over the first two header bytes x boundary lengths x ids"""
import json, os, random, re
import vlib

PID = "C19"
LIMIT = 655360            # MaxBufferedPayloadSz (the "limit" of the property's quantifier)
M32 = 1 << 32
DEC_LENS = [0, 9, 10, 11, 10 + LIMIT, 10 + LIMIT + 1, 1 << 31, M32 - 1]
ENC_LENS = [0, 1, LIMIT, LIMIT + 1, 1 << 31, M32 - 11, M32 - 10, M32 - 1]
FIXED_IDS = [0, 1, 1 << 31, M32 - 1]

OBLIGATIONS = [
    # name, statement of the closed obligation, (derived theorem name, statement, proof term)*
    ("shape", "shape_b gen_tables = true", []),
    ("pairs_pinned", "gen_pairs = llrp_pairs", []),
    ("instance_type_agree", "instance_type_agree_b gen_tables = true",
     [("C19_run_instance_type_agree",
       "forall t n, t < 1024 -> inst_of gen_tables t = Some n -> n = t",
       "instance_type_agree_sound gen_tables gen_instance_type_agree_ok")]),
    ("mirror_symmetric", "mirror_symmetric_b gen_tables = true",
     [("C19_run_mirror_symmetric",
       "forall t u, t < 1024 -> mirror_of gen_tables t = Some u -> u < 1024 /\\ mirror_of gen_tables u = Some t",
       "mirror_symmetric_sound gen_tables gen_mirror_symmetric_ok"),
      ("C19_run_mirror_injective",
       "forall t t' u, t < 1024 -> t' < 1024 -> mirror_of gen_tables t = Some u -> mirror_of gen_tables t' = Some u -> t = t'",
       "mirror_injective_sound gen_tables gen_mirror_symmetric_ok")]),
    ("mirror_complete", "mirror_complete_b gen_tables llrp_pairs = true",
     [("C19_run_mirror_complete",
       "forall rq rs, In (rq, rs) llrp_pairs -> mirror_of gen_tables rq = Some rs /\\ mirror_of gen_tables rs = Some rq",
       "mirror_complete_sound gen_tables llrp_pairs gen_mirror_complete_ok")]),
    ("resp_consistent", "resp_consistent_b gen_tables = true",
     [("C19_run_response_classification",
       "forall t, t < 1024 -> resp_of gen_tables t = match mirror_of gen_tables t with Some u => [u] | None => [] end",
       "resp_consistent_sound gen_tables gen_resp_consistent_ok")]),
    ("valid_consistent", "valid_consistent_b gen_tables = true",
     [("C19_run_valid_consistent",
       "forall t, t < 1024 -> (valid_of gen_tables t = true <-> (1 <= t <= 1023 /\\ ~ (900 <= t <= 999))) "
       "/\\ (inst_of gen_tables t <> None -> valid_of gen_tables t = true) "
       "/\\ (mirror_of gen_tables t <> None -> valid_of gen_tables t = true)",
       "valid_consistent_sound gen_tables gen_valid_consistent_ok")]),
]


# ------------------------------------------------------------------ the property, evaluated on observed behaviour
def spec_decode(bs):
    """reference reading of a header by bit positions (bit 0 = MSB of byte 0); strings, no shifts"""
    if len(bs) < 10:
        return "E"
    bits = "".join(format(b, "08b") for b in bs)
    ver, typ, ln, mid = int(bits[3:6], 2), int(bits[6:16], 2), int(bits[16:48], 2), int(bits[48:80], 2)
    if ln < 10:
        return "E"
    return "%d.%d.%d.%d" % (ver, typ, ln - 10, mid)


def spec_encode(ver, typ, ln, mid):
    """what the property fixes about encoding; None where it says nothing (version > 7)"""
    if typ > 1023 or 900 <= typ <= 999 or ln + 10 >= M32:
        return "E"
    if ver > 7:
        return None
    bits = "000" + format(ver, "03b") + format(typ, "010b") + format(ln + 10, "032b") + format(mid, "032b")
    return "%020x" % int(bits, 2)


def csv(xs):
    return ",".join(str(x) for x in xs)


def dec_line(w, lens, ids):
    return "dec %d %s %s" % (w, csv(lens), csv(ids))


def enc_line(ver, typ, lens, ids):
    return "enc %d %d %s %s" % (ver, typ, csv(lens), csv(ids))


def be32(x):
    return [x >> 24 & 255, x >> 16 & 255, x >> 8 & 255, x & 255]


# fragmentation patterns: cut positions inside the 10 header bytes; two pieces (9), three pieces (36),
# and a few with more pieces (up to one byte per Read)
PATS2 = [str(i) for i in range(1, 10)]
PATS3 = ["%d+%d" % (i, j) for i in range(1, 10) for j in range(i + 1, 10)]
PATSN = ["1+2+3+4+5+6+7+8+9", "2+4+6+8", "1+9", "3+6+9", "1+2+3", "5+6+7+8+9"]
ALL_PATS = PATS2 + PATS3 + PATSN


def frg_line(w, lens, ids, pats):
    return "frg %d %s %s %s" % (w, csv(lens), csv(ids), ",".join(pats))


def gen_frag_requests(tier, seed):
    """every header of the dec sweep (same first-two-bytes x lengths x ids grid) delivered to
    readHeader in pieces.  Per first-two-bytes value a rotating selection of cut patterns (so that
    every pattern meets every region of the grid), and all patterns on a stride of the values."""
    rnd = random.Random(seed ^ 0xF4A6)
    thorough = tier == "thorough"
    n2, n3, stride = (5, 9, 8) if thorough else (3, 4, 32)
    reqs = []
    for w in range(1 << 16):
        ids = dedup(FIXED_IDS + [rnd.getrandbits(32)])
        if w % stride == 0:
            pats = ALL_PATS
        else:
            pats = [PATS2[(w + k * 3) % 9] for k in range(n2)] + [PATS3[(w * n3 + k) % 36] for k in range(n3)] \
                   + [PATSN[w % len(PATSN)]]
        reqs.append(frg_line(w, DEC_LENS, ids, dedup(pats)))
    # streams that are not exactly one header: too short (EOF inside the header), longer (only 10 consumed)
    good = [0x04, 0x3e, 0, 0, 0, 10, 1, 2, 3, 4]
    streams = [good[:n] for n in range(0, 10)] + [good + [rnd.getrandbits(8) for _ in range(k)] for k in (1, 2, 6, 10, 22)]
    streams += [[0xff, 0xff, 0, 0, 0, 9, 0, 0, 0, 0], [0xe4, 0x3e, 0x80, 0, 0, 10, 0xff, 0xfe, 0xfd, 0xfc]]
    streams += [[rnd.getrandbits(8) for _ in range(rnd.choice([10, 10, 10, 20, 13, 7]))] for _ in range(200 if thorough else 40)]
    for st in streams:
        reqs.append("rfg %s %s" % (bytes(st).hex() or "-", ",".join(ALL_PATS)))
    for st in streams[:60 if thorough else 24]:
        reqs.append("pip %s %s" % (bytes(st).hex() or "-", ",".join(ALL_PATS)))
    return reqs


def gen_batch_requests(tier, seed):
    """value semantics of the codec entry points: batches of calls whose results are kept (not
    copied) by the caller and compared only after the whole batch; sequential call-by-call (par 0),
    item-by-item (par 1) and from several goroutines (par >= 2); arguments compared before/after."""
    rnd = random.Random(seed ^ 0xBA7C)
    thorough = tier == "thorough"
    reqs = []

    def hdr():
        k = rnd.random()
        typ = rnd.randrange(1024) if k < 0.8 else rnd.choice([0, 1, 899, 900, 950, 999, 1000, 1023, 1024, 2047, 65535])
        ln = rnd.choice(ENC_LENS) if rnd.random() < 0.3 else rnd.getrandbits(rnd.choice([4, 16, 32]))
        return "%d:%d:%d:%d" % (rnd.randrange(8), typ, ln, rnd.choice(FIXED_IDS + [rnd.getrandbits(32)]))

    def buf():
        k = rnd.random()
        n = 10 if k < 0.75 else rnd.choice([0, 3, 9, 11, 16])
        b = [rnd.getrandbits(8) for _ in range(n)]
        if n >= 6 and rnd.random() < 0.8:
            b[2:6] = be32(rnd.choice(DEC_LENS + [10, 10, 20, 1000]))
        return bytes(b).hex() or "-"

    # small sequential batches first (a failure is then reported with a minimal witness):
    # all ordered pairs of a few distinct headers, then growing sizes
    base = ["1:62:0:1", "2:1023:655360:4294967295", "0:1:4294967285:2147483648", "7:899:1:0", "1:950:0:5"]
    for par in (0, 1):
        for a in base:
            for b in base:
                reqs.append("bat enc %d %s;%s" % (par, a, b))
    bb = ["043e0000000a00000001", "1bff000a000affffffff", "e4010000000980000000", "043e00", "ffff00000014000000050102"]
    for par in (0, 1):
        for a in bb:
            for b in bb:
                reqs.append("bat dec %d %s;%s" % (par, a, b))
    sizes = [3, 4, 8, 16, 64, 256] * (6 if thorough else 2)
    for n in sizes:
        for par in (0, 1):
            reqs.append("bat enc %d %s" % (par, ";".join(hdr() for _ in range(n))))
            reqs.append("bat dec %d %s" % (par, ";".join(buf() for _ in range(n))))
    for par in (2, 4, 8, 16):
        for _ in range(12 if thorough else 4):
            n = rnd.choice([64, 256, 1024])
            reqs.append("bat enc %d %s" % (par, ";".join(hdr() for _ in range(n))))
            reqs.append("bat dec %d %s" % (par, ";".join(buf() for _ in range(n))))
    return reqs


# ------------------------------------------------------------------ clients in every connection state
# (configuration, connection history): fresh; waiting for the first message; negotiation under way
# (GetSupportedVersion / SetProtocolVersion outstanding); negotiated 1.1 (set, or already in use);
# lowered to 1.0.1 (reader's maximum, by ErrorMessage, with and without SetProtocolVersion);
# configured 1.0.1 (no negotiation); after an exchange; a request outstanding; CloseConnection sent;
# Close called; read side ended (bad header, EOF, message after Close); with and without a timeout
NEG11 = "conn,first,gsv:1:2,spv"
STATES = [
    ("v2", "-"), ("v1", "-"), ("v2t", "-"),
    ("v2", "conn"), ("v1t", "conn"),
    ("v2", "conn,first"), ("v2t", "conn,first"),
    ("v2", "conn,first,gsv:1:2"), ("v2", "conn,first,gsv:2:1"),
    ("v2", NEG11), ("v2t", NEG11), ("v2", "conn,first,gsv:2:2"),
    ("v2", "conn,first,gsv:1:1"), ("v2", "conn,first,gsverr"), ("v2t", "conn,first,gsv:2:1,spv"),
    ("v1", "conn,first"), ("v1t", "conn,first,xchg"),
    ("v2", NEG11 + ",xchg"), ("v2", NEG11 + ",req"), ("v2", NEG11 + ",xchg,req,req"),
    ("v2", NEG11 + ",sentclose"), ("v2", "conn,first,gsv:1:1,req,sentclose"),
    ("v2", NEG11 + ",close"), ("v2t", "conn,first,gsv:1:1,close"), ("v1", "conn,first,close"), ("v2", "conn,close"),
    ("v2", NEG11 + ",req,close"), ("v2", NEG11 + ",sentclose,close"),
    ("v2", NEG11 + ",fail"), ("v2", NEG11 + ",eof"), ("v2", "conn,fail"), ("v1", "conn,first,eof"),
    ("v2", NEG11 + ",close,recv:043e0000000a00000007"),
]
FULL_SWEEP_STATES = 12      # of STATES' live ones: every first-two-bytes value, directly through readHeader


def wire(ver_bits6, typ, ln, mid, payload=b""):
    """ver_bits6 = the six high bits of byte 0 (3 reserved + 3 version)"""
    w = (ver_bits6 & 63) << 10 | (typ & 1023)
    return bytes([w >> 8, w & 255] + be32(ln) + be32(mid)) + payload


def state_headers(rnd, hist, n_types):
    """messages for the read side of a client in some state: all 8 values of the version bits (and the
    reserved bits) x a spread of types x payload sizes x ids, each complete; ids of types that can be
    replies stay clear of the ids the client has issued itself.  Then messages that end a connection."""
    types = [0, 1, 4, 11, 46, 47, 56, 57, 61, 62, 63, 72, 100, 899, 900, 999, 1000, 1023]
    pick = rnd.sample(types, n_types) + [rnd.randrange(1024) for _ in range(2)]
    out = []
    for ver in range(8):
        for k, typ in enumerate(pick):
            resv = rnd.choice([0, 0, 1, 4, 7])
            plen = rnd.choice([0, 0, 1, 4, 22, 300])
            if typ in (61, 62, 63):
                mid = rnd.choice([0, 1, 2, 1 << 31, M32 - 1, rnd.getrandbits(32)])
            else:
                mid = rnd.choice([1000 + rnd.getrandbits(20), 1 << 31, M32 - 1, 16 + rnd.getrandbits(31)])
            out.append(wire(resv << 3 | ver, typ, 10 + plen, mid, bytes(rnd.getrandbits(8) for _ in range(plen))))
    for ver in (0, 1, 2, 5):
        out.append(wire(ver, 63, rnd.choice([0, 9]), 5))                       # rejected
        out.append(wire(ver, 62, rnd.choice([M32 - 1, 10 + LIMIT + 1, 1 << 31]), 77))   # payload never completes
    return out


def gen_state_requests(tier, seed):
    rnd = random.Random(seed ^ 0x57A7E)
    thorough = tier == "thorough"
    states = list(STATES)
    # histories in which messages with foreign version bits were already read, and random tails
    for _ in range(8 if thorough else 4):
        tail = []
        for _ in range(rnd.randrange(1, 5)):
            k = rnd.random()
            if k < 0.5:
                tail.append("recv:" + wire(rnd.randrange(64), rnd.choice([61, 62, 63, 100, rnd.randrange(1024)]), 10 + 3,
                                           1000 + rnd.getrandbits(24), b"\x01\x02\x03").hex())
            else:
                tail.append(rnd.choice(["xchg", "req"]))
        end = rnd.choice([[], [], ["sentclose"], ["close"], ["req", "close"]])
        pre = rnd.choice([NEG11, "conn,first,gsv:1:1", "conn,first,gsv:2:2", "conn,first,gsverr", "conn,first,gsv:2:1,spv"])
        states.append((rnd.choice(["v2", "v2t"]), ",".join([pre] + tail + end)))
    states.append(("v1", ",".join(["conn,first"] + ["recv:" + wire(v, 62, 10, 50 + v).hex() for v in range(8)] + ["close"])))
    reqs = []
    live_seen = 0
    for k, (cfg, hist) in enumerate(states):
        reading = hist != "-" and not any(e in hist for e in ("fail", "eof")) and "close,recv" not in hist
        hdrs = state_headers(rnd, hist, 10 if thorough else 6) if reading else \
            [wire(v, 62, 10, 3) for v in (1, 2, 7)]
        for i in range(0, len(hdrs), 24):
            reqs.append("stl %s %s %s" % (cfg, hist, ";".join(h.hex() for h in hdrs[i:i + 24])))
        # readHeader called directly on that client: all 65536 first-two-bytes values on the main
        # states (one boundary length + one id per block of values, rotating), a stride on the others
        full = thorough or (reading and live_seen < FULL_SWEEP_STATES) or k < 3
        live_seen += reading
        block = 1024
        for b, lo in enumerate(range(0, 1 << 16, block)):
            if not full and b % 8 != k % 8:
                continue
            lens = dedup([10, DEC_LENS[(b + k) % len(DEC_LENS)]])
            ids = [(FIXED_IDS + [rnd.getrandbits(32)])[(b + 2 * k) % 5]]
            reqs.append("std %s %s 1 %d %d %s %s" % (cfg, hist, lo, lo + block - 1, csv(lens), csv(ids)))
        # writeHeader called directly on that client: all 8 versions x all 1024 types
        for ver in range(8):
            if not full and ver % 4 != k % 4:
                continue
            reqs.append("stw %s %s %d 0 1023 %d %d" % (cfg, hist, ver, ENC_LENS[(ver + k) % 4], (FIXED_IDS + [rnd.getrandbits(32)])[(ver + k) % 5]))
        # a connection that refuses read deadlines matters to clients with a timeout only
        lo = rnd.randrange(0, (1 << 16) - 64)
        reqs.append("std %s %s 0 %d %d %s %s" % (cfg, hist, lo, lo + 63, csv([10, 9]), csv([rnd.getrandbits(32)])))
    return reqs, len(states)


# ------------------------------------------------------------------ send paths and failing connections
SEND_APIS = [("new", 0), ("new", 2), ("hdr", 0), ("byt", 0), ("byt", 3), ("msg", 0), ("msg", 3), ("for", 0), ("for", 5)]
API_NAME = {"new": "newMessage(..) handed to SendNoWait", "hdr": "NewHdrOnlyMsg(typ) handed to SendNoWait",
            "byt": "NewByteMessage(typ, payload) handed to SendNoWait", "msg": "Client.SendMessage(ctx, typ, data)",
            "for": "Client.SendFor(ctx, out, in) with out.Type() = typ"}


def type_spec(ts):
    """ascending type codes as 'a-b,c,..'"""
    out, i = [], 0
    while i < len(ts):
        j = i
        while j + 1 < len(ts) and ts[j + 1] == ts[j] + 1:
            j += 1
        out.append(str(ts[i]) if i == j else "%d-%d" % (ts[i], ts[j]))
        i = j + 1
    return ",".join(out)


def parse_types(spec):
    out = []
    for part in spec.split(","):
        a, _, b = part.partition("-")
        out += range(int(a), int(b or a) + 1)
    return out


def snd_lines(cfg, hist, api, plen, types, chunk=8192):
    """one client per line; CloseConnection (14) stops the write loop, so it ends its line"""
    lines, cur = [], []
    for t in types:
        cur.append(t)
        if t == 14 or len(cur) >= chunk:
            lines.append("snd %s %s %s %d %s" % (cfg, hist, api, plen, type_spec(cur)))
            cur = []
    if cur:
        lines.append("snd %s %s %s %d %s" % (cfg, hist, api, plen, type_spec(cur)))
    return lines


def gen_send_requests(tier, seed):
    """(1) every way a caller can put a message type on the connection x all 65536 values of the type
    (one state completely, a dense sample with all boundaries on the others);
    (2) connections whose Write fails inside the header: bytes taken 0..10 x error kind x later
    writes accepted/failing x with and without a client timeout, writeHeader directly and through
    the write loop"""
    rnd = random.Random(seed ^ 0x5E2D)
    thorough = tier == "thorough"
    reqs = []
    sample = set(range(0, 1101)) | {65535, 65534, 32768, 0x0C01}
    for k in range(10, 16):
        sample |= {(1 << k) - 1, 1 << k, (1 << k) + 1, (1 << k) + 62, (1 << k) + 950, (1 << k) + 1023}
    for j in range(1, 64):
        sample |= {1024 * j + rnd.randrange(1024)}
    sample |= {rnd.randrange(65536) for _ in range(300)}
    sample = sorted(sample)
    states = [("v2", NEG11), ("v1", "conn,first"), ("v2t", "conn,first,gsv:1:1"), ("v2", "conn,first,gsv:2:2,xchg,req")]
    for k, (cfg, hist) in enumerate(states):
        for api, plen in SEND_APIS:
            types = list(range(65536)) if k == 0 or thorough else sample
            reqs += snd_lines(cfg, hist, api, plen, types)
    # a closed client takes nothing
    reqs += snd_lines("v2", NEG11 + ",close", "msg", 0, [1, 62, 950, 2000])
    hdrs = ["1:62:0:7", "2:1023:5:4294967295", "0:1:655360:2147483648", "7:899:1:0", "2:46:4294967285:%d" % rnd.getrandbits(32),
            "%d:%d:%d:%d" % (rnd.randrange(8), rnd.randrange(900), rnd.getrandbits(16), rnd.getrandbits(32))]
    msgs = ["0:72:0:0", "0:1:3:0", "0:%d:%d:0" % (rnd.randrange(1, 900), rnd.randrange(0, 9))]
    fstates = [("v2t", NEG11), ("v2", NEG11), ("v1t", "conn,first"), ("v2t", "conn,first,gsv:1:1,xchg"), ("v2t", "-"), ("v1", "-")]
    for cfg, hist in fstates:
        for k in ["-"] + list(range(11)):
            for kind in ("t", "n", "o", "p"):
                for then in ("a", "f"):
                    if k == "-" and (kind, then) != ("t", "a"):
                        continue
                    reqs.append("wfl %s %s d %s %s %s %s" % (cfg, hist, k, kind, then, ";".join(hdrs)))
                    if hist != "-" and (thorough or then == "a" or kind in ("t", "o")):
                        reqs.append("wfl %s %s q %s %s %s %s" % (cfg, hist, k, kind, then, ";".join(msgs if thorough else msgs[:2])))
    return reqs


# ------------------------------------------------------------------ streams delivered with pauses (read side)
CONN_EVENT = bytes.fromhex("00f600160080000c0000000000000001010000060000")


def gen_paused_requests(tier, seed):
    """the read-side dual of the failing writes: the peer sends whole frames back to back, but the
    connection delivers them in pieces and between two pieces a Read fails with a deadline error
    (the bytes came later than the client's read deadline allows).  Pause after k = 0..10 bytes of a
    header (first message of a connection and later ones, in each connection state), inside a
    payload, two pauses, pauses in a later frame."""
    rnd = random.Random(seed ^ 0x9A05E)
    thorough = tier == "thorough"
    states = [("v2t", "conn"), ("v1t", "conn"), ("v2", "conn"), ("v2t", "conn,first"), ("v2t", NEG11), ("v2", NEG11),
              ("v2t", "conn,first,gsv:1:1"), ("v1t", "conn,first,xchg"), ("v2t", NEG11 + ",req"),
              ("v2t", NEG11 + ",sentclose"), ("v2t", NEG11 + ",close"), ("v2t", "conn,close"), ("v2t", "-"), ("v2t", NEG11 + ",eof")]
    reqs = []
    for cfg, hist in states:
        for rep in range(3 if thorough else 1):
            def frame():
                plen = rnd.choice([0, 0, 2, 7, 30])
                return wire(rnd.randrange(64), rnd.choice([61, 62, 63, 100, 1023, rnd.randrange(1024)]), 10 + plen,
                            1000 + rnd.getrandbits(24), bytes(rnd.getrandbits(8) for _ in range(plen)))
            first = wire(rnd.choice([1, 1, 2, rnd.randrange(64)]), 63, 10 + len(CONN_EVENT), rnd.choice([1, 1234, rnd.getrandbits(32)]), CONN_EVENT) \
                if hist.split(",")[-1] in ("conn", "close") and "first" not in hist else frame()
            frames = [first, frame(), frame()]
            stream = b"".join(frames)
            starts = [0, len(frames[0]), len(frames[0]) + len(frames[1])]
            cuts = [[]]
            for fi in (0, 1):
                for k in range(11):
                    cuts.append([starts[fi] + k])
                cuts.append([starts[fi] + 10 + (len(frames[fi]) - 10) // 2] if len(frames[fi]) > 11 else [starts[fi] + 9])
                for _ in range(4):
                    a, b = sorted(rnd.sample(range(0, 11), 2))
                    cuts.append([starts[fi] + a, starts[fi] + b])
            cuts += [[3, 3], [rnd.randrange(1, 10), starts[2] + rnd.randrange(0, 10)], [starts[2] + 5], [1, 2, 3]]
            for n, cut in enumerate(cuts):
                pos = [0] + cut + [len(stream)]
                pieces = "/".join(stream[a:b].hex() for a, b in zip(pos, pos[1:]))
                reqs.append("rpz %s %s %s %s" % (cfg, hist, "tn"[n % 2], pieces))
    return reqs


# ------------------------------------------------------------------ writers shared between goroutines
def gen_shared_writer_requests(tier, seed):
    """N goroutines x many messages of distinct (type, length, id, payload byte) through ONE writer:
    msgWriter.Write (via w) and one connected Client's SendNoWait/write loop (via c)"""
    rnd = random.Random(seed ^ 0x3A12ED)
    thorough = tier == "thorough"
    reqs = []
    for via in ("w", "c"):
        for par in (1, 2, 4, 8, 16):
            for rep in range(6 if thorough else 3):
                n = rnd.choice([16, 64, 256]) if par > 1 else 8
                items, mid = [], rnd.randrange(1, 1000)
                for _ in range(n):
                    typ = rnd.randrange(1, 900) if rnd.random() < 0.9 else rnd.choice([0, 950, 1000, 1023, 1024, 2000])
                    if via == "c" and typ in (14, 46, 47):
                        typ = 62
                    items.append("%d:%d:%d:%d" % (typ, rnd.choice([0, 0, 1, 3, 8, 40, 200]), mid, rnd.randrange(256)))
                    mid += rnd.randrange(1, 70000)
                reqs.append("mwr %s %d %d %s" % (via, par, rnd.choice([1, 2]) if via == "c" else rnd.randrange(8), ";".join(items)))
    return reqs


def gen_requests(tier, seed):
    rnd = random.Random(seed)
    thorough = tier == "thorough"
    reqs = []
    nid = 12 if thorough else 1
    for w in range(1 << 16):
        ids = FIXED_IDS + [rnd.getrandbits(32) for _ in range(nid)]
        lens = list(DEC_LENS)
        if thorough:
            lens += [rnd.getrandbits(32) for _ in range(4)] + [rnd.randrange(0, 32)]
        reqs.append(dec_line(w, dedup(lens), dedup(ids)))
    # buffers that are not exactly 10 bytes long (UnmarshalBinary: len(buf) < HeaderSz; readHeader: short read)
    good = [0x04, 0x3e, 0, 0, 0, 10, 1, 2, 3, 4]
    reqs.append("raw -")
    for n in range(1, 10):
        reqs.append("raw " + bytes(good[:n]).hex())
    for extra in (1, 2, 6, 22):
        reqs.append("raw " + bytes(good + [rnd.getrandbits(8) for _ in range(extra)]).hex())
        reqs.append("raw " + bytes([0xff, 0xff, 0, 0, 0, 9, 0, 0, 0, 0] + [0xAA] * extra).hex())
    for _ in range(2000 if thorough else 200):
        n = rnd.choice([10, 10, 10, 11, 12, 16, 9, 5])
        reqs.append("raw " + bytes(rnd.getrandbits(8) for _ in range(n)).hex())
    # encoder: all 8 versions x all 1024 types (= every first-two-bytes value with reserved bits 0),
    # out-of-range types, versions that do not fit 3 bits
    types = list(range(1024)) + [1024, 1025, 2047, 2048, 4095, 32768, 65535 - 1023, 65535]
    for ver in list(range(8)) + [8, 9, 15, 63, 64, 128, 255]:
        tl = types if ver < 8 or thorough else [0, 1, 62, 899, 900, 999, 1000, 1023, 1024, 65535]
        for typ in tl:
            ids = FIXED_IDS + [rnd.getrandbits(32) for _ in range(4 if thorough else 1)]
            lens = list(ENC_LENS)
            if thorough:
                lens += [rnd.getrandbits(32) for _ in range(3)]
            reqs.append(enc_line(ver, typ, dedup(lens), dedup(ids)))
    return reqs


def dedup(xs):
    out = []
    for x in xs:
        if x not in out:
            out.append(x)
    return out


def expand(req):
    """the individual cases of a request line, as dicts, in answer order"""
    f = req.split()
    if f[0] == "dec":
        w = int(f[1])
        return [dict(kind="dec", bytes=[w >> 8, w & 255] + be32(l) + be32(i))
                for l in map(int, f[2].split(",")) for i in map(int, f[3].split(","))]
    if f[0] == "raw":
        return [dict(kind="dec", bytes=list(bytes.fromhex("" if f[1] == "-" else f[1])))]
    if f[0] == "bat" and f[1] == "enc":
        out = []
        for k, it in enumerate(f[3].split(";")):
            v, t, l, i = map(int, it.split(":"))
            out.append(dict(kind="enc", ver=v, typ=t, len=l, id=i, batch=req, index=k))
        return out
    if f[0] == "bat":
        return [dict(kind="dec", bytes=list(bytes.fromhex("" if h == "-" else h)), batch=req, index=k)
                for k, h in enumerate(f[3].split(";"))]
    if f[0] == "frg":
        w = int(f[1])
        return [dict(kind="rfg", via="rfg", bytes=[w >> 8, w & 255] + be32(l) + be32(i), pats=f[4].split(","), consumed=False)
                for l in map(int, f[2].split(",")) for i in map(int, f[3].split(","))]
    if f[0] in ("rfg", "pip"):
        return [dict(kind="rfg", via=f[0], bytes=list(bytes.fromhex("" if f[1] == "-" else f[1])), pats=f[2].split(","),
                     consumed=f[0] == "rfg")]
    if f[0] == "stl":
        return [dict(kind="sth", cfg=f[1], hist=f[2], request=req)] + \
               [dict(kind="stl", cfg=f[1], hist=f[2], bytes=list(bytes.fromhex(h))) for h in f[3].split(";")]
    if f[0] == "mwr":
        return [dict(kind="mwr", request=req)]
    if f[0] == "rpz":
        return [dict(kind="rpz", cfg=f[1], hist=f[2], errkind=f[3], pieces=f[4])]
    if f[0] == "snd":
        return [dict(kind="snd", cfg=f[1], hist=f[2], api=f[3], plen=int(f[4]), typ=t) for t in parse_types(f[5])]
    if f[0] == "wfl":
        out = []
        for it in f[7].split(";"):
            v, t, l, i = map(int, it.split(":"))
            out.append(dict(kind="wfl", cfg=f[1], hist=f[2], via=f[3], k=f[4], errkind=f[5], then=f[6], ver=v, typ=t, len=l, id=i))
        return out
    if f[0] == "stw":
        return [dict(kind="stw", cfg=f[1], hist=f[2], ver=int(f[3]), typ=t, len=l, id=i)
                for t in range(int(f[4]), int(f[5]) + 1) for l in map(int, f[6].split(",")) for i in map(int, f[7].split(","))]
    if f[0] == "std":
        return [dict(kind="stv", cfg=f[1], hist=f[2], request=req)] + \
               [dict(kind="std", cfg=f[1], hist=f[2], dl=int(f[3]), bytes=[w >> 8, w & 255] + be32(l) + be32(i))
                for w in range(int(f[4]), int(f[5]) + 1) for l in map(int, f[6].split(",")) for i in map(int, f[7].split(","))]
    if f[0] == "enc":
        return [dict(kind="enc", ver=int(f[1]), typ=int(f[2]), len=l, id=i)
                for l in map(int, f[3].split(",")) for i in map(int, f[4].split(","))]
    return []


def single_request(case):
    if case.get("batch"):
        return case["batch"]
    if case["kind"] in ("sth", "stv", "mwr"):
        return case["request"]
    if case["kind"] == "stl":
        return "stl %s %s %s" % (case["cfg"], case["hist"], bytes(case["bytes"]).hex())
    if case["kind"] == "rpz":
        return "rpz %s %s %s %s" % (case["cfg"], case["hist"], case["errkind"], case["pieces"])
    if case["kind"] == "snd":
        return "snd %s %s %s %d %d" % (case["cfg"], case["hist"], case["api"], case["plen"], case["typ"])
    if case["kind"] == "wfl":
        return "wfl %s %s %s %s %s %s %d:%d:%d:%d" % (case["cfg"], case["hist"], case["via"], case["k"], case["errkind"], case["then"],
                                                      case["ver"], case["typ"], case["len"], case["id"])
    if case["kind"] == "stw":
        return "stw %s %s %d %d %d %d %d" % (case["cfg"], case["hist"], case["ver"], case["typ"], case["typ"], case["len"], case["id"])
    if case["kind"] == "std":
        bs = case["bytes"]
        return "std %s %s %d %d %d %d %d" % (case["cfg"], case["hist"], case["dl"], bs[0] << 8 | bs[1], bs[0] << 8 | bs[1],
                                             int.from_bytes(bytes(bs[2:6]), "big"), int.from_bytes(bytes(bs[6:10]), "big"))
    if case["kind"] == "rfg":
        return "%s %s %s" % (case["via"], bytes(case["bytes"]).hex() or "-", ",".join(case["pats"]))
    if case["kind"] == "dec":
        return "raw " + (bytes(case["bytes"]).hex() or "-")
    return enc_line(case["ver"], case["typ"], [case["len"]], [case["id"]])


def judge_case(case, g, o):
    """batch members: the kept result of call number [index] of the batch is judged like a single
    call (the property does not depend on what else was encoded or decoded meanwhile)"""
    if case["kind"] in ("sth", "stv", "stl", "std", "stw"):
        return judge_state(case, g, o)
    if case["kind"] == "snd":
        return judge_send(case, g, o)
    if case["kind"] == "rpz":
        return judge_paused(case, g, o)
    if case["kind"] == "mwr":
        return judge_shared_writer(case, g, o)
    if case["kind"] == "wfl":
        return judge_write_fault(case, g, o)
    if not case.get("batch"):
        return judge_single(case, g, o)
    f = case["batch"].split(" ", 3)
    n, par = f[3].count(";") + 1, int(f[2])
    how = {0: "sequentially, call by call", 1: "sequentially, item by item"}.get(par, "from %d goroutines" % par)
    ctx = "item %d of a batch of %d %s calls made %s, results kept by the caller and read after the batch: " % (
        case["index"], n, "encode" if f[1] == "enc" else "decode", how)
    if g.endswith("!in"):
        return ("argument-mutated:" + ("encode" if f[1] == "enc" else "decode"),
                ctx + "the %s passed in was changed by the call (%s)" % ("Header" if f[1] == "enc" else "buffer", g), True)
    single = dict((k, v) for k, v in case.items() if k not in ("batch", "index"))
    sig, what, found = judge_single(single, g, o)
    if found:
        sig = "retained-result:" + sig
    return (sig, ctx + what, found)


def describe_state(cfg, hist):
    return "a Client (LLRP version %s%s) after the connection history [%s]" % (
        {"1": "1.0.1", "2": "1.1"}.get(cfg[1], cfg[1]), ", with a timeout" if cfg.endswith("t") else "",
        "none: never connected" if hist == "-" else hist)


def judge_decoded(where, got, bs, ctx):
    """one header decoded by a client in some state (got = 'v.t.l.i' or 'E'/'T') against the bit-level
    reading of its bytes; None if it is what the property says"""
    want = spec_decode(bs[:10])
    if got == want:
        return None
    hexs = bytes(bs[:10]).hex() + ("+%d payload bytes" % (len(bs) - 10) if len(bs) > 10 else "")
    if got == "T":
        return ("state-dependent-decode:no-answer:" + where, "%s: %s given %s neither reports a header nor gives up" % (ctx, where, hexs), True)
    if want == "E":
        return ("state-dependent-decode:accepts-bad:" + where, "%s: %s accepts header %s (declared length below 10): %s" % (ctx, where, hexs, got), True)
    if got == "E" or got.count(".") != 3:
        return ("state-dependent-decode:rejects-good:" + where,
                "%s: %s rejects header %s; its bytes read %s (bits 3-5 / low 10 bits / be32-10 / be32), which is what a Client without this history decodes" % (
                    ctx, where, hexs, want), True)
    fields = ["version", "type", "length", "id"]
    diff = [fields[k] for k, (a, b) in enumerate(zip(got.split("."), want.split("."))) if a != b]
    return ("state-dependent-decode:wrong:%s:%s" % (where, "+".join(diff)), "%s: %s decodes %s to %s, the bytes say %s" % (ctx, where, hexs, got, want), True)


def judge_state(case, g, o):
    """a client driven into a connection state: the header it decodes must be the bit-level reading of
    the 10 bytes whatever the state; the state itself (version held, closed, reading or not) is
    only compared with the model"""
    ctx = describe_state(case["cfg"], case["hist"])
    if case["kind"] == "sth":
        # headers the read side reported for the recv events of the history
        sent = [bytes.fromhex(e[5:]) for e in case["hist"].split(",") if e.startswith("recv:")]
        got = g[2:].split(",") if len(g) > 2 else []
        for bs, tok in zip(sent, got):
            tok = tok.replace("!nh", "")
            tok, _, handler = tok.partition("!h=")
            v = judge_decoded("read-side", tok, list(bs), ctx + ", reading the history's message " + bs.hex())
            if v:
                return v
            if handler:
                return ("state-dependent-decode:handler-header-differs", "%s: the read side reports header %s for %s but offers its handler %s" % (
                    ctx, tok, bs.hex(), handler), True)
        return ("model-mismatch:client-state", "%s: the read side reported %r for the history's messages, the model %r "
                "(each reported header is the bit-level reading of its bytes)" % (ctx, g, o), False)
    if case["kind"] == "stv":
        return ("model-mismatch:client-state", "%s holds version/closed %s, the model of the history says %s" % (ctx, g, o), False)
    bs = case.get("bytes")
    if case["kind"] == "stl":
        if g == "-" or o == "-":
            return ("model-mismatch:client-state", "%s: %s; the model says %s" % (
                ctx, "nothing reads the connection" if g == "-" else "the read side answers " + g, "the same" if g == o else o), False)
        not_offered = g.endswith("!nh")
        tok, _, handler = g.replace("!nh", "").partition("!h=")
        dec, _, ver = tok.partition("@")
        v = judge_decoded("read-side", dec, bs, ctx)
        if v:
            return v
        if handler:
            return ("state-dependent-decode:handler-header-differs", "%s: the read side reports header %s for %s but offers its handler %s" % (
                ctx, dec, bytes(bs[:10]).hex(), handler), True)
        if not_offered != o.endswith("!nh"):
            return ("model-mismatch:message-not-offered", "%s decodes %s as the bytes say (%s) and then %s (model: %s)" % (
                ctx, bytes(bs[:10]).hex(), dec, "gives the message to no handler although one is registered for every type" if not_offered
                else "offers it to a handler", o), False)
        return ("model-mismatch:client-state", "%s decodes %s as the bytes say (%s) while holding version %s; the model says %s" % (
            ctx, bytes(bs[:10]).hex(), dec, ver or "?", o), False)
    if case["kind"] == "stw":
        # writeHeader does not validate; where the encoder would accept the header the bytes are fixed
        want = spec_encode(case["ver"], case["typ"], case["len"], case["id"])
        desc = "Header{version:%d typ:%d payloadLen:%d id:%d}" % (case["ver"], case["typ"], case["len"], case["id"])
        if want not in (None, "E") and g != want:
            back = spec_decode(list(bytes.fromhex(g))) if re.fullmatch(r"[0-9a-f]{20}", g) else "unreadable"
            return ("state-dependent-encode:writeHeader", "%s: writeHeader(%s) writes %s, which reads back as %s; a Client in any other state writes %s" % (
                ctx, desc, g, back, want), True)
        return ("model-mismatch:client-state", "%s: writeHeader(%s) writes %s, the model %s (the property does not fix these bytes)" % (ctx, desc, g, o), False)
    # std: readHeader called directly
    if case["dl"] == 0 and case["cfg"].endswith("t"):
        if g == "E":
            return ("model-mismatch:client-state", "%s: readHeader over a connection that refuses deadlines fails, model says %s" % (ctx, o), False)
        return ("model-mismatch:deadline", "%s: readHeader returns %s although the connection refused the read deadline (model: %s)" % (ctx, g, o), False)
    v = judge_decoded("readHeader", g, bs, ctx + (" (connection refuses read deadlines, no timeout configured)" if case["dl"] == 0 else ""))
    if v:
        return v
    return ("model-mismatch:client-state", "%s: readHeader(%s) = %s as the bytes say, the model says %s" % (ctx, bytes(bs).hex(), g, o), False)


def judge_send(case, g, o):
    """a message type put on the connection through a constructor / send API: reserved and
    out-of-range types must be refused; what is accepted must reach the peer as a header that reads
    back as exactly that type and length"""
    typ, plen, api = case["typ"], case["plen"], case["api"]
    ctx = "%s: %s with type %d and %d payload bytes" % (describe_state(case["cfg"], case["hist"]), API_NAME[api], typ, plen)
    valid = typ <= 1023 and not 900 <= typ <= 999
    if g == "T":
        return ("model-mismatch:send-stuck", ctx + ": nothing takes messages any more (model: %s)" % o, False)
    if g.startswith("R"):
        if g.startswith("R+"):
            return ("send-refused-but-written:" + api, ctx + " is refused, yet the peer received " + g[2:], True)
        if valid and o != "R":
            return ("send-refuses-valid:" + api, ctx + " is refused although the type is a valid one and the client takes messages (model sends %s)" % o, True)
        return ("model-mismatch:send", ctx + " is refused; the model says " + o, False)
    if not re.fullmatch(r"(?:[0-9a-f]{2})+", g):
        return ("harness-format", "unexpected harness answer %r" % g, False)
    wire = list(bytes.fromhex(g))
    back = spec_decode(wire[:10])
    if not valid:
        return ("send-accepts-refusable:" + api,
                "%s is accepted and written as %s, which the peer reads as %s (version.type.length.id); %s types must be refused" % (
                    ctx, g[:20], back, "reserved (900-999)" if typ <= 1023 else "out-of-range (> 1023)"), True)
    fields = back.split(".")
    if len(wire) != 10 + plen or back == "E" or int(fields[1]) != typ or int(fields[2]) != plen or any(wire[10:]):
        return ("send-wrong:" + api, "%s puts %s on the connection, which reads back as %s + %d payload bytes" % (ctx, g, back, max(0, len(wire) - 10)), True)
    return ("model-mismatch:send", "%s goes out as %s (type and length as requested); the model says %s" % (ctx, g, o), False)


def judge_write_fault(case, g, o):
    """a connection whose Write takes k bytes of the header and fails: whatever is reported, the peer
    must have received a prefix of the header's encoding, and all of it (plus the payload) whenever
    success is reported"""
    via = "writeHeader" if case["via"] == "d" else "write-loop"
    fault = "no fault" if case["k"] == "-" else "the first Write takes %s byte(s) and returns %s; later Writes %s" % (
        case["k"], {"t": "os.ErrDeadlineExceeded", "n": "a net.OpError wrapping a deadline error", "o": "io.ErrClosedPipe",
                    "p": "a net.OpError 'broken pipe'"}[case["errkind"]], "are accepted" if case["then"] == "a" else "fail too")
    if case["via"] == "d":
        what = "writeHeader(Header{version:%d typ:%d payloadLen:%d id:%d})" % (case["ver"], case["typ"], case["len"], case["id"])
    else:
        what = "a message of type %d with %d payload bytes sent through SendNoWait and the write loop" % (case["typ"], case["len"])
    ctx = "%s, connection: %s: %s" % (describe_state(case["cfg"], case["hist"]), fault, what)
    if g == "R" or ":" not in g:
        return ("model-mismatch:write-fault", "%s answers %s; the model says %s" % (ctx, g, o), False)
    rep, _, hx = g.partition(":")
    got = list(bytes.fromhex(hx))
    if case["via"] == "d":
        enc = spec_encode(case["ver"], case["typ"], case["len"], case["id"])
        if enc in (None, "E"):
            return ("model-mismatch:write-fault", "%s answers %s; the model says %s (header outside what the encoder accepts)" % (ctx, g, o), False)
        want = list(bytes.fromhex(enc))
        if got != want[:len(got)]:
            return ("write-fault:not-a-prefix:" + via, "%s %s and the peer has received %s, which is not a prefix of the header's encoding %s%s" % (
                ctx, "reports success" if rep == "ok" else "reports an error", hx or "(nothing)", enc,
                "; its first 10 bytes read as " + spec_decode(got[:10]) if len(got) >= 10 else ""), True)
        if rep == "ok" and got != want:
            return ("write-fault:success-without-header:" + via, "%s reports success but the peer has received only %s of %s" % (ctx, hx or "(nothing)", enc), True)
        return ("model-mismatch:write-fault", "%s: %s, peer received %s (a prefix of the encoding); the model says %s" % (ctx, rep, hx, o), False)
    # through the write loop: version bits and id are the client's business (compared with the model);
    # type, length field and payload are fixed by the request
    ln = case["len"]
    bad = len(got) > 10 + ln
    if len(got) >= 2 and ((got[0] << 8 | got[1]) & 1023 != case["typ"] or got[0] >> 5):
        bad = True
    if got[2:6] != be32(10 + ln)[:max(0, min(4, len(got) - 2))]:
        bad = True
    if any(got[10:]):
        bad = True
    if bad:
        return ("write-fault:not-a-prefix:" + via, "%s: the peer has received %s, which is not a prefix of one header of type %d with length field %d followed by %d zero bytes%s (%s)" % (
            ctx, hx or "(nothing)", case["typ"], 10 + ln, ln, "; its first 10 bytes read as " + spec_decode(got[:10]) if len(got) >= 10 else "",
            "the write loop carried on" if rep == "ok" else "the write loop ended"), True)
    if rep == "ok" and len(got) != 10 + ln:
        return ("write-fault:success-without-header:" + via, "%s: the write loop carried on although the peer has received only %s" % (ctx, hx or "(nothing)"), True)
    return ("model-mismatch:write-fault", "%s: %s, peer received %s (consistent with the request); the model says %s" % (ctx, rep, hx, o), False)


def judge_paused(case, g, o):
    """a stream delivered with pauses longer than the read deadline: whatever the client does, every
    header it reports must be the reading of 10 consecutive bytes that start a frame of what the peer
    sent - in order, i.e. an initial part of the frame headers"""
    pieces = [bytes.fromhex(h) for h in case["pieces"].split("/")]
    stream = b"".join(pieces)
    frames, pos = [], 0          # (offset, bit-level reading) of every frame header of the stream
    while pos + 10 <= len(stream):
        d = spec_decode(list(stream[pos:pos + 10]))
        if d == "E":
            break
        frames.append((pos, d))
        pos += 10 + int(d.split(".")[2])
    cuts, acc = [], 0
    for pc in pieces[:-1]:
        acc += len(pc)
        cuts.append(acc)
    ctx = "%s; the peer sends %s (frame headers at offsets %s: %s) and the connection delivers it with a read-deadline error (%s) after byte(s) %s" % (
        describe_state(case["cfg"], case["hist"]), stream.hex(), [p for p, _ in frames], [d for _, d in frames],
        "os.ErrDeadlineExceeded" if case["errkind"] == "t" else "net.OpError wrapping it", cuts or "none")
    tok, _, offered = g.partition("!o=")
    got = [] if tok == "-" else tok.split(",")
    want = [d for _, d in frames]
    if got != want[:len(got)]:
        k = next(i for i, x in enumerate(got) if i >= len(want) or x != want[i])
        where = [p for p in range(len(stream) - 9) if spec_decode(list(stream[p:p + 10])) == got[k]]
        return ("paused-read:header-not-at-frame-boundary", "%s: the read side reports header #%d = %s, which is %s; the header of frame #%d is %s" % (
            ctx, k, got[k], "the reading of bytes %d..%d of the stream, not the start of a frame" % (where[0], where[0] + 9) if where
            else "not the reading of any 10 bytes at a frame boundary", k, want[k] if k < len(want) else "(no such frame)"), True)
    if offered:
        return ("paused-read:handler-header-differs", "%s: reported %s but the handlers were offered %s" % (ctx, tok, offered), True)
    return ("model-mismatch:paused-read", "%s: the read side reports %s (an initial part of the frame headers); the model says %s" % (ctx, g, o), False)


def judge_shared_writer(case, g, o):
    """several goroutines writing through one writer: every header on the wire must be the encoding
    of one of the messages written, each accepted message exactly once, its payload behind it"""
    f = case["request"].split()
    via, par, ver = f[1], int(f[2]), int(f[3])
    name = "msgWriter.Write on one msgWriter" if via == "w" else "SendNoWait on one connected Client (version %d)" % ver
    want = {}
    for it in f[4].split(";"):
        t, l, i, fl = map(int, it.split(":"))
        enc = spec_encode(2 if via == "c" and t in (46, 47) else ver, t, l, i)
        if enc not in (None, "E"):
            want[enc] = want.get(enc, 0) + 1
    ctx = "%d calls of %s from %d goroutine(s)" % (f[4].count(";") + 1, name, par)
    toks = g.split(" ")
    rest = [t for t in toks if t.startswith("!rest=")]
    frames = [t for t in toks if ":" in t and not t.startswith("!")]
    seen = {}
    for t in frames:
        hx, _, ok = t.partition(":")
        seen[hx] = seen.get(hx, 0) + 1
        if hx not in want:
            return ("concurrent-write:header-of-no-written-message:" + via,
                    "%s: the stream contains the header %s (reads as %s), which is the encoding of none of the messages written" % (
                        ctx, hx, spec_decode(list(bytes.fromhex(hx)))), True)
        if ok != "ok":
            return ("concurrent-write:payload-of-another-message:" + via,
                    "%s: the header %s (%s) is followed by payload bytes of another message" % (ctx, hx, spec_decode(list(bytes.fromhex(hx)))), True)
    for hx, n in want.items():
        if seen.get(hx, 0) != n:
            return ("concurrent-write:message-count:" + via, "%s: the message with header %s (%s) is on the wire %d time(s), written %d time(s)%s" % (
                ctx, hx, spec_decode(list(bytes.fromhex(hx))), seen.get(hx, 0), n, "; the stream does not end on a frame boundary" if rest else ""), True)
    if rest:
        return ("concurrent-write:trailing-bytes:" + via, "%s: after the last frame the stream carries %s" % (ctx, rest[0][6:70]), True)
    return ("model-mismatch:shared-writer", "%s: every written message is on the wire exactly once; Go answers %s, the model %s" % (ctx, g[:200], o[:200]), False)


def judge_single(case, g, o):
    """Go token g differs from model token o for this case: is the property violated by Go's
    behaviour?  returns (signature, what, found_input)"""
    if case["kind"] == "rfg":
        # the header a fragmented stream decodes to must be the one its first 10 bytes spell,
        # whatever the fragmentation; exactly min(10, len) bytes are taken from the stream
        bs, pats = case["bytes"], case["pats"]
        want = spec_decode(bs[:10])
        if case["consumed"]:
            want += "@%d" % min(10, len(bs))
        got = g.split("/")
        if len(got) == 1:
            got = got * len(pats)
        hexs = bytes(bs).hex() or "(empty)"
        for pat, a in zip(pats, got):
            if a != want:
                cuts = [0] + [min(int(c), len(bs)) for c in pat.split("+")] + [len(bs)]
                pieces = " | ".join(bytes(bs[x:y]).hex() for x, y in zip(cuts, cuts[1:]))
                case["pats"] = [pat]
                return ("fragmented-header:readHeader",
                        "readHeader over a transport that delivers the stream %s in pieces [%s] (%s) returns %s; "
                        "delivered in one piece the same bytes give %s" % (
                            hexs, pieces, "net.Pipe, one Write per piece" if case["via"] == "pip" else "one piece per Read", a, want), True)
        return ("model-mismatch:fragmented", "Go's readHeader on the fragmented stream %s behaves as the property demands (%s) "
                "but the Coq model answers %s" % (hexs, g, o), False)
    if case["kind"] == "dec":
        bs = case["bytes"]
        want = spec_decode(bs)
        gu, _, gr = g.partition("|")
        gr = gu if gr == "=" else gr
        hexs = bytes(bs).hex() or "(empty)"
        for name, got in (("UnmarshalBinary", gu), ("readHeader", gr)):
            if got == want:
                continue
            if want == "E":
                ln = int.from_bytes(bytes(bs[2:6]), "big") if len(bs) >= 10 else None
                why = "a buffer of %d bytes" % len(bs) if ln is None else "declared length %d < 10" % ln
                return ("decode-accepts-bad:" + name, "%s accepts header %s (%s): got %s" % (name, hexs, why, got), True)
            if got == "E" or "." not in got:
                return ("decode-rejects-good:" + name, "%s rejects header %s; bit-level reading gives %s" % (name, hexs, want), True)
            fields = ["version", "type", "length", "id"]
            diff = [fields[k] for k, (a, b) in enumerate(zip(got.split("."), want.split("."))) if a != b]
            return ("decode-wrong:%s:%s" % (name, "+".join(diff)),
                    "%s(%s) = %s, but bits 3-5 / low 10 bits of bytes 0-1 / be32-10 / be32 give %s" % (name, hexs, got, want), True)
        return ("model-mismatch:decode", "Go agrees with the bit-level reading of %s (%s) but the Coq model answers %s" % (hexs, g, o), False)
    ver, typ, ln, mid = case["ver"], case["typ"], case["len"], case["id"]
    want = spec_encode(ver, typ, ln, mid)
    desc = "Header{version:%d typ:%d payloadLen:%d id:%d}" % (ver, typ, ln, mid)
    parts = g.split("|")
    if len(parts) != 3:
        return ("harness-format", "unexpected harness answer %r" % g, False)
    gm = parts[0]
    gw = gm if parts[1] == "=" else parts[1]
    gh = gm if parts[2] == "=" else parts[2]
    for name, got in (("MarshalBinary", gm), ("WriteTo", gw)):
        if want is None or got == want:
            continue
        if want == "E":
            return ("encode-accepts-refusable:" + name, "%s does not refuse %s: wrote %s" % (name, desc, got), True)
        if got.startswith("E"):
            return ("encode-refuses-valid:" + name, "%s refuses %s" % (name, desc), True)
        back = spec_decode(list(bytes.fromhex(got))) if re.fullmatch(r"[0-9a-f]{20}", got) else "unreadable"
        return ("encode-wrong:" + name, "%s(%s) = %s which reads back as %s (expected bytes %s)" % (name, desc, got, back, want), True)
    if gm != gw:
        return ("encode-wrong:WriteTo", "WriteTo and MarshalBinary differ on %s: %s vs %s" % (desc, gw, gm), want is not None)
    if want not in (None, "E") and gh != want:
        return ("encode-wrong:writeHeader", "writeHeader(%s) wrote %s, MarshalBinary gives %s" % (desc, gh, want), True)
    return ("model-mismatch:encode", "Go's behaviour on %s (%s) satisfies the property but differs from the Coq model (%s)" % (desc, g, o), False)


# ------------------------------------------------------------------ way 1: tables
def coq_list(items):
    return "[" + "; ".join(items) + "]"


def write_tables_v(gdir, dump, pairs):
    n = 1024
    valid = coq_list("true" if x else "false" for x in dump["valid"][:n])
    mirror = coq_list("Some %d" % v if ok else "None" for v, ok in dump["conv"][:n])
    inst = coq_list("None" if x < 0 else "Some %d" % x for x in dump["inst"][:n])
    resp = coq_list(coq_list(str(u) for u in r) for r in dump["resp"][:n])
    gp = coq_list("(%d, %d)" % (p["request"], p["response"]) for p in pairs if p["required"])
    src = """(* GENERATED on every run by checks/c19.py from the running Go code (harness/llrp/c19_test.go,
   request "tables"): MessageType(t).IsValid / Converse / NewInstance().Type() / isResponseTo for
   t = 0..1023, and the required pairs of spec/llrp_pairs.json.  Do not edit. *)
From Coq Require Import NArith List.
From LLRP Require Import Header.TablesCheck.
Import ListNotations.
Open Scope N_scope.
Definition gen_valid : list bool := %s.
Definition gen_mirror : list (option N) := %s.
Definition gen_inst : list (option N) := %s.
Definition gen_resp : list (list N) := %s.
Definition gen_tables : msg_tables := mkTables gen_valid gen_mirror gen_inst gen_resp.
Definition gen_pairs : list (N * N) := %s.
""" % (valid, mirror, inst, resp, gp)
    os.makedirs(gdir, exist_ok=True)
    for f in os.listdir(gdir):
        if f.endswith((".vo", ".vok", ".vos", ".glob", ".v", ".aux")):
            os.remove(os.path.join(gdir, f))
    path = os.path.join(gdir, "MsgTables.v")
    with open(path, "w") as fh:
        fh.write(src)
    return path


def obligation_v(gdir, name, stmt, derived):
    lines = ["(* GENERATED by checks/c19.py: one closed obligation about this run's dumped tables *)",
             "From Coq Require Import NArith List.", "From LLRP Require Import Header.TablesCheck.",
             "From LLRPGen Require Import MsgTables.", "Import ListNotations.", "Open Scope N_scope.",
             "Theorem gen_%s_ok : %s." % (name, stmt), "Proof. vm_compute. reflexivity. Qed.",
             "Print Assumptions gen_%s_ok." % name]
    for tn, ts, proof in derived:
        lines += ["Theorem %s : %s." % (tn, ts), "Proof. exact (%s). Qed." % proof, "Print Assumptions %s." % tn]
    path = os.path.join(gdir, "Ob_%s.v" % name)
    with open(path, "w") as fh:
        fh.write("\n".join(lines) + "\n")
    return path, 1 + len(derived)


def table_findings(dump, pairs):
    """the table half of the property evaluated directly on the dump (no Coq involved);
    returns {obligation name: [(signature, what, replay)]}"""
    n = 1024
    conv = [(v if ok else None) for v, ok in dump["conv"][:n]]
    inst, valid, resp, names = dump["inst"], dump["valid"], dump["resp"], dump["instname"]
    out = {k[0]: [] for k in OBLIGATIONS}
    for key in ("valid", "conv", "inst", "resp"):
        if len(dump[key]) != n:
            out["shape"].append(("tables-shape", "dump of %s has %d entries, not 1024" % (key, len(dump[key])), dict(table=key)))
    for t in range(n):
        if inst[t] != -1 and inst[t] != t:
            out["instance_type_agree"].append((
                "instance-type:%d" % t,
                "MessageType(%d).NewInstance() is a %s whose Type() is %s" % (t, names[t], inst[t] if inst[t] >= 0 else "unavailable (nil pointer)"),
                dict(type=t, instance=names[t], instance_type=inst[t])))
        u = conv[t]
        if u is not None:
            back = conv[u] if u < n else None
            if back != t:
                out["mirror_symmetric"].append((
                    "mirror-asymmetric:%d" % t,
                    "MessageType(%d).Converse() = %d but MessageType(%d).Converse() = %s" % (t, u, u, "none" if back is None else back),
                    dict(type=t, converse=u, converse_of_converse=back)))
        want = [] if u is None else [u]
        if resp[t] != want:
            out["resp_consistent"].append((
                "resp-inconsistent:%d" % t,
                "isResponseTo(%d) accepts response types %s but Converse() gives %s" % (t, resp[t][:8], want),
                dict(type=t, accepted=resp[t][:16], converse=u)))
        vspec = 1 <= t <= 1023 and not 900 <= t <= 999
        if bool(valid[t]) != vspec or ((inst[t] != -1 or u is not None) and not valid[t]):
            out["valid_consistent"].append((
                "valid-inconsistent:%d" % t,
                "MessageType(%d).IsValid() = %s; range rule gives %s; instantiable=%s, paired=%s" % (
                    t, bool(valid[t]), vspec, inst[t] != -1, u is not None),
                dict(type=t, is_valid=bool(valid[t]), instantiable=inst[t] != -1, paired=u is not None)))
    seen = {}
    for t in range(n):
        if conv[t] is not None:
            if conv[t] in seen:
                out["mirror_symmetric"].append((
                    "mirror-not-injective:%d" % conv[t],
                    "types %d and %d both have converse %d" % (seen[conv[t]], t, conv[t]),
                    dict(types=[seen[conv[t]], t], converse=conv[t])))
            seen.setdefault(conv[t], t)
    for p in pairs:
        if not p["required"]:
            continue
        rq, rs = p["request"], p["response"]
        a, b = conv[rq], conv[rs]
        if a == rs and b == rq:
            continue
        kind = "mirror-missing" if (a is None or b is None) and a in (None, rs) and b in (None, rq) else "mirror-wrong"
        out["mirror_complete"].append((
            "%s:%d" % (kind, rq),
            "%s(%d) has response %d in LLRP, but MessageType(%d).Converse() = %s and MessageType(%d).Converse() = %s" % (
                p["name"], rq, rs, rq, "(0,false)" if a is None else a, rs, "(0,false)" if b is None else b),
            dict(type=rq, expected_converse=rs, observed=[a, b], pair=p["name"])))
    return out


def tables_part(res, exe, do_coq=True):
    """returns (ok_to_continue, stats)"""
    spec = json.load(open(os.path.join(vlib.ROOT, "spec", "llrp_pairs.json")))
    pairs = spec["pairs"]
    rc, lines, log = vlib.run_harness(exe, "TestVerifC19", "tables\n", timeout=300, tag="_tables")
    if rc != 0 or len(lines) != 1:
        res.violation("harness-run", "Go harness failed dumping the tables (rc=%s): %s" % (rc, log[-1500:]),
                      dict(kind="harness", log=log[-3000:]), False)
        return None
    dump = json.loads(lines[0])
    gdir = os.path.join(vlib.GEN, PID)
    tv = write_tables_v(gdir, dump, pairs)
    with open(os.path.join(gdir, "tables_dump.json"), "w") as fh:
        json.dump(dump, fh)
    found = table_findings(dump, pairs)
    stats = dict(table_codes=1024, instantiable=sum(1 for x in dump["inst"] if x != -1),
                 mirror_entries=sum(1 for v, ok in dump["conv"] if ok), valid_codes=sum(dump["valid"]),
                 codes_above_1023_with_any_entry=dump["extra"][:20],
                 samples=[dict(type_code=t, IsValid=bool(dump["valid"][t]), Converse=dump["conv"][t], NewInstance=dump["instname"][t] or None,
                               instance_Type=dump["inst"][t], isResponseTo_accepts=dump["resp"][t]) for t in (20, 26, 62, 100, 950)],
                 gen_obligations=0, gen_discharged=0,
                 gen_failed=[], gen_files=[os.path.relpath(tv, vlib.ROOT)])
    extra = ["-Q", gdir, "LLRPGen"]
    rc, out = vlib.coqc(tv, extra=extra, timeout=300)
    if rc != 0:
        res.violation("gen-tables-compile", "generated MsgTables.v does not compile: " + vlib.first_coq_error(out),
                      dict(kind="proof", file=tv, log_tail=out[-2000:]), False)
        return stats
    for name, stmt, derived in OBLIGATIONS:
        path, nthm = obligation_v(gdir, name, stmt, derived)
        stats["gen_obligations"] += nthm
        rc, out = vlib.coqc(path, extra=extra, timeout=300)
        closed = out.count("Closed under the global context")
        ok = rc == 0 and closed == nthm and "Axioms:" not in out
        if ok:
            stats["gen_discharged"] += nthm
        else:
            stats["gen_failed"].append(name)
        if ok and not found[name]:
            continue
        if found[name]:
            sigs = set()
            for sig, what, rp in found[name]:
                if sig in sigs or len(sigs) >= 4:
                    continue
                sigs.add(sig)
                rp = dict(rp, kind="table", obligation="gen_%s_ok" % name, coq_obligation_holds=ok)
                res.violation(sig, what + (" [Coq obligation %s fails too]" % stmt if not ok else
                                           " [but the Coq obligation %s was accepted: checker and python reading disagree]" % stmt), rp)
        else:
            res.violation("proof:C19:gen_%s" % name,
                          "generated obligation `%s` over this run's dumped tables does not check: %s" % (stmt, vlib.first_coq_error(out)),
                          dict(kind="table", obligation="gen_%s_ok" % name, log_tail=out[-2000:]), False)
    return stats


# ------------------------------------------------------------------ driver
def run(tier, seed, replay=None):
    res = vlib.Result(PID, tier, seed)
    res.assumptions = vlib.TRUSTED_COMMON + [
        "bytes are modelled as N below 256 (hypothesis bytes_ok of the theorems); Go's uint8/uint16/uint32 conversions are written into the model as explicit mod 2^k",
        "encoding/binary.BigEndian Uint16/Uint32/PutUint16/PutUint32 as in their source (lor of shifted bytes / byte(v>>k)); io.ReadFull delivers exactly 10 bytes or an error",
        "spec/llrp_pairs.json = Coq llrp_pairs (proved equal each run): the pinned LLRP 1.1 list of requests that have a response (19 X / X_RESPONSE pairs); KEEPALIVE/KEEPALIVE_ACK and CUSTOM_MESSAGE are allowed but not demanded",
        "the table dump is produced by the harness from the running code (IsValid, Converse, NewInstance().Type(), isResponseTo for all 1024 codes); the text of generated Coq files is written by checks/c19.py",
        "batches: the harness keeps what the entry points return without copying and reads it after the batch; goroutine interleavings are whatever the Go scheduler produces in that run (Gosched between calls), not enumerated",
        "fragmented delivery: a net.Conn whose Read returns at most the rest of the current piece (io.Reader contract; empty pieces are skipped on the Go side), modelled by read_full over a list of chunks; net.Pipe hands each Write to separate Reads",
        "connection states: the peer of the state scenarios is the harness's own in-memory net.Conn (c19Link) speaking the library's dialect of GetSupportedVersionResponse (version << 5); "
        "a state is 'reached' when the read side is parked in Read with everything sent consumed (or Connect has returned); readHeader is called directly only while the read side is parked; "
        "the states covered are the listed histories plus random ones, not all reachable states - that every state gives the same decoding is the theorem C19_read_header_any_state over the model's state record",
        "send paths: the ways to put a type on the connection are taken to be newMessage (unexported, shared), NewHdrOnlyMsg, NewByteMessage, Client.SendNoWait/SendMessage/SendFor "
        "(the exported API has no other constructor of Message; Header fields are unexported); payloads are zero bytes; the peer answers SendMessage/SendFor with an ErrorMessage header "
        "carrying the ID it received; CloseConnection (14) ends a request line because the write loop stops after it by design",
        "paused streams: 'a pause longer than the read deadline' is the in-memory connection returning a deadline error from Read (0 bytes) between two pieces, without real waiting; "
        "in the waiting-for-the-first-message state the first frame is a well-formed connection-success event",
        "shared writers: goroutine interleavings are whatever the scheduler produces in that run (the sink yields inside every Write); a torn header that no schedule of the run "
        "produces is not seen - the data race itself is C20's business, the bytes are judged here",
        "failing connections: faults are injected by the in-memory connection (Write takes k bytes and returns an error); a net.Conn returns n < len(p) only with an error; "
        "'the write loop carried on' is observed through a marker message queued behind the message under test",
        "the Header version field (uint8) is not refused by the encoder when above 7; the property does not demand it (Example C19_note_version_unchecked)",
    ]
    pr = vlib.proof_part(res, PID)
    rc, log = vlib.build_oracle("c19")
    if rc != 0:
        res.violation("oracle-build", "oracle for C19 does not build: " + log[-800:], dict(kind="build"), False)
        return res.finish()
    ok, log, exe = vlib.build_harness("llrp", PID, ["c19_test.go"])
    if not ok:
        res.violation("harness-build", "Go harness does not build against /repo: " + log[-1500:], dict(kind="build"), False)
        return res.finish()

    reqs, do_tables = None, True
    if replay:
        rp = json.load(open(replay))
        if rp.get("kind") != "table":
            reqs = rp.get("requests") or []
            do_tables = False
        else:
            reqs = []
    stats = tables_part(res, exe) if do_tables else None
    if do_tables and stats is None:
        return res.finish()
    n_states = 0
    if reqs is None:
        st_reqs, n_states = gen_state_requests(tier, seed)
        reqs = gen_requests(tier, seed) + gen_batch_requests(tier, seed) + gen_frag_requests(tier, seed) + st_reqs \
            + gen_send_requests(tier, seed) + gen_paused_requests(tier, seed) + gen_shared_writer_requests(tier, seed)
        # the list is answered in 4 contiguous parts: deal the requests out so that every part gets
        # an even share of every kind
        reqs = [r for k in range(4) for r in reqs[k::4]]

    evals = nontriv = frag_headers = batch_samples = state_samples = send_samples = paused_samples = writer_samples = 0
    dist, samples = {}, []
    if reqs:
        text = "\n".join(reqs) + "\n"
        # the request list is cut into contiguous parts that are answered by several harness and
        # oracle processes at once (both are pure line-by-line functions); answers are re-joined in order
        import threading
        nparts = 1 if len(reqs) < 2000 else 4
        step = (len(reqs) + nparts - 1) // nparts
        parts = ["\n".join(reqs[k:k + step]) + "\n" for k in range(0, len(reqs), step)]
        gbox, obox = {}, {}
        ths = []
        for k, part in enumerate(parts):
            ths.append(threading.Thread(target=lambda k=k, part=part: obox.__setitem__(k, vlib.run_oracle("c19", part, timeout=900))))
            ths.append(threading.Thread(target=lambda k=k, part=part: gbox.__setitem__(
                k, vlib.run_harness(exe, "TestVerifC19", part, timeout=900, tag="_p%d" % k))))
        for th in ths:
            th.start()
        for th in ths:
            th.join()
        rc, go_lines, glog, orc, olines, oout = 0, [], "", 0, [], ""
        for k in range(len(parts)):
            r, lines, log = gbox.get(k, (1, [], "harness thread failed"))
            rc, go_lines, glog = rc or r, go_lines + lines, glog + log[-1500:]
            r, out = obox.get(k, (1, "oracle thread failed"))
            ol = out.split("\n")
            if ol and ol[-1] == "":
                ol.pop()
            orc, olines, oout = orc or r, olines + ol, out
        if rc != 0 or len(go_lines) != len(reqs):
            res.violation("harness-run", "Go harness failed (rc=%s, %d/%d answers): %s" % (rc, len(go_lines), len(reqs), glog[-1500:]),
                          dict(kind="harness", log=glog[-3000:]), False)
            return res.finish()
        if orc != 0 or len(olines) != len(reqs):
            res.violation("oracle-run", "oracle failed (rc=%s, %d/%d answers): %s" % (orc, len(olines), len(reqs), oout[-500:]),
                          dict(kind="oracle"), False)
            return res.finish()
        seen_sig, genuine, unexplained, mismatching = set(), [], [], {}
        for req, g, o in zip(reqs, go_lines, olines):
            kind = req[:3] if not req.startswith("bat") else req[:7].replace(" ", "-")
            ntok = g.count(" ") + 1
            if kind in ("frg", "rfg", "pip"):
                # one evaluation per (header, fragmentation pattern)
                npat = req.rsplit(" ", 1)[1].count(",") + 1
                rej = len(re.findall(r"(?:^| )E", g))
                evals += ntok * npat
                dist[kind] = dist.get(kind, 0) + ntok * npat
                nontriv += (ntok - rej) * npat
                frag_headers += ntok
            elif kind == "mwr":
                nfr = sum(1 for t in g.split(" ") if t.endswith((":ok", ":bad")))
                evals += req.count(";") + 1
                dist[kind] = dist.get(kind, 0) + req.count(";") + 1
                nontriv += nfr
                if writer_samples < 2 and req.startswith(("mwr w 4 ", "mwr c 4 ")) and writer_samples == (req[4] == "c"):
                    writer_samples += 1
                    samples.append(dict(request=req[:300], go=g[:300], model=o[:300]))
            elif kind == "rpz":
                evals += 1
                dist[kind] = dist.get(kind, 0) + 1
                nontriv += g != "-"
                if paused_samples < 3 and g != "-" and req.count("/") >= 1:
                    paused_samples += 1
                    samples.append(dict(request=req[:300], go=g[:200], model=o[:200]))
            elif kind in ("snd", "wfl"):
                toks = g.split(" ")
                evals += len(toks)
                dist[kind] = dist.get(kind, 0) + len(toks)
                # non-trivial: something reached the peer
                nontriv += sum(1 for t in toks if t not in ("R", "T", "E:", "ok:"))
                if send_samples < 4 and ((kind == "snd" and "899-" in req) or (kind == "wfl" and " 4 t a " in req)) and send_samples % 2 == (kind == "wfl"):
                    send_samples += 1
                    samples.append(dict(request=req[:300], go=g[:300], model=o[:300]))
            elif kind in ("stl", "std", "stw"):
                # one evaluation per header handed to a client in a connection state
                toks = g.split(" ")[0 if kind == "stw" else 1:]
                evals += len(toks)
                dist[kind] = dist.get(kind, 0) + len(toks)
                nontriv += sum(1 for t in toks if "." in t or len(t) == 20)
                if state_samples < 4 and (kind == "stl" or " 0 " in req) and state_samples % 2 == (kind == "std"):
                    state_samples += 1
                    samples.append(dict(request=req[:400], go=g[:260], model=o[:260]))
            else:
                evals += ntok
                dist[kind] = dist.get(kind, 0) + ntok
                # non-trivial: the header is accepted by the implementation (not "E")
                nontriv += ntok - (g.count("E|") if kind not in ("enc", "bat-enc") else len(re.findall(r"(?:^| )E", g)))
            if kind.startswith("bat") and batch_samples < 2 and ntok in (2, 8):
                batch_samples += 1
                samples.append(dict(request=req, go=g[:260], model=o[:260]))
            if len(samples) < 13 and (req.startswith(("dec 1086 ", "dec 65535 ", "enc 1 62 ", "enc 7 950 ")) or req.startswith(("raw 043e0000000a0102030", "raw ffff00000009", "frg 1086 ", "rfg 043e0000000a01020304 ", "pip 043e0000 "))):
                samples.append(dict(request=req, go=g[:260], model=o[:260]))
            if g == o:
                continue
            mismatching[kind] = mismatching.get(kind, 0) + 1
            if mismatching[kind] > 1500:
                continue        # enough witnesses of this kind examined; the count is reported
            cases = expand(req)
            gt, ot = g.split(" "), o.split(" ")
            if req.startswith("mwr"):
                gt, ot = [g], [o]      # judged as one stream
            if len(gt) != len(cases) or len(ot) != len(cases):
                res.violation("harness-format", "answer shape differs for request %r: go %r model %r" % (req, g[:200], o[:200]),
                              dict(kind="header", requests=[req]), False)
                continue
            diffs = [(case, a, b) for case, a, b in zip(cases, gt, ot) if a != b]
            # prefer a witness whose header is a valid one (more telling than a rejected one)
            diffs.sort(key=lambda d: (d[0]["kind"] == "rfg" and spec_decode(d[0]["bytes"][:10]) == "E",
                                      len(d[0]["bytes"]) if d[0]["kind"] == "stl" else 0))
            for case, a, b in diffs:
                sig, what, found = judge_case(case, a, b)
                if sig in seen_sig:
                    continue
                seen_sig.add(sig)
                (genuine if found else unexplained).append(
                    (sig, what, dict(kind="header", correspondence="C19/header-codec-vs-Header.v",
                                     requests=[single_request(case)], case=case, observed=a, model=b), found))
        # differences that do not break the property are reported only when no genuine failure explains
        # why model and code have come apart
        for v in genuine or unexplained:
            res.violation(*v)
        if mismatching:
            res.coverage["request_lines_where_code_and_model_differ"] = mismatching

    if stats:
        res.coverage["obligations"] = res.coverage.get("obligations", 0) + stats["gen_obligations"]
        res.coverage["discharged"] = res.coverage.get("discharged", 0) + stats["gen_discharged"]
        res.coverage["generated_obligations"] = dict(
            count=stats["gen_obligations"], discharged=stats["gen_discharged"], failed=stats["gen_failed"],
            files="build/gen/C19/MsgTables.v + Ob_<name>.v, compiled with coqc -Q coq LLRP -Q build/gen/C19 LLRPGen",
            names=[o[0] for o in OBLIGATIONS])
        res.coverage["checker_cmd"] = res.coverage.get("checker_cmd", "") + \
            " && (per run) coqc -Q coq LLRP -Q build/gen/C19 LLRPGen build/gen/C19/{MsgTables,Ob_*}.v"
        res.coverage["tables"] = {k: stats[k] for k in ("table_codes", "instantiable", "mirror_entries", "valid_codes",
                                                         "codes_above_1023_with_any_entry")}
        evals += 1024
        nontriv += stats["instantiable"]
        dist["table-codes"] = 1024
        samples += stats["samples"]
    full = not replay
    res.coverage.update(
        evaluations=evals, distinct_nontrivial=nontriv,
        rule="header cases = every value 0..65535 of the first two bytes x declared lengths %s x ids {0,1,2^31,2^32-1,random} "
             "(through UnmarshalBinary and readHeader), buffers of other sizes, and Header values version x type 0..1023(+out of range) x "
             "payload lengths %s x ids (through MarshalBinary, WriteTo, writeHeader); fragmented delivery = every header of that grid handed to "
             "readHeader in pieces (frg: rotating selection of the 9 two-piece, 36 three-piece and 6 many-piece cut patterns per first-two-bytes "
             "value, all 51 on a stride; rfg/pip: short, exact and long streams under all 51 patterns, pip over net.Pipe with a read timeout), one "
             "evaluation per (header, pattern); batches = value semantics of the entry points: 2..1024 calls whose results (MarshalBinary's slice, "
             "the WriteTo writer, the writeHeader connection, decode targets) are kept, not copied, and read only after the whole batch, made "
             "call-by-call, item-by-item and from 2..16 goroutines, arguments compared before/after, one returned slice overwritten by the caller, "
             "one scratch buffer reused for all decodes; one evaluation per batch member; connection states = a real Client taken through "
             "each of %d (configuration, connection history) pairs over an in-memory connection by a peer with its own frame code (fresh, waiting "
             "for the first message, negotiation under way, negotiated 1.1, lowered to 1.0.1, configured 1.0.1, after exchanges, request outstanding, "
             "CloseConnection sent, Close called, read side ended; with/without timeout; random histories with messages of foreign version bits "
             "already read): stl = messages with all 8 version-bit values x types x payload sizes x ids handed to its read side (observed: header "
             "given to the logger and to the handler, version held), std = readHeader called directly on that client while its read side is parked "
             "(all 2^16 first-two-bytes values on the main states, a stride on the others), stw = writeHeader called directly (8 versions x 1024 types); one evaluation per header; "
             "send paths (snd) = newMessage / NewHdrOnlyMsg / NewByteMessage (with and without payload) handed to SendNoWait, SendMessage and SendFor (empty and non-empty data) on a "
             "connected client, for all 65536 values of the message type on the client that negotiated 1.1 and a dense sample with all boundaries on three other states: refused, or "
             "the bytes the peer received; failing connections (wfl) = the connection's Write takes 0..10 bytes of the header and fails (deadline error plain / as net.OpError, "
             "closed pipe, broken pipe; later writes accepted or failing; clients with and without timeout; several states), writeHeader directly and a message through the write loop "
             "followed by a marker message: what is reported and what the peer received; paused streams (rpz) = three frames back to back (the first message of a connection, or later ones, in 14 "
             "connection states, clients with and without timeout) delivered in pieces with a read-deadline error between consecutive pieces: after k = 0..10 bytes of the first and of the "
             "second header, inside a payload, two and three pauses: the headers the read side reports (logger) and offers (handlers); shared writers (mwr) = 8..256 calls with distinct "
             "(type, length, id, payload byte) dealt to 1..16 goroutines writing through one msgWriter, resp. one connected Client's SendNoWait, the stream cut into frames by the "
             "harness's own frame code: one evaluation per call; table cases = the 1024 type codes. "
             "All cases of a run are distinct by construction (lists de-duplicated). Non-trivial: a header case that the implementation "
             "accepts (answer is not E), a table code that can be instantiated; counted from the Go answers." % (DEC_LENS, ENC_LENS, n_states),
        samples=samples, input_distribution=dist, traces_validated_against_impl=evals,
        trusted_base=res.assumptions, exhaustive=full, connection_states=n_states, fragmented_headers=frag_headers, fragmentation_patterns=len(ALL_PATS),
        exhaustive_over="first two header bytes (2^16) x the boundary length/id grid; versions 0..7 x types 0..1023 for encoding; all 1024 type codes" if full else "replay only")
    return res.finish()
