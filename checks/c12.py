"""C12 — LLRP status codes become errors faithfully.
proof: coq/Props/C12.v over coq/Client/Status.v; tie: the real Client.SendFor against a scripted
peer on net.Pipe (harness/llrp/c12_test.go) vs the extracted send_for_outcome/status_err, and the
property predicate evaluated directly on what Go returned."""
import json, random
import vlib

PID = "C12"
ERRMSG = 100
# all 46 message types of the package (generated_structs.go)
ALL_TYPES = [1, 2, 3, 4, 11, 12, 13, 14, 20, 21, 22, 23, 24, 25, 26, 30, 31, 32, 33, 34, 35, 36, 40, 41, 42,
             43, 44, 45, 46, 47, 50, 51, 52, 53, 54, 55, 56, 57, 60, 61, 62, 63, 64, 72, 100, 1023]
# reader-initiated messages: never a reply to a request (and, since the C03 fix in /repo, never delivered as one)
READER_INITIATED = (61, 62, 63)
REPLY_TYPES = [t for t in ALL_TYPES if t not in READER_INITIATED]
INTERNAL = {"gsv": 56, "spv": 57, "close": 4}      # internal exchange -> its expected response type
CONFIGS = ("none", "exp", "err", "def", "all")     # which MessageHandlers the client is built with (harness c12ClientOpts)
NEGOTIATED = {1: "client built WithVersion(1.0.1), no negotiation", 2: "default client, reader already at 1.1",
              3: "default client, reader at 1.0.1 / max 1.1, SET_PROTOCOL_VERSION to 1.1",
              4: "default client, reader answers the version query with ERROR_MESSAGE VersionUnsupported (falls back to 1.0.1)"}
NV_MODEL = {1: 1, 2: 2, 3: 2, 4: 1}     # the version number the connection ends up with
NOWAIT_TYPES = [1, 2, 3, 20, 21, 22, 23, 24, 25, 26, 40, 41, 42, 43, 44, 1023]      # request types sent with SendNoWait (not CLOSE_CONNECTION)
WIRE_N0 = 1000       # id of the first message of a history in the model (ids are the positions of the writes)
ZERO = "0 - - -"
SENTINEL = "48879 73656e74696e656c 7.8 9.10.11.12"     # what the harness pre-fills in mode s
BATCH = 300000


def hexs(b):
    return b.hex() if b else "-"


def branch_of(exp, act):
    return "expected" if act == exp else ("errmsg" if act == ERRMSG else "other")


def prop_check(exp, act, code, scripted, go):
    """The property itself on Go's observed behaviour (no model involved).
    scripted = '<code> <desc> <fe> <pe>' as sent by the peer; go = tokens of the harness answer.
    Returns None if the property holds for this exchange, else (signature, text)."""
    cls, got, same = go[0], " ".join(go[1:5]), go[5]
    br = branch_of(exp, act)
    if cls in ("panic", "timeout"):
        return ("no-outcome:%s:%s" % (br, cls), "SendFor did not return an outcome (%s)" % cls)
    if br == "other":
        if cls == "nil":
            return ("mismatch-not-error", "reply of an unrelated type reported as success")
        if same != "same":
            return ("mismatch-decoded", "reply of an unrelated type was decoded into the caller's response value")
        return None
    if br == "errmsg" and cls == "nil":
        return ("errmsg-not-error", "ERROR_MESSAGE reply reported as success")
    if code == 0:
        if br == "expected" and cls != "nil":
            # also when the caller's expected type IS ERROR_MESSAGE (decision 2, revised in round 7): sentence 1 is an "exactly when"
            # and the reply has the expected type and carries Success; sentence 2's "or an ERROR_MESSAGE reply" is the ERROR_MESSAGE
            # that arrives INSTEAD of the expected type. This is also what C12_success_iff_general states for every expected type.
            return ("success-reported-as-error" + (":expecting-error-message" if exp == ERRMSG else ""),
                    "expected type with status Success reported as error" + (" (the caller expects an ERROR_MESSAGE)" if exp == ERRMSG else ""))
        return None    # an ERROR_MESSAGE with Success answering a request that expects another type: only non-nil demanded (DESIGN 7)
    # code != 0, expected type or ERROR_MESSAGE: error must expose code, description, nested detail
    if cls == "nil":
        return ("nonzero-status-not-error:%s" % br, "non-Success status reported as success")
    if cls != "status":
        return ("status-not-exposed:%s:class" % br, "error does not expose a *StatusError")
    if got != scripted:
        g, s = got.split(" "), scripted.split(" ")
        what = [n for n, a, b in zip(("code", "description", "field", "parameter"), g, s) if a != b][0]
        return ("status-not-exposed:%s:%s" % (br, what),
                "*StatusError %s differs from what the reader sent" % what)
    return None


def reuse_check(code, d, f, p, go):
    """expected type, response value REUSED (pre-filled with an earlier failed exchange's status and nested details).
    The generated decoder does not clear what the new reply does not carry, so stale description / details in the value are
    outside the property; what the property still demands: success iff the reply's code is Success; otherwise a *StatusError
    with the reply's code, and with the reply's description / FieldError / ParameterError wherever the reply carries them."""
    cls = go[0]
    if cls in ("panic", "timeout"):
        return ("no-outcome:reused-response:" + cls, "SendFor did not return an outcome (%s)" % cls)
    if code == 0:
        return None if cls == "nil" else ("success-reported-as-error:reused-response",
                                          "expected type with status Success reported as error when the response value still holds an earlier exchange's details")
    if cls == "nil":
        return ("nonzero-status-not-error:reused-response", "non-Success status reported as success")
    if cls != "status":
        return ("status-not-exposed:reused-response:class", "error does not expose a *StatusError")
    for name, got, sent in (("code", go[1], str(code)), ("description", go[2], d), ("field", go[3], f), ("parameter", go[4], p)):
        if got != sent and (name == "code" or sent != "-"):
            return ("status-not-exposed:reused-response:" + name, "*StatusError %s differs from what the reader sent" % name)
    return None


def render_check(br, go):
    """the returned error must be usable: every observer (Error, fmt verbs, unwrap chain, String of the codes, nested
    errors) runs without panic, and the text carries the reader's description. go[10:13] = render, contains, hash"""
    if go[0] not in ("status", "other"):
        return None
    if go[10] != "ok":
        return ("error-unusable:%s" % go[10], "using the returned error panics in %s" % go[10].split("@")[-1])
    if go[0] == "status" and go[11] == "n":
        return ("error-text-lacks-description:%s" % br, "the error's text does not contain the reader's description / the status error's text")
    return None


def model_expect(oracle_line, mode):
    """what the harness answer should be if Go agrees with the model: (error part, same-token or None, in part or None)"""
    t = oracle_line.split(" ")
    err = " ".join(t[0:5])
    if t[5] == "untouched":
        return err, "same", (SENTINEL if mode.startswith("s") else ZERO)
    if t[5] == "decoded":
        return err, None, " ".join(t[6:10])
    return err, None, None


class Gen:
    def __init__(self, seed, thorough, stypes):
        self.rnd = random.Random(seed)
        self.thorough = thorough
        self.stypes = stypes
        self.groups = []     # (kind, exp, act, lo, hi, desc, fe, pe, mode)

    def x(self, kind, exp, act, code, desc="-", fe="-", pe="-", mode="z"):
        self.groups.append((kind, exp, act, code, code + 1, desc, fe, pe, mode))

    def r(self, kind, exp, act, lo, hi, desc="-", fe="-", pe="-", mode="z"):
        self.groups.append((kind, exp, act, lo, hi, desc, fe, pe, mode))

    def u16(self):
        r = self.rnd
        return r.choice([0, 1, 255, 256, 65535, r.randrange(65536), r.randrange(65536), r.randrange(100, 410)])

    def fe(self, present):
        return "%d.%d" % (self.u16(), self.u16()) if present else "-"

    def pe(self, depth, mask):
        if depth == 0:
            return "-"
        lv = []
        for k in range(depth):
            s = "%d.%d" % (self.u16(), self.u16())
            if mask >> k & 1:
                s += ".%d.%d" % (self.u16(), self.u16())
            lv.append(s)
        return ",".join(lv)

    def sample_codes(self, n):
        s = {0, 1, 2, 99, 100, 101, 102, 103, 104, 105, 106, 107, 108, 109, 110, 199, 200, 201, 202, 203, 204, 205, 206,
             207, 208, 209, 210, 299, 300, 301, 302, 303, 399, 400, 401, 402, 403, 255, 256, 257, 32767, 32768, 65534, 65535}
        for k in range(16):
            s.update((1 << k, (1 << k) - 1, 65535 ^ (1 << k)))
        while len(s) < n:
            s.add(self.rnd.randrange(65536))
        return sorted(c for c in s if 0 <= c < 65536)

    def build(self, light=False):
        """light: the same scenario classes without the 65536-code sweeps (used for the additional handler configurations)"""
        self.groups = []
        rnd, st = self.rnd, self.stypes
        # 1. every status code, on the expected-type branch and on the ERROR_MESSAGE branch
        # quick: AddROSpecResponse, GetSupportedVersionResponse (status after two version bytes), ErrorMessage itself as
        # the expected type, and one more chosen by the seed; thorough: every status-bearing type
        rest = [t for t in st if t not in (4, 30, 56, ERRMSG)]
        full = list(st) if self.thorough else sorted(({30, 56, ERRMSG} | set(rnd.sample(rest + [4], 1))) & set(st))
        if light:
            full = []
        for e in st:
            if e in full:
                dsc = "72656164657220736169643a206e6f" if e == 30 else "-"     # "reader said: no"
                self.r("codes", e, e, 0, 65536, dsc)
                if e != ERRMSG:
                    self.r("codes", e, ERRMSG, 0, 65536, dsc)
            else:
                for c in self.sample_codes(120 if light else 300):
                    self.x("codes-sampled", e, e, c)
                    self.x("codes-sampled", e, ERRMSG, c)
        # 2. all (expected, actual) pairs: expected over the status-bearing types, actual over the 43 message types that can
        #    be a reply (KeepAlive, ROAccessReport, ReaderEventNotification are reader-initiated: see build_unsolicited)
        for e in st:
            for a in REPLY_TYPES:
                for c in (0, 101):
                    for mode in ("z", "s"):
                        if a == e and mode == "s":
                            continue   # a reused, pre-filled response value is outside the property
                        self.x("pairs", e, a, c, "6f6f7073", "2.300", "137.201.1.301", mode)
                if a in (e, ERRMSG):
                    self.x("pairs", e, a, 101, "6f6f7073", "2.300", "137.201.1.301", "zP")
        # 3. nested FieldError / ParameterError shapes: every present/absent pattern to depth 4, deeper chains
        reps = 1 if light else (12 if self.thorough else 3)
        shapes = [(tf, d, m) for tf in (0, 1) for d in range(5) for m in range(1 << d)]
        for d in (5, 6, 7, 8, 16, 64) + ((500, 2000) if self.thorough else (300,)):
            for _ in range(2):
                shapes.append((rnd.randrange(2), d, rnd.getrandbits(d)))
        for tf, d, m in shapes:
            for _ in range(reps if d <= 8 else 1):
                e = rnd.choice([t for t in st if t != ERRMSG])
                fe, pe = self.fe(tf), self.pe(d, m)
                desc = rnd.choice(["-", "78", "6e6573746564206572726f72"])
                # order of the two optional sub-parameters: FieldError first (LLRP layout) and ParameterError first (the
                # decoder accepts both), at the top level (P) and inside every ParameterError (I) — wherever it changes the bytes
                orders = [""]
                if tf and d >= 1:
                    orders.append("P")
                if d >= 2 and m & ((1 << (d - 1)) - 1):
                    orders += [o + "I" for o in orders]
                for a in (e, ERRMSG):
                    for c in (0, rnd.choice([100, 101, 200, 201, 300, 401]), rnd.randrange(1, 65536)):
                        for o in orders:
                            self.x("shapes" if not o else "shapes-order-" + o, e, a, c, desc, fe, pe, "z" + o)
        # 3b. the response value is reused: it still holds the status, description and nested details of an earlier failed
        #     exchange (sentinel) when the next reply is decoded into it
        for e in st:
            if e == ERRMSG:
                continue
            for c in (0, 0, rnd.choice([100, 101, 201, 401]), rnd.randrange(1, 65536)):
                for d_, f_, p_ in (("-", "-", "-"), ("6e6577", "-", "-"), ("-", self.fe(1), "-"), ("-", "-", self.pe(2, 1)), ("6e6577", self.fe(1), self.pe(1, 1))):
                    self.x("reused", e, e, c, d_, f_, p_, "s")
        # 4. descriptions: empty / long / non-ASCII / not even UTF-8 (a Go string is bytes)
        descs = [b"", b"A", b"invalid value in field 3", b"x" * 255, b"y" * 256, b"z" * 257, b"w" * 1000,
                 bytes(range(32, 127)), "é".encode(), "日本語の説明".encode(),
                 "\U0001F4E1 antenna üß".encode(), "﻿bom".encode(), b"\x00", b"a\x00b", b"\xff\xfe",
                 b"\xc3", b"\xed\xa0\x80", b" lead and trail ", b"tab\tnl\ncr\r", b"q" * 65527]
        for n in ([3, 17, 4095, 32768, 65526] if self.thorough else [4095]):
            descs.append(bytes(rnd.randrange(256) for _ in range(n)))
        for dsc in descs:
            e = rnd.choice([t for t in st if t != ERRMSG])
            for a in (e, ERRMSG):
                for c in (0, 100, 65535):
                    self.x("descriptions", e, a, c, hexs(dsc))
        # longest description together with nested detail (parameter length exactly 65535)
        self.x("descriptions", 30, 30, 402, hexs(b"m" * (65527 - 8 - 16)), "1.2", "3.4.5.6")
        self.x("descriptions", 30, ERRMSG, 402, hexs(b"m" * (65527 - 8 - 16)), "1.2", "3.4.5.6")
        # 5. every status code also as the code NESTED in a FieldError and in two ParameterError levels (the error's
        #    text is built from those codes too)
        if not light:
            for e in ([30] if not self.thorough else [30, rnd.choice(rest)]):
                for a in (e, ERRMSG):
                    cs = range(65536) if (a == e or self.thorough) else sorted(set(range(1000)) | set(self.sample_codes(300)))
                    for c in cs:
                        self.x("nested-codes", e, a, 101, "6e", "3.%d" % c, "137.%d.4.%d,138.%d" % (c, c, c))
        return self.groups

    def build_internal(self):
        """the exchanges the Client performs itself: (which, act, code, desc, fe, pe, mode);
        gsv = Connect's GET_SUPPORTED_VERSION, spv = Connect's SET_PROTOCOL_VERSION, close = Shutdown's CLOSE_CONNECTION"""
        out = []
        codes = list(range(65536)) if self.thorough else sorted(set(range(1, 500)) | set(self.sample_codes(300)))
        for w, exp in INTERNAL.items():
            for a in (exp, ERRMSG):
                for c in codes:
                    if c == 0 and a == ERRMSG:
                        continue          # ERROR_MESSAGE with Success is never sent by a reader; not constrained here
                    out.append((w, a, c, "-" if c % 3 else "696e7465726e616c", "-", "-", "z"))
                for c in (101, 202, 65535):
                    out.append((w, a, c, "6e6573746564", self.fe(1), self.pe(2, 1), "z"))
                    out.append((w, a, c, "6e6573746564", self.fe(1), self.pe(2, 1), "zP"))
            out.append((w, exp, 0, "-", "-", "-", "z"))
            # the reply's header version is not part of the exchange's outcome
            for ver in range(8):
                out.append((w, exp, 0, "-", "-", "-", "zV%d" % ver))
                out.append((w, exp, 101, "76", self.fe(1), "-", "zV%d" % ver))
                out.append((w, ERRMSG, 201, "76", "-", self.pe(1, 1), "zV%d" % ver))
            for a in (30, 31, 13):
                if a != exp:
                    out.append((w, a, 101, "6f", "-", "-", "z"))
        return out

    def build_concurrent(self):
        """k = 2..4 SendFor calls in flight on one Client, replies written back to back in one write:
        (perm, gomaxprocs, [(exp, act, code, desc, fe, pe, mode), ...])"""
        rnd, st = self.rnd, [t for t in self.stypes if t != ERRMSG]
        rounds = []
        n = 1500 if self.thorough else 320
        for r in range(n):
            k = 2 + r % 3
            pure = r % 5 < 2          # same-length replies: only the status code differs
            codes = [0, rnd.choice([100, 101, 201, 300, 401, rnd.randrange(1, 65536)])] + \
                    [rnd.choice([0, rnd.randrange(1, 65536)]) for _ in range(k - 2)]
            rnd.shuffle(codes)
            cases = []
            for i in range(k):
                e = rnd.choice(st)
                if e == 56 and pure:
                    e = 30                # GetSupportedVersionResponse has two extra bytes
                x = rnd.random()
                a = e if (pure or x < 0.8) else (ERRMSG if x < 0.93 else rnd.choice([t for t in REPLY_TYPES if t not in (e, ERRMSG)]))
                if pure:
                    d, f, p, o = "-", "-", "-", ""
                else:
                    d = rnd.choice(["-", "%02x" % (65 + i), bytes(rnd.randrange(32, 127) for _ in range(rnd.choice([3, 20, 300]))).hex()])
                    f = self.fe(rnd.randrange(2))
                    dep = rnd.choice([0, 0, 1, 2, 3])
                    p = self.pe(dep, rnd.getrandbits(dep) if dep else 0)
                    o = rnd.choice(["", "P", "I", "PI"])
                if rnd.random() < 0.3:
                    o += "V%d" % rnd.randrange(8)     # header version of this caller's reply
                cases.append((e, a, codes[i], d, f, p, "z" + o))
            perm = list(range(k))
            if r % 3 == 1:
                perm.reverse()
            elif r % 3 == 2:
                rnd.shuffle(perm)
            rounds.append(("".join(map(str, perm)), 1 if r % 4 else 0, cases))
        rounds.sort(key=lambda x: -x[1])      # GOMAXPROCS is switched once
        return rounds

    def build_versions(self):
        """the version a reply carries in its header (all 8 values of the 3-bit field) is independent of the version negotiated
        for the connection (4 ways of getting there): {nv: groups}. Expected type / ERROR_MESSAGE / unrelated type, Success and
        failure codes, with and without nested detail."""
        rnd, out = self.rnd, {}
        for nv in (1, 2, 3, 4):
            g = []
            for ver in range(8):
                for e in self.stypes:
                    others = [t for t in REPLY_TYPES if t not in (e, ERRMSG)]
                    for a in (e, ERRMSG, rnd.choice(others)):
                        for c in (0, rnd.choice([100, 101, 110, 201, 401, rnd.randrange(1, 65536)])):
                            nested = rnd.random() < 0.3
                            mode = ("s" if a not in (e, ERRMSG) and rnd.random() < 0.5 else "z") + ("P" if nested and rnd.random() < 0.5 else "") + "V%d" % ver
                            g.append(("versions", e, a, c, c + 1, rnd.choice(["-", "6f6f7073"]), "2.300" if nested else "-",
                                      "137.201.1.301" if nested else "-", mode))
            if self.thorough:
                for ver in range(8):
                    g.append(("versions", 30, 30, 0, 65536, "-", "-", "-", "zV%d" % ver))
            out[nv] = g
        return out

    def build_undecodable(self):
        """replies whose payload does not decode: every proper prefix of a well-formed payload (built here), and garbage of
        every length 0..200 and some longer ones: (exp, act, payload hex). The model's DecFail branches."""
        rnd, out = self.rnd, []

        def tlv(t, body):
            n = 4 + len(body)
            return bytes([(t >> 8) & 3, t & 255, n >> 8, n & 255]) + body

        def status(code, desc, nested):
            b = bytes([code >> 8, code & 255, len(desc) >> 8, len(desc) & 255]) + desc
            if nested:
                b += tlv(288, bytes([0, 2, 1, 44])) + tlv(289, bytes([0, 137, 0, 201]) + tlv(288, bytes([0, 1, 1, 45])))
            return tlv(287, b)
        garbage = bytes([0xde, 0xad, 0xbe, 0xef]) * 20000
        for e in self.stypes:
            pre = bytes([1 << 5, 2 << 5]) if e == 56 else b""
            for a in (e, ERRMSG):
                lead = pre if a == e else b""
                full = [lead + status(rnd.choice([0, 101]), b"cut", True)]
                if e in (30, 56) or self.thorough:
                    full.append(lead + status(201, bytes(rnd.randrange(32, 127) for _ in range(300)), True))
                for b in full:
                    pts = range(len(b)) if len(b) < 80 else sorted(set(range(0, 40)) | set(range(100, 140)) | set(range(250, 262)) | set(range(len(b) - 30, len(b))))
                    for n in pts:
                        out.append((e, a, hexs(b[:n])))
                lens = list(range(0, 201)) if (e in (30, 56, 4) or self.thorough) else [0, 1, 2, 3, 4, 5, 7, 8, 9, 16, 64, 127, 128, 129, 200]
                for n in lens + [255, 256, 257, 1000, 4096, 65535, 70000]:
                    out.append((e, a, hexs(garbage[:n])))
        return out

    def build_histories(self):
        """exchange histories on one Client: requests started / abandoned, and frames written by the reader with any id
        (of an outstanding request, of an abandoned or already answered one, of no request at all), any type and header
        version. Every history ends with each caller answered or abandoned. {nv: [history]}, history = list of steps
        ('S', k, exp) | ('A', k) | ('R', ver, typ, idspec, layout, code, desc, fe, pe, flags)"""
        rnd, st = self.rnd, [t for t in self.stypes if t != ERRMSG]
        out = {}

        def stat(success=None):
            c = 0 if success else rnd.choice([100, 101, 201, 300, 401, rnd.randrange(1, 65536)])
            if success is None and rnd.random() < 0.4:
                c = 0
            nested = rnd.random() < 0.3
            return (c, rnd.choice(["-", "%02x" % rnd.randrange(65, 91), "6c617465"]), self.fe(1) if nested else "-",
                    self.pe(rnd.choice([1, 2]), rnd.getrandbits(2)) if nested else "-", rnd.choice(["-", "-", "P"]) if nested else "-")

        def frame(ver, typ, idspec, layout, success=None):
            return ("R", ver, typ, idspec, layout) + stat(success)

        def history(n):
            steps, exp, outstanding, gone, started, nforeign = [], {}, [], [], 0, 0
            nw, nw_open = [], []      # SendNoWait messages sent / not yet answered by the reader
            budget = 6 + 4 * n
            while started < n or outstanding:
                budget -= 1
                acts = []
                if started < n:
                    acts += ["start"] * 3
                if outstanding:
                    acts += ["reply"] * (3 if budget > 0 else 50) + ["abandon", "ri"]
                if gone and budget > 0:
                    acts += ["stale"] * 3
                if budget > 0:
                    acts += ["foreign"]
                    if len(nw) < 5:
                        acts += ["nowait"] * 2
                    if nw_open:
                        acts += ["nwanswer"] * 3
                    elif nw:
                        acts += ["nwanswer"]
                act = rnd.choice(acts)
                ver = rnd.randrange(8)
                # the payload of a frame that is not the own reply is laid out as what a waiting caller expects, so that a
                # wrong hand-over would decode
                lay = exp[outstanding[0]] if outstanding else rnd.choice(st)
                if act == "start":
                    exp[started] = rnd.choice(st)
                    steps.append(("S", started, exp[started]))
                    outstanding.append(started)
                    started += 1
                elif act == "abandon":
                    k = outstanding.pop(rnd.randrange(len(outstanding)))
                    steps.append(("A", k))
                    gone.append(k)
                elif act == "reply":
                    k = outstanding.pop(rnd.randrange(len(outstanding)))
                    x = rnd.random()
                    typ = exp[k] if x < 0.7 else (ERRMSG if x < 0.9 else rnd.choice([t for t in REPLY_TYPES if t not in (exp[k], ERRMSG)]))
                    steps.append(frame(ver, typ, "k%d" % k, exp[k]))
                    gone.append(k)
                elif act == "stale":
                    k = rnd.choice(gone)
                    typ = rnd.choice([ERRMSG, ERRMSG, lay, exp[k], rnd.choice(REPLY_TYPES)])
                    steps.append(frame(ver, typ, "k%d" % k, lay, success=False if typ == ERRMSG else None))
                elif act == "foreign":
                    nforeign += 1
                    typ = rnd.choice([ERRMSG, ERRMSG, lay, rnd.choice(REPLY_TYPES)])
                    spec = rnd.choice(["f%d" % rnd.randrange(1, 1 << 20)] * 3 + ["f%d" % 0xBFFFFFFF, "m1", "m2", "m%d" % rnd.randrange(3, 50), "z0", "z0"])
                    steps.append(frame(ver, typ, spec, lay, success=False if typ == ERRMSG else None))
                elif act == "ri":
                    k = rnd.choice(outstanding)
                    steps.append(frame(ver, rnd.choice(READER_INITIATED), "k%d" % k, exp[k]))
                elif act == "nowait":      # a fire-and-forget message; a real reader answers it all the same
                    k = 100 + len(nw)
                    nw.append(k)
                    nw_open.append(k)
                    steps.append(("N", k, rnd.choice(NOWAIT_TYPES)))
                elif act == "nwanswer":
                    k = nw_open.pop(rnd.randrange(len(nw_open))) if nw_open else rnd.choice(nw)
                    typ = rnd.choice([lay, lay, ERRMSG, rnd.choice(REPLY_TYPES)])
                    steps.append(frame(ver, typ, "k%d" % k, lay, success=None if typ != ERRMSG else False))
            return steps
        for nv in (1, 2, 3, 4):
            hs = []
            # fixed families first: (a) request abandoned, its late answer (ERROR_MESSAGE / expected type / other) arrives while
            # exactly one other request is outstanding; (b) a frame with an id no request carried; (c) an answer repeated
            for typ_kind in ("errmsg", "exp", "other"):
                for own_ok in (True, False):
                    for rep_ in range(2 if not self.thorough else 6):
                        e0, e1 = rnd.choice(st), rnd.choice(st)
                        t = ERRMSG if typ_kind == "errmsg" else (e1 if typ_kind == "exp" else rnd.choice([x for x in REPLY_TYPES if x not in (e1, ERRMSG)]))
                        hs.append([("S", 0, e0), ("A", 0), ("S", 1, e1), frame(rnd.randrange(8), t, "k0", e1, success=False if t == ERRMSG else None),
                                   frame(rnd.randrange(8), e1, "k1", e1, success=own_ok)])
                        hs.append([("S", 0, e1), frame(rnd.randrange(8), t, "f%d" % rnd.randrange(1, 1 << 20), e1, success=False if t == ERRMSG else None),
                                   frame(rnd.randrange(8), e1, "k0", e1, success=own_ok)])
                        hs.append([("S", 0, e0), frame(rnd.randrange(8), e0, "k0", e0), ("S", 1, e1),
                                   frame(rnd.randrange(8), t, "k0", e1, success=False if t == ERRMSG else None), frame(rnd.randrange(8), e1, "k1", e1, success=own_ok)])
            # (d) SendNoWait messages before / between requests, answered by the reader while a request is outstanding: the answer to
            #     a fire-and-forget message (Success or failure, same layout as the awaited reply) is not the request's reply
            for n_before in range(0, 4):
                for n_between in range(0, 3):
                    if n_before + n_between == 0:
                        continue
                    for own_ok in (True, False):
                        e0, e1 = rnd.choice(st), rnd.choice(st)
                        h = [("N", 100 + i, rnd.choice(NOWAIT_TYPES)) for i in range(n_before)]
                        if n_between:
                            h += [("S", 0, e0), frame(rnd.randrange(8), e0, "k0", e0)]
                            h += [("N", 100 + n_before + i, rnd.choice(NOWAIT_TYPES)) for i in range(n_between)]
                        kk = 1 if n_between else 0
                        h.append(("S", kk, e1))
                        for i in range(n_before + n_between):      # the reader's answers to the fire-and-forget messages: the opposite of the own reply
                            h.append(frame(rnd.randrange(8), e1, "k%d" % (100 + i), e1, success=not own_ok))
                        h.append(frame(rnd.randrange(8), e1, "k%d" % kk, e1, success=own_ok))
                        hs.append([("F",)] + h)      # on a fresh connection: which ids collide depends on how many messages went before
                        if n_between == 0:
                            hs.append(h)
            for i in range(900 if self.thorough else 220):
                h = history(1 + i % 4)
                hs.append(([("F",)] if i % 3 == 0 else []) + h)
            out[nv] = hs
        return out

    def build_large(self, limit):
        """status-bearing replies of every size around the buffering limit (MaxBufferedPayloadSz, read from the package): the
        LLRPStatus followed by Custom parameters as padding, sent completely. (exp, code, desc, fe, pe, mode, total payload bytes).
        Only response types that end in a list of Custom parameters can be that large and well-formed (an ERROR_MESSAGE cannot:
        its only parameter is the LLRPStatus, at most 65535 bytes)."""
        rnd, out = self.rnd, []
        sizes = list(range(limit - 24, limit + 3)) + [limit // 2, limit - 4096, limit - 1000, limit + 11, limit + 4096, 2 * limit]
        if self.thorough:
            sizes += list(range(limit - 300, limit - 24, 7)) + [65536, 65535 + 8, 131072]
        for e in (12, 11):
            for total in sizes:
                for c, d_, f_, p_ in ((0, "-", "-", "-"), (rnd.choice([100, 101, 201, 401]), "6f6f7073", "2.300", "137.201.1.301"), (rnd.randrange(1, 65536), "-", "-", "-")):
                    if e == 11 and c != 0 and d_ == "-" and not self.thorough:
                        continue
                    out.append((e, c, d_, f_, p_, "z", total))
        return out

    def build_cuts(self):
        """the awaited reply does not arrive completely: the frame header announces the whole payload, the connection ends after
        `cut` bytes of it — at EVERY offset (inside the LLRPStatus header, the code, the description, nested FieldError /
        ParameterError) — by an orderly close, a TCP reset, or the reader going silent until the Client's read deadline.
        Each case several times (what the caller sees first when the connection dies is a race).
        (exp, act, code, desc, fe, pe, mode, cut, end); the payload length is reported by the harness"""
        rnd, out = self.rnd, []
        shapes = [("-", "-", "-", 8), ("6f6f7073", "-", "-", 12), ("-", "1.300", "-", 16), ("6e6f", "2.300", "137.201.1.301", 34)]
        reps = 6 if self.thorough else 4
        for e in (30, 31, 56, rnd.choice([t for t in self.stypes if t not in (30, 31, 56, ERRMSG)])):
            for a in (e, ERRMSG):
                lead = 2 if (e == 56 and a == e) else 0
                for d_, f_, p_, ln in shapes:
                    for c in (101, 0, rnd.randrange(1, 65536)):
                        for cut in range(0, ln + lead):
                            for end in ("eof", "reset"):
                                if end == "reset" and (e != 30 or cut % 2):
                                    continue
                                for _ in range(reps if (ln == 8 or cut in (4, 5, 6, 7)) else 1):
                                    out.append((e, a, c, d_, f_, p_, "z", cut, end))
        for cut in (0, 3, 4, 5, 6, 7):
            for c in (101, 0):
                out.append((30, 30, c, "-", "-", "-", "z", cut, "deadline"))
        out.append((30, ERRMSG, 101, "6f", "-", "-", "z", 6, "deadline"))
        return out

    def build_driver(self):
        """the device service's exchanges (internal/driver): every one goes through LLRPDevice.TrySend.
        returns list of request tuples: ('t', exp, act, code, desc, fe, pe, mode) TrySend itself with every status-bearing
        response type; ('r', resource, exp, act, ...) Driver.HandleReadCommands; ('w', command, exp, act, ...)
        Driver.HandleWriteCommands; ('o', act, code, ...) the exchange the device performs itself after connecting."""
        rnd, out = self.rnd, []
        others = lambda e: [t for t in REPLY_TYPES if t not in (e, ERRMSG)]
        codes = self.sample_codes(400 if self.thorough else 70)

        def status(c):
            nested = rnd.random() < 0.25          # also with Success: attached details do not make a Success reply a failure
            return (c, rnd.choice(["-", "6f6f7073"]) if c else "-", self.fe(1) if nested else "-", self.pe(rnd.choice([1, 2, 3]), rnd.getrandbits(3)) if nested else "-",
                    "z" + (rnd.choice(["", "P", "I", "PI"]) if nested else "") + ("V%d" % rnd.randrange(8) if rnd.random() < 0.2 else ""))
        for e in self.stypes:
            for c in codes:
                out.append(("t", e, e) + status(c))
                if e != ERRMSG and c != 0:
                    out.append(("t", e, ERRMSG) + status(c))
            for a in rnd.sample(others(e), 3):
                out.append(("t", e, a) + status(rnd.choice([0, 101])))
        lo, hi = (0, 65536) if self.thorough else (0, 3000)
        for c in range(lo, hi):                      # a dense stretch of codes on one type
            out.append(("t", 31, 31, c, "-", "-", "-", "z"))
        # TrySend's retry on a closed client: the reader drops the connection when the command arrives and answers the re-sent one
        for c in (0, 101, 201, 65535):
            out.append(("t", 30, 30) + status(c)[:4] + ("zD",))
        out.append(("t", 35, ERRMSG, 300, "6f", "-", "-", "zD"))
        reads = [("ReaderConfig", 12), ("ReaderCapabilities", 11), ("ROSpec", 36), ("AccessSpec", 54)]
        writes = [("ROSpecID:Enable", 34), ("ROSpecID:Start", 32), ("ROSpecID:Stop", 33), ("ROSpecID:Disable", 35), ("ROSpecID:Delete", 31),
                  ("AccessSpecID:Enable", 52), ("AccessSpecID:Disable", 53), ("AccessSpecID:Delete", 51),
                  ("ReaderConfig", 13), ("ROSpec", 30), ("AccessSpec", 50), ("Custom", 1023)]
        few = self.sample_codes(120 if self.thorough else 46)
        for kind, table in (("r", reads), ("w", writes)):
            for name, e in table:
                for c in few[::1 if kind == "r" else 2]:
                    if e != 1023:
                        out.append((kind, name, e, e) + status(c))
                    if c != 0:
                        out.append((kind, name, e, ERRMSG) + status(c))
                if e == 1023:
                    out.append((kind, name, e, e, 0, "-", "-", "-", "z"))
                for a in rnd.sample(others(e), 2):
                    out.append((kind, name, e, a) + status(rnd.choice([0, 101])))
        for c in (0, 101, 201, 300, 401, rnd.randrange(1, 65536), 65535):
            out.append(("o", 13, c, "-" if c % 2 else "6f", "-", "-", "z"))
        out.append(("o", ERRMSG, 101, "6f", "1.2", "-", "z"))
        out.append(("o", 30, 0, "-", "-", "-", "z"))
        out.append(("o", 13, 0, "-", "-", "-", "zV7"))
        return out

    def build_unsolicited(self):
        """a reader-initiated frame (KeepAlive / ROAccessReport / ReaderEventNotification) that carries the id of the
        outstanding request arrives before the real reply: (exp, pre, code, desc, fe, pe, mode)"""
        out = []
        for e in self.stypes:
            for pre in READER_INITIATED:
                codes = [0, 101] + ([self.rnd.randrange(1, 65536) for _ in range(6)] if self.thorough else [self.rnd.randrange(1, 65536)])
                for c in codes:
                    out.append((e, pre, c, "6c617465", "-", "-", "z"))
                out.append((e, pre, 201, "6e6573746564", self.fe(1), self.pe(3, 5), "z"))
        return out


DRV_PATH = {"t": "trysend", "r": "read", "w": "write", "o": "onconnect"}


def driver_part(res, drv, fail, stats, dist, samples):
    """runs the device-service exchanges on the real Driver (harness/driver/c12_test.go) and judges each with the same
    predicate and the same decision function (through Client/StatusDriver.v: try_send). returns True if the run itself failed"""
    ok, log, exe = vlib.build_harness("driver", PID, ["c12_test.go"])
    if not ok:
        res.violation("harness-build:driver", "Go harness for internal/driver does not build against the repository: " + log[-1500:], dict(kind="build"), False)
        return True

    def line(c):
        return " ".join(str(x) for x in ((c[0], c[1]) + c[3:] if c[0] in ("r", "w") else c))

    def run(cases, tag):
        rc, gl, glog = vlib.run_harness(exe, "TestVerifC12Driver", "\n".join(line(c) for c in cases) + "\n", timeout=1200, tag=tag)
        return rc, gl, glog
    rc, gl, glog = run(drv, "d")
    if rc != 0 or len(gl) != len(drv):
        res.violation("harness-run:driver", "Go harness for internal/driver failed (rc=%s, %d of %d answers): %s" % (rc, len(gl), len(drv), glog[-1500:]),
                      dict(kind="harness", log=glog[-3000:]), False)
        return True
    # the model: try_send 3 [AOutcome (send_for_outcome e a decoded)] (after one dropped connection: 1 or 2 retried attempts first)
    oreq, omap = [], []
    for c in drv:
        if c[0] == "o":
            e, a, st = 13, c[1], c[2:6]
        elif c[0] == "t":
            e, a, st = c[1], c[2], c[3:7]
        else:
            e, a, st = c[2], c[3], c[4:8]
        oreq.append("ts 3 0 %d %d %d %s %s %s" % ((e, a) + tuple(st)))
        omap.append((e, a, st))
    orc, oout = vlib.run_oracle("c12", "\n".join(oreq) + "\n", timeout=600)
    ol = oout.split("\n")
    if orc != 0 or len(ol) < len(drv):
        res.violation("harness-run:driver", "oracle failed on the device-service exchanges (rc=%s)" % orc, dict(kind="harness"), False)
        return True
    stats.update(exchanges=0, nontrivial=0, per_path={}, retried_after_drop=0)
    seen = set()
    redo = []
    for idx, (c, g, o, (e, a, st)) in enumerate(zip(drv, gl, ol, omap)):
        path = DRV_PATH[c[0]]
        code = st[0]
        scripted = "%d %s %s %s" % tuple(st)
        mode = c[-1]
        case = ["d"] + list(c)
        stats["exchanges"] += 1
        stats["per_path"][path] = stats["per_path"].get(path, 0) + 1
        key = line(c)
        if key not in seen and (code != 0 or a != e):
            seen.add(key)
            stats["nontrivial"] += 1
        br = branch_of(e, a)
        dist["driver:%s:%s" % (path, br)] = dist.get("driver:%s:%s" % (path, br), 0) + 1
        desc = {"t": "LLRPDevice.TrySend with a response value of type %d" % e,
                "r": "Driver.HandleReadCommands(%s) (expects type %d)" % (c[1], e),
                "w": "Driver.HandleWriteCommands(%s) (expects type %d)" % (c[1], e),
                "o": "the device's own SET_READER_CONFIG exchange after connecting (expects type 13)"}[c[0]]
        what = "%s: the reader answers with type %d, status [%s]%s" % (desc, a, scripted[:200], ", header version " + mode[mode.index("V") + 1] if "V" in mode else "")
        if "D" in mode:
            what += " (after dropping the connection once when the command first arrived)"
            stats["retried_after_drop"] += 1
        pfx = "driver:%s:" % path
        model_err = o.split(" ")[0] != "nil"
        if c[0] == "o":
            gt = g.split(" ")
            if a == ERRMSG and code == 0:
                continue
            want = 2 if model_err else 1
            got = int(gt[1]) if len(gt) == 2 and gt[0] == "conns" and gt[1].isdigit() else -1
            if got != want:
                redo.append((idx, want, got, what, case))
            continue
        gt = g.split(" ")
        if len(gt) != 14:
            fail("harness-answer", "unexpected driver harness answer: " + g[:200], False, case, g[:300], o[:300])
            continue
        if gt[0] == "noexchange" and "D" in mode:
            stats["gave_up_after_drop"] = stats.get("gave_up_after_drop", 0) + 1
            continue      # the allowed attempts ran out before the re-sent command reached the reader
        if gt[0] == "noexchange":
            fail(pfx + "no-exchange", what + ": the command returned without performing its exchange", False, case, g[:300], o[:300])
            continue
        if int(gt[13]) != e:
            fail(pfx + "other-response-type", what + ": the exchange used a response value of type %s" % gt[13], False, case, g[:300], o[:300])
            continue
        if len([x for x in samples if x.get("scenario") == "device service"]) < 3 and code in (0, 101) and c[0] != "t":
            samples.append(dict(scenario="device service", call=desc, reply_type=a, status=scripted, go=g, model=o))
        g13 = gt[:13]
        if g13[5] == "na":
            g13 = g13[:5] + ["same"] + g13[6:]        # the command keeps its response value to itself: not observable
        if "D" in mode and g13[0] in ("other", "timeout"):
            stats["gave_up_after_drop"] = stats.get("gave_up_after_drop", 0) + 1
            continue      # attempts ran out while the connection was being re-established: an error without a status is allowed
        bad = prop_check(e, a, code, scripted, g13) or render_check(br, g13)
        if bad:
            fail(pfx + bad[0], what + ": " + bad[1] + "; observed [%s]" % g[:300], True, case, g[:300], o[:300])
            continue
        if "D" in mode:
            continue
        merr, msame, min_ = model_expect(o, "z")
        if " ".join(gt[0:5]) != merr or (c[0] == "t" and ((msame and gt[5] != msame) or (min_ and " ".join(gt[6:10]) != min_))):
            fail("model-differs:" + pfx + br, what + ": Go [%s] differs from the model [%s] where the property does not constrain it" % (g[:300], o[:300]),
                 False, case, g[:300], o[:300])
    # onConnect is observed through its effect (connection reset or not): a deviating case is re-run alone, twice, before it is believed
    for idx, want, got, what, case in redo[:6]:
        again = []
        for k in range(2):
            rc2, gl2, _ = run([drv[idx]], "o%d_%d" % (idx, k))
            again.append(gl2[0] if rc2 == 0 and gl2 else "-")
        gots = [got] + [int(x.split()[1]) if x.startswith("conns ") and x.split()[1].isdigit() else -1 for x in again]
        if all(x != want for x in gots):
            if want == 2 and all(x == 1 for x in gots):
                sig, text = "nonzero-status-not-error" if case[2] in (13, ERRMSG) else "mismatch-not-error", "the device carried on as after a successful exchange (connection not reset)"
                if case[2] == ERRMSG:
                    sig = "errmsg-not-error"
            elif want == 1 and all(x == 2 for x in gots):
                sig, text = "success-reported-as-error", "the device reset the connection as after a failed exchange"
            else:
                sig, text = "no-outcome", "connections opened: %s (expected %d)" % (gots, want)
            fail("driver:onconnect:" + sig, what + ": " + text, True, case, "conns %s" % gots, "conns %d" % want)
    return False


def run(tier, seed, replay=None):
    res = vlib.Result(PID, tier, seed)
    res.assumptions = vlib.TRUSTED_COMMON + [
        "the model covers the decision SendFor takes after SendMessage returned (type, payload) and, since round 5, which frame becomes "
        "the reply of a request (Client/StatusExchange.v: matched by id while the request is outstanding, header version ignored); "
        "goroutine interleavings of that hand-over are C03's subject, decoding of LLRPStatus bytes is tied here only through the scripted peer",
        "the scripted peer's own framing / TLV encoder (harness/llrp/c12_test.go, harness/driver/c12_test.go) produces well-formed LLRP bytes",
        "device service: an error 'exposes' the status if a *StatusError is reachable through errors.As or among the attempt errors kept in the exported "
        "field Others of the *retry.FError that TrySend's retry wrapper returns; onConnect's exchange is observed through its effect (connection reset or not)",
        "caller-visible error = nil / errors.As(*StatusError) fields / other; error text is not compared",
        "response value 'untouched' is observed as reflect.DeepEqual with an identically built value (zero or sentinel-filled)",
    ]
    res.coverage.update(evaluations=0, distinct_nontrivial=0, rule="(run ended before any exchange)", samples=[], trusted_base=res.assumptions)
    vlib.proof_part(res, PID)
    rc, log = vlib.build_oracle("c12")
    if rc != 0:
        res.violation("oracle-build", "oracle for C12 does not build: " + log[-800:], dict(kind="build"), False)
        return res.finish()
    ok, log, exe = vlib.build_harness("llrp", PID, ["c12_test.go"])
    if not ok:
        res.violation("harness-build", "Go harness does not build against the repository: " + log[-1500:], dict(kind="build"), False)
        return res.finish()

    # which message types carry a status: model list vs reflection over the real package
    rc, gl, glog = vlib.run_harness(exe, "TestVerifC12", "types\n", timeout=120, tag="t")
    orc, oout = vlib.run_oracle("c12", "types\n")
    if rc != 0 or len(gl) != 1 or orc != 0:
        res.violation("harness-run", "Go harness / oracle failed on 'types' (rc=%s/%s): %s" % (rc, orc, glog[-1500:]),
                      dict(kind="harness", log=glog[-3000:]), False)
        return res.finish()
    go_types = [int(x) for x in gl[0].split()]
    model_types = [int(x) for x in oout.split()]
    if sorted(go_types) != sorted(model_types):
        res.violation("status-types-differ", "message types with a Status() method: Go %s, model %s" % (go_types, model_types),
                      dict(kind="correspondence", correspondence="C12/Statusable-vs-status_types", go=go_types, model=model_types), False)
    stypes = sorted(set(model_types) | set(go_types))

    thorough = tier == "thorough"
    if replay:
        rp = json.load(open(replay))
        groups = [("reused" if (str(c[6]).startswith("s") and c[0] == c[1]) else "replay", c[0], c[1], c[2], c[2] + 1, c[3], c[4], c[5], c[6])
                  for c in rp.get("cases", []) if len(c) == 7]
        unsol = [tuple(c[:7]) for c in rp.get("cases", []) if len(c) == 8 and c[7] == "u"]
        # the concurrent scenario depends on scheduling: a replayed round is repeated
        conc = [(c[1], c[2], [tuple(x) for x in c[3]]) for c in rp.get("cases", []) if len(c) == 4 and c[0] == "c"] * 60
        internal = [tuple(c[1:]) for c in rp.get("cases", []) if len(c) == 8 and c[0] == "i"]
        unsol = [u for u in unsol if u[0] != "i"]
        by_cfg = {rp.get("config", "none"): groups}
        do_dt = False
        undec = [tuple(c[1:4]) for c in rp.get("cases", []) if len(c) == 4 and c[0] == "y"]
        drv = [tuple(c[1:]) for c in rp.get("cases", []) if len(c) >= 7 and c[0] == "d"]
        cuts = [tuple(c[1:]) for c in rp.get("cases", []) if len(c) == 10 and c[0] == "k"] * 12
        large = [tuple(c[1:]) for c in rp.get("cases", []) if len(c) == 8 and c[0] == "L"]
        hists = {}
        for c in rp.get("cases", []):
            if len(c) == 3 and c[0] == "h":
                hists.setdefault(int(c[1]), []).extend([[tuple(x) for x in c[2]]] * 20)
    else:
        gen = Gen(seed, thorough, stypes)
        groups = gen.build()
        unsol = gen.build_unsolicited()
        conc = gen.build_concurrent()
        internal = gen.build_internal()
        by_cfg = {"none": groups}
        for n, cfg in enumerate(CONFIGS[1:]):
            by_cfg[cfg] = Gen(seed + 1000 * (n + 1), thorough, stypes).build(light=True)
        for nv, g in gen.build_versions().items():
            by_cfg["none@%d" % nv] = g
        undec = gen.build_undecodable()
        hists = gen.build_histories()
        drv = gen.build_driver()
        cuts = gen.build_cuts()
        large = None
        do_dt = True

    fails = {}            # signature -> [count, text, found_input, [cases]]
    dist, evals, nontriv = {}, 0, 0
    rkeys, xset = set(), set()
    samples, want_samples = [], {"codes": 2, "pairs": 2, "shapes": 2, "descriptions": 1, "replay": 3, "versions": 2}
    seen_depth, seen_desc_len, seen_pairs, codes_full = 0, 0, set(), 0

    def fail(sig, text, found, case, go, expect, cfg="none"):
        f = fails.setdefault(sig, [0, text, found, [], go, expect, cfg])
        f[0] += 1
        if case and case[0] == "h" and f[3] and len(text) < len(f[1]):     # show the shortest failing history
            f[1], f[4], f[5] = text, go, expect
            f[3].insert(0, case)
            del f[3][5:]
        elif len(f[3]) < 5:
            f[3].append(case)

    inj = {}              # sweep over codes -> {text hash: code}: the error's text must tell the codes apart
    render_stats = dict(errors_rendered=0, observers="Error, fmt %v %+v %s, errors.Unwrap chain, errors.Is/As, StatusError.Error, "
                        "StatusCode.String, FieldError.Error, ParameterError.Error (every level)")
    cfg_stats = {}
    work = [(cfg, g) for cfg, g in by_cfg.items()]
    groups, i, cfg, pfx, hcfg, nv = [], 0, "none", "", "none", 1
    while i < len(groups) or work:
        if i >= len(groups):
            cfg, groups = work.pop(0)
            hcfg, nv = (cfg.split("@") + ["1"])[:2]
            nv = int(nv)
            i, pfx = 0, ("" if hcfg == "none" else "handlers=%s:" % hcfg)
            if not groups:
                continue
        batch, n = [], 0
        while i < len(groups) and (n == 0 or n + groups[i][4] - groups[i][3] <= BATCH):
            batch.append(groups[i]); n += groups[i][4] - groups[i][3]; i += 1
        greq, oreq = [], []
        for kind, e, a, lo, hi, d, f, p, mode in batch:
            if hi - lo == 1:
                greq.append("x %d %d %d %s %s %s %s" % (e, a, lo, d, f, p, mode))
                oreq.append("x %d %d %d %s %s %s" % (e, a, lo, d, f, p))
            else:
                greq.append("r %d %d %d %d %s %s %s %s" % (e, a, lo, hi, d, f, p, mode))
                oreq.append("r %d %d %d %d %s %s %s" % (e, a, lo, hi, d, f, p))
        rc, gl, glog = vlib.run_harness(exe, "TestVerifC12", "cfg %s\nnv %d\n" % (hcfg, nv) + "\n".join(greq) + "\n", timeout=1500,
                                        tag="b%s%d" % (cfg.replace("@", "v"), i))
        gl = gl[2:]           # answers to the cfg and nv lines
        orc, oout = vlib.run_oracle("c12", "\n".join(oreq) + "\n", timeout=1500)
        ol = oout.split("\n")
        if ol and ol[-1] == "":
            ol.pop()
        if rc != 0 or len(gl) != n or orc != 0 or len(ol) != n:
            res.violation("harness-run", "Go harness / oracle failed (rc=%s/%s, %d and %d of %d answers): %s" % (
                rc, orc, len(gl), len(ol), n, glog[-1500:]), dict(kind="harness", log=glog[-3000:]), False)
            return res.finish()
        k = 0
        for kind, e, a, lo, hi, d, f, p, mode in batch:
            tail = " %s %s %s" % (d, f, p)
            br = branch_of(e, a)
            if hi - lo > 1:
                rkeys.add((cfg, e, a, d, f, p))
                nontriv += (hi - lo) - (1 if (lo == 0 and a == e) else 0)
                codes_full += hi - lo
                ikey = ("codes", cfg, e, a, d, f, p)
            elif (mode[1:] or (cfg, e, a, d, f, p) not in rkeys) and (cfg, e, a, lo, d, f, p, mode[1:]) not in xset:
                xset.add((cfg, e, a, lo, d, f, p, mode[1:]))
                if lo != 0 or a != e:
                    nontriv += 1
            if hi - lo == 1:
                ikey = ("nested-codes", cfg, e, a) if kind == "nested-codes" else None
            dist[pfx + kind + ":" + br] = dist.get(pfx + kind + ":" + br, 0) + hi - lo
            cfg_stats[cfg] = cfg_stats.get(cfg, 0) + hi - lo
            seen_pairs.add((e, a))
            if p != "-":
                seen_depth = max(seen_depth, p.count(",") + 1)
            if d != "-":
                seen_desc_len = max(seen_desc_len, len(d) // 2)
            for c in range(lo, hi):
                g, o = gl[k], ol[k]
                k += 1
                evals += 1
                gt = g.split(" ")
                case = [e, a, c, d, f, p, mode]
                if len(gt) != 13:
                    fail("harness-answer", "unexpected harness answer: " + g[:200], False, case, g[:300], o[:300], cfg)
                    continue
                if gt[0] == "skipped":
                    fail(pfx + "harness-skipped", "exchanges not run because earlier ones timed out or panicked", False, case, g, o[:300], cfg)
                    continue
                scripted = str(c) + tail
                if want_samples.get(kind, 0) > 0 and (c in (0, 101, 65535) or kind != "codes") and len(g) < 300:
                    want_samples[kind] -= 1
                    samples.append(dict(expected_type=e, reply_type=a, status=scripted, response_prefill=mode, go=g, model=o))
                what = "SendFor%s expecting type %d, reply type %d with status [%s]" % (
                    "" if hcfg == "none" else " (client with handlers '%s')" % hcfg, e, a, scripted[:200])
                vp = ""
                if "V" in mode or nv != 1:
                    vp = "header-version:"
                    what += "; reply header stamped with LLRP version %s, connection version: %s" % (
                        mode[mode.index("V") + 1] if "V" in mode else "1 (default)", NEGOTIATED[nv])
                if kind == "reused":
                    bad = reuse_check(c, d, f, p, gt) or render_check(br, gt)
                    if bad:
                        fail(pfx + bad[0], "%s; the response value passed in was used before (holds status 48879 'sentinel' with nested details): %s; Go returned [%s]" % (
                            what, bad[1], g[:300]), True, case, g[:300], o[:300], cfg)
                    continue
                bad = prop_check(e, a, c, scripted, gt) or render_check(br, gt)
                if bad:
                    fail(pfx + vp + bad[0], "%s: %s; Go returned [%s]" % (what, bad[1], g[:300]), True, case, g[:300], o[:300], cfg)
                    continue
                if gt[0] in ("status", "other"):
                    render_stats["errors_rendered"] += 1
                if gt[0] == "status" and ikey is not None:
                    seen = inj.setdefault(ikey, {})
                    other = seen.setdefault(gt[12], (c, f))
                    if other != (c, f):
                        fail(pfx + "error-text-ambiguous-code", "%s: the error's text is the same as for %s — the text does not expose the code" % (
                            what, other), True, case, g[:300], o[:300], cfg)
                        continue
                merr, msame, min_ = model_expect(o, mode)
                if " ".join(gt[0:5]) != merr or (msame and gt[5] != msame) or (min_ and " ".join(gt[6:10]) != min_):
                    fail(pfx + "model-differs:" + br, "%s: Go [%s] differs from the model [%s] where the property does not constrain it" % (
                        what, g[:300], o[:300]), False, case, g[:300], o[:300], cfg)

    # reader-initiated frame with the request's id, then the real reply. Two behaviours satisfy C12:
    #  (a) the frame is not a reply (current /repo): SendFor's outcome is that of the real reply;
    #  (b) the frame is handed to the caller as the reply (before the C03 fix; that is C03's subject): SendFor reports
    #      a type mismatch and leaves the response value alone, as for any reply of an unrelated type.
    unsol_seen = {"not-a-reply": 0, "delivered-as-reply": 0}
    if unsol:
        greq = ["u %d %d %d %s %s %s %s" % c for c in unsol]
        oreq = [q for (e, pre, c, d, f, p, m) in unsol for q in ("x %d %d %d %s %s %s" % (e, e, c, d, f, p),
                                                                  "x %d %d %d %s %s %s" % (e, pre, c, d, f, p))]
        rc, gl, glog = vlib.run_harness(exe, "TestVerifC12", "\n".join(greq) + "\n", timeout=600, tag="u")
        orc, oout = vlib.run_oracle("c12", "\n".join(oreq) + "\n", timeout=600)
        ol = oout.split("\n")
        if rc != 0 or len(gl) != len(unsol) or orc != 0 or len(ol) < 2 * len(unsol):
            res.violation("harness-run", "Go harness / oracle failed on the reader-initiated scenario (rc=%s/%s, %d of %d answers): %s" % (
                rc, orc, len(gl), len(unsol), glog[-1500:]), dict(kind="harness", log=glog[-3000:]), False)
            return res.finish()
        for k, (e, pre, c, d, f, p, mode) in enumerate(unsol):
            g, o_a, o_b = gl[k], ol[2 * k], ol[2 * k + 1]
            gt = g.split(" ")
            case = [e, pre, c, d, f, p, mode, "u"]
            evals += 1
            nontriv += 1
            dist["unsolicited:%d" % pre] = dist.get("unsolicited:%d" % pre, 0) + 1
            scripted = "%d %s %s %s" % (c, d, f, p)
            what = "SendFor expecting type %d; a type-%d frame with the request's id, then the reply of type %d with status [%s]" % (e, pre, e, scripted[:200])
            if len(gt) != 13:
                fail("harness-answer", "unexpected harness answer: " + g[:200], False, case, g[:300], o_a[:300])
                continue
            if gt[0] == "skipped":
                fail("harness-skipped", "exchanges not run because earlier ones timed out or panicked", False, case, g, o_a[:300])
                continue
            if gt[0] in ("panic", "timeout"):
                fail("no-outcome:unsolicited:" + gt[0], what + ": SendFor did not return an outcome (%s)" % gt[0], True, case, g[:300], o_a[:300])
                continue
            if gt[0] == "other" and gt[5] == "same":
                beh, o = "delivered-as-reply", o_b
            else:
                beh, o = "not-a-reply", o_a
                bad = prop_check(e, e, c, scripted, gt) or render_check("expected", gt)
                if bad:
                    fail("unsolicited:" + bad[0], what + ": " + bad[1] + "; Go returned [%s]" % g[:300], True, case, g[:300], o_a[:300])
                    continue
            unsol_seen[beh] += 1
            if len([x for x in samples if x.get("scenario") == "reader-initiated frame first"]) < 2:
                samples.append(dict(scenario="reader-initiated frame first", expected_type=e, frame_type=pre, status=scripted,
                                    go=g, model=o, behaviour=beh))
            merr, msame, min_ = model_expect(o, mode)
            if " ".join(gt[0:5]) != merr or (msame and gt[5] != msame) or (min_ and " ".join(gt[6:10]) != min_):
                fail("model-differs:unsolicited", what + ": Go [%s] differs from the model [%s] where the property does not constrain it" % (
                    g[:300], o[:300]), False, case, g[:300], o[:300])
        if unsol_seen["delivered-as-reply"]:
            res.notes.append("%d reader-initiated frames (KeepAlive/ROAccessReport/ReaderEventNotification) carrying the request's id were "
                             "handed to SendFor as the reply; SendFor reported a type mismatch and left the response untouched, which is "
                             "all C12 asks of it (mis-delivery itself is C03's subject)" % unsol_seen["delivered-as-reply"])

    # replies that do not decode (the model's DecFail branches): the exchange must still report — an error, never success
    undec_stats = dict(exchanges=0, max_len=0)
    if undec:
        greq = ["y %d %d %s z" % c for c in undec]
        rc, gl, glog = vlib.run_harness(exe, "TestVerifC12", "cfg none\nnv 1\n" + "\n".join(greq) + "\n", timeout=900, tag="y")
        gl = gl[2:]
        orc, oout = vlib.run_oracle("c12", "\n".join("xf %d %d" % c[:2] for c in undec) + "\n", timeout=600)
        ol = oout.split("\n")
        if rc != 0 or len(gl) != len(undec) or orc != 0 or len(ol) < len(undec):
            res.violation("harness-run", "Go harness / oracle failed on the undecodable replies (rc=%s/%s, %d of %d answers): %s" % (
                rc, orc, len(gl), len(undec), glog[-1500:]), dict(kind="harness", log=glog[-3000:]), False)
            return res.finish()
        for (e, a, hx), g, o in zip(undec, gl, ol):
            gt = g.split(" ")
            case = ["y", e, a, hx]
            br = branch_of(e, a)
            n = 0 if hx == "-" else len(hx) // 2
            evals += 1
            nontriv += 1
            undec_stats["exchanges"] += 1
            undec_stats["max_len"] = max(undec_stats["max_len"], n)
            dist["undecodable:" + br] = dist.get("undecodable:" + br, 0) + 1
            what = "SendFor expecting type %d, reply of type %d whose %d-byte payload does not decode (%s%s)" % (e, a, n, hx[:80], "..." if len(hx) > 80 else "")
            if len(gt) != 13:
                fail("harness-answer", "unexpected harness answer: " + g[:200], False, case, g[:300], o[:300])
            elif gt[0] == "skipped":
                fail("harness-skipped", "exchanges not run because earlier ones timed out or panicked", False, case, g, o[:300])
            elif gt[0] in ("panic", "timeout"):
                fail("no-outcome:undecodable:%s:%s" % (br, gt[0]), what + ": SendFor did not return an outcome (%s)" % gt[0], True, case, g[:300], o[:300])
            elif gt[0] == "nil":
                fail("undecodable-reply-reported-as-success:" + br, what + ": reported as success", True, case, g[:300], o[:300])
            elif render_check(br, gt):
                bad = render_check(br, gt)
                fail("undecodable:" + bad[0], what + ": " + bad[1], True, case, g[:300], o[:300])
            else:
                ot = o.split(" ")
                if gt[0] != ot[0] or (ot[5] == "untouched" and gt[5] != "same"):
                    fail("model-differs:undecodable:" + br, what + ": Go [%s] differs from the model [%s] where the property does not constrain it" % (g[:300], o[:300]),
                         False, case, g[:300], o[:300])

    # exchange histories: every caller is told the outcome of its own reply (the first frame with its request's id that is
    # not reader-initiated), whatever else arrives — late answers to abandoned requests, ids nobody used, repeated answers,
    # any header version. Judged per caller by the property predicate against ITS OWN reply, and against the model.
    hist_stats = dict(histories=0, callers=0, frames_not_own_reply=0, abandoned=0)
    for nv in sorted(hists):
        hl = hists[nv]
        if not hl:
            continue
        greq, oreq, own_all = [], [], []
        for h in hl:
            gs, os_, own, exp, aband = [], [], {}, {}, set()
            wid, nwritten = {}, 0          # message (caller or SendNoWait) -> its id in the model = position of its write
            for st in h:
                if st[0] == "F":
                    continue
                if st[0] == "S":
                    gs.append("S:%d:%d:z" % (st[1], st[2]))
                    os_.append("Q:%d" % st[2])
                    wid[st[1]] = WIRE_N0 + nwritten
                    nwritten += 1
                    exp[st[1]] = st[2]
                elif st[0] == "N":
                    gs.append("N:%d:%d" % (st[1], st[2]))
                    os_.append("W")
                    wid[st[1]] = WIRE_N0 + nwritten
                    nwritten += 1
                    hist_stats["nowait_messages"] = hist_stats.get("nowait_messages", 0) + 1
                elif st[0] == "A":
                    gs.append("A:%d" % st[1])
                    os_.append("A:%d" % wid[st[1]])
                    aband.add(st[1])
                else:
                    _, ver, typ, idspec, lay, c, d, f, p_, fl = st
                    gs.append("R:%d:%d:%s:%d:%d:%s:%s:%s:%s" % (ver, typ, idspec, lay, c, d, f, p_, fl))
                    n_ = int(idspec[1:])
                    oid = {"k": lambda: wid[n_], "f": lambda: 5000000 + n_, "m": lambda: WIRE_N0 + nwritten - 1 + n_, "z": lambda: 0}[idspec[0]]()
                    os_.append("R:%d:%d:%d:%d:%s:%s:%s" % (ver, typ, oid, c, d, f, p_))
                    k = int(idspec[1:]) if idspec[0] == "k" else None
                    if k is not None and k in exp and k not in own and k not in aband and typ not in READER_INITIATED:
                        own[k] = st
                    else:
                        hist_stats["frames_not_own_reply"] += 1
            greq.append("h " + ("F " if (h and h[0] == ("F",)) else "") + " ".join(gs))
            oreq.append("hw %d %d " % (NV_MODEL[nv], WIRE_N0) + " ".join(os_))
            own_all.append((exp, own, aband, wid))
        rc, gl, glog = vlib.run_harness(exe, "TestVerifC12", "cfg none\nnv %d\n" % nv + "\n".join(greq) + "\n", timeout=900, tag="h%d" % nv)
        gl = gl[2:]
        orc, oout = vlib.run_oracle("c12", "\n".join(oreq) + "\n", timeout=600)
        ol = oout.split("\n")
        if rc != 0 or len(gl) != len(hl) or orc != 0 or len(ol) < len(hl):
            res.violation("harness-run", "Go harness / oracle failed on the exchange histories (rc=%s/%s, %d of %d answers): %s" % (
                rc, orc, len(gl), len(hl), glog[-1500:]), dict(kind="harness", log=glog[-3000:]), False)
            return res.finish()
        hkeys = set()
        for h, (exp, own, aband, wid), g, o, gline in zip(hl, own_all, gl, ol, greq):
            answers = g.split(" | ")
            model = dict(x.split("=", 1) for x in o.split(" | ") if "=" in x)
            rcase = ["h", nv, [list(x) for x in h]]
            hist_stats["histories"] += 1
            if gline not in hkeys:
                hkeys.add(gline)
                nontriv += 1
            dist["history:callers=%d" % len(exp)] = dist.get("history:callers=%d" % len(exp), 0) + 1
            if len(answers) != len(exp):
                fail("harness-answer", "unexpected harness answer: " + g[:200], False, rcase, g[:300], o[:300])
                continue
            if len([x for x in samples if x.get("scenario") == "exchange history"]) < 2 and len(g) < 500 and len(h) >= 4:
                samples.append(dict(scenario="exchange history", negotiated=NEGOTIATED[nv], steps=gline, go=answers, model=o))
            for k in sorted(exp):
                ans, gt = answers[k], answers[k].split(" ")
                m = model.get(str(wid[k]), "")
                evals += 1
                hist_stats["callers"] += 1
                what = "history [%s] (%s): caller %d expecting type %d" % (gline[2:400], NEGOTIATED[nv], k, exp[k])
                if len(gt) != 13:
                    fail("harness-answer", "unexpected harness answer: " + ans[:200], False, rcase, g[:600], o[:300])
                    continue
                if gt[0] == "skipped":
                    fail("harness-skipped", "exchanges not run because earlier ones timed out or panicked", False, rcase, g[:600], o[:300])
                    continue
                if k in own:
                    _, ver, typ, idspec, lay, c, d, f, p_, fl = own[k]
                    scripted = "%d %s %s %s" % (c, d, f, p_)
                    what += ", whose own reply is type %d with status [%s] in a frame of header version %d" % (typ, scripted[:200], ver)
                    bad = prop_check(exp[k], typ, c, scripted, gt) or render_check(branch_of(exp[k], typ), gt)
                    if bad:
                        fail("history:" + bad[0], what + ": " + bad[1] + "; the caller got [%s]; all callers: [%s]" % (ans[:200], g[:600]), True, rcase, g[:600], o[:300])
                        continue
                    merr, msame, min_ = model_expect(m, "z")
                    if " ".join(gt[0:5]) != merr or (msame and gt[5] != msame) or (min_ and " ".join(gt[6:10]) != min_):
                        fail("model-differs:history", what + ": Go [%s] differs from the model [%s] where the property does not constrain it" % (
                            ans[:300], m[:300]), False, rcase, g[:600], o[:300])
                else:
                    hist_stats["abandoned"] += 1
                    if gt[0] == "nil":
                        fail("history:success-without-reply", what + ", abandoned before any reply to it arrived: reported success; all callers: [%s]" % g[:600],
                             True, rcase, g[:600], o[:300])
                    elif gt[0] in ("panic", "timeout"):
                        fail("no-outcome:history:" + gt[0], what + ", abandoned: SendFor did not return (%s)" % gt[0], True, rcase, g[:600], o[:300])
                    elif gt[0] != "abandoned" or m != "abandoned":
                        fail("model-differs:history", what + ", abandoned before any reply to it arrived: Go [%s], model [%s]" % (ans[:300], m[:300]),
                             False, rcase, g[:600], o[:300])

    # replies of every size around the buffering limit, sent completely: within the limit the exchange behaves as for any reply
    # (success iff Success, otherwise the status exposed — never a decode error); beyond it, an error (C10's clause)
    large_stats = dict(exchanges=0)
    rc, gl, glog = vlib.run_harness(exe, "TestVerifC12", "limit\n", timeout=120, tag="lim")
    limit = int(gl[0].split()[1]) if rc == 0 and len(gl) == 1 and gl[0].startswith("limit ") else None
    if limit is None:
        res.violation("harness-run", "Go harness did not answer the limit request: %s" % glog[-800:], dict(kind="harness"), False)
        return res.finish()
    if large is None:
        large = Gen(seed ^ 0x1A26E, thorough, stypes).build_large(limit)
    if large:
        greq = ["L %d %d %s %s %s %s %d" % c for c in large]
        rc, gl, glog = vlib.run_harness(exe, "TestVerifC12", "cfg none\nnv 1\n" + "\n".join(greq) + "\n", timeout=1200, tag="L")
        gl = gl[2:]
        orc, oout = vlib.run_oracle("c12", "\n".join("x %d %d %d %s %s %s" % ((c[0], c[0]) + tuple(c[1:5])) for c in large) + "\n", timeout=600)
        ol = oout.split("\n")
        if rc != 0 or len(gl) != len(large) or orc != 0 or len(ol) < len(large):
            res.violation("harness-run", "Go harness / oracle failed on the large replies (rc=%s/%s, %d of %d answers): %s" % (
                rc, orc, len(gl), len(large), glog[-1500:]), dict(kind="harness", log=glog[-3000:]), False)
            return res.finish()
        large_stats.update(limit=limit, sizes=sorted({c[6] for c in large})[:60])
        szs = sorted({c[6] for c in large})
        lrc, lout = vlib.run_oracle("c12", "\n".join("lim %d" % z for z in szs) + "\n", timeout=600)
        lans = dict(zip(szs, [x.split() for x in lout.split("\n") if x]))
        if lrc != 0 or len(lans) != len(szs):
            res.violation("harness-run", "oracle failed on the limit requests (rc=%s)" % lrc, dict(kind="harness"), False)
            return res.finish()
        if int(lans[szs[0]][0]) != limit:
            res.violation("buffer-limit-differs", "MaxBufferedPayloadSz is %d in the package, %s in the model (Client/StatusLimit.v)" % (limit, lans[szs[0]][0]),
                          dict(kind="correspondence", correspondence="C12/MaxBufferedPayloadSz", go=limit, model=int(lans[szs[0]][0])), False)
        for z in szs:
            if (lans[z][1] == "intact") != (z <= limit):
                res.violation("model-differs:large-reply:limit", "the model says a %d-byte reply is %s, the package's limit is %d" % (z, lans[z][1], limit),
                              dict(kind="correspondence", correspondence="C12/reply_bytes", size=z), False)
        for c, g, o in zip(large, gl, ol):
            e, code, d, f, p, mode, total = c
            gt = g.split(" ")
            case = ["L"] + list(c)
            evals += 1
            nontriv += 1
            large_stats["exchanges"] += 1
            where = "within" if total <= limit else "beyond"
            dist["large-reply:" + where] = dist.get("large-reply:" + where, 0) + 1
            scripted = "%d %s %s %s" % (code, d, f, p)
            what = "SendFor expecting type %d; the reply of type %d carries status [%s] and Custom parameters up to a payload of %d bytes (buffering limit %d%+d), sent completely" % (
                e, e, scripted[:200], total, limit, total - limit)
            if len(gt) != 13:
                fail("harness-answer", "unexpected harness answer: " + g[:200], False, case, g[:300], o[:300])
            elif gt[0] == "skipped":
                fail("harness-skipped", "exchanges not run because earlier ones timed out or panicked", False, case, g, o[:300])
            elif total > limit:
                if gt[0] in ("nil", "panic", "timeout"):
                    fail("large-reply:beyond-limit:" + ("reported-as-success" if gt[0] == "nil" else "no-outcome:" + gt[0]),
                         what + ": a reply too large to buffer must be reported as an error; observed %s" % gt[0], True, case, g[:300], o[:300])
                elif gt[0] != "other" or gt[5] != "same":
                    fail("model-differs:large-reply:beyond", what + ": Go [%s]" % g[:300], False, case, g[:300], o[:300])
            else:
                bad = prop_check(e, e, code, scripted, gt) or render_check("expected", gt)
                if bad:
                    fail("large-reply:" + bad[0], what + ": " + bad[1] + "; Go returned [%s]" % g[:300], True, case, g[:300], o[:300])
                    continue
                merr, msame, min_ = model_expect(o, "z")
                if " ".join(gt[0:5]) != merr or (min_ and " ".join(gt[6:10]) != min_):
                    fail("model-differs:large-reply:within", what + ": Go [%s] differs from the model [%s]" % (g[:300], o[:300]), False, case, g[:300], o[:300])

    # replies that do not arrive completely: such an exchange has no reply — it must not report success for a reply that carried a
    # failure, and must not expose a status / description / details the reader did not send
    cut_stats = dict(exchanges=0, by_end={}, outcomes={})
    if cuts:
        greq = ["k %d %d %d %s %s %s %s %d %s" % c for c in cuts]
        rc, gl, glog = vlib.run_harness(exe, "TestVerifC12", "cfg none\nnv 1\n" + "\n".join(greq) + "\n", timeout=1200, tag="k")
        gl = gl[2:]
        orc, oout = vlib.run_oracle("c12", "\n".join("hw 1 %d Q:%d A:%d" % (WIRE_N0, c[0], WIRE_N0) for c in cuts) + "\n", timeout=600)
        ol = oout.split("\n")
        if rc != 0 or len(gl) != len(cuts) or orc != 0 or len(ol) < len(cuts):
            res.violation("harness-run", "Go harness / oracle failed on the cut replies (rc=%s/%s, %d of %d answers): %s" % (
                rc, orc, len(gl), len(cuts), glog[-1500:]), dict(kind="harness", log=glog[-3000:]), False)
            return res.finish()
        ckeys = set()
        for c, g, o in zip(cuts, gl, ol):
            e, a, code, d, f, p, mode, cut, end = c
            gt = g.split(" ")
            case = ["k"] + list(c)
            br = branch_of(e, a)
            evals += 1
            cut_stats["exchanges"] += 1
            cut_stats["by_end"][end] = cut_stats["by_end"].get(end, 0) + 1
            if c not in ckeys:
                ckeys.add(c)
                nontriv += 1
            dist["cut-reply:" + br] = dist.get("cut-reply:" + br, 0) + 1
            scripted = "%d %s %s %s" % (code, d, f, p)
            if len(gt) != 14:
                fail("harness-answer", "unexpected harness answer: " + g[:200], False, case, g[:300], o[:300])
                continue
            if cut >= int(gt[13]):
                continue          # not cut at all
            cut_stats["outcomes"][gt[0]] = cut_stats["outcomes"].get(gt[0], 0) + 1
            what = "SendFor expecting type %d; the reply (type %d, status [%s], %s payload bytes) is cut after %d payload bytes, then the connection ends (%s)" % (
                e, a, scripted[:200], gt[13], cut, {"eof": "orderly close", "reset": "TCP reset", "deadline": "reader silent, read deadline"}[end])
            if gt[0] in ("panic", "hung"):
                fail("no-outcome:cut-reply:" + gt[0], what + ": SendFor did not return an outcome (%s)" % gt[0], True, case, g[:300], o[:300])
            elif gt[0] == "nil" and (code != 0 or br != "expected"):
                fail("cut-reply:nonzero-status-not-error:" + br if br != "other" else "cut-reply:mismatch-not-error",
                     what + ": reported as success, although the reader's reply carried a failure — the bytes that never arrived were taken as zeros", True, case, g[:300], o[:300])
            elif gt[0] == "status" and " ".join(gt[1:5]) != scripted and br != "other":
                fail("cut-reply:status-not-sent-exposed:" + br, what + ": the error exposes a status [%s] the reader did not send" % " ".join(gt[1:5])[:200], True, case, g[:300], o[:300])
            elif render_check(br, gt[:13]):
                bad = render_check(br, gt[:13])
                fail("cut-reply:" + bad[0], what + ": " + bad[1], True, case, g[:300], o[:300])
            elif gt[0] not in ("closed", "timeout") or "abandoned" not in o:
                # e.g. success for a cut Success reply whose missing tail happens to be zeros, or the complete status exposed
                fail("model-differs:cut-reply:" + br, what + ": Go [%s]; the model has no reply for this exchange [%s]" % (g[:300], o[:200]), False, case, g[:300], o[:300])

    # the device service's exchanges (internal/driver): TrySend, HandleReadCommands, HandleWriteCommands, onConnect
    drv_stats = {}
    if drv:
        bad_run = driver_part(res, drv, fail, drv_stats, dist, samples)
        if bad_run:
            return res.finish()
        evals += drv_stats.get("exchanges", 0)
        nontriv += drv_stats.get("nontrivial", 0)

    # several requests outstanding on one Client, replies back to back: every caller must get its own reply's outcome
    conc_seen = dict(rounds=0, callers=0, gomaxprocs1_rounds=0)
    if conc:
        greq, oreq = [], []
        for perm, gmp, cases in conc:
            greq.append("c %s %d %d " % (perm, gmp, len(cases)) + " ".join("%d %d %d %s %s %s %s" % c for c in cases))
            oreq += ["x %d %d %d %s %s %s" % c[:6] for c in cases]
        rc, gl, glog = vlib.run_harness(exe, "TestVerifC12", "\n".join(greq) + "\n", timeout=900, tag="c")
        orc, oout = vlib.run_oracle("c12", "\n".join(oreq) + "\n", timeout=600)
        ol = oout.split("\n")
        if rc != 0 or len(gl) != len(conc) or orc != 0 or len(ol) < len(oreq):
            res.violation("harness-run", "Go harness / oracle failed on the concurrent scenario (rc=%s/%s, %d of %d answers): %s" % (
                rc, orc, len(gl), len(conc), glog[-1500:]), dict(kind="harness", log=glog[-3000:]), False)
            return res.finish()
        oi = 0
        conc_keys = set()
        for (perm, gmp, cases), g in zip(conc, gl):
            answers = g.split(" | ")
            rcase = ["c", perm, gmp, [list(c) for c in cases]]
            conc_seen["rounds"] += 1
            conc_seen["gomaxprocs1_rounds"] += 1 if gmp == 1 else 0
            dist["concurrent:k=%d" % len(cases)] = dist.get("concurrent:k=%d" % len(cases), 0) + 1
            if len(answers) != len(cases):
                fail("harness-answer", "unexpected harness answer: " + g[:200], False, rcase, g[:300], "")
                oi += len(cases)
                continue
            if (perm, tuple(cases)) not in conc_keys:
                conc_keys.add((perm, tuple(cases)))
                nontriv += 1
            if len([x for x in samples if x.get("scenario") == "concurrent"]) < 2 and len(g) < 600:
                samples.append(dict(scenario="concurrent", reply_order=perm, gomaxprocs=gmp or "default",
                                    callers=[dict(expected_type=c[0], reply_type=c[1], status="%d %s %s %s" % c[2:6], order=c[6][1:]) for c in cases],
                                    go=answers, model=ol[oi:oi + len(cases)]))
            for i, (c, ans) in enumerate(zip(cases, answers)):
                e, a, code, d, f, p, mode = c
                o = ol[oi]
                oi += 1
                evals += 1
                conc_seen["callers"] += 1
                gt = ans.split(" ")
                scripted = "%d %s %s %s" % (code, d, f, p)
                what = "%d SendFor calls in flight, replies written in order %s; caller %d expecting type %d got a reply of type %d with status [%s]" % (
                    len(cases), perm, i, e, a, scripted[:200])
                if len(gt) != 13:
                    fail("harness-answer", "unexpected harness answer: " + ans[:200], False, rcase, g[:600], o[:300])
                    continue
                if gt[0] == "skipped":
                    fail("harness-skipped", "exchanges not run because earlier ones timed out or panicked", False, rcase, g[:600], o[:300])
                    continue
                bad = prop_check(e, a, code, scripted, gt) or render_check(branch_of(e, a), gt)
                if bad:
                    fam = bad[0].split(":")[0]
                    sig = "wrong-status-under-concurrency" if fam in ("nonzero-status-not-error", "status-not-exposed", "success-reported-as-error",
                                                                      "errmsg-not-error") else "concurrent:" + bad[0]
                    fail(sig, what + ": " + bad[1] + "; the caller got [%s]; all callers: [%s]" % (ans[:200], g[:600]), True, rcase, g[:600], o[:300])
                    continue
                merr, msame, min_ = model_expect(o, mode)
                if " ".join(gt[0:5]) != merr or (msame and gt[5] != msame) or (min_ and " ".join(gt[6:10]) != min_):
                    fail("model-differs:concurrent", what + ": Go [%s] differs from the model [%s] where the property does not constrain it" % (
                        ans[:300], o[:300]), False, rcase, g[:600], o[:300])

    # the text of every status code by itself (StatusCode.defaultText / String) vs the model's default_text_ref
    dt_stats = dict(codes=0)
    if do_dt:
        rc, gl, glog = vlib.run_harness(exe, "TestVerifC12", "dt 0 65536\n", timeout=300, tag="dt")
        orc, oout = vlib.run_oracle("c12", "dt 0 65536\n", timeout=300)
        ol = oout.split("\n")
        if rc != 0 or len(gl) != 65536 or orc != 0 or len(ol) < 65536:
            res.violation("harness-run", "Go harness / oracle failed on 'dt' (rc=%s/%s, %d answers): %s" % (rc, orc, len(gl), glog[-1500:]),
                          dict(kind="harness", log=glog[-3000:]), False)
            return res.finish()
        texts = {}
        for c in range(65536):
            g, o = gl[c].split(" "), ol[c].split(" ")
            evals += 1
            dt_stats["codes"] += 1
            case = ["dt", c]
            if g[0] != "ok":
                fail("error-unusable:panic@StatusCode-text", "producing the text of status code %d panics (defaultText / String)" % c, True, case, gl[c], ol[c])
                continue
            txt = bytes.fromhex(g[1]).decode("utf8", "replace")
            dflt = txt.split("|")[0]
            if o[0] != "ok":
                fail("model-differs:text", "the model's text table index for code %d is out of range" % c, False, case, gl[c], ol[c])
            if dflt in texts:
                fail("error-text-ambiguous-code", "status codes %d and %d have the same text %r" % (texts[dflt], c, dflt), True, case, gl[c], ol[c])
            texts[dflt] = c
            if o[1] == "unknown" and str(c) not in dflt:
                fail("error-text-lacks-code", "the text of the undefined status code %d, %r, does not mention the code" % (c, dflt), True, case, gl[c], ol[c])
            if dflt == "":
                fail("error-text-lacks-code", "status code %d has an empty text" % c, True, case, gl[c], ol[c])

    # the request/response exchanges the Client performs itself (Connect: GET_SUPPORTED_VERSION, SET_PROTOCOL_VERSION;
    # Shutdown: CLOSE_CONNECTION): same clauses. "Exposes" = errors.As(*StatusError) with the reader's fields, or the text
    # of the surfaced error contains the text of a *StatusError with the reader's fields (these paths wrap with %v).
    int_stats = {}
    if internal:
        greq = ["i %s %d %d %s %s %s %s" % c for c in internal]
        rc, gl, glog = vlib.run_harness(exe, "TestVerifC12", "\n".join(greq) + "\n", timeout=1500, tag="i")
        if rc != 0 or len(gl) != len(internal):
            res.violation("harness-run", "Go harness failed on the internal exchanges (rc=%s, %d of %d answers): %s" % (
                rc, len(gl), len(internal), glog[-1500:]), dict(kind="harness", log=glog[-3000:]), False)
            return res.finish()
        for (w, a, c, d, f, p, mode), g in zip(internal, gl):
            gt = g.split(" ")
            case = ["i", w, a, c, d, f, p, mode]
            exp = INTERNAL[w]
            br = branch_of(exp, a)
            evals += 1
            nontriv += 1 if (c != 0 or a != exp) else 0
            int_stats["%s:%s" % (w, br)] = int_stats.get("%s:%s" % (w, br), 0) + 1
            scripted = "%d %s %s %s" % (c, d, f, p)
            what = "%s: reply type %d with status [%s]" % ({"gsv": "Connect's GET_SUPPORTED_VERSION exchange", "spv": "Connect's SET_PROTOCOL_VERSION exchange",
                                                           "close": "Shutdown's CLOSE_CONNECTION exchange"}[w], a, scripted[:200])
            if len(gt) != 7:
                fail("harness-answer", "unexpected harness answer: " + g[:200], False, case, g[:300], "")
                continue
            if len([x for x in samples if x.get("scenario") == "internal exchange"]) < 3 and c in (101, 110):
                samples.append(dict(scenario="internal exchange", exchange=w, reply_type=a, status=scripted, go=g))
            cls, got, rend, has = gt[0], " ".join(gt[1:5]), gt[5], gt[6]
            bad = None
            if cls == "timeout":
                bad = ("no-outcome:timeout", "neither an error nor completion")
            elif rend != "ok":
                bad = ("error-unusable:" + rend, "using the returned error panics in %s" % rend.split("@")[-1])
            elif br == "other":
                if cls == "nil":
                    bad = ("mismatch-not-error", "reply of an unrelated type reported as success")
            elif c == 0:
                if cls != "nil":
                    bad = ("success-reported-as-error", "expected type with status Success reported as error")
            elif w == "gsv" and br == "errmsg" and c == 110:
                pass      # the documented exception: VersionUnsupported means a 1.0.1 reader (C06's subject)
            elif cls == "nil":
                bad = ("nonzero-status-not-error", "non-Success status reported as success")
            elif not ((cls == "status" and got == scripted) or has == "y"):
                bad = ("status-not-exposed", "the error exposes neither a *StatusError with the reader's fields nor their text")
            if bad:
                sig = "internal:%s:%s:%s" % (w, br, bad[0]) if br != "other" or bad[0].startswith("mismatch") else "internal:%s:%s" % (w, bad[0])
                if "V" in mode:
                    sig = "header-version:" + sig
                    what += " in a frame stamped with LLRP version " + mode[mode.index("V") + 1]
                fail(sig, what + ": " + bad[1] + "; observed [%s]" % g[:300], True, case, g[:300], "")

    # violations with a concrete failing input first, the plain configuration before the handler configurations
    for sig, (cnt, text, found, cases, g, o, fcfg) in sorted(fails.items(), key=lambda kv: (not kv[1][2], kv[0].startswith("handlers="), kv[0])):
        res.violation(sig, text + (" (%d such cases)" % cnt if cnt > 1 else ""),
                      dict(kind="input" if found else "correspondence", correspondence="C12/SendFor-vs-send_for_outcome",
                           cases=cases, config=fcfg, observed=g, model=o, failing_cases=cnt,
                           case_format="[expected type, reply type, status code, description hex, FieldError idx.code, "
                                       "ParameterError levels ptype.code[.idx.code] outermost first, response prefill z|s]; with an 8th element 'u' the "
                                       "second entry is the type of a reader-initiated frame sent with the request's id before the real reply; "
                                       "['c', reply order, GOMAXPROCS (0 = default), [caller cases]] = that many SendFor calls in flight, replies in one write; "
                                       "letters after z|s: P/I = ParameterError before FieldError at the top level / inside ParameterError; "
                                       "['i', gsv|spv|close, reply type, code, desc, fe, pe, mode] = the Client's own exchange in Connect / Shutdown; "
                                       "'config' = MessageHandlers the client was built with (none|exp|err|def|all), '@n' appended = how the connection's version was "
                                       "negotiated (1 WithVersion(1.0.1); 2 reader at 1.1; 3 SET_PROTOCOL_VERSION to 1.1; 4 version query refused); a mode letter V<d> = "
                                       "the reply's header carries LLRP version d; ['dt', code] = text of a bare status code; ['y', exp, act, payload hex] = reply whose "
                                       "payload does not decode; ['h', n, steps] = exchange history on one Client: ('S', caller, expected type) request started, "
                                       "('F',) = on a fresh connection; ('N', message, type) sent with SendNoWait (message numbers from 100; the reader may answer it: id k<message>), "
                                       "('A', caller) its context cancelled, ('R', header version, type, id (k<caller> | f<unused id> | m<largest id so far + n> | z0 = id 0, used up by a warm-up exchange), layout, code, desc, fe, pe, order "
                                       "flags) frame written by the reader; ['d', t|r|w|o, ...] = exchange of the device service (internal/driver): t = LLRPDevice.TrySend "
                                       "[exp, act, status...], r / w = Driver.HandleReadCommands / HandleWriteCommands [resource or command, exp, act, status...], "
                                       "o = the device's own exchange after connecting [act, status...]; mode letter D = the reader drops the connection once first; "
                                       "['k', exp, act, code, desc, fe, pe, mode, cut, eof|reset|deadline] = the reply is cut after `cut` payload bytes and the connection ends; "
                                       "['L', exp, code, desc, fe, pe, mode, total] = reply of the expected type padded with Custom parameters to a payload of `total` bytes"),
                      found)

    res.coverage.update(
        evaluations=evals, distinct_nontrivial=nontriv,
        rule="one case = one real Client.SendFor exchange on net.Pipe: (expected type, reply type, status code, description, "
             "FieldError, ParameterError chain); distinct by that tuple; non-trivial iff status != 0 or reply type != expected type; "
             "plus exchanges in which a reader-initiated frame (61/62/63) with the request's id precedes the real reply (all non-trivial); "
             "plus rounds of 2..4 concurrent SendFor calls whose replies arrive in one TCP write (evaluations counts callers, "
             "distinct_nontrivial counts distinct rounds); both sub-parameter orders count as distinct cases; the same classes are run on "
             "clients built with MessageHandlers (distinct per configuration); plus Connect's/Shutdown's own exchanges; plus the bare "
             "text of each of the 65536 codes (not counted as non-trivial); plus replies whose payload does not decode (one case per payload); "
             "plus exchange histories (evaluations counts callers, distinct_nontrivial counts distinct histories); plus the device service's "
             "exchanges on the real Driver against a scripted reader (TrySend, HandleReadCommands, HandleWriteCommands, onConnect)",
        samples=samples, input_distribution=dist, traces_validated_against_impl=evals,
        status_codes_enumerated="all 65536 codes on %d (expected, reply) type combinations (%d exchanges); 300 stratified codes on the others%s"
                                % (len(rkeys), codes_full, "" if not thorough else " (none: thorough enumerates every status type)"),
        exhaustive=bool(thorough), exhaustive_note="thorough: 65536 codes x 19 status-bearing types x {expected, ERROR_MESSAGE}; "
                                                   "descriptions and nested shapes are sampled (unbounded space; covered by the proof)",
        reader_initiated_frames=unsol_seen, concurrent=conc_seen, handler_configurations=cfg_stats, rendering=render_stats,
        status_code_texts=dt_stats, internal_exchanges=int_stats, undecodable_replies=undec_stats, cut_replies=cut_stats, large_replies=large_stats, exchange_histories=hist_stats, device_service_exchanges=drv_stats,
        header_versions="all 8 values of the reply's header version x 4 ways of negotiating the connection's version, on the expected / "
                        "ERROR_MESSAGE / unrelated-type branches (kind 'versions'), on Connect's and Shutdown's own exchanges, in the concurrent rounds and "
                        "in every frame of the exchange histories", type_pairs=len(seen_pairs), status_types=stypes, max_nested_depth=seen_depth, max_description_bytes=seen_desc_len,
        trusted_base=res.assumptions)
    return res.finish()
