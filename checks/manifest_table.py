"""what MANIFEST.json claims, per property. tools/mkmanifest.py turns this into MANIFEST.json."""
NOTE_COMMON = ("Trusted: Coq 8.16.1 kernel + vm_compute (no native_compute); no axioms (Print Assumptions recorded per theorem in the evidence); "
               "Coq extraction with ExtrOcamlBasic only + OCaml 4.13.1 + oracle/<id>/main.ml; the Go harness (harness/, compiled into /repo's packages via -overlay) "
               "and the python driver that diffs projected observables. ")
CLAIMED = {
 "C16": dict(
  technique="Coq proof (loop invariant over N.iter, finite mask facts by vm_compute) + extraction-based differential correspondence with Go ipGenerator/computeNetSz",
  text="Theorems C16_* (coq/Props/C16.v) prove for every address < 2^32 and every prefix that the modelled loop emits exactly the addresses strictly between network and broadcast address, once each, "
       "the single network address for /31,/32, that computeNetSz equals the count, and that a cancelled generator that selects on ctx.Done() can always finish without a consumer. "
       "The model is tied to the code by running Go's ipGenerator/computeNetSz and the extracted model on the same (address, prefix) cases every run.",
  note=NOTE_COMMON + "Modelled not verified: net.ParseCIDR (contiguous mask, 4-byte network address), Go channel/select semantics; 'returns after cancel' is measured with a 3 s budget."),
}
NOT_APPLICABLE = {}
for _p in ["C%02d" % i for i in range(1, 21)]:
    if _p not in CLAIMED:
        NOT_APPLICABLE[_p] = "not yet claimed: check under construction (see DESIGN.md §10 order of work); proof technique applies"
