"""what MANIFEST.json claims, per property. tools/mkmanifest.py turns this into MANIFEST.json."""
NOTE_COMMON = ("Trusted: Coq 8.16.1 kernel + vm_compute (no native_compute); no axioms (Print Assumptions recorded per theorem in the evidence); "
               "Coq extraction with ExtrOcamlBasic only + OCaml 4.13.1 + oracle/<id>/main.ml; the Go harness (harness/, compiled into /repo's packages via -overlay) "
               "and the python driver that diffs projected observables. ")
CLAIMED = {
 "C16": dict(
  technique="Coq proof (loop invariant over N.iter, finite mask facts by vm_compute) + extraction-based differential correspondence with Go ipGenerator/computeNetSz",
  text="Theorems C16_* (coq/Props/C16.v) prove for every address < 2^32 and every prefix that the modelled loop emits exactly the addresses strictly between network and broadcast address, once each, "
       "the single network address for /31,/32, that computeNetSz equals the count, and that a cancelled generator that selects on ctx.Done() can always finish without a consumer. "
       "The model is tied to the code by running Go's ipGenerator/computeNetSz and the extracted model on the same (address, prefix) cases every run.",
  note=NOTE_COMMON + "Modelled not verified: net.ParseCIDR (contiguous mask, 4-byte network address), Go channel/select semantics; 'returns after cancel' is measured with a 3 s budget."),

 "C19": dict(
  technique="Coq proof of the header codec against a bit-level view + message-type tables regenerated from the running code for all 1024 codes each run and checked by proved-sound boolean checkers (vm_compute); exhaustive differential correspondence of the header codec",
  text="coq/Props/C19.v proves hdr_decode/hdr_encode exact against the MSB-first bit view (version bits 3-5, 10-bit type, length-10, id), rejection of lengths < 10, round trip both ways and what the encoder refuses, for all inputs. "
       "The tables (IsValid, Converse, NewInstance().Type()) are dumped from the running Go code for all 1024 type codes on every run into build/gen/C19/MsgTables.v and the generic, once-proved soundness theorems turn `checker tables = true` (vm_compute) into: instance types agree, the pairing is symmetric, injective and covers every pinned LLRP request/response pair. "
       "Header correspondence: all 2^16 first-two-byte values x boundary lengths x ids through UnmarshalBinary/readHeader/MarshalBinary/WriteTo/writeHeader vs the extracted model.",
  note=NOTE_COMMON + "Trusted: the table dump calls the functions it names; spec/llrp_pairs.json (pinned LLRP request/response pairs, proved equal to the Coq list). Modelled not verified: io.ReadFull."),
 "C14": dict(
  technique="Coq proof that the command decision function maps exactly as the documented relation (transcribed README/profile table) + keep-alive enforcement; differential correspondence through the real Driver.HandleRead/WriteCommands with a scripted reader",
  text="coq/Props/C14.v: for all commands, run c = (requests, no error) iff the documented relation doc_maps c requests (soundness and acceptance of well-formed documented commands), malformed commands are rejected with no request, every SetReaderConfig carries KeepAliveSpec Periodic 30000 ms = 60 s / 2 with other fields unchanged. "
       "The model has a flag for the code variant without the AccessSpec case (refuted witnesses proved); the check observes which variant the tree behaves like and evaluates the documented table (spec/doc_commands.json) directly on the frames the scripted reader received.",
  note=NOTE_COMMON + "Trusted: transcription of README/profile into spec/doc_commands.json and doc_maps; the scripted reader's own byte parsing; EdgeX SDK mock. encoding/json and base64 behaviour is compared, not modelled."),
 "C17": dict(
  technique="Coq proof of the naming function (hex formatting, prefix table, MAC/EPC branch) and of a discovery-run model over abstract timers; differential correspondence with Go naming and with probe/autoDiscover against scripted hosts",
  text="coq/Props/C17.v proves name_format for every vendor/model/id-type/reader-id byte string (incl. < 3 bytes and empty), that the hex digits denote the bytes, the prefix table, determinism, identity fields as received, that registered operating devices are skipped, that only identified hosts are reported, and (partial) that a run is bounded by max duration + one probe allowance when every blocking step is bounded by its timer. "
       "PARTIAL: wall-clock time is not expressible in the model; the check measures run time against scripted hosts (refuse, silent, garbage, stall at each stage, correct).",
  note=NOTE_COMMON + "Modelled not verified: TCP dial/deadline behaviour, fmt %02X / hex.EncodeToString (outputs compared every run), Go scheduler. Wall-clock bounds are measured, not proved."),
 "C06": dict(
  technique="Coq proof over the negotiation decision function and the writer's version stamping, clause by clause; exhaustive differential correspondence over client max x reader (current,max) x reactions",
  text="coq/Props/C06.v proves: no negotiation for a 1.0.1 client; the settled version is min(client max, reader max) (1.0.1 on version-unsupported); SetProtocolVersion only if different; both negotiation frames carry 1.1; every later frame (requests and acks) carries the negotiated version for conforming stamping (and the refuted witness for the pre-fix behaviour); any other error/refusal/wrong type/oversize fails Connect. "
       "Every run enumerates the whole finite space of sessions (5.7k quick, 82k thorough) on the real Client over net.Pipe and compares frames, outcome and later-frame versions with the model and with the property clauses.",
  note=NOTE_COMMON + "Trusted: the scripted reader's own frame code; atomicity of the negotiation exchange (one request outstanding). The SetProtocolVersion payload format is recorded, not judged (DESIGN §7)."),

 "C18": dict(
  technique="Coq proof over a line-by-line model of nextWait (explicit int64 wrap, truncating division, jitter draw as argument) and of the retry loop over outcome/context histories; differential correspondence with Go nextWait and RetryWithCtx",
  text="coq/Props/C18.v (30 theorems): pause in [0,max]; = min(max, base*2^(n-1)) without jitter, max from the 63rd on; in [0, min(max, base*(2^n-1))] with jitter; no shift/product leaves int64 on the branch that computes it — for every n incl. negative and >= 62 and every configured int64 BackOff/Max through RetryWithCtx's normalisation. Loop, for all outcome/context histories: runs at least once and at most max(1,retries) times (Forever unbounded), stops at once on ok / unrecoverable / context end before or during a wait, success iff last run succeeded, failure reason matches in the errors.Is sense, kept errors <= max(1,KeepErrs). "
       "Tie: 443k nextWait grid values (5.6M thorough) with the jitter draw mirrored, 48k scripted RetryWithCtx runs over all outcome sequences <= 6 x retries x KeepErrs x cancel/deadline positions.",
  note=NOTE_COMMON + "Modelled not verified: math/rand.Int63n range (draw mirrored by seeding), time.Timer / context semantics, Go select choosing any ready case."),
 "C12": dict(
  technique="Coq proof over the SendFor decision function and status-to-error mapping (recursive ParameterError tree); differential correspondence through the real Client.SendFor against a scripted peer for all 65536 status codes",
  text="coq/Props/C12.v: success iff the reply has the expected type and status Success; any other status or an ERROR_MESSAGE yields an error view carrying the same code, description and the nested FieldError/ParameterError chain to any depth; a reply of another type yields an error and leaves the response value untouched — for all types, codes, descriptions, trees. "
       "Tie: 733k exchanges quick (all 65536 codes x {expected, ErrorMessage} on 6 types + stratified on 13; all 817 (expected, actual) pairs; nested shapes to depth 4 and chains to 300; 21 descriptions), 2.4M thorough; predicate evaluated on Go's answer and compared with the extracted model.",
  note=NOTE_COMMON + "Trusted: the scripted peer's own LLRPStatus/FieldError/ParameterError TLV bytes and framing. Decision (DESIGN §7): ERROR_MESSAGE with status Success only needs a non-nil error."),
 "C03": dict(
  technique="Coq invariant proof over the client LTS (all event lists = all schedules, any number of callers); scripted-session differential correspondence against the real Client on net.Pipe + stress traces judged by the property predicate",
  text="coq/Props/C03.v over coq/Client/Model.v: for every event list, every (caller, frame) in delivered has the id assigned to that caller's request, was sent by the peer with that type and payload tag, is delivered at most once and to no other caller; with the reader-initiated filter (as the code now has) a KeepAlive/ROAccessReport/ReaderEventNotification is never delivered as a reply; the refuted witness for the unfiltered variant is kept. "
       "Tie: ~480 generated scripts (out-of-order replies, >= 2 outstanding, unsolicited frames with colliding ids, cancellations) run on Go and on the extracted model (the model variant agreeing with the code is detected), observables compared, property predicate evaluated on who-received-which-payload; stress mode with random permutations.",
  note=NOTE_COMMON + "Trusted: atomicity granularity of the LTS (one event per channel operation / awaitMu section), Go channel/select/mutex semantics, the script-to-event mapping in coq/Client/Script.v, the scripted peer's own frame code."),
 "C05": dict(
  technique="Coq invariant proof over the client LTS write side; independent frame parser on the raw bytes the scripted peer receives",
  text="coq/Props/C05.v (9 theorems): for every event list the wire history is a concatenation of whole frames (one frame finished before the next begins: single writer), each length field = 10 + payload length without u32 wrap, each request appears at most once and exactly once if its caller obtained a reply, with the caller's type and payload tag, and ids assigned on one connection are pairwise distinct below 2^32 accepted requests. "
       "Tie: scripts with concurrent senders, acks, cancellations, payload sizes 0..64KiB (near 640KiB thorough); raw bytes parsed by the harness's own parser and judged by the property predicate; compared with the extracted model.",
  note=NOTE_COMMON + "Trusted: single-writer assumption (only handleOutgoing writes to conn), LTS atomicity, net.Pipe as ordered byte stream."),
 "C07": dict(
  technique="Coq invariant + enabledness proof over the client LTS ack queue and writer priority; scripted keep-alive scenarios against the real Client",
  text="coq/Props/C07.v (7 theorems): the KeepAliveAck frames written carry exactly ids of received keep-alives, in order, each at most once; every keep-alive dispatched with fewer than five pending is queued or acknowledged; whenever the ack queue is non-empty and the writer idle the ack step is enabled regardless of outstanding requests, queued callers or negotiation; nothing else is ever acknowledged. "
       "Tie: keep-alives (ids 0, colliding, 2^32-1) injected while k requests are outstanding, during negotiation, in bursts of 5/6/7 with the peer not reading; ack ids vs keep-alive ids judged on Go's raw output and compared with the model.",
  note=NOTE_COMMON + "Trusted: LTS atomicity, buffered-channel semantics (capacity 5), Go select priority pattern (first select then default select). 'as long as the reader keeps reading' is a fairness assumption stated in the theorem."),
}
NOT_APPLICABLE = {}
for _p in ["C%02d" % i for i in range(1, 21)]:
    if _p not in CLAIMED:
        NOT_APPLICABLE[_p] = "not yet claimed: check under construction (see DESIGN.md §10 order of work); proof technique applies"
