"""what MANIFEST.json claims, per property. tools/mkmanifest.py turns this into MANIFEST.json."""
NOTE_COMMON = ("Trusted: Coq 8.16.1 kernel + vm_compute (no native_compute); no axioms (Print Assumptions recorded per theorem in the evidence); "
               "Coq extraction with ExtrOcamlBasic only + OCaml 4.13.1 + oracle/<id>/main.ml; the Go harness (harness/, compiled into /repo's packages via -overlay) "
               "and the python driver that diffs projected observables. ")
CLAIMED = {
 "C16": dict(
  technique="Coq proof (loop invariant over N.iter, finite mask facts by vm_compute) + extraction-based differential correspondence with Go ipGenerator/computeNetSz",
  text="Theorems C16_* (coq/Props/C16.v) prove for every address < 2^32 and every prefix that the modelled loop emits exactly the addresses strictly between network and broadcast address, once each, "
       "the single network address for /31,/32, that computeNetSz equals the count, and that a cancelled generator that selects on ctx.Done() can always finish without a consumer. "
       "The model is tied to the code by running Go's ipGenerator/computeNetSz and the extracted model on the same (address, prefix) cases every run.",
  note=NOTE_COMMON + "Modelled not verified: net.ParseCIDR (contiguous mask, 4-byte network address), Go channel/select semantics; 'returns after cancel' is measured with a 3 s budget."),

 "C19": dict(
  technique="Coq proof of the header codec against a bit-level view + message-type tables regenerated from the running code for all 1024 codes each run and checked by proved-sound boolean checkers (vm_compute); exhaustive differential correspondence of the header codec",
  text="coq/Props/C19.v proves hdr_decode/hdr_encode exact against the MSB-first bit view (version bits 3-5, 10-bit type, length-10, id), rejection of lengths < 10, round trip both ways and what the encoder refuses, for all inputs. "
       "The tables (IsValid, Converse, NewInstance().Type()) are dumped from the running Go code for all 1024 type codes on every run into build/gen/C19/MsgTables.v and the generic, once-proved soundness theorems turn `checker tables = true` (vm_compute) into: instance types agree, the pairing is symmetric, injective and covers every pinned LLRP request/response pair. "
       "Header correspondence: all 2^16 first-two-byte values x boundary lengths x ids through UnmarshalBinary/readHeader/MarshalBinary/WriteTo/writeHeader vs the extracted model.",
  note=NOTE_COMMON + "Trusted: the table dump calls the functions it names; spec/llrp_pairs.json (pinned LLRP request/response pairs, proved equal to the Coq list). Modelled not verified: io.ReadFull."),
 "C14": dict(
  technique="Coq proof that the command decision function maps exactly as the documented relation (transcribed README/profile table) + keep-alive enforcement; differential correspondence through the real Driver.HandleRead/WriteCommands with a scripted reader",
  text="coq/Props/C14.v: for all commands, run c = (requests, no error) iff the documented relation doc_maps c requests (soundness and acceptance of well-formed documented commands), malformed commands are rejected with no request, every SetReaderConfig carries KeepAliveSpec Periodic 30000 ms = 60 s / 2 with other fields unchanged. "
       "The model has a flag for the code variant without the AccessSpec case (refuted witnesses proved); the check observes which variant the tree behaves like and evaluates the documented table (spec/doc_commands.json) directly on the frames the scripted reader received.",
  note=NOTE_COMMON + "Trusted: transcription of README/profile into spec/doc_commands.json and doc_maps; the scripted reader's own byte parsing; EdgeX SDK mock. encoding/json and base64 behaviour is compared, not modelled."),
 "C17": dict(
  technique="Coq proof of the naming function (hex formatting, prefix table, MAC/EPC branch) and of a discovery-run model over abstract timers; differential correspondence with Go naming and with probe/autoDiscover against scripted hosts",
  text="coq/Props/C17.v proves name_format for every vendor/model/id-type/reader-id byte string (incl. < 3 bytes and empty), that the hex digits denote the bytes, the prefix table, determinism, identity fields as received, that registered operating devices are skipped, that only identified hosts are reported, and (partial) that a run is bounded by max duration + one probe allowance when every blocking step is bounded by its timer. "
       "PARTIAL: wall-clock time is not expressible in the model; the check measures run time against scripted hosts (refuse, silent, garbage, stall at each stage, correct).",
  note=NOTE_COMMON + "Modelled not verified: TCP dial/deadline behaviour, fmt %02X / hex.EncodeToString (outputs compared every run), Go scheduler. Wall-clock bounds are measured, not proved."),
 "C06": dict(
  technique="Coq proof over the negotiation decision function and the writer's version stamping, clause by clause; exhaustive differential correspondence over client max x reader (current,max) x reactions",
  text="coq/Props/C06.v proves: no negotiation for a 1.0.1 client; the settled version is min(client max, reader max) (1.0.1 on version-unsupported); SetProtocolVersion only if different; both negotiation frames carry 1.1; every later frame (requests and acks) carries the negotiated version for conforming stamping (and the refuted witness for the pre-fix behaviour); any other error/refusal/wrong type/oversize fails Connect. "
       "Every run enumerates the whole finite space of sessions (5.7k quick, 82k thorough) on the real Client over net.Pipe and compares frames, outcome and later-frame versions with the model and with the property clauses.",
  note=NOTE_COMMON + "Trusted: the scripted reader's own frame code; atomicity of the negotiation exchange (one request outstanding). The SetProtocolVersion payload format is recorded, not judged (DESIGN §7)."),
}
NOT_APPLICABLE = {}
for _p in ["C%02d" % i for i in range(1, 21)]:
    if _p not in CLAIMED:
        NOT_APPLICABLE[_p] = "not yet claimed: check under construction (see DESIGN.md §10 order of work); proof technique applies"
