"""C09 — close, shutdown, failure and cancellation never leave a caller stuck.
proof: coq/Props/C09.v over the client LTS (coq/Client/Model.v) and its extension with the fixed Connect
(coq/Client/ModelX.v); "promptly"/"returns once the connection ends" are proved as ENABLEDNESS and measured here.
tie 1 (byte level, harness/llrp/c09_test.go): a reference session (connect, negotiate 1.0.1->1.1, request with a
keep-alive in flight, second request, Shutdown) with the peer vanishing at every byte offset of every frame in both
directions, x {plain, callers' contexts cancelled, local Close instead, a second Shutdown racing}; after the fault the
runner waits for process-wide quiescence, so "stuck" is a fact, not a timeout; then Close twice, a late send, and the
peer's count of bytes after CloseConnection. The property is evaluated directly on these observations.
tie 2 (frame level, script runner + extracted model): the same session as a script with the peer closing at each
step boundary / inside inbound frames (cut) / client writes failing (write_fail), compared with the model run with
and without the fixed Connect (the variant that matches is "what the code does")."""
import json, random
import vlib
import client_common as cc
import client_c0809 as cx

PID = "C09"

# ------------------------------------------------------------------ byte-level enumeration
def actions(version):
    a = [("W", 32, "first")]
    if version >= 2:
        a += [("R", 10, "neg"), ("W", 20, "neg"), ("R", 11, "neg"), ("W", 18, "neg")]
    a += [("R", 40, "req1"), ("W", 10, "req1"), ("R", 10, "req1"), ("W", 22, "req1"),
          ("R", 10, "req2"), ("W", 310, "req2"), ("R", 10, "shutdown"), ("W", 18, "ccr")]
    return a


def gen_faults(seed, thorough):
    rnd = random.Random(seed)
    out = []
    for version in (2, 1):
        acts = actions(version)
        for ai, (d, n, ph) in enumerate(acts):
            offs = list(range(n)) if (n <= 64 or thorough) else sorted(set(list(range(0, 24)) + list(range(n - 12, n)) + rnd.sample(range(24, n - 12), 24)))
            for off in offs:
                for k, variant in enumerate(("plain", "cancel", "close", "shutdown")):
                    if variant != "plain" and not thorough and (off + ai + k) % 3 != 0:
                        continue
                    if version == 1 and variant not in ("plain", "cancel") and not thorough and off % 2:
                        continue
                    out.append(dict(id="v%d-a%d-o%d-%s" % (version, ai, off, variant), version=version, action=ai, off=off, variant=variant))
        for variant in ("plain", "cancel", "close", "shutdown"):
            out.append(dict(id="v%d-never-%s" % (version, variant), version=version, action=len(acts), off=0, variant=variant))
    return out


def judge_fault(rq, o):
    """the property on one byte-level run. returns list of (signature, text)"""
    bad = []
    if o is None or o.get("st") == "watchdog" or o.get("error"):
        return [("harness-run", "no usable observation for %s: %s" % (rq["id"], o))]
    acts = actions(rq["version"])
    ai, off, variant = rq["action"], rq["off"], rq["variant"]
    never = ai >= len(acts)
    phase = "end" if never else acts[ai][2]
    d, n = (None, 0) if never else acts[ai][:2]
    callers = dict(zip(o.get("names") or [], o.get("callers") or []))
    stuck = [k for k, v in callers.items() if v == "stuck"]
    if o.get("connect") == "stuck":
        stuck.append("Connect")
    if o.get("shutdown2") == "stuck":
        stuck.append("second Shutdown")
    if o.get("late") == "stuck":
        stuck.append("late send")
    if stuck:
        where = "%s, %s byte %d of %d" % (phase, {"W": "reader->client", "R": "client->reader"}.get(d, "-"), off, n)
        if phase == "neg" and variant != "close":
            sig = "connect-stuck-peer-eof-during-negotiation"
        elif phase == "ccr" and off >= 10:
            sig = "shutdown-stuck-truncated-close-connection-response"
        else:
            sig = "stuck:%s:%s:%s" % (stuck[0].replace(" ", "-"), phase, variant)
        bad.append((sig, "%s did not return after the connection ended (%s; variant %s); all goroutines parked. After a further Close(): %s" % (
            ", ".join(stuck), where, variant, o.get("after_close"))))
        after = o.get("after_close") or {}
        if after.get("connect") == "stuck" or "stuck" in (after.get("callers") or []):
            bad.append(("stuck-even-after-close:%s" % phase, "still not returned after Close(): %s" % after))
    else:
        want = "closed" if (variant == "close" or never) else "other"
        # Close() while checkInitialMessage is still reading the first message: no loop is serving yet; Connect ends with the
        # read error once the connection ends (model: CErrInit). Not constrained by the property text (notes/C09.md).
        if o.get("connect") != want and not (phase == "first" and variant == "close" and o.get("connect") == "other"):
            bad.append(("connect-result-reason:%s:%s:%s" % (variant, phase, o.get("connect")),
                        "Connect returned class %s, expected %s (%s, fault at %s byte %d)" % (o.get("connect"), want, variant, phase, off)))
        done_after = {"req1": acts_index(acts, "req1", 3), "req2": acts_index(acts, "req2", 1)}
        for name in ("req1", "req2", "shutdown"):
            got = callers.get(name)
            if name == "shutdown":
                ok_expected = never
                okv = "nil"
            else:
                ok_expected = never or ai > done_after[name]
                okv = "ok"
            if ok_expected:
                if got != okv:
                    bad.append(("caller-result:%s:%s:%s" % (name, okv, got), "%s returned %s, expected %s (fault after its reply)" % (name, got, okv)))
            else:
                allowed = ("closed", "ctx") if variant == "cancel" else ("closed",)
                if got not in allowed:
                    bad.append(("caller-result:%s:error:%s" % (name, got), "%s returned %s, expected one of %s (%s, fault at %s byte %d)" % (
                        name, got, allowed, variant, phase, off)))
        if o.get("close2") != "closed":
            bad.append(("double-close:%s" % o.get("close2"), "Close after Connect returned gave %s" % o.get("close2")))
    if o.get("close3") != "closed":
        bad.append(("double-close:%s" % o.get("close3"), "a repeated Close gave %s instead of the already-closed error" % o.get("close3")))
    if o.get("late") not in ("closed", "stuck"):
        bad.append(("late-send:%s" % o.get("late"), "a send after close returned %s" % o.get("late")))
    if o.get("extra_after_close_conn", 0) != 0:
        bad.append(("bytes-after-close-connection", "the peer read %d byte(s) after the CloseConnection frame" % o["extra_after_close_conn"]))
    if o.get("panics"):
        bad.append(("panic", "panic: %s" % o["panics"][:2]))
    return bad


def acts_index(acts, phase, k):
    """index of the k-th action (0-based) of a phase"""
    idx = [i for i, a in enumerate(acts) if a[2] == phase]
    return idx[k]


def run_faults(exe, reqs, shards=8):
    import concurrent.futures
    parts = [reqs[i::shards] for i in range(shards)]

    def one(k):
        rc, lines, log = vlib.run_harness(exe, "TestVerifC09", "".join(json.dumps(r) + "\n" for r in parts[k]), timeout=900, tag="_f%d" % k)
        outs = []
        for ln in lines:
            try:
                outs.append(json.loads(ln))
            except ValueError:
                outs.append(None)
        return outs + [None] * (len(parts[k]) - len(outs))
    res = [None] * len(reqs)
    with concurrent.futures.ThreadPoolExecutor(shards) as ex:
        for k, outs in enumerate(ex.map(one, range(shards))):
            for j, o in enumerate(outs[:len(parts[k])]):
                res[k + j * shards] = o
    return res


# ------------------------------------------------------------------ overlapping Close calls / streaming peer
def run_each(exe, test, reqs):
    """every request in a process of its own, in parallel. returns [(observation|None, log)]"""
    import concurrent.futures

    def one(k):
        rc, lines, log = vlib.run_harness(exe, test, json.dumps(reqs[k]) + "\n", timeout=120, tag="_e%d" % k)
        try:
            return (json.loads(lines[0]) if lines else None), log
        except ValueError:
            return None, log
    with concurrent.futures.ThreadPoolExecutor(max(1, len(reqs))) as ex:
        return list(ex.map(one, range(len(reqs))))


def judge_race(rq, o, log):
    if o is None:
        m = [ln for ln in (log or "").split("\n") if ln.startswith(("panic:", "fatal error:"))]
        return [("concurrent-close-crashes-process", "overlapping Close calls (%s, %d goroutines) crashed the process: %s" % (
            rq["mode"], rq["n"], (m[0] if m else (log or "")[-300:])))]
    bad = []
    if o.get("npanic"):
        bad.append(("concurrent-close-panics", "%d panic(s) in %d rounds of %d overlapping Close calls (%s%s): %s" % (
            o["npanic"], o.get("rounds", 0), o.get("n", 0), rq["mode"],
            ", racing the connection's failure and a Shutdown" if rq["mode"] == "connected" else "", (o.get("panics") or [])[:2])))
    if o.get("nbad"):
        bad.append(("concurrent-close-wrong-results", "%d round(s) of %d with wrong results for overlapping Close calls (%s): %s" % (
            o["nbad"], o.get("rounds", 0), rq["mode"], (o.get("bad") or [])[:3])))
    return bad


def run_stream(exe, reqs, shards=4, test="TestVerifC09Stream"):
    import concurrent.futures
    if not reqs:
        return []
    shards = max(1, min(shards, len(reqs)))
    parts = [reqs[i::shards] for i in range(shards)]

    def one(k):
        rc, lines, log = vlib.run_harness(exe, test, "".join(json.dumps(r) + "\n" for r in parts[k]), timeout=300, tag="_st%d%s" % (k, test[-3:]))
        outs = []
        for ln in lines:
            try:
                outs.append(json.loads(ln))
            except ValueError:
                outs.append(None)
        return outs + [None] * (len(parts[k]) - len(outs))
    res = [None] * len(reqs)
    with concurrent.futures.ThreadPoolExecutor(shards) as ex:
        for k, outs in enumerate(ex.map(one, range(shards))):
            for j, o in enumerate(outs[:len(parts[k])]):
                res[k + j * shards] = o
    return res


STREAM_EXPECT = {"served": "ok", "inflight": "closed", "shutdown": "nil", "cancelled": "ctx", "after": "ok", "at-gate": "closed"}


def judge_stream(rq, o):
    if o is None or o.get("error"):
        return [("harness-run", "no usable observation for streaming scenario %s: %s" % (rq["id"], o))]
    bad = []
    what = {"close": "a local Close", "shutdown": "a completed Shutdown", "cancel": "a cancelled request followed by a local Close",
            "close-unanswered-negotiation": "a local Close during an unanswered negotiation"}[rq["scenario"]]
    if o.get("connect") == "stuck":
        bad.append(("connect-stuck-after-local-close-streaming-peer",
                    "Connect had not returned %d ms after %s on a healthy connection whose reader keeps sending KeepAlives/reports every %d us "
                    "and never hangs up (%d frames streamed, %d acks)" % (rq["budget_ms"], what, rq["period_us"], o.get("streamed", 0), o.get("acks", 0))))
    elif o.get("connect") != "closed":
        bad.append(("connect-result-reason:stream:%s:%s" % (rq["scenario"], o.get("connect")),
                    "Connect returned class %s after %s on a healthy connection (expected client closed)" % (o.get("connect"), what)))
    for name, r in sorted((o.get("callers") or {}).items()):
        if r == "stuck":
            bad.append(("caller-stuck-streaming-peer:%s" % name, "call '%s' had not returned within %d ms (%s, streaming reader)" % (name, rq["budget_ms"], what)))
        elif r != STREAM_EXPECT.get(name):
            bad.append(("caller-result:stream:%s:%s" % (name, r), "call '%s' returned %s, expected %s (%s, streaming reader)" % (name, r, STREAM_EXPECT.get(name), what)))
    if o.get("close_again") != "closed":
        bad.append(("double-close:%s" % o.get("close_again"), "Close after everything gave %s" % o.get("close_again")))
    if o.get("panics"):
        bad.append(("panic", "panic: %s" % o["panics"][:2]))
    return bad


def judge_driver(rq, o):
    if o is None or o.get("error") or o.get("served") != "nil" or not o.get("close_connection_seen"):
        return [("harness-run", "no usable observation for driver scenario %s: %s" % (rq["id"], o))]
    how = {"ccr-error": "a CloseConnectionResponse with an error status", "errmsg-error": "an ErrorMessage with an error status",
           "errmsg-success": "an ErrorMessage with status Success", "wrong-type": "a reply of another type",
           "ccr-garbage": "an undecodable CloseConnectionResponse", "accept": "a successful CloseConnectionResponse",
           "silent": "no answer until the context ran out"}[rq["refuse"]]
    op = {"stop": "LLRPDevice.Stop", "update_addr": "LLRPDevice.UpdateAddr (new address)", "reset": "LLRPDevice.resetConn"}[rq["op"]]
    what = []
    if o.get("op_result") == "stuck":
        what.append("%s did not return" % op)
    sends = o.get("sends_on_old_client") or {}
    if set(sends) != {"closed"}:
        what.append("sends on the old client afterwards: %s (each must fail at once with the client-closed error)" % sends)
    if o.get("connect") != "closed":
        what.append("the old client's Connect %s after the reader's next message" % (
            "had not returned" if o.get("connect") == "blocked" else "returned class %s" % o.get("connect")))
    bad = []
    if what:
        bad.append(("driver-leaves-client-open:%s" % rq["refuse"], "%s with a reader answering CloseConnection by %s (call returned %s after %s ms): %s" % (
            op, how, o.get("op_result"), o.get("op_ms"), "; ".join(what))))
    if o.get("panics"):
        bad.append(("panic", "panic: %s" % o["panics"][:2]))
    return bad


def gen_device(thorough):
    """a real LLRPDevice, the consumer of the asynchronous-values channel stalled, more reports / events than the channel holds,
    and then every way the connection can end"""
    out = []
    for cause in ("eof", "close", "reset", "update_addr", "stop"):
        for flood in ("report", "event", "both") + (("report-empty",) if thorough else ()):
            for consumer in ("stalled", "keeping-up"):
                for cap, extra in (((1, 3), (16, 4)) if (thorough or (consumer == "stalled" and flood != "event")) else ((4, 3),)):
                    out.append(dict(id="device-%s-%s-%s-cap%d+%d" % (cause, flood, consumer, cap, extra), cap=cap, extra=extra, consumer=consumer,
                                    flood=flood, cause=cause, ctx_ms=400, budget_ms=4000))
    return out


DEVICE_CAUSE = {"eof": "the reader hung up", "close": "Close() on the device's client (and the reader's next keep-alive)",
                "reset": "LLRPDevice.resetConn()", "update_addr": "LLRPDevice.UpdateAddr to another address", "stop": "LLRPDevice.Stop"}


def judge_device(rq, o):
    if o is None or o.get("error") or o.get("setup") != "ok" or not o.get("payload_ok"):
        return [("harness-run", "no usable observation for device scenario %s: %s" % (rq["id"], o))]
    bad = []
    what = "%s while the consumer of the asynchronous-values channel (capacity %d) was %s and the reader had sent %d %s" % (
        DEVICE_CAUSE[rq["cause"]], rq["cap"], rq["consumer"], o.get("sent", 0),
        {"report": "tag reports", "report-empty": "empty tag reports", "event": "reader events", "both": "tag reports and reader events"}[rq["flood"]])
    if rq["cause"] == "stop":
        if not o.get("removed"):
            bad.append(("device-connect-stuck-handler-parks-read-loop:stop",
                        "%s: %d ms later the device's supervisor had not ended (the device is still in the driver's table; Stop returned %s after %s ms) — "
                        "its Connect has not returned" % (what, rq["budget_ms"], o.get("op_result"), o.get("op_ms"))))
        if o.get("redialed"):
            bad.append(("device-redials-after-stop", "%s: the device dialled again" % what))
    else:
        if not o.get("redialed"):
            bad.append(("device-connect-stuck-handler-parks-read-loop:%s" % rq["cause"],
                        "%s: %d ms later the device had not dialled again (call returned %s after %s ms) — the supervisor is still inside the old "
                        "client's Connect" % (what, rq["budget_ms"], o.get("op_result"), o.get("op_ms"))))
        elif rq["cause"] == "update_addr" and o.get("redial_listener") != 1:
            bad.append(("device-redials-old-address", "%s: the device dialled listener %s" % (what, o.get("redial_listener"))))
    return bad


def judge_late(rq, o):
    if o is None or o.get("error"):
        return [("harness-run", "no usable observation for %s: %s" % (rq["id"], o))]
    bad = []
    for api, counts in sorted((o.get("results") or {}).items()):
        wrong = {k: v for k, v in counts.items() if k != "closed"}
        if wrong:
            bad.append(("send-after-close:%s:%s" % (api, sorted(wrong)[0]),
                        "%s on a client closed by %s (ready gate open): %s over %d tries — every call must return the client-closed error at once%s" % (
                            api, rq["how"], counts, sum(counts.values()),
                            "; a call still had not returned after %d ms" % rq["per_call_ms"] if "stuck" in wrong else "")))
    if o.get("connect") == "stuck":
        bad.append(("stuck:Connect:late-send:%s" % rq["how"], "Connect had not returned after %s" % rq["how"]))
    if o.get("panics"):
        bad.append(("panic", "panic: %s" % o["panics"][:2]))
    return bad


def judge_flood(rq, o):
    if o is None or o.get("error"):
        return [("harness-run", "no usable observation for flood scenario %s: %s" % (rq["id"], o))]
    what = []
    if o.get("flood_blocked_at", -1) >= 0:
        what.append("the client stopped reading at keep-alive number %d of %d" % (o["flood_blocked_at"] + 1, rq["k"]))
    if not o.get("behind_taken", True):
        what.append("the %s behind the flood was not taken" % rq["behind"])
    if o.get("connect") == "stuck":
        what.append("Connect had not returned %d ms after the connection ended (%s)" % (rq["budget_ms"], rq["cause"]))
    for name, r in sorted((o.get("callers") or {}).items()):
        if r == "stuck":
            what.append("call '%s' had not returned" % name)
    bad = []
    if what:
        bad.append(("keepalive-flood-parks-read-loop", "%s — %d keep-alives sent while the peer reads nothing (the client cannot get its acks out), then %s" % (
            "; ".join(what), rq["k"], rq["cause"])))
        return bad
    want = "closed" if rq["cause"] in ("close", "shutdown") else "other"
    if o.get("connect") != want:
        bad.append(("connect-result-reason:flood:%s:%s" % (rq["cause"], o.get("connect")), "Connect returned class %s, expected %s after a flood ended by %s" % (
            o.get("connect"), want, rq["cause"])))
    exp = {"served": ("ok",), "queued": ("closed",), "shutdown": ("ctx", "closed")}
    for name, r in sorted((o.get("callers") or {}).items()):
        if r not in exp.get(name, ()):
            bad.append(("caller-result:flood:%s:%s" % (name, r), "call '%s' returned %s, expected %s (flood, %s)" % (name, r, exp.get(name), rq["cause"])))
    if o.get("close_again") != "closed":
        bad.append(("double-close:%s" % o.get("close_again"), "Close after everything gave %s" % o.get("close_again")))
    if o.get("panics"):
        bad.append(("panic", "panic: %s" % o["panics"][:2]))
    return bad


# ------------------------------------------------------------------ frame-level scripts (model comparison)
def session_steps():
    """the reference session as (kind, builder function) pairs; kind: C = client writes a frame (expect),
    P = the peer sends a frame, X = other"""
    S = []
    S.append(("P", "first", lambda b: b.steps.append(dict(op="peer_send", typ=63, id=0, ver=2, pl=dict(k="conn", status=0)))))
    S.append(("C", "neg", lambda b: b.expect()))
    S.append(("P", "neg", lambda b: b.steps.append(dict(op="peer_send", typ=56, id=0, ver=2, pl=dict(k="gsvr", cur=1, max=2, status=0)))))
    S.append(("C", "neg", lambda b: b.expect()))
    S.append(("P", "neg", lambda b: b.steps.append(dict(op="peer_send", typ=57, id=1, ver=2, pl=dict(k="status", code=0)))))
    S.append(("X", "req1", lambda b: b.send(1, 20, 30, 401, expect=False)))
    S.append(("C", "req1", lambda b: b.expect()))
    S.append(("P", "req1", lambda b: b.steps.append(dict(op="peer_send", typ=62, id=77, ver=2, pl=None))))
    S.append(("C", "req1", lambda b: b.expect()))
    S.append(("P", "req1", lambda b: b.steps.append(dict(op="peer_send", typ=30, id=2, ver=2, pl=dict(k="tag", len=12, tag=501)))))
    S.append(("X", "req2", lambda b: b.send(2, 2, 0, 0, expect=False)))
    S.append(("C", "req2", lambda b: b.expect()))
    S.append(("P", "req2", lambda b: b.steps.append(dict(op="peer_send", typ=12, id=3, ver=2, pl=dict(k="tag", len=300, tag=502)))))
    S.append(("X", "shutdown", lambda b: b.steps.append(dict(op="shutdown", caller=3))))
    S.append(("C", "shutdown", lambda b: b.expect()))
    S.append(("P", "ccr", lambda b: b.steps.append(dict(op="peer_send", typ=4, id=4, ver=2, pl=dict(k="status", code=0)))))
    return S


def gen_scripts(thorough):
    out = []
    S = session_steps()

    def finish(b, started, fam, phase, **meta):
        b.op("wait_connect")
        for c in started:
            b.wait(c)
        b.op("close")
        b.op("close")
        b.send(9, 21, 4, 402, expect=False)
        b.wait(9)
        b.op("state")
        sc = b.script()
        sc.update(family=fam, phase=phase, **meta)
        out.append(sc)

    for k in range(len(S) + 1):
        for variant in ("eof", "cancel", "close", "wfail", "cut"):
            kind, phase = (S[k][0], S[k][1]) if k < len(S) else ("X", "end")
            if variant == "wfail" and kind != "C":
                continue
            if variant == "cut" and kind != "P":
                continue
            cuts = [None]
            if variant == "cut":
                cuts = [5, 10, 13] if not thorough else [1, 5, 9, 10, 11, 13, 17]
            for cut in cuts:
                b = cc.SB("c09-s%d-%s%s" % (k, variant, "" if cut is None else cut), version=2)
                b.steps.append(dict(op="connect", version=2, no_first=True))
                started = []
                for j in range(k):
                    if variant == "wfail" and j == k - 1:
                        b.op("write_fail", after=0)     # armed before the step that makes the client write: that Write fails at once
                    S[j][2](b)
                    if S[j][0] == "X":
                        started.append(b.steps[-1]["caller"])
                fault_step = None
                if variant == "wfail":
                    b.expect_none()
                    fault_step = len(b.steps) - 1
                    for c in started:             # a failed Write ends the write loop: Connect closes the client, callers are released
                        b.wait(c)
                    b.op("peer_close")            # ... and Connect returns when the read side ends too
                elif variant == "cut":
                    S[k][2](b)
                    st = b.steps[-1]
                    full = 10 + len(cc.pl_bytes(st.get("pl")))
                    if cut >= full:
                        b.steps.pop()
                        continue
                    st["cut"] = cut
                    b.op("peer_close")
                elif variant == "cancel":
                    for c in started:
                        b.cancel(c)
                    b.op("peer_close")
                elif variant == "close":
                    b.op("close")
                    b.op("peer_close")
                else:
                    b.op("peer_close")
                finish(b, started, variant, phase, cut=cut, at=k, fault_step=fault_step)
    # nothing is written after CloseConnection: a keep-alive and a new request arrive while Shutdown waits for its reply
    for what in ("ka", "req", "both"):
        b = cc.SB("c09-after-close-conn-" + what, version=2)
        b.steps.append(dict(op="connect", version=2, no_first=True))
        for j in range(15):
            S[j][2](b)
        if what in ("ka", "both"):
            b.keepalive(88)
            b.expect_none()
        if what in ("req", "both"):
            b.send(5, 22, 6, 403, expect=False)
            b.expect_none()
        S[15][2](b)                              # CloseConnectionResponse
        b.wait(3)
        b.expect_none()
        b.op("peer_close")
        finish(b, [5] if what != "ka" else [], "after-close-conn", "ccr")
    # ... whichever way the CloseConnection got to the write loop: Shutdown, SendMessage, SendFor, SendNoWait (fire and forget: nobody
    # waits for the reply), with and without a payload, on 1.0.1 and 1.1 clients, with requests already queued behind it or arriving
    # later, and keep-alives before and after the reader's response. (Only Shutdown goes on to close the client; after the other calls
    # the application does, as the documentation tells it to.)
    for api in ("Shutdown", "SendMessage", "SendFor", "SendNoWait"):
        for version in (1, 2):
            for n in (0, 5):
                if api == "Shutdown" and n:
                    continue
                for what in ("ka", "req", "both", "req-nowait", "ka-after-response"):
                    if not thorough and n and what not in ("both", "ka"):
                        continue
                    b = cc.SB("c09-close-conn-by-%s-n%d-%s-v%d" % (api, n, what, version), version=version)
                    b.connect()
                    b.send(1, 20, 30, 481)
                    b.reply_to(1, 30, 12, 482)
                    b.wait(1)
                    if api == "Shutdown":
                        b.steps.append(dict(op="shutdown", caller=3))
                        b.expect()
                    else:
                        b.send(3, 14, n, 483, api=None if api == "SendMessage" else api)
                    cci = b.nseen - 1                        # the CloseConnection frame, read by the reader
                    started = [3]
                    if api == "SendNoWait":
                        b.wait(3)                            # it has returned: the message is with the write loop
                    if what in ("ka", "both"):
                        b.keepalive(88)
                        b.expect_none()
                    if what in ("req", "both", "req-nowait"):
                        b.send(5, 22, 6, 484, expect=False, api="SendNoWait" if what == "req-nowait" else None)
                        started.append(5)
                        b.expect_none()
                    if what == "both":
                        b.send(6, 23, 0, 0, expect=False, api="SendFor")
                        started.append(6)
                        b.keepalive(89)
                        b.expect_none()
                    b.reply(cci, 4 if api != "SendFor" else 14, pl=dict(k="status", code=0), ver=version)   # (the runner's SendFor expects the request's own type)
                    b.wait(3)
                    if what == "ka-after-response":
                        b.keepalive(90)
                    b.expect_none()
                    if api != "Shutdown":
                        b.op("close")
                    b.op("peer_close")
                    finish(b, started, "after-close-conn", "ccr", api=api)
    # cancelling one request does not disturb another one in flight; its late reply is dropped
    for first in (1, 2):
        b = cc.SB("c09-cancel-isolated-%d" % first, version=1)
        b.connect()
        b.send(1, 20, 8, 411).send(2, 21, 9, 412)
        other = 3 - first
        b.cancel(first)
        b.wait(other)                            # still waiting, undisturbed
        b.reply_to(first, 30 if first == 1 else 31, 5, 413)      # late reply for the cancelled one: dropped
        b.wait(other)
        b.reply_to(other, 30 if other == 1 else 31, 7, 414)
        b.wait(other)
        b.op("state")
        b.op("peer_close")
        finish(b, [1, 2], "cancel-isolated", "req1", other=other)
    # the peer stalls its receive side and floods k keep-alives (k well past the ack queue's bound), optionally with reports / a
    # reply behind the flood; then the connection ends by EOF, by a local Close, or during a Shutdown that cannot complete.
    # Every peer frame must be taken (the read loop never parks in a handler), the reply must arrive, everything must return.
    for k in ((7, 20, 100) if not thorough else (6, 7, 8, 20, 100, 300)):
        for cause in ("eof", "close", "shutdown"):
            for behind in ("none", "reports", "reply"):
                b = cc.SB("c09-flood-k%d-%s-%s" % (k, cause, behind), version=1,
                          default_handler=dict(mode="all") if behind == "reports" else None)
                b.connect()
                started = []
                if behind == "reply":
                    b.send(1, 20, 8, 431)                    # read by the peer; after that it reads nothing any more
                    started.append(1)
                for i in range(k):
                    b.keepalive(6000 + i)
                if behind == "reports":
                    for i in range(3):
                        b.peer(61, 7000 + i, 30, 440 + i)
                if behind == "reply":
                    b.peer(30, 0, 12, 432)
                    b.wait(1)
                b.op("state")
                if cause == "close":
                    b.op("close")
                elif cause == "shutdown":
                    b.steps.append(dict(op="shutdown", caller=3))   # queued behind the write loop's blocked Write
                    started.append(3)
                    b.op("close")
                b.op("peer_close")
                finish(b, started, "flood-" + cause, "req1", k=k, behind=behind)
    # every public send API in every blocking position x every termination cause: a call waiting at the ready gate (negotiation
    # unanswered), queued behind a write loop that is stuck in a Write (stalled peer) or parked after CloseConnection, or awaiting its
    # reply, must be released by a local Close at once, and by the end of the connection
    for api in ("SendMessage", "SendFor", "SendNoWait"):
        for pos in ("gate", "queued-stalled", "queued-parked", "awaiting"):
            if pos == "awaiting" and api == "SendNoWait":
                continue                                  # SendNoWait returns when the write loop has taken the message
            for cause in ("close", "eof", "shutdown-completes"):
                if cause == "shutdown-completes" and pos != "queued-parked":
                    continue
                version = 2 if pos == "gate" else 1
                b = cc.SB("c09-api-%s-%s-%s" % (api, pos, cause), version=version)
                b.connect(negotiate=False)
                started = []
                if pos == "gate":
                    b.expect()                            # GetSupportedVersion, never answered
                elif pos == "queued-stalled":
                    b.send(7, 24, 9, 451, expect=False)   # its frame sits in a Write the peer does not read
                    started.append(7)
                elif pos == "queued-parked":
                    b.steps.append(dict(op="shutdown", caller=8))
                    b.expect()                            # CloseConnection read; the write loop parks
                    started.append(8)
                b.send(1, 25, 5, 452, expect=(pos == "awaiting"), api=None if api == "SendMessage" else api)
                started.append(1)
                b.wait(1)                                 # blocked
                if cause == "close":
                    b.op("close")
                    for c in started:
                        b.wait(c)                         # released by Close itself
                elif cause == "shutdown-completes":
                    b.reply(b.nseen - 1, 4, pl=dict(k="status", code=0))
                    for c in started:
                        b.wait(c)
                b.op("peer_close")
                finish(b, started, "api-" + cause, "req1", api=api, pos=pos)
    # a late reply for a cancelled caller (nobody awaits it, no handler: the discard path) and unsolicited messages of an unhandled
    # type, delivered in two or three pieces split in the header, at the header boundary and inside the payload, while another request
    # is in flight: the stream must stay frame-aligned and the other request must get exactly its reply
    sizes = (0, 1, 2, 511, 512, 513, 1024, 4200) if not thorough else (0, 1, 2, 3, 100, 511, 512, 513, 1023, 1024, 1025, 4096, 4200, 70000)
    for what in ("late-reply", "unsolicited"):
        for n in sizes:
            full = 10 + n
            cand = sorted({3, 9, 10, 11, 10 + n // 2, 10 + 511, 10 + 512, 10 + 513, full - 1})
            offs = [o for o in cand if 0 < o < full]
            splits = [(o,) for o in (range(1, full) if (thorough and n <= 100) else offs)]
            if len(offs) >= 2:
                splits += [(offs[i], offs[j]) for i in range(len(offs)) for j in range(i + 1, len(offs))][:: (1 if thorough else 3)]
            for sp in splits:
                b = cc.SB("c09-pieces-%s-n%d-at%s" % (what, n, "+".join(map(str, sp))), version=1)
                b.connect()
                b.send(1, 20, 8, 461).send(2, 21, 9, 462)
                b.cancel(1)
                fr = (dict(op="peer_send", typ=30, id=0, ver=1, pl=dict(k="tag", len=n, tag=463 if n else 0)) if what == "late-reply" else
                      dict(op="peer_send", typ=61, id=9000, ver=1, pl=dict(k="tag", len=n, tag=463 if n else 0)))
                prev = None
                for o in sp:
                    st = dict(fr, cut=o)
                    if prev is not None:
                        st["skip"] = prev
                    b.steps.append(st)
                    prev = o
                b.steps.append(dict(fr, skip=prev))
                b.wait(2)                                  # still waiting
                b.reply_to(2, 31, 7, 464)
                b.wait(2)
                b.op("state")
                b.op("peer_close")
                finish(b, [1, 2], "pieces", "req1", other=2, nocompare=(len(sp) > 1), n=n, split=list(sp))
    # a reply split across a cancellation / Close: the peer sends the reply's first `cut` bytes (nothing but part of the header;
    # exactly the header; header + part of the payload; all but the last byte), the waiting caller is cancelled (or the client is
    # closed), the peer sends the rest. The stream must stay usable: another caller (already in flight, or started afterwards) gets
    # its reply, and after the connection ends Connect and everybody return.
    plen = 40
    cuts = [3, 9, 10, 11, 30, 10 + plen - 1] if not thorough else [1, 3, 5, 9, 10, 11, 12, 20, 30, 45, 10 + plen - 1]
    for how in ("cancel", "close"):
        for inflight in (False, True):
            for version in ((1,) if not thorough else (1, 2)):
                for cut in cuts:
                    b = cc.SB("c09-split-%s-%s-cut%d-v%d" % (how, "inflight" if inflight else "later", cut, version), version=version)
                    b.connect()
                    base = b.nseen                 # message ids follow the frames written so far (negotiation frames first)
                    b.send(1, 20, 8, 421)
                    if inflight:
                        b.send(2, 21, 9, 422)
                    rep = dict(op="peer_send", typ=30, id=base, ver=version, pl=dict(k="tag", len=plen, tag=423))
                    b.steps.append(dict(rep, cut=cut))
                    if how == "cancel":
                        b.cancel(1)
                    else:
                        b.op("close")
                    b.steps.append(dict(rep, skip=cut))
                    other = 2
                    if how == "cancel":
                        if not inflight:
                            b.send(2, 21, 9, 422)
                        b.steps.append(dict(op="peer_send", typ=31, id=base + 1, ver=version, pl=dict(k="tag", len=7, tag=424)))
                        b.wait(2)
                        b.op("state")
                    b.op("peer_close")
                    finish(b, [1, 2] if (inflight or how == "cancel") else [1], "split-" + how, "req1", other=other, cut=cut)
    # an UNSOLICITED CloseConnectionResponse (the client has not written CloseConnection), with every kind of message id — 0, ids the
    # client has used, the id of a request in flight, the next id, beyond, 2^32-1, random — at every position of a session (idle, after
    # a served request, with a request in flight, during negotiation, behind a keep-alive), success or error status; then the
    # connection ends (EOF: Connect must return the failure, callers are released), or the client is closed locally, or a real
    # Shutdown follows (answered, or cut off by EOF). Nothing the reader sends unasked may turn the end of the stream into a wait.
    rnd = random.Random(90210)
    for version in (1, 2):
        for pos in ("idle", "served", "inflight", "neg", "behind-keepalive"):
            if pos == "neg" and version == 1:
                continue
            used = 1 if version == 2 else 0                  # ids 0.. used-1 were stamped on negotiation frames (GetSupportedVersion only)
            nreq = {"idle": 0, "served": 1, "inflight": 1, "neg": 0, "behind-keepalive": 0}[pos]
            nxt = used + nreq
            ids = sorted({0, 1, max(nxt - 1, 0), nxt, nxt + 1, 77, 0xFFFFFFFF, rnd.randrange(2, 1 << 32)})
            for mid in ids:
                for end in ("eof", "close", "then-shutdown", "then-shutdown-eof"):
                    if end.startswith("then-shutdown") and pos not in ("idle", "served"):
                        continue
                    if not thorough and end != "eof" and mid not in (0, nxt, 77):
                        continue
                    for code in ((0,) if (not thorough or end != "eof") else (0, 100)):
                        b = cc.SB("c09-unsolicited-ccr-%s-id%d-%s-st%d-v%d" % (pos, mid, end, code, version), version=version)
                        started = []
                        if pos == "neg":
                            b.connect(negotiate=False)
                            b.expect()                               # GetSupportedVersion read by the reader, not answered
                        else:
                            b.connect()
                        if pos in ("served", "inflight"):
                            b.send(1, 20, 8, 471)
                            started.append(1)
                            if pos == "served":
                                b.reply_to(1, 30, 6, 472)
                                b.wait(1)
                        if pos == "behind-keepalive":
                            b.keepalive(5151)
                            b.expect()                               # its acknowledgement
                        b.peer(4, mid, pl=dict(k="status", code=code), ver=version)
                        b.op("state")
                        if end == "close":
                            b.op("close")
                        elif end.startswith("then-shutdown"):
                            b.steps.append(dict(op="shutdown", caller=3))
                            started.append(3)
                            b.expect()                               # CloseConnection
                            if end == "then-shutdown":
                                b.reply(b.nseen - 1, 4, pl=dict(k="status", code=0), ver=version)
                                b.wait(3)
                        b.op("peer_close")
                        finish(b, started, "unsolicited-ccr", "req1", pos=pos, mid=mid, end=end)
    # an UNWANTED message — the late reply of a cancelled caller, a reply-like message with an id nobody awaits, a custom message, a tag
    # report with no handler registered — in every payload size class around the buffering limit: 0, small, 64 KiB, limit-1, limit,
    # limit+1, 1 MiB (thorough: more), with and without another request in flight whose own small reply follows. It is discarded,
    # the stream stays frame-aligned: the other caller gets exactly its reply, a later request is served, a keep-alive is acknowledged.
    lim = cx.MAXBUF
    for n in ((0, 5, 65536, lim - 1, lim, lim + 1, 1 << 20) if not thorough else (0, 1, 5, 4096, 65535, 65536, 65537, lim - 1, lim, lim + 1, lim + 4097, 1 << 20, (1 << 21) + 3)):
        for what in ("late-reply", "unknown-id", "custom", "report"):
            for other in (True, False):
                if not other and not thorough and n not in (0, lim, lim + 1):
                    continue
                for version in ((1,) if not thorough else (1, 2)):
                    b = cc.SB("c09-unwanted-%s-n%d-%s-v%d" % (what, n, "other-inflight" if other else "alone", version), version=version)
                    b.connect()
                    base = b.nseen
                    b.send(1, 20, 8, 501)
                    started = [1]
                    if other:
                        b.send(2, 21, 9, 502)
                        started.append(2)
                    if what == "late-reply":
                        b.cancel(1)
                    fr = {"late-reply": dict(typ=30, id=base), "unknown-id": dict(typ=32, id=base + 50), "custom": dict(typ=1023, id=4000000001),
                          "report": dict(typ=61, id=4000000002)}[what]
                    b.steps.append(dict(op="peer_send", ver=version, pl=dict(k="tag", len=n, tag=503 if n else 0), **fr))
                    if other:
                        b.wait(2)                               # still waiting, undisturbed
                        b.reply_to(2, 31, 7, 504)
                        b.wait(2)
                    if what != "late-reply":
                        b.reply_to(1, 30, 6, 505)
                        b.wait(1)
                    b.send(3, 22, 4, 506)                       # a later request is served on the same stream
                    b.reply_to(3, 32, 5, 507)
                    b.wait(3)
                    started.append(3)
                    b.keepalive(7707)
                    b.expect()                                  # ... and a keep-alive is acknowledged
                    b.op("state")
                    b.op("peer_close")
                    # (the extracted model is slow on megabyte frames and the variant search runs it 8 times: only the late replies around
                    # the limit are compared with it, the rest is judged by the predicate on Go's run)
                    finish(b, started, "unwanted-size", "req1", n=n, what=what, other=other,
                           nocompare=(n > 65536 and not thorough and not (what == "late-reply" and other and n <= lim + 1)))
    # the reader goes QUIET in the middle of a frame (header complete, payload not: after the header, in the payload, one byte before the
    # end) — the reply of the caller that is about to leave, the reply of ANOTHER caller, a reply nobody waits for, a custom message —
    # and during that window a caller's context is cancelled / the client is closed / a new request is submitted. The cancelled caller
    # returns at once, Close releases every in-flight caller at once, the write loop takes and writes the new request — all while the
    # read loop sits in the half-received frame. Then the reader sends the rest, or hangs up.
    plen = 24
    for frame in ("own", "other", "nobody", "custom"):
        for cut in ((10, 11, 10 + plen - 1) if not thorough else (10, 11, 12, 20, 10 + plen - 2, 10 + plen - 1)):
            for action in ("cancel", "close", "submit", "submit-then-close"):
                for end in ("rest", "eof"):
                    for version in ((1,) if not thorough else (1, 2)):
                        b = cc.SB("c09-quiet-midframe-%s-cut%d-%s-%s-v%d" % (frame, cut, action, end, version), version=version)
                        b.connect()
                        base = b.nseen
                        b.send(1, 20, 8, 491)
                        b.send(2, 21, 9, 492)
                        fr = {"own": dict(typ=30, id=base), "other": dict(typ=31, id=base + 1), "nobody": dict(typ=32, id=base + 9),
                              "custom": dict(typ=1023, id=4000000000)}[frame]
                        fr = dict(op="peer_send", ver=version, pl=dict(k="tag", len=plen, tag=493), **fr)
                        b.steps.append(dict(fr, cut=cut))
                        started = [1, 2]
                        if action == "cancel":
                            b.cancel(1)
                            b.wait(2)
                        elif action == "close":
                            b.op("close")
                            b.wait(1)
                            b.wait(2)
                        else:
                            b.send(3, 22, 5, 494)                   # the write loop registers and writes it; the reader reads it
                            started.append(3)
                            if action == "submit":
                                b.cancel(3)
                            else:
                                b.op("close")
                                b.wait(3)
                                b.wait(1)
                        if end == "rest":
                            b.steps.append(dict(fr, skip=cut))
                            for c in started:
                                b.wait(c)
                        b.op("peer_close")
                        finish(b, started, "quiet-midframe", "req1", frame=frame, cut=cut, action=action, end=end)
    return out


def pred_script(s, g):
    """stuck = a call is still blocked (process quiescent) after the connection ended"""
    bad = []
    steps, obs = s["steps"], g.get("obs") or []
    ended, ended_conn = False, False
    for i, (st, o) in enumerate(zip(steps, obs)):
        if st["op"] == "peer_close":
            ended = ended_conn = True
            continue
        if st["op"] == "expect_frame" and s.get("family") == "wfail" and i == s.get("fault_step"):
            ended = True
            continue
        if not ended:
            continue
        r = o.get("res")
        if st["op"] == "wait_connect" and r == "blocked" and ended_conn:
            bad.append(("Connect", i))
        if st["op"] == "wait_caller" and r == "blocked":
            bad.append(("caller %d" % st["caller"], i))
        if st["op"] == "close":
            break
    extra = []
    view = cc.go_view(s, g)
    seen_cc = False
    for f in view["frames"]:
        if seen_cc:
            extra.append(("bytes-after-close-connection", "the client wrote a frame (typ %s) after the CloseConnection frame (script %s)" % (f.get("typ"), s["id"])))
            break
        if f.get("st") in ("ok", "timeout-after") and f.get("typ") == cc.T_CLOSE:
            seen_cc = True
    if s.get("family") == "cancel-isolated":
        other = s["other"]
        waits = [o.get("res") for st, o in zip(steps, obs) if st["op"] == "wait_caller" and st["caller"] == other]
        if waits[:2] != ["blocked", "blocked"]:
            extra.append(("cancel-disturbs-other-request", "caller %d was waiting for its reply when caller %d was cancelled and then got %s (script %s)" % (
                other, 3 - other, waits[:2], s["id"])))
        for sig, text in cc.pred_c03(view):
            extra.append(("cancel-disturbs-other-request:" + sig, text + " (script %s)" % s["id"]))
        st_obs = [o for st, o in zip(steps, obs) if st["op"] == "state"]
        if st_obs and st_obs[0].get("awaiting") not in (0, None):
            extra.append(("cancel-leaves-await-entry", "awaiting map has %s entries after both requests ended (script %s)" % (st_obs[0].get("awaiting"), s["id"])))
    fam = s.get("family") or ""
    # everywhere: "cancelling one caller's context returns that caller promptly" — at quiescence after the cancellation it has returned
    for i, (st, o) in enumerate(zip(steps, obs)):
        if st["op"] == "cancel" and o.get("res") == "blocked":
            extra.append(("cancelled-caller-does-not-return", "step %d: caller %d had not returned after its context was cancelled (every goroutine "
                          "parked) (script %s)" % (i, st["caller"], s["id"])))
            break
    if fam == "unwanted-size":
        what = []
        for i, (st, o) in enumerate(zip(steps, obs)):
            if st["op"] in ("peer_send", "reply", "keepalive") and o.get("st") != "ok":
                what.append("step %d: the client did not take the reader's frame (typ %s): %s" % (i, st.get("typ", 62), o.get("st")))
                break
        for c in (2, 1, 3):
            if c == 1 and s["what"] == "late-reply":
                continue
            w = [o.get("res") for st, o in zip(steps, obs) if st["op"] == "wait_caller" and st["caller"] == c]
            if w and "ok" not in w[:2]:
                what.append("caller %d (%s) got %s instead of its reply" % (c, {2: "in flight when the unwanted message arrived", 1: "in flight when the unwanted message arrived",
                                                                                3: "submitted afterwards"}[c], w[:2]))
        ack = [o for st, o in zip(steps, obs) if st["op"] == "expect_frame"]
        if not ack or ack[-1].get("st") != "ok" or ack[-1].get("typ") != cc.T_ACK:
            what.append("the keep-alive sent afterwards was not acknowledged (%s)" % (ack[-1].get("st") if ack else None))
        what += [t for _, t in cc.pred_c03(view)]
        what += ["%s still blocked after the connection ended" % b[0] for b in bad]
        if what:
            cls = ("0" if s["n"] == 0 else "small" if s["n"] < 65536 else "64KiB" if s["n"] < cx.MAXBUF - 1 else
                   "limit-1" if s["n"] == cx.MAXBUF - 1 else "limit" if s["n"] == cx.MAXBUF else "limit+1" if s["n"] == cx.MAXBUF + 1 else "beyond-limit")
            return extra + [("unwanted-message-disturbs-stream:%s:%s" % (s["what"], cls), "%s (script %s: %s with a %d-byte payload, buffering limit %d, %s)" % (
                "; ".join(dict.fromkeys(what)), s["id"], {"late-reply": "the late reply of a cancelled caller", "unknown-id": "a reply-like message with an id nobody awaits",
                                                           "custom": "a custom message without a handler", "report": "a tag report without a handler"}[s["what"]],
                s["n"], cx.MAXBUF, "another request in flight" if s["other"] else "no other request in flight"))]
        return extra
    if fam == "quiet-midframe":
        what = []
        cut_at = next(i for i, st in enumerate(steps) if st["op"] == "peer_send" and st.get("cut") is not None)
        closed_at = next((i for i, st in enumerate(steps) if st["op"] == "close" and i > cut_at), None)
        rest_at = next((i for i, st in enumerate(steps) if (st["op"] == "peer_send" and st.get("skip") is not None) or st["op"] == "peer_close"), len(steps))
        for i, (st, o) in enumerate(zip(steps, obs)):
            if not cut_at < i < rest_at:
                continue
            if st["op"] == "cancel" and o.get("res") == "blocked":
                what.append("step %d: caller %d did not return when its context was cancelled" % (i, st["caller"]))
            if st["op"] == "wait_caller" and closed_at is not None and i > closed_at and o.get("res") == "blocked":
                what.append("step %d: caller %d was not released by Close" % (i, st["caller"]))
            if st["op"] == "expect_frame" and o.get("st") != "ok":
                what.append("step %d: the request submitted meanwhile was not written (%s): the write loop is held up" % (i, o.get("st")))
        what += ["%s still blocked after the connection ended" % b[0] for b in bad]
        if what:
            return extra + [("peer-quiet-mid-frame:%s" % s["action"], "%s — while the reader had gone quiet %d bytes into a %d-byte frame (%s) (script %s)" % (
                "; ".join(what), s["cut"], 10 + 24, {"own": "the reply of the caller that leaves", "other": "the reply of another caller",
                                                     "nobody": "a reply nobody waits for", "custom": "a custom message"}[s["frame"]], s["id"]))]
        return extra
    if fam.startswith("api-"):
        what, fault = [], False
        for i, (st, o) in enumerate(zip(steps, obs)):
            if st["op"] in ("close", "peer_close") or (st["op"] == "reply" and fam == "api-shutdown-completes"):
                if st["op"] == "close" and fault and not [x for x in steps[:i] if x["op"] == "peer_close"] and fam != "api-close":
                    pass
                fault = True
                continue
            if fault and st["op"] == "wait_caller" and o.get("res") == "blocked" and st["caller"] != 9:
                who = "the %s call %s" % (s["api"], s["pos"]) if st["caller"] == 1 else "caller %d" % st["caller"]
                what.append("step %d: %s is still blocked after %s" % (i, who, "Close" if fam == "api-close" else "the connection ended"))
        what += ["%s still blocked after the connection ended" % b[0] for b in bad if b[0] == "Connect"]
        if what:
            return extra + [("blocked-send-not-released:%s:%s" % (s["api"], s["pos"]), "%s (script %s)" % ("; ".join(dict.fromkeys(what)), s["id"]))]
        return extra
    if fam == "pieces":
        what = []
        for i, (st, o) in enumerate(zip(steps, obs)):
            if st["op"] in ("peer_send", "reply") and o.get("st") != "ok":
                what.append("step %d: the client did not take the peer's bytes (typ %s%s): %s" % (
                    i, st.get("typ"), ", piece from byte %s" % st["skip"] if st.get("skip") is not None else "", o.get("st")))
                break
        w = [o.get("res") for st, o in zip(steps, obs) if st["op"] == "wait_caller" and st["caller"] == 2]
        if w[:2] != ["blocked", "ok"]:
            what.append("caller 2 (in flight while the unwanted message arrived in pieces) observed %s, expected ['blocked', 'ok']" % w[:2])
        what += [t for _, t in cc.pred_c03(view)]
        what += ["%s still blocked after the connection ended" % b[0] for b in bad]
        if what:
            return extra + [("unwanted-message-in-pieces-disturbs-stream", "%s (script %s: %d-byte payload delivered in pieces split at %s)" % (
                "; ".join(what), s["id"], s.get("n"), s.get("split")))]
        return extra
    if fam == "unsolicited-ccr":
        what = []
        for i, (st, o) in enumerate(zip(steps, obs)):
            if st["op"] in ("peer_send", "reply", "keepalive") and o.get("st") != "ok":
                what.append("step %d: the client did not take the reader's frame (typ %s): %s" % (i, st.get("typ", 62), o.get("st")))
                break
        what += ["%s still blocked (every goroutine parked) after the connection ended" % b[0] for b in bad]
        desc = "script %s: CloseConnectionResponse with message id %d that the client never asked for (%s), then %s" % (
            s["id"], s.get("mid"), s.get("pos"), {"eof": "the reader hangs up", "close": "a local Close", "then-shutdown": "a Shutdown that the reader answers",
                                                   "then-shutdown-eof": "a Shutdown that the reader cuts off by hanging up"}[s.get("end")])
        if what:
            return extra + [("unsolicited-close-response-then-eof-parks-read-loop", "%s (%s)" % ("; ".join(what), desc))]
        want = "other" if s.get("end") in ("eof", "then-shutdown-eof") else "closed"
        if s.get("pos") == "neg" and s.get("mid") == 0:
            want = "other"      # it carries the id of the outstanding GetSupportedVersion: a reply of the wrong type, negotiation fails first
        wc = [o.get("res") for st, o in zip(steps, obs) if st["op"] == "wait_connect"]
        if wc and wc[0] != want:
            extra.append(("connect-result-reason:unsolicited-ccr:%s:%s" % (s.get("end"), wc[0]),
                          "Connect returned class %s, expected %s (%s)" % (wc[0], want, desc)))
        return extra
    if fam.startswith("flood-"):
        what = []
        for i, (st, o) in enumerate(zip(steps, obs)):
            if st["op"] in ("keepalive", "peer_send") and o.get("st") != "ok":
                what.append("step %d: the client did not take the peer's frame (typ %s, id %s): %s" % (i, st.get("typ", 62), st.get("id"), o.get("st")))
                break
        if s.get("behind") == "reply":
            w = [o for st, o in zip(steps, obs) if st["op"] == "wait_caller" and st["caller"] == 1]
            if not w or w[0].get("res") != "ok":
                what.append("the reply behind the flood did not reach caller 1: %s" % (w[0].get("res") if w else None))
        what += ["%s still blocked after the connection ended" % b[0] for b in bad]
        if what:
            return extra + [("keepalive-flood-parks-read-loop", "%s (script %s: %d keep-alives while the peer reads nothing, then %s)" % (
                "; ".join(what), s["id"], s.get("k"), fam[6:]))]
        return extra
    if fam.startswith("split-"):
        sig = "reply-split-across-%s-wedges-read-loop" % fam[6:]
        what = []
        for i, (st, o) in enumerate(zip(steps, obs)):
            if st["op"] == "peer_send" and o.get("st") != "ok":
                what.append("step %d: the client did not take the peer's frame (typ %s%s): %s" % (
                    i, st.get("typ"), ", rest of the split reply" if st.get("skip") is not None else "", o.get("st")))
        if fam == "split-cancel":
            w = [o for st, o in zip(steps, obs) if st["op"] == "wait_caller" and st["caller"] == s["other"]]
            if not w or w[0].get("res") != "ok":
                what.append("caller %d did not get its reply after caller 1 was cancelled in the middle of its own reply: %s" % (
                    s["other"], w[0].get("res") if w else None))
            what += [t for _, t in cc.pred_c03(view)]
        what += ["%s still blocked after the connection ended" % b[0] for b in bad]
        if what:
            return extra + [(sig, "%s (script %s: reply cut after %d bytes)" % ("; ".join(what), s["id"], s.get("cut")))]
        return extra
    if not bad:
        return extra
    phase = s.get("phase")
    if phase == "neg" and s.get("family") != "close":
        sig = "connect-stuck-peer-eof-during-negotiation"
    elif phase == "ccr" and s.get("family") == "cut" and (s.get("cut") or 0) >= 10:
        sig = "shutdown-stuck-truncated-close-connection-response"
    else:
        sig = "stuck:%s:%s:%s" % (bad[0][0].split()[0], phase, s.get("family"))
    return extra + [(sig, "%s still blocked with every goroutine parked after the connection ended (script %s, %s, phase %s)" % (
        ", ".join(b[0] for b in bad), s["id"], s.get("family"), phase))]


def pred_walk(s, g):
    """C09 on a random walk (checks/client_walk.py): clauses that hold for ANY script.
    a cancelled caller has returned at quiescence; after a local Close no call is left blocked; after Close AND the end of the connection
    Connect has returned too; Close never panics and succeeds at most once; nothing is written after a CloseConnection frame"""
    bad = []
    steps, obs = s["steps"], g.get("obs") or []
    closed_local = ended = False
    nil_closes = 0
    for i, (st, o) in enumerate(zip(steps, obs)):
        op, r = st["op"], o.get("res")
        if op == "cancel" and r == "blocked":
            bad.append(("cancelled-caller-does-not-return", "step %d: caller %d had not returned after its context was cancelled (walk %s)" % (i, st["caller"], s["id"])))
        if op == "close":
            closed_local = True
            if r == "nil":
                nil_closes += 1
            elif r != "closed":
                bad.append(("double-close:%s" % r, "step %d: Close returned %s (walk %s)" % (i, r, s["id"])))
        if op == "peer_close":
            ended = True
        if op == "wait_caller" and closed_local and r == "blocked":
            bad.append(("stuck:caller:walk:close", "step %d: caller %d is still blocked (every goroutine parked) after a local Close (walk %s)" % (i, st["caller"], s["id"])))
        if op == "wait_connect" and closed_local and ended and r == "blocked":
            bad.append(("stuck:Connect:walk:close+eof", "step %d: Connect is still blocked after Close and the end of the connection (walk %s)" % (i, s["id"])))
    if nil_closes > 1:
        bad.append(("double-close:nil", "Close returned nil %d times (walk %s)" % (nil_closes, s["id"])))
    seen_cc = False
    for f in cc.go_view(s, g)["frames"]:
        if seen_cc:
            bad.append(("bytes-after-close-connection", "the client wrote a frame (typ %s) after a CloseConnection frame (walk %s)" % (f.get("typ"), s["id"])))
            break
        if f.get("st") in ("ok", "timeout-after") and f.get("typ") == cc.T_CLOSE:
            seen_cc = True
    if (g.get("final") or {}).get("panics"):
        bad.append(("panic", "panic: %s (walk %s)" % (g["final"]["panics"][:2], s["id"])))
    out, seen = [], set()
    for sg, t in bad:
        if sg not in seen:
            seen.add(sg)
            out.append((sg, t))
    return out


# ------------------------------------------------------------------ the check
def run(tier, seed, replay=None):
    res = vlib.Result(PID, tier, seed)
    res.level = "proof"
    res.assumptions = vlib.TRUSTED_COMMON + [
        "PARTIAL: 'promptly' / 'returns once the connection ends' are about time: the theorems prove enabledness (C09_no_caller_stuck, "
        "C09_loop_error_first, C09_connect_watching_returns ...), this check measures return by process-wide quiescence (runtime.Stack: "
        "every other goroutine parked) — Go scheduler fairness and net.Conn deadline semantics are not modelled",
        "client LTS coq/Client/Model.v + coq/Client/ModelX.v (one extra transition for the fixed Connect); script interpreter Script.v",
        "harness/llrp/c09_test.go: the reference session and its byte-level peer; expected result classes per fault point are computed in "
        "checks/c09.py (ok iff the caller's reply was completely sent before the fault; Connect = 'client closed' iff closure was local "
        "or the session completed, else the failure)",
        "net.Pipe stands for the TCP connection (synchronous, no buffering): a vanished peer = its end closed",
    ]
    vlib.proof_part(res, PID)
    rc, log = vlib.build_oracle("client")
    ok, blog, exe = vlib.build_harness("llrp", PID, ["client_script_test.go", "c09_test.go"])
    if rc != 0 or not ok:
        res.violation("build", "oracle or harness does not build: %s %s" % (log[-800:], blog[-1500:]), dict(kind="build"), False)
        return res.finish()
    thorough = tier == "thorough"
    reported = set()
    evals, dist, samples, nontriv = 0, {}, [], set()

    def report(sig, text, rp):
        if sig in reported:
            return
        reported.add(sig)
        res.violation(sig, text, rp)

    # ---- replay
    if replay:
        rp = json.load(open(replay))
        if rp.get("kind") == "fault":
            o = run_faults(exe, [rp["request"]], shards=1)[0]
            for sig, text in judge_fault(rp["request"], o):
                report(sig, text, dict(kind="fault", request=rp["request"], observed=o))
        elif rp.get("kind") == "race":
            o, log = run_each(exe, "TestVerifC09Race", [rp["request"]])[0]
            for sig, text in judge_race(rp["request"], o, log):
                report(sig, text, dict(kind="race", request=rp["request"], observed=o))
        elif rp.get("kind") == "stream":
            o = run_stream(exe, [rp["request"]])[0]
            for sig, text in judge_stream(rp["request"], o):
                report(sig, text, dict(kind="stream", request=rp["request"], observed=o))
        elif rp.get("kind") == "driver":
            okd, dlog, dexe = vlib.build_harness("driver", PID, ["c09_test.go"])
            o = run_stream(dexe, [rp["request"]], test="TestVerifC09Driver")[0]
            for sig, text in judge_driver(rp["request"], o):
                report(sig, text, dict(kind="driver", request=rp["request"], observed=o))
        elif rp.get("kind") == "device":
            okd, dlog, dexe = vlib.build_harness("driver", PID, ["c09_test.go"])
            o = run_stream(dexe, [rp["request"]], test="TestVerifC09Device")[0]
            for sig, text in judge_device(rp["request"], o):
                report(sig, text, dict(kind="device", request=rp["request"], observed=o))
        elif rp.get("kind") == "late":
            o = run_stream(exe, [rp["request"]], test="TestVerifC09LateSend")[0]
            for sig, text in judge_late(rp["request"], o):
                report(sig, text, dict(kind="late", request=rp["request"], observed=o))
        elif rp.get("kind") == "flood":
            o = run_stream(exe, [rp["request"]], test="TestVerifC09Flood")[0]
            for sig, text in judge_flood(rp["request"], o):
                report(sig, text, dict(kind="flood", request=rp["request"], observed=o))
        elif rp.get("kind") == "script":
            g, _ = cc.run_go(exe, [rp["script"]], shards=1)
            for sig, text in (pred_walk if rp["script"].get("family") == "walk" else pred_script)(rp["script"], g[0] or {}):
                report(sig, text, dict(kind="script", script=rp["script"], observed=g[0]))
        return res.finish()

    # ---- tie 1: byte-level faults
    reqs = gen_faults(seed, thorough)
    obs = run_faults(exe, reqs)
    stuck_points = {}
    for rq, o in zip(reqs, obs):
        evals += 1
        key = "v%d/%s" % (rq["version"], rq["variant"])
        dist[key] = dist.get(key, 0) + 1
        nontriv.add((rq["version"], rq["action"], rq["off"], rq["variant"]))
        bad = judge_fault(rq, o)
        for sig, text in bad:
            if sig.startswith(("connect-stuck", "shutdown-stuck", "stuck:")):
                stuck_points.setdefault(sig, []).append(rq["id"])
            report(sig, text + " [fault %s]" % rq["id"], dict(kind="fault", request=rq, observed=o,
                   theorem="C09_connect_stuck_refuted / C09_connect_watching_returns" if sig.startswith("connect-stuck") else "C09 (enabledness)"))
        if len(samples) < 4 and rq["variant"] != "plain" and rq["action"] in (6, 8, 11) and rq["off"] in (3, 12):
            samples.append(dict(request=rq, observed={k: o.get(k) for k in ("connect", "callers", "close2", "close3", "late", "extra_after_close_conn")} if o else None))

    # ---- tie 1b: overlapping Close calls (each mode in a process of its own: a crash is attributed)
    race_reqs = [dict(id="close-race-fresh", mode="fresh", n=4, millis=5000 if thorough else 1500),
                 dict(id="close-race-fresh-8", mode="fresh", n=8, millis=3000 if thorough else 800),
                 dict(id="close-race-connected", mode="connected", n=3, millis=5000 if thorough else 1500)]
    race_obs = run_each(exe, "TestVerifC09Race", race_reqs)
    race_rounds = 0
    for rq, (o, log) in zip(race_reqs, race_obs):
        evals += 1
        dist["close-race/" + rq["mode"]] = dist.get("close-race/" + rq["mode"], 0) + 1
        nontriv.add((rq["id"],))
        for sig, text in judge_race(rq, o, log):
            report(sig, text, dict(kind="race", request=rq, observed=o))
        race_rounds += (o or {}).get("rounds", 0)

    # ---- tie 1c: a reader that never goes quiet and never hangs up (time budget, not quiescence)
    stream_reqs = [dict(id="stream-%s-v%d-p%d" % (sc, v, per), version=v, scenario=sc, period_us=per, budget_ms=2000)
                   for v in (1, 2) for sc in ("close", "shutdown", "cancel") for per in ((2000,) if not thorough else (500, 2000, 8000))]
    stream_reqs += [dict(id="stream-close-unanswered-negotiation-p%d" % per, version=2, scenario="close-unanswered-negotiation",
                         period_us=per, budget_ms=2000) for per in ((2000,) if not thorough else (500, 2000, 8000))]
    stream_obs = run_stream(exe, stream_reqs)
    for rq, o in zip(stream_reqs, stream_obs):
        evals += 1
        dist["stream/" + rq["scenario"]] = dist.get("stream/" + rq["scenario"], 0) + 1
        nontriv.add((rq["id"],))
        for sig, text in judge_stream(rq, o):
            report(sig, text + " [%s]" % rq["id"], dict(kind="stream", request=rq, observed=o))
    if stream_obs and stream_obs[0]:
        samples.append(dict(request=stream_reqs[0], observed=stream_obs[0]))

    # ---- tie 1d: keep-alive flood into a peer that reads nothing, then every termination cause (time budget)
    flood_reqs = [dict(id="flood-k%d-%s-%s" % (k, cause, behind), k=k, cause=cause, behind=behind, timeout_ms=150, budget_ms=2000)
                  for k in ((7, 20, 100) if not thorough else (5, 6, 7, 8, 20, 100, 1000))
                  for cause in ("eof", "close", "shutdown", "deadline") for behind in ("none", "reports", "reply")]
    flood_obs = run_stream(exe, flood_reqs, shards=6, test="TestVerifC09Flood")
    for rq, o in zip(flood_reqs, flood_obs):
        evals += 1
        dist["flood/" + rq["cause"]] = dist.get("flood/" + rq["cause"], 0) + 1
        nontriv.add((rq["id"],))
        for sig, text in judge_flood(rq, o):
            report(sig, text + " [%s]" % rq["id"], dict(kind="flood", request=rq, observed=o, theorem="C09_flood_keeps_reading"))

    # ---- tie 1e: sends after close, many times, every exported API (a select between ready channels picks at random)
    late_reqs = [dict(id="late-send-after-%s" % how, tries=200 if thorough else 60, per_call_ms=500, how=how) for how in ("close", "shutdown", "eof")]
    late_obs = run_stream(exe, late_reqs, shards=3, test="TestVerifC09LateSend")
    for rq, o in zip(late_reqs, late_obs):
        evals += 1
        dist["late-send/" + rq["how"]] = dist.get("late-send/" + rq["how"], 0) + 1
        nontriv.add((rq["id"],))
        for sig, text in judge_late(rq, o):
            report(sig, text + " [%s]" % rq["id"], dict(kind="late", request=rq, observed=o, theorem="C09_submit_after_close_fails"))

    # ---- tie 1f: the driver layer — Stop / UpdateAddr / resetConn with a reader that refuses CloseConnection in each way:
    #      afterwards the OLD client must be closed (Close as the fallback of a failed Shutdown)
    okd, dlog, dexe = vlib.build_harness("driver", PID, ["c09_test.go"])
    if not okd:
        report("build", "driver harness does not build: %s" % dlog[-1500:], dict(kind="build"))
    else:
        drv_reqs = [dict(id="driver-%s-%s" % (op, rf), op=op, refuse=rf, ctx_ms=300, budget_ms=1000)
                    for op in ("stop", "update_addr", "reset")
                    for rf in ("ccr-error", "errmsg-error", "errmsg-success", "wrong-type", "ccr-garbage", "accept", "silent")
                    if not (op == "reset" and rf == "silent")]      # resetConn's own context is 20 s
        drv_obs = run_stream(dexe, drv_reqs, shards=4, test="TestVerifC09Driver")
        for rq, o in zip(drv_reqs, drv_obs):
            evals += 1
            dist["driver/" + rq["op"]] = dist.get("driver/" + rq["op"], 0) + 1
            nontriv.add((rq["id"],))
            for sig, text in judge_driver(rq, o):
                report(sig, text + " [%s]" % rq["id"], dict(kind="driver", request=rq, observed=o))

        # ---- tie 1g: a real LLRPDevice whose EdgeX side is stalled: its handlers must not keep Connect from returning
        dev_reqs = gen_device(thorough)
        dev_obs = run_stream(dexe, dev_reqs, shards=6, test="TestVerifC09Device")
        for rq, o in zip(dev_reqs, dev_obs):
            evals += 1
            dist["device/" + rq["cause"]] = dist.get("device/" + rq["cause"], 0) + 1
            nontriv.add((rq["id"],))
            bad = judge_device(rq, o)
            if bad:          # a time budget decides here: a finding is re-run alone before it is reported
                o = run_stream(dexe, [rq], shards=1, test="TestVerifC09Device")[0]
                bad = judge_device(rq, o)
            for sig, text in bad:
                report(sig, text + " [%s]" % rq["id"], dict(kind="device", request=rq, observed=o))
        if dev_obs and dev_obs[0]:
            samples.append(dict(request=dev_reqs[0], observed=dev_obs[0]))

    # ---- tie 2: frame-level scripts against the model (with / without the fixed Connect)
    scripts = gen_scripts(thorough)
    go, logs = cc.run_go(exe, scripts, shards=8)
    best = None
    cmp_idx = [i for i, sc in enumerate(scripts) if not sc.get("nocompare")]
    for watch in (False, True):
        variant, diffs_c, counts, _ = cx.pick_variant([scripts[i] for i in cmp_idx], [go[i] for i in cmp_idx], watch=watch)
        if diffs_c is None:
            res.violation("oracle-run", "oracle: %s" % counts, dict(kind="oracle"), False)
            return res.finish()
        n = sum(1 for d in diffs_c if d)
        if best is None or n < best[0]:
            diffs = [[] for _ in scripts]
            for i, d in zip(cmp_idx, diffs_c):
                diffs[i] = d
            best = (n, watch, variant, diffs, counts)
    n, watch, variant, diffs, counts = best
    res.notes.append("model variant matching the code: connect_watches_errs_while_negotiating=%s filter_unsolicited=%s stamp_always=%s (%d of %d "
                     "scripts disagree)" % (watch, variant[0], variant[1], n, len(scripts)))
    for s, g, d in zip(scripts, go, diffs):
        if s.get("nocompare"):
            d = []
        evals += 1
        fam = "script/" + s.get("family", "?")
        dist[fam] = dist.get(fam, 0) + 1
        if g is None or g.get("st") in ("watchdog", "skipped", "crash") or "harness_panic" in g:
            report("harness-run", "no observation for script %s: %s" % (s["id"], str(g)[:300]), dict(kind="harness", script=s))
            continue
        nontriv.add((s["id"],))
        bad = pred_script(s, g)
        for sig, text in bad:
            report(sig, text, dict(kind="script", script=s, observed=g, model_variant=dict(watch=watch)))
        if d and not bad:
            d2 = cc.compare(s, (cc.run_go(exe, [s], shards=1)[0] or [None])[0], cx.run_model([s], variant, watch)[0])
            if d2:
                report("correspondence:C09/script", "Go and the model disagree on script %s though nothing is stuck on Go's run: %s" % (
                    s["id"], "; ".join(d2[:4])), dict(kind="correspondence", correspondence="C09/client-script", script=s, differences=d2[:10]))
                res.violations[-1] = res.violations[-1][:3] + (False,)

    # ---- tie 3: model-based random walks (checks/client_walk.py) with the clauses of C09 that hold for any script + Go/model comparison
    import client_walk as cw
    wscripts, wstats, wcalls = cw.walks(seed + 109, 3000 if thorough else 300, cw.WEIGHTS[PID], prefix="c09-walk")
    winfo = cx.run_walks(res, PID, exe, wscripts, pred_walk, reported)
    walk_ev = cw.evidence(wstats, wscripts, wcalls)
    walk_ev.update(result=winfo)
    evals += len(wscripts)
    dist["walk"] = len(wscripts)
    nontriv.update(("walk", json.dumps(sc["steps"], sort_keys=True)) for sc in wscripts)

    res.coverage.update(
        walks=walk_ev,
        evaluations=evals, distinct_nontrivial=len(nontriv),
        rule="a case is one run of the reference session on the real Client with one fault point (frame, byte offset, direction) and one "
             "variant (plain / cancel / local Close / second Shutdown), or one frame-level script also run on the model; every case is "
             "non-trivial (a live session with callers in flight); distinct by (version, action, offset, variant) / script id",
        samples=samples, input_distribution=dist, traces_validated_against_impl=len(cmp_idx), predicate_only_scripts=len(scripts) - len(cmp_idx),
        fault_points=len({(r["version"], r["action"], r["off"]) for r in reqs}),
        close_race_rounds=race_rounds, streaming_peer_runs=len(stream_reqs), flood_runs=len(flood_reqs),
        stuck_fault_points={k: dict(count=len(v), first=v[:3]) for k, v in stuck_points.items()},
        model_variant=dict(connect_watches_errs_while_negotiating=watch, filter_unsolicited=variant[0], stamp_always=variant[1], disagreeing=n),
        partial="time-bounded wording ('promptly', 'once the connection ends') is proved as enabledness and measured by quiescence",
        trusted_base=res.assumptions)
    return res.finish()
