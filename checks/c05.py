"""C05 — the outbound stream is a sequence of whole, correctly sized frames.
proof: coq/Props/C05.v over the client LTS (coq/Client/Model.v, InvOut.v, C05Proofs.v);
tie: scripts on the real Client vs the extracted model; the raw bytes the peer receives are parsed by
the harness's own frame parser, payloads checked by hash, ids collected; the property is evaluated on
what Go wrote."""
import json, os, random, re
import vlib
import client_common as cc
import client_walk as cw

PID = "C05"
REQ_TYPES = [1, 2, 3, 20, 21, 22, 23, 24, 25, 26, 40, 41, 42, 43, 44, 45, 60, 64, 1023]
SIZES_Q = [0, 1, 2, 9, 10, 11, 255, 256, 257, 4096]
BIG_Q = [65535, 65536, 65537]
BIG_T = BIG_Q + [655359, 655360, 655361, 1 << 20]


def resp_type(t):
    return t + 10 if t + 10 <= 1023 and not 900 <= t + 10 <= 999 else 1023


def gen_script(rnd, sid, family, thorough):
    version = 2 if rnd.random() < 0.3 else 1
    b = cc.SB(sid, version=version)
    b.connect(cur=rnd.choice([1, 2]), mx=2)
    big = BIG_T if thorough else BIG_Q
    tagc = [rnd.randrange(1, 1 << 20) * 64]
    used_types = set()
    nextc = [1]
    outstanding, held = [], []     # held: sent, frame not yet read by the peer

    def tag():
        tagc[0] += 1
        return tagc[0]

    def size():
        r = rnd.random()
        if r < (0.2 if thorough else 0.06):
            return rnd.choice(big)
        return rnd.choice(SIZES_Q) if r < 0.8 else rnd.randrange(0, 5000)

    def start(expect, api=None):
        c = nextc[0]
        nextc[0] += 1
        n = size()
        t = rnd.choice(REQ_TYPES)
        if n == 0:
            cand = [x for x in REQ_TYPES if x not in used_types]
            if cand:
                t = rnd.choice(cand)
            else:
                n = 1 + rnd.randrange(0, 50)
        used_types.add(t)
        b.send(c, t, n, tag(), expect=expect, api=api, ver=rnd.choice([0, 1, 2]) if api else None)
        return c

    n_ops = rnd.randrange(4, 12)
    for _ in range(n_ops):
        r = rnd.random()
        if family == "interleave" and r < 0.5 and not held:
            # the peer stops reading: request A in the write loop's hand, then a keep-alive and
            # request B queue up; the acknowledgement must come out before B, each frame whole
            a = start(False)
            ka = rnd.choice([0, 7, 4294967295, rnd.randrange(1 << 32)])
            b.keepalive(ka)
            if rnd.random() < 0.6:
                bq = start(False)
            else:
                bq = None
            b.req_index[a] = b.nseen
            b.expect()
            b.expect()              # the acknowledgement
            outstanding.append(a)
            if bq is not None:
                b.req_index[bq] = b.nseen
                b.expect()
                outstanding.append(bq)
        elif family == "cancel" and r < 0.4 and not held:
            a = start(False)        # held by the write loop
            q = start(False)        # queued behind it
            b.cancel(q)             # gives up while queued: must never be written
            b.req_index[a] = b.nseen
            b.expect()
            b.expect_none()
            outstanding.append(a)
            if rnd.random() < 0.5:
                b.cancel(a)         # in flight: written once, reply later is dropped
                outstanding.remove(a)
                b.reply_to(a, resp_type(b.reqs[a]["typ"]), size(), tag())
        elif family == "apis" and r < 0.5:
            api = rnd.choice(["SendNoWait", "send"])
            c = start(True, api=api)
            if api == "send":
                outstanding.append(c)
        elif r < 0.8:
            outstanding.append(start(True))
        elif r < 0.9:
            b.keepalive(rnd.randrange(1 << 32))
            b.expect()
        if outstanding and rnd.random() < 0.5:
            c = outstanding.pop(rnd.randrange(len(outstanding)))
            b.reply_to(c, resp_type(b.reqs[c]["typ"]), size(), tag())
            b.wait(c)
    rnd.shuffle(outstanding)
    for c in outstanding:
        b.reply_to(c, resp_type(b.reqs[c]["typ"]), size(), tag())
        b.wait(c)
    b.op("drain")
    b.op("state")
    sc = b.script()
    sc["family"] = family
    return sc


FAMILIES = ["plain", "interleave", "interleave", "cancel", "apis"]


def gen_scripts(seed, n, thorough):
    rnd = random.Random(seed)
    return [gen_script(rnd, "c05-%d-%s" % (i, FAMILIES[i % len(FAMILIES)]), FAMILIES[i % len(FAMILIES)], thorough)
            for i in range(n)]


def gated_script(rnd, sid):
    """the write loop is parked BETWEEN the header Write and the payload Write of a request (the two are
    separate conn.Write calls) while keep-alives arrive — more than the ack queue holds in most scripts.
    Whoever else writes to the connection now lands inside the frame. Judged on Go's bytes only."""
    version = rnd.choice([1, 2])
    b = cc.SB(sid, version=version)
    b.connect(cur=rnd.choice([1, 2]), mx=2)
    tag = rnd.randrange(1, 1 << 20) * 64
    if rnd.random() < 0.5:                        # a request already answered / outstanding before
        b.send(1, rnd.choice(REQ_TYPES), rnd.choice([0, 5, 300]), tag + 1)
        if rnd.random() < 0.5:
            b.reply_to(1, 1023, rnd.choice([0, 3, 64]), tag + 2)
            b.wait(1)
    b.op("gate_payload")
    n = rnd.choice([1, 2, 10, 100, 129, 4096, 65536])
    b.send(2, rnd.choice(REQ_TYPES), n, tag + 3, expect=False)
    b.op("expect_header")
    nka = rnd.choice([0, 3, 5, 6, 6, 7, 7, 8])
    for k in range(nka):
        b.keepalive(rnd.choice([0, 4294967295, 1000 + k, rnd.randrange(1 << 32)]))
    b.op("state")
    b.op("release_payload")
    b.op("expect_rest")
    b.req_index[2] = b.nseen
    b.nseen += 1
    b.op("drain")
    if rnd.random() < 0.5:
        b.reply_to(2, 1023, rnd.choice([0, 7, 200]), tag + 4)
        b.wait(2)
    b.op("state")
    sc = b.script()
    sc["family"] = "gated"
    sc["step_ms"] = 1500
    return sc


def wtimeout_script(rnd, sid):
    """a Write of the client runs into a timeout after k bytes (timeout-class net.Error, the connection itself stays
    usable): inside a header (k = 1..9) or inside a payload. The raw wire must remain whole frames plus at most one
    unfinished frame at the very end. Go only; the peer takes raw bytes."""
    b = cc.SB(sid, version=1)
    b.connect_step["client_timeout_ms"] = 5000       # WithTimeout client (deadlines far away: the fault is injected)
    b.connect()
    tag = rnd.randrange(1, 1 << 20) * 64
    if rnd.random() < 0.7:                            # a complete frame first
        b.send(1, rnd.choice(REQ_TYPES), rnd.choice([0, 3, 200]), tag + 1, expect=False)
        b.op("drain_raw")
    n = rnd.choice([1, 8, 40, 300])
    in_payload = rnd.random() < 0.35
    if in_payload:
        k = rnd.randrange(0, n)
        b.op("write_fail", kind="timeout", after=k, in_payload=True)
        b.send(2, rnd.choice(REQ_TYPES), n, tag + 2, expect=False)
        b.op("peer_read", n=10)
        if k:
            b.op("peer_read", n=k)
    else:
        k = rnd.randrange(1, 10)
        b.op("write_fail", kind="timeout", after=k)
        b.send(2, rnd.choice(REQ_TYPES), n, tag + 2, expect=False)
        b.op("peer_read", n=k)
    b.op("drain_raw")
    if rnd.random() < 0.5:
        b.keepalive(rnd.randrange(1 << 32))
        b.op("drain_raw")
    b.op("state")
    sc = b.script()
    sc["family"] = "wtimeout"
    sc["step_ms"] = 1000
    return sc


def wdeadline_script(rnd, sid):
    """the same with a real deadline: WithTimeout client, the peer takes 1..9 header bytes, stalls for longer than the
    write deadline and then reads on"""
    b = cc.SB(sid, version=1)
    b.connect_step["client_timeout_ms"] = 250
    b.connect()
    tag = rnd.randrange(1, 1 << 20) * 64
    b.send(1, rnd.choice(REQ_TYPES), rnd.choice([6, 40]), tag + 1, expect=False)
    b.op("peer_read", n=rnd.randrange(1, 10))
    b.op("sleep", ms=330)
    b.op("drain_raw")
    b.op("state")
    sc = b.script()
    sc["family"] = "wdeadline"
    sc["step_ms"] = 1000
    return sc


def cancel_held_script(rnd, sid):
    """request A is in the write loop's hands (header written, payload not yet — or nothing written yet because the
    peer does not read) when A's caller gives up; another caller then sends B; A's frame must still carry A's bytes"""
    b = cc.SB(sid, version=1)
    b.connect()
    tag = rnd.randrange(1, 1 << 20) * 64
    n = rnd.choice([4, 33, 500, 5000])
    m = rnd.choice([1, 4, n, max(1, n // 2)])
    gate = rnd.random() < 0.6
    if gate:
        b.op("gate_payload")
    b.send(1, rnd.choice(REQ_TYPES), n, tag + 1, expect=False)
    if gate:
        b.op("expect_header")
    b.cancel(1)
    tb = rnd.choice([t for t in REQ_TYPES if t != b.reqs[1]["typ"]])
    b.send(2, tb, m, tag + 2, expect=False)
    if gate:
        b.op("release_payload")
        b.op("expect_rest")
        b.nseen += 1
    else:
        b.expect()
    b.req_index[2] = b.nseen
    b.expect()
    b.reply_to(2, 1023, 5, tag + 3)
    b.wait(2)
    b.op("drain")
    sc = b.script()
    sc["family"] = "cancel-held"
    sc["procs"] = 1
    return sc


def cancel_midframe_script(rnd, sid, n=None):
    """cancellation at any point of a frame's transmission: the peer stalls after taking k bytes of a (large) frame —
    nothing, part of the header, the header, inside the payload incl. the 32 KiB / 64 KiB boundaries, all but the last
    byte — the sender is cancelled, an acknowledgement and another sender queue up, the peer resumes. The raw byte
    stream must still be whole frames: the cancelled request's frame complete, with its own bytes. Go only."""
    b = cc.SB(sid, version=1)
    b.connect()
    tag = rnd.randrange(1, 1 << 20) * 64
    if n is None:
        n = rnd.choice([65537, 65537, 70000, 98305, 131073, 200, 5000, 40000, 65536])
    total = n + 10
    k = rnd.choice([x for x in (0, 5, 10, 11, 4096, 32768, 32778, 40960, 65536, 65546, 102400, total - 1) if x < total])
    if rnd.random() < 0.4:
        b.send(1, rnd.choice(REQ_TYPES), rnd.choice([0, 9, 300]), tag + 1, expect=False)
        b.op("drain_raw")
    b.send(2, rnd.choice(REQ_TYPES), n, tag + 2, expect=False)
    if k:
        b.op("peer_read", n=k)
    order = rnd.choice(["cancel-first", "queue-first"])
    if order == "cancel-first":
        b.cancel(2)
    if rnd.random() < 0.7:
        b.keepalive(rnd.randrange(1 << 32))
    if rnd.random() < 0.7:
        b.send(3, rnd.choice([t for t in REQ_TYPES if t != b.reqs[2]["typ"]]), rnd.choice([0, 4, 700]), tag + 3, expect=False)
    if order == "queue-first":
        b.cancel(2)
    b.op("drain_raw")
    b.keepalive(7)
    b.op("drain_raw")
    b.op("state")
    sc = b.script()
    sc["family"] = "cancel-midframe"
    sc["step_ms"] = 2000
    return sc


TYPE_SET = [0, 1, 2, 62, 899, 900, 999, 1000, 1023, 1024, 1025, 1086, 2047, 2048, 4097, 32768, 33791, 65535]


def types_script(rnd, sid, api, with_payload, version):
    """every exported way of submitting a message (SendMessage, SendFor, SendNoWait with a Message from NewHdrOnlyMsg /
    NewByteMessage) x message types over the whole uint16 range: either the call is refused (error or panic; nothing on the
    wire) or the frame on the wire carries exactly that 10-bit type, no reserved bit and the client's version. Go only; the
    raw bytes are decoded by the python parser."""
    b = cc.SB(sid, version=version)
    b.connect(cur=2, mx=2)
    if version == 2:
        b.op("drain_raw")
    tag = rnd.randrange(1, 1 << 20) * 64
    types = rnd.sample(TYPE_SET, 5) + [rnd.choice([1, 3, 20, 44, 1023])]
    c = 1
    for t in types:
        n = (1 + rnd.randrange(0, 40)) if with_payload else 0
        b.send(c, t, n, tag + c, expect=False, api=(None if api == "SendMessage" else api), ver=0)
        b.wait(c)
        b.op("drain_raw")
        c += 1
    b.op("state")
    sc = b.script()
    sc["family"] = "types"
    sc["api"] = api
    return sc


def types_scripts(rnd, thorough):
    out = []
    for api in ("SendMessage", "SendFor", "SendNoWait"):
        for with_payload in (False, True):
            for version in (1, 2):
                for rep in range(4 if thorough else 1):
                    out.append(types_script(rnd, "c05-types-%s-%s-v%d-%d" % (api, "pl" if with_payload else "hdr", version, rep),
                                            api, with_payload, version))
    return out


# ---------------------------------------------------------------- static: who writes to the connection?
READ_USE = re.compile(r"io\.ReadFull\(\s*c\.conn|io\.ReadAtLeast\(\s*c\.conn|io\.LimitReader\(\s*c\.conn|io\.Copy(N|Buffer)?\(\s*io\.Discard\s*,\s*c\.conn|"
                      r"c\.conn\.Read\(|c\.conn\.Set(Read|Write)?Deadline\(|c\.conn\.(Remote|Local)Addr\(|bufio\.NewReader(Size)?\(\s*c\.conn|"
                      r"c\.conn\s*(==|!=)\s*nil|ioutil\.ReadAll\(\s*c\.conn|io\.ReadAll\(\s*c\.conn")
WRITE_USE = re.compile(r"c\.conn\.Write\(|io\.Copy(N|Buffer)?\(\s*c\.conn|io\.WriteString\(\s*c\.conn|fmt\.Fprint(f|ln)?\(\s*c\.conn|"
                       r"binary\.Write\(\s*c\.conn|\.WriteTo\(\s*c\.conn|bufio\.NewWriter(Size)?\(\s*c\.conn")


def single_writer_static(res):
    """Way 1 for the model's single-writer assumption: tools/go-access lists every use of Client.conn with its
    enclosing function and the goroutine role(s) that can reach it. Every use that can write to the connection
    (a recognised write call, or any use that is not a recognised read/deadline/address call) must be reachable
    from the write loop only. Returns a dict for the evidence."""
    src = os.path.join(vlib.ROOT, "tools", "go-access")
    exe = os.path.join(vlib.BUILD, "go-access")
    with vlib.Lock("go_access_build"):
        rc, out = vlib.sh(["go", "build", "-o", exe, "."], cwd=src, env=vlib.GOENV, timeout=300)
    if rc != 0:
        res.violation("tool-build", "tools/go-access does not build: " + out[-600:], dict(kind="build"), False)
        return {}
    os.makedirs(os.path.join(vlib.GEN, "C05"), exist_ok=True)
    jpath = os.path.join(vlib.GEN, "C05", "access.json")
    rc, out = vlib.sh([exe, "-repo", vlib.REPO, "-json", jpath, "-out", os.path.join(vlib.GEN, "C05", "AccessTable.v")], timeout=300)
    if rc != 0 or not os.path.exists(jpath):
        res.violation("extraction-failed", "go-access could not extract the accesses of Client.conn: " + out[-600:], dict(kind="way1"), False)
        return {}
    acc = [a for a in json.load(open(jpath)).get("accesses", []) if a.get("loc") == "Client.conn"]
    lines = {}
    uses = {}       # (file, line, func) -> dict(kind, roles)
    for a in acc:
        if a.get("kind") != "KRead":          # assignment to the field itself (Connect): not a use of the connection
            continue
        f = a["file"]
        if f not in lines:
            try:
                lines[f] = open(os.path.join(vlib.REPO, "pkg", "llrp", f)).read().split("\n")
            except OSError:
                lines[f] = []
        # the statement: from the access line until the parentheses balance (at most 6 lines)
        stmt, depth = "", 0
        for ln in lines[f][a["line"] - 1:a["line"] + 5]:
            stmt += " " + ln.strip()
            depth += ln.count("(") - ln.count(")")
            if depth <= 0:
                break
        kind = "write" if WRITE_USE.search(stmt) else ("read" if READ_USE.search(stmt) else "other")
        u = uses.setdefault((f, a["line"], a["func"]), dict(kind=kind, roles=set(), stmt=stmt.strip()[:160]))
        u["roles"].add(a["role"])
    writers, bad = [], []
    for (f, line, func), u in sorted(uses.items()):
        if u["kind"] == "read":
            continue
        writers.append("%s:%d %s [%s] roles=%s" % (f, line, func, u["kind"], ",".join(sorted(u["roles"]))))
        extra = sorted(r for r in u["roles"] if r != "Client/write-loop")
        if extra:
            bad.append((f, line, func, u, extra))
    for f, line, func, u, extra in bad:
        sig = "second-writer:%s" % func if u["kind"] == "write" else "conn-use-outside-write-loop:%s" % func
        res.violation(sig, "%s:%d `%s` %s to the connection and is reachable from %s, not only from the write loop: "
                      "the outbound stream has more than one writer, frames can interleave (C05's single-writer premise)" % (
                          f, line, u["stmt"], "writes" if u["kind"] == "write" else "may write", ", ".join(extra)),
                      dict(kind="way1", table="build/gen/C05/access.json", site="%s:%d" % (f, line), function=func, roles=sorted(u["roles"]),
                           witness_family="gated (c05.gated_script): write loop parked between header and payload, >= 6 keep-alives"),
                      found_input=False)
    if not writers:
        res.violation("no-writer-found", "go-access found no write to Client.conn at all: the extraction no longer matches the source",
                      dict(kind="way1"), False)
    return dict(conn_uses=len(uses), write_capable=writers, outside_write_loop=len(bad))


def after_close_script(rnd, sid):
    """the connection's life goes on after a CloseConnection message: requests (answered or not), then Shutdown — or a
    caller's own SendMessage(MsgCloseConnection) — which the reader answers with a CloseConnectionResponse / ErrorMessage
    whose status is NOT Success (the connection stays open) or with Success, then further requests and keep-alives on the
    same connection. Whatever the client writes after that still belongs to the same outbound stream: whole frames, every
    request at most once, ids pairwise distinct over the WHOLE connection. (Today's write loop parks for good after a
    CloseConnection: nothing more is written — C05_nothing_written_after_close_connection; the model comparison pins that.)"""
    version = rnd.choice([1, 1, 2])
    b = cc.SB(sid, version=version)
    b.connect(cur=rnd.choice([1, 2]), mx=2)
    tag = rnd.randrange(1, 1 << 20) * 64
    types = [t for t in REQ_TYPES]
    rnd.shuffle(types)
    c = 0
    outstanding = []
    for _ in range(rnd.randrange(1, 5)):
        c += 1
        b.send(c, types[c], rnd.choice([0, 1, 9, 300]), tag + c)
        outstanding.append(c)
        if rnd.random() < 0.6:
            a = outstanding.pop(rnd.randrange(len(outstanding)))
            b.reply_to(a, resp_type(b.reqs[a]["typ"]), rnd.choice([0, 6, 100]), tag + 100 + a)
            b.wait(a)
    c += 1
    closer = c
    how = rnd.choice(["shutdown", "shutdown", "send"])
    if how == "shutdown":
        b.op("shutdown", caller=closer)
        b.reqs[closer] = dict(typ=cc.T_CLOSE, len=0, tag=0, api="Shutdown")
        b.req_index[closer] = b.nseen
        b.expect()
    else:
        b.send(closer, cc.T_CLOSE, 0, 0)
    refused = rnd.random() < 0.8
    code = rnd.choice([100, 101, 109, 201, 401, 65535]) if refused else 0
    rt = rnd.choice([cc.T_CLOSER, cc.T_CLOSER, cc.T_ERR]) if refused else cc.T_CLOSER
    if outstanding and rnd.random() < 0.4:                     # an earlier request is answered only now
        a = outstanding.pop()
        b.reply_to(a, resp_type(b.reqs[a]["typ"]), 5, tag + 200 + a)
        b.wait(a)
    b.reply(b.req_index[closer], rt, pl=dict(k="status", code=code))
    b.wait(closer)
    # the connection is still there (refused) or closed (accepted Shutdown): traffic goes on
    later = []
    for _ in range(rnd.randrange(1, 4)):
        r = rnd.random()
        if r < 0.7:
            c += 1
            b.send(c, types[c], rnd.choice([0, 2, 40]), tag + c, expect=False)
            later.append(c)
            b.expect_none()
        else:
            b.keepalive(rnd.randrange(1 << 32))
            b.expect_none()
    for a in later:
        b.wait(a)
    b.op("drain")
    b.op("state")
    sc = b.script()
    sc["family"] = "after-close"
    return sc


def kapayload_script(rnd, sid):
    """reader-initiated messages of a header-only type that nevertheless carry a payload (a KeepAlive with a vendor Custom
    parameter is legal input): the client's reaction is a frame of its own — the acknowledgement — and that frame must be
    exactly its 10 header bytes with length field 10, whatever length the keep-alive announced; the frames around it
    (requests held by the write loop, later requests) stay whole. Compared with the model and judged by pred_c05 on what
    the peer parses off the wire (a header announcing bytes that never follow shows as stream-not-frames / length-field)."""
    version = rnd.choice([1, 2])
    b = cc.SB(sid, version=version)
    b.connect(cur=rnd.choice([1, 2]), mx=2)
    tag = rnd.randrange(1, 1 << 20) * 4096
    types = list(REQ_TYPES)
    rnd.shuffle(types)
    c, kid = 0, rnd.randrange(1, 1 << 30)
    outstanding = []
    for n in rnd.sample([1, 2, 4, 9, 10, 11, 100, 255, 4096, 65536], rnd.randrange(2, 5)):
        kid += 1
        if rnd.random() < 0.5:
            # the write loop is blocked with a request in its hand while the keep-alive arrives; another request queues up
            c += 1
            b.send(c, types[c], rnd.choice([0, 3, 300]), tag + c, expect=False)
            a = c
            b.peer(cc.T_KA, rnd.choice([kid, 0, 4294967295]), n, tag + 100 + c, ver=rnd.choice([1, 2]))
            bq = None
            if rnd.random() < 0.6:
                c += 1
                b.send(c, types[c], rnd.choice([0, 5]), tag + c, expect=False)
                bq = c
            b.req_index[a] = b.nseen
            b.expect()
            b.expect()                       # the acknowledgement
            outstanding.append(a)
            if bq is not None:
                b.req_index[bq] = b.nseen
                b.expect()
                outstanding.append(bq)
        else:
            b.peer(cc.T_KA, rnd.choice([kid, 0, 4294967295]), n, tag + 100 + kid % 50, ver=rnd.choice([1, 2]))
            b.expect()
        if rnd.random() < 0.5:
            kid += 1
            b.keepalive(kid)                 # an ordinary one right behind it
            b.expect()
    rnd.shuffle(outstanding)
    for a in outstanding:
        b.reply_to(a, resp_type(b.reqs[a]["typ"]), rnd.choice([0, 6]), tag + 500 + a)
        b.wait(a)
    b.op("drain")
    b.op("state")
    sc = b.script()
    sc["family"] = "kapayload"
    sc["step_ms"] = 700
    return sc


def neg_refused_script(rnd, sid, stage, code, rtyp):
    """version negotiation in which the reader answers GetSupportedVersion / SetProtocolVersion with an error status (every
    status class, as ErrorMessage or as the proper response type), then waits longer than any retry pause and reads whatever
    the client wrote: every frame whole — in particular a message that is submitted again must go out with its payload. Go
    only (the pause is real time); judged by pred_c05."""
    b = cc.SB(sid, version=2)
    b.connect(negotiate=False)
    b.expect()                                                        # GetSupportedVersion
    if stage == "gsv":
        b.reply(0, rtyp, pl=dict(k="status", code=code) if rtyp == cc.T_ERR else dict(k="gsvr", cur=1, max=2, status=code), ver=2)
    else:
        b.reply(0, cc.T_GSVR, pl=dict(k="gsvr", cur=1, max=2, status=0), ver=2)
        b.expect()                                                    # SetProtocolVersion
        b.reply(b.nseen - 1, rtyp, pl=dict(k="status", code=code), ver=2)
    b.op("sleep", ms=350)
    b.op("drain")
    b.op("sleep", ms=350)
    b.op("drain")
    b.op("wait_connect")
    sc = b.script()
    sc["family"] = "neg-refused"
    sc["step_ms"] = 700
    return sc


def neg_refused_scripts(rnd, thorough):
    out = []
    codes = [100, 101, 109, 110, 201, 401, 402, 65535] if thorough else [101, 110, 401]
    for stage in ("gsv", "spv"):
        for code in codes:
            for rtyp in (cc.T_ERR, cc.T_GSVR if stage == "gsv" else cc.T_SPVR):
                out.append(neg_refused_script(rnd, "c05-negrefused-%s-%d-%d" % (stage, code, rtyp), stage, code, rtyp))
    return out


def ack_deadline_script(rnd, sid):
    """WithTimeout client; the peer takes 1..9 bytes of a KeepAliveAck (or of a request header) and pauses for more than a second
    — longer than any shortened per-message deadline, shorter than the client's timeout — then reads on; another keep-alive and
    a request follow. The raw stream must still be whole frames. Go only, real time (~1.3 s)."""
    b = cc.SB(sid, version=1)
    b.connect_step["client_timeout_ms"] = 4000
    b.connect()
    tag = rnd.randrange(1, 1 << 20) * 64
    if rnd.random() < 0.5:
        b.send(1, rnd.choice(REQ_TYPES), 5, tag + 1, expect=False)
        b.op("drain_raw")
    b.keepalive(rnd.choice([7, 0, 4294967295]))
    b.op("peer_read", n=rnd.randrange(1, 10))
    b.op("sleep", ms=1150)
    b.keepalive(8)
    b.send(2, rnd.choice(REQ_TYPES), 12, tag + 2, expect=False)
    b.op("drain_raw")
    b.op("state")
    sc = b.script()
    sc["family"] = "ack-deadline"
    sc["step_ms"] = 2500
    return sc


def manual_ack_script(rnd, sid):
    """an application that replaces the built-in KeepAlive handler acknowledges by hand: SendNoWait(NewHdrOnlyMsg(MsgKeepAliveAck)).
    Such a message is taken from the send queue like any other and gets its id from the client's counter — DECISION (notes/C05.md):
    for "the message ids given to requests on one connection are pairwise distinct" it is a request: whatever the client numbers
    itself must not depend on reader-chosen values. Requests (ids 0, 1, 2, ...) and keep-alives whose ids coincide with request
    ids already given / about to be given, each followed by a hand-written acknowledgement; compared with the model (ids from
    the counter) and judged by pred_c05 (every frame whole, ids pairwise distinct — acknowledgements included)."""
    version = rnd.choice([1, 1, 2])
    hs = [dict(typ=cc.T_KA, mode=rnd.choice(["none", "all"]), k=0)] if rnd.random() < 0.6 else None
    b = cc.SB(sid, version=version, handlers=hs, no_ack=True)
    b.connect(cur=rnd.choice([1, 2]), mx=2)
    tag = rnd.randrange(1, 1 << 20) * 64
    types = list(REQ_TYPES)
    rnd.shuffle(types)
    c = 0
    nreq = [2 if version == 2 else 0]            # ids the counter has given so far (negotiation included; an upper estimate is enough)
    outstanding = []

    def request():
        nonlocal c
        c += 1
        b.send(c, types[c % len(types)], 1 + rnd.randrange(0, 40), tag + c)
        outstanding.append(c)
        nreq[0] += 1
    for _ in range(rnd.randrange(1, 4)):
        request()
    for _ in range(rnd.randrange(2, 5)):
        # the reader numbers its own messages in the range the client's counter uses: an id already given, the next one, 1, 0
        kid = rnd.choice([rnd.randrange(0, nreq[0] + 1), nreq[0], nreq[0] + 1, 1, 0, 4294967295])
        b.keepalive(kid)
        c += 1
        b.send(c, cc.T_ACK, 0, 0, api="SendNoWait", ver=rnd.choice([0, 1]))      # msgid 0: "let the client number it"
        nreq[0] += 1
        if rnd.random() < 0.6:
            request()
        if outstanding and rnd.random() < 0.5:
            a = outstanding.pop(rnd.randrange(len(outstanding)))
            b.reply_to(a, resp_type(b.reqs[a]["typ"]), rnd.choice([0, 6]), tag + 500 + a)
            b.wait(a)
    for a in outstanding:
        b.reply_to(a, resp_type(b.reqs[a]["typ"]), rnd.choice([0, 6]), tag + 700 + a)
        b.wait(a)
    b.op("drain")
    b.op("state")
    sc = b.script()
    sc["family"] = "manual-ack"
    return sc


def close_midframe_script(rnd, sid):
    """Close() — or the peer-independent end of the client (Shutdown's fallback Close) — lands while a request is between its
    header and the end of its payload; the peer is healthy and keeps reading: the frame must still arrive complete (the write
    loop looks at `done` between messages only) — or the connection has to die; a header followed by fewer bytes than it
    announces on a connection nobody broke is `frame-abandoned`. Go only (partial reads), raw bytes."""
    b = cc.SB(sid, version=1)
    if rnd.random() < 0.3:
        b.connect_step["client_timeout_ms"] = 5000
    b.connect()
    tag = rnd.randrange(1, 1 << 20) * 64
    n = rnd.choice([200, 5000, 40000, 65537, 131073, 300000])
    total = n + 10
    k = rnd.choice([x for x in (10, 11, 100, 4096, 32768, 32778, 65536, total - 1) if x < total])
    if rnd.random() < 0.4:
        b.send(1, rnd.choice(REQ_TYPES), rnd.choice([0, 9]), tag + 1, expect=False)
        b.op("drain_raw")
    b.send(2, rnd.choice(REQ_TYPES), n, tag + 2, expect=False)
    b.op("peer_read", n=k)
    if rnd.random() < 0.4:
        b.keepalive(rnd.randrange(1 << 32))             # an acknowledgement queues up behind the frame
    how = rnd.choice(["close", "close", "shutdown-then-close"])
    if how == "shutdown-then-close":
        b.op("shutdown", caller=9)
        b.cancel(9)
    b.op("close")
    b.op("wait_caller", caller=2)
    b.op("drain_raw")
    b.op("state")
    sc = b.script()
    sc["family"] = "close-midframe"
    sc["step_ms"] = 2000
    return sc


FORMS = ["", "inspected1", "inspected2"]


def forms_script(rnd, sid):
    """every legal FORM of an outgoing Message handed to SendNoWait / the internal send: fresh from NewByteMessage, already
    looked at once or twice by the application with the exported UnmarshalTo (log / validate before sending), header-only
    (NewHdrOnlyMsg) — alone, with the write loop busy, with keep-alives and ordinary requests around. The form does not exist
    for the model (same type, same payload: that IS the claim): compared with the model and judged by pred_c05 — each frame
    must carry all its payload bytes and the frame behind it must not be swallowed."""
    version = rnd.choice([1, 2])
    b = cc.SB(sid, version=version)
    b.connect(cur=rnd.choice([1, 2]), mx=2)
    tag = rnd.randrange(1, 1 << 20) * 64
    types = list(REQ_TYPES)
    rnd.shuffle(types)
    c = 0
    outstanding = []
    for _ in range(rnd.randrange(3, 7)):
        c += 1
        n = rnd.choice([1, 2, 9, 10, 11, 300, 4096, 65536]) if rnd.random() < 0.85 else rnd.choice([0, 655360, 655361])
        api = rnd.choice(["SendNoWait", "SendNoWait", "send"])
        busy = rnd.random() < 0.35
        if busy:                                   # the write loop holds an ordinary request the peer has not taken yet
            c += 1
            b.send(c - 1, types[(c - 1) % len(types)], 5, tag + c - 1, expect=False)
            held = c - 1
        b.send(c, types[c % len(types)], n, tag + c, expect=False, api=api, ver=rnd.choice([0, 1]))
        b.steps[-1]["form"] = rnd.choice(FORMS)
        if busy:
            b.req_index[held] = b.nseen
            b.expect()
            outstanding.append(held)
        b.req_index[c] = b.nseen
        b.expect()
        if api == "send":
            outstanding.append(c)
        r = rnd.random()
        if r < 0.4:                                # whatever comes next must be a frame of its own
            b.keepalive(rnd.randrange(1 << 32))
            b.expect()
        elif r < 0.7:
            c += 1
            b.send(c, types[c % len(types)], rnd.choice([0, 3]), tag + c)
            outstanding.append(c)
    rnd.shuffle(outstanding)
    for a in outstanding:
        b.reply_to(a, resp_type(b.reqs[a]["typ"]), rnd.choice([0, 6]), tag + 500 + a)
        b.wait(a)
    b.op("drain")
    b.op("state")
    sc = b.script()
    sc["family"] = "forms"
    sc["step_ms"] = 800
    return sc


def close_payload_script():
    """SendMessage(MsgCloseConnection, 5 bytes): predicate only (see notes/C05.md)"""
    b = cc.SB("c05-close-payload", version=1)
    b.connect()
    b.send(1, 14, 5, 4242, expect=False)
    b.expect()
    sc = b.script()
    sc["family"] = "close-payload"
    sc["step_ms"] = 400
    return sc


def run(tier, seed, replay=None):
    res = vlib.Result(PID, tier, seed)
    res.assumptions = vlib.TRUSTED_COMMON + [
        "client LTS (coq/Client/Model.v): one event per Go synchronisation point; header and payload are two Writes, as in the code",
        "single writer: only handleOutgoing (writeHeader / io.Copy) calls conn.Write — assumed by the model, not checked here",
        "script interpreter coq/Client/Script.v and the quiescence detection of the Go runner",
        "payload identity is (length, sha256 prefix); the peer parses headers with its own code",
    ]
    vlib.proof_part(res, PID)
    walks_only = os.environ.get("VERIF_WALKS_ONLY") == "1"     # debug switch: the hand-written families are skipped
    static = single_writer_static(res) if not walks_only else {}
    exe, err = cc.build(PID)
    if err:
        res.violation("build", err, dict(kind="build"), False)
        return res.finish()
    thorough = tier == "thorough"
    pred_only = []
    rp_data = {}
    walk_scripts = []
    if replay:
        rp_data = json.load(open(replay))
        scripts = [rp_data["script"]] if "script" in rp_data else []
        if scripts and scripts[0].get("family") in ("close-payload", "gated", "wtimeout", "wdeadline", "cancel-held",
                                                    "cancel-midframe", "types", "neg-refused", "ack-deadline", "close-midframe"):
            pred_only, scripts = scripts, []
        elif scripts and scripts[0].get("family") == "walk":
            walk_scripts, scripts = scripts, []
    elif walks_only:
        scripts = []
    else:
        scripts = gen_scripts(seed, 2500 if thorough else 400, thorough)
        ra = random.Random(seed + 17)
        scripts += [after_close_script(ra, "c05-afterclose-%d" % i) for i in range(240 if thorough else 40)]
        scripts += [kapayload_script(ra, "c05-kapayload-%d" % i) for i in range(120 if thorough else 20)]
        scripts += [manual_ack_script(ra, "c05-manualack-%d" % i) for i in range(200 if thorough else 30)]
        scripts += [forms_script(ra, "c05-forms-%d" % i) for i in range(200 if thorough else 30)]
        rg = random.Random(seed + 11)
        pred_only = ([close_payload_script()] + [gated_script(rg, "c05-gated-%d" % i) for i in range(120 if thorough else 24)]
                     + [wtimeout_script(rg, "c05-wtimeout-%d" % i) for i in range(120 if thorough else 24)]
                     + [wdeadline_script(rg, "c05-wdeadline-%d" % i) for i in range(8 if thorough else 3)]
                     + [cancel_held_script(rg, "c05-cancelheld-%d" % i) for i in range(120 if thorough else 24)]
                     + [cancel_midframe_script(rg, "c05-midframe-%d" % i) for i in range(150 if thorough else 30)]
                     + [cancel_midframe_script(rg, "c05-midframe-big-%d" % i, n=300000) for i in range(4 if thorough else 1)]
                     + types_scripts(rg, thorough)
                     + neg_refused_scripts(rg, thorough)
                     + [ack_deadline_script(rg, "c05-ackdeadline-%d" % i) for i in range(4 if thorough else 2)]
                     + [close_midframe_script(rg, "c05-closemidframe-%d" % i) for i in range(120 if thorough else 24)])
    scripts = cc.staged(exe, scripts, lambda s_, g_: bool(cc.pred_c05(cc.go_view(s_, g_), s_)))
    go, logs = cc.run_go(exe, scripts, shards=8)
    flag, diffs, counts = cc.pick_variant(scripts, go) if scripts else ((False, False), [], {})
    if diffs is None:
        res.violation("oracle-run", "oracle: %s" % counts, dict(kind="oracle"), False)
        return res.finish()

    def go_fails(sc):
        g, _ = cc.run_go(exe, [sc], shards=1)
        return bool(g and g[0] and cc.pred_c05(cc.go_view(sc, g[0]), sc))

    evals, nontriv, dist, samples, reported = 0, set(), {}, [], set()
    nframes = 0
    for s, g, d in zip(scripts, go, diffs):
        evals += 1
        fam = s.get("family", "?")
        dist[fam] = dist.get(fam, 0) + 1
        if g is None or g.get("st") in ("watchdog", "skipped", "crash"):
            if "crash" not in reported:
                reported.add("crash")
                cc.crash_violation(res, PID, s, g)
            continue
        view = cc.go_view(s, g)
        nframes += len(view["frames"])
        if len(view["frames"]) >= 3:
            nontriv.add((s["id"], len(view["frames"]), len(view["reqs"])))
        if len(samples) < 3 and fam == "interleave":
            samples.append(dict(script=s["id"], frames=[(f.get("typ"), f.get("id"), f.get("lenfield")) for f in view["frames"]][:12]))
        bad = cc.pred_c05(view, s)
        for sig, text in bad:
            if sig in reported:
                continue
            reported.add(sig)
            small = cc.shrink(s, go_fails) if not replay else s
            res.violation(sig, "%s [script %s]" % (text, s["id"]), dict(kind="script", script=small, theorem="C05_*"))
        if d and not bad:
            d2, _ = cc.recheck(exe, s, flag)
            if d2 and "correspondence" not in reported:
                reported.add("correspondence")
                res.violation("correspondence:C05/script", "Go and the model disagree on script %s though C05 holds on Go's run: %s" % (
                    s["id"], "; ".join(d2[:4])), dict(kind="correspondence", correspondence="C05/frame-stream", script=s,
                                                      differences=d2[:10]), False)
    # predicate-only scenarios
    pg, _ = cc.run_go(exe, pred_only, shards=8)
    n_gated = n_gated_backlog = 0
    for s, g in zip(pred_only, pg):
        evals += 1
        dist[s["family"]] = dist.get(s["family"], 0) + 1
        if g is None or g.get("st") in ("watchdog", "skipped", "crash"):
            if "crash" not in reported:
                reported.add("crash")
                cc.crash_violation(res, PID, s, g)
            continue
        view = cc.go_view(s, g)
        if s["family"] in ("wtimeout", "wdeadline", "cancel-midframe", "ack-deadline", "close-midframe"):
            # judged on the raw bytes; a trailing unfinished frame is what a failed Write leaves behind — where no Write was made
            # to fail and the peer reads on (cancellation / Close in the middle of a frame) the started frame has to be finished
            found = list(cc.judge_raw(s, g, view, must_complete=s["family"] in ("cancel-midframe", "close-midframe")))
            nontriv.add((s["id"], (g.get("final") or {}).get("raw_len", 0)))
            if s["family"] == "cancel-midframe" and (g.get("final") or {}).get("raw_hex") is None:
                found.append(("raw-missing", "script %s produced no raw bytes to judge" % s["id"]))
        elif s["family"] == "types":
            ver = next(st.get("version") for st in s["steps"] if st["op"] == "connect")
            found = list(cc.judge_raw(s, g, view, versions=((1,) if ver == 1 else (1, 2))))
            nontriv.add((s["id"], (g.get("final") or {}).get("raw_len", 0)))
            # a message whose type does not fit in 10 bits cannot be carried: the call must have been refused
            for c_, r_ in view["reqs"].items():
                res_ = (view["callers"].get(c_) or {}).get("res")
                if (r_["typ"] > 1023 or 900 <= r_["typ"] <= 999) and res_ in ("sent", "ok", "nil"):
                    found.append(("type-not-carried", "%s accepted a message of type %d (does not fit the 10-bit type field / reserved) "
                                  "and reported success" % (s.get("api"), r_["typ"])))
        else:
            found = list(cc.pred_c05(view, s))
        if s["family"] == "gated":
            n_gated += 1
            nka = sum(1 for st in s["steps"] if st["op"] == "keepalive")
            n_gated_backlog += 1 if nka >= 6 else 0
            nontriv.add((s["id"], nka, len(view["frames"])))
            ov = ((g.get("final") or {}).get("state") or {}).get("overlapping_writes", 0)
            ov = max([ov] + [o.get("overlapping_writes", 0) for o in (g.get("obs") or []) if isinstance(o, dict)])
            if ov:
                found.insert(0, ("second-writer-interleaved",
                                 "%d Write call(s) on the connection started while the write loop was between the header and the payload "
                                 "of a frame (%d keep-alives sent meanwhile): another goroutine writes to the connection; frames read by "
                                 "the peer: %s" % (ov, nka, [(f.get("typ"), f.get("lenfield"), f.get("st")) for f in view["frames"]][:8])))
            parked = [o for st, o in zip(s["steps"], g.get("obs") or []) if st["op"] == "release_payload"]
            if parked and not parked[0].get("was_parked") and "gate-ineffective" not in reported:
                reported.add("gate-ineffective")
                res.violation("gate-ineffective", "script %s: the write loop did not stop between header and payload (header and payload are "
                              "no longer separate Writes?) — the interleaving scenario is not exercised" % s["id"],
                              dict(kind="script", script=s), False)
        for sig, text in found:
            fr = view["frames"][-1] if view["frames"] else {}
            if s["family"] == "close-payload" and fr.get("typ") == 14 and fr.get("st") == "short-payload":
                sig = "closeconnection-payload-dropped"
                text = ("SendMessage(MsgCloseConnection, 5 bytes): the header announces length %s but no payload byte follows "
                        "(the write loop parks after the CloseConnection header, before the payload copy)" % fr.get("lenfield"))
            if sig not in reported:
                reported.add(sig)
                res.violation(sig, "%s [script %s]" % (text, s["id"]), dict(kind="script", script=s, theorem="C05_outbound_is_frame_concat"))
    # model-based random walks (checks/client_walk.py)
    walk_ev = None
    if not replay:
        walk_scripts, wstats, wcalls = cw.walks(seed + 101, 6000 if thorough else 400, cw.WEIGHTS[PID], prefix="c05-walk")
        walk_ev = cw.evidence(wstats, walk_scripts, wcalls)
    if walk_scripts:
        winfo = cw.run_walks(res, PID, exe, walk_scripts, ["c05"], reported=reported)
        evals += winfo.get("evals", 0)
        dist["walk"] = len(walk_scripts)
        for s_ in walk_scripts:
            nontriv.add((s_["id"], len(s_["steps"])))
        if walk_ev is not None:
            walk_ev.update(disagreeing=winfo.get("disagreeing"), failing_predicate=winfo.get("failing"), model_variant=str(winfo.get("variant")))
    # stress
    stress = []
    if replay and "stress" in rp_data:
        stress = [rp_data["stress"]]
        sg, _ = cc.run_go(exe, stress, shards=1, test="TestVerifClientStress", timeout=900)
        for rq, tr in zip(stress, sg):
            evals += 1
            for sig, text in (cc.judge_stress(tr)[PID.lower()] if tr else [("harness-run", "no trace")]):
                if sig not in reported:
                    reported.add(sig)
                    res.violation(sig, "%s [stress %s]" % (text, rq.get("id")), dict(kind="stress", stress=rq))
    if not replay and not walks_only:
        rnd = random.Random(seed + 5)
        for i in range(10 if thorough else 4):
            stress.append(dict(id="st%d" % i, seed=rnd.randrange(1 << 30), callers=rnd.choice([8, 32, 64] if thorough else [8, 24]),
                               per_caller=40 if thorough else 12, unsolicited=25, collide=False, version=rnd.choice([1, 2]),
                               window=rnd.choice([2, 8, 32]), max_len=rnd.choice([64, 2000])))
        sg, _ = cc.run_go(exe, stress, shards=4, test="TestVerifClientStress", timeout=900)
        for rq, tr in zip(stress, sg):
            evals += 1
            dist["stress"] = dist.get("stress", 0) + 1
            if tr is None:
                res.violation("harness-run", "stress run %s gave no trace" % rq["id"], dict(kind="harness", stress=rq), False)
                continue
            nframes += len([f for f in (tr.get("trace") or []) if f["dir"] == "r"])
            nontriv.add((rq["id"], len(tr.get("calls") or [])))
            for sig, text in cc.judge_stress(tr)["c05"]:
                if sig not in reported:
                    reported.add(sig)
                    res.violation(sig, "%s [stress %s]" % (text, rq["id"]), dict(kind="stress", stress=rq, theorem="C05_*"))
    res.coverage.update(
        evaluations=evals, distinct_nontrivial=len(nontriv), frames_parsed=nframes,
        single_writer_static=static, gated_scripts=dict(run=n_gated, with_6_or_more_keepalives=n_gated_backlog),
        rule="a case is one script / stress run on the real Client (and on the model); non-trivial iff the peer read at least 3 frames; "
             "distinct by (script id, #frames, #callers)",
        samples=samples, input_distribution=dist, traces_validated_against_impl=evals,
        model_variant=dict(filter_unsolicited=flag[0], stamp_always=flag[1], disagreeing=counts),
        walks=walk_ev, trusted_base=res.assumptions)
    return res.finish()
