"""C01 — the binary codec round-trips every message and parameter type (+ JSON).
proof: coq/Props/C01.v over coq/Codec/*; tie: Go MarshalBinary/UnmarshalBinary/encoding/json of all 169
containers vs the extracted model, on schema-directed value trees (checks/codec_gen.py).
Predicates on Go alone: Unmarshal(Marshal v) == v, Marshal(Unmarshal(Marshal v)) == Marshal v, JSON round trip == v.
Correspondence: Go's bytes == the model's bytes; Go's decoder on the model's bytes == v;
json.Marshal's text (parsed independently) == the model's to_json; Go's JSON round trip == the model's of_json(to_json v)."""
import codec_common
import dec_fir
import c01_driver

PID = "C01"


def run(tier, seed, replay=None):
    # Way 1 for decoding (checks/dec_fir.py, every run): generated_unmarshal.go of this run is translated into the decoder IR and
    # the Coq kernel checks that it is exactly what the schema compiles to (dprogs_match, vm_compute)
    # driver level (checks/c01_driver.py, every run): the readings a real Driver/LLRPDevice hands to the SDK for read commands and reports,
    # over many reads of the same resources, are the values the scripted Reader sent each time (JSON == the model's to_json), and stay so
    with dec_fir.attached(PID, tier, seed, replay), c01_driver.attached(PID, tier, seed, replay):
        return _run(tier, seed, replay)


def _run(tier, seed, replay=None):
    return codec_common.run(PID, tier, seed, replay, [
        "equality of values is modulo nil == empty slice/string (the decoder yields nil for count 0, JSON yields null); "
        "trees are built from / printed as Go values by reflection in harness/llrp/codec_test.go, driven by spec/llrp_layout.json",
        "domain = well-formed values: numbers within their bit width, list/string lengths < 2^16, bit-array bytes = ceil(bits/8), "
        "exactly one non-zero alternative per exclusive group, every nested parameter's encoded size < 2^16; "
        "values with a parameter size >= 2^16 are recorded, not judged",
        "JSON clause: judged on Go alone (json.Unmarshal(json.Marshal v) == v) for values whose text fields are valid UTF-8; proved for the model "
        "Codec/Json.v (JSON trees, base64, U+FFFD replacement; coq/Codec/JsonTable.v generated from the pinned layout); tie: json.Marshal's "
        "text, parsed by python's json module (member order kept, integers exact), == Json.to_json for every case, and Go's round-trip result == "
        "Json.of_json (Json.to_json v) also where invalid UTF-8 is replaced; not modelled, trusted: the JSON text syntax (escaping, number "
        "formatting), encoding/json's reflection over struct types, Unmarshal's leniencies (unknown/missing/duplicate members, case-insensitive names)",
        "spec/llrp_layout.json is the pinned copy of messages.yaml the model's SchemaTable is generated from",
    ])
