"""C13 — every tag report and reader event reaches EdgeX exactly once.
proof: coq/Props/C13.v over coq/Driver/Publish.v (handlers read the announced payload and decode it,
one publisher goroutine per completely received decodable message, publishers complete in any order;
only a connection event's publisher looks at the operating-state flag and waits for the SDK);
tie: 1-3 real LLRPDevices created by the driver (AddDevice, or Driver.Start for devices registered
UP / DOWN) on one asynchronous-values channel, an SDK whose operating-state calls are recorded and
per device prompt / held back / slow / failing, scripted loopback readers sending reports / events /
undecodable messages / keep-alives / messages cut off by the end of the connection while commands
are in flight; the values read from the channel are matched (device name, resource name, content
field by field) against what was sent, compared with the extracted model and judged directly."""
import collections, json, random, re
import vlib

PID = "C13"


CONN_MODES = ["s", "x", "y", "sx", "xs", "ys", "xy", "ss", "yx",
              "1", "2", "3", "4", "n", "o", "1s", "2x", "o3", "n4", "s2", "y1", "4o"]


CUT_ENDS = "fffhr"

DEV_FLAGS = ["d", "dh", "df", "dhf", "dl", "s", "sh", "h", "f", "u", "du", "dhu", "dfu", "hg", "dg", "dlf", "su"]


def gen_scenario(rnd, sid, ndev, nsteps):
    steps = []
    held = set()
    for d in range(ndev):
        # what EdgeX and the reader are like: the device already registered (UP / DOWN) when the
        # service starts, the SDK's operating-state call slow (held until released / 25 ms) or
        # failing, a reader without UTC clock
        if rnd.random() < 0.45:
            fl = rnd.choice(DEV_FLAGS)
            steps.append("%d~%s" % (d, fl))
            if "h" in fl:
                held.add(d)
        # some devices' first connections go wrong (SetReaderConfig rejected, connection dropped
        # after the connection event / on SetReaderConfig) before the one that works
        if rnd.random() < 0.35:
            steps.append("%d+%s" % (d, rnd.choice(CONN_MODES)))
        # some readers start talking before the connection is set up: reports/events before the
        # answer to GetSupportedVersion (a), between the two negotiation answers (b), before the
        # answer to the device's own SetReaderConfig (c)
        if rnd.random() < 0.35:
            for _ in range(rnd.randrange(1, 4)):
                steps.append("%d@%s%s%d" % (d, rnd.choice("abc"), rnd.choice("RRREEre"), rnd.randrange(7)))
    removed, reconnects, floods = None, 0, 0
    for k in range(nsteps):
        d = rnd.randrange(ndev)
        if d == removed:
            continue
        x = rnd.random()
        if d in held and rnd.random() < 0.04:
            held.discard(d)
            steps.append("%dH" % d)         # the SDK's operating-state calls return
        if x < 0.36:
            steps.append("%dR%d" % (d, rnd.randrange(9)))
        elif x < 0.60:
            steps.append("%dE%d" % (d, rnd.randrange(14)))
        elif x < 0.62:
            if reconnects < 3:
                # a message is begun and its connection ends before the rest of it: at every class
                # of offset, by end of stream / close / reset
                reconnects += 1
                kind = rnd.choice("RRRE")
                steps.append("%dQ%s%d%s%d" % (d, rnd.choice(CUT_ENDS), rnd.randrange(10), kind,
                                               rnd.randrange(9 if kind == "R" else 14)))
        elif x < 0.70:
            steps.append("%dr%d" % (d, rnd.randrange(3)))
        elif x < 0.76:
            steps.append("%de%d" % (d, rnd.randrange(3)))
        elif x < 0.82:
            steps.append("%dK" % d)
        elif x < 0.87:
            # a request whose deadline passes while the reader answers slowly / in pieces / never
            steps.append("%dT%d" % (d, rnd.randrange(5)))
        elif x < 0.93:
            steps.append("%dC%d" % (d, rnd.randrange(5)))
        elif x < 0.97:
            # EdgeX updates the device: same address, or (a few times) the other address
            if rnd.random() < 0.4 and reconnects < 3:
                reconnects += 1
                steps.append("%dU1" % d)
            else:
                steps.append("%dU0" % d)
        elif x < 0.985:
            if reconnects < 3:          # outage: the connection goes away, the device reconnects
                reconnects += 1
                # (Y: connections are refused until the device has been marked DOWN)
                steps.append("%d%s" % (d, rnd.choice("XXY")))
        elif x < 0.993:
            if floods < 2:
                # the reader's receive side stalls while a large request is under way (the client's
                # writer blocks), 7 / 20 / 100 keep-alives pile up, reports and events follow, and
                # only then does the reader read again (G): they must have been published by then
                floods += 1
                steps.append("%dF%d" % (d, rnd.randrange(3)))
                for _ in range(rnd.randrange(2, 7)):
                    kind = rnd.choice("RRREEreK")
                    v = rnd.randrange(9 if kind == "R" else 14)
                    if kind in "re":
                        v %= 3
                    if kind == "E" and v in (4, 11):
                        v += 1   # (a mid-stream connection success waits for its SetReaderConfig exchange)
                    steps.append("%d%s%d" % (d, kind, v))
                steps.append("%dG" % d)
        elif ndev >= 2 and removed is None and k > nsteps // 3:
            removed = d                 # one device is removed while the others go on
            steps.append("%dZ" % d)
    return "%d %d %d %s" % (sid, ndev, rnd.getrandbits(30), " ".join(steps))


def expected_tokens(scn):
    """the property, from the script alone: one reading per decodable report/event, under the
    sending device's name and the type's resource, plus the connection event of every planned connection"""
    f = scn.split()
    ndev = int(f[1])
    exp = []
    nconn = {}
    for d in range(ndev):
        modes = ""
        for st in f[3:]:
            if st[1] == "+" and int(st[0]) == d:
                modes = st[2:]
        nconn[d] = len(modes) + 1
        exp += ["%d:%s:%d" % (d, "RO" if n < len(modes) and modes[n] == "o" else "REN", 2000 + 100 * d + n) for n in range(nconn[d])]
    removed = set()
    for i, st in enumerate(f[3:]):
        d = int(st[0])
        if d in removed:
            continue
        kind = st[3] if st[1] == "@" else st[1]
        if kind in "+~":
            continue
        if kind in "RM":
            exp.append("%d:RO:%d" % (d, i))
        elif kind == "E":
            exp.append("%d:REN:%d" % (d, i))
        elif kind in "XYQ" or (kind == "U" and int(st[2:]) % 2 == 1):
            # (Q: nothing for the message that was cut off; the device reconnects)
            exp.append("%d:REN:%d" % (d, 2000 + 100 * d + nconn[d]))
            nconn[d] += 1
        elif kind == "Z":
            removed.add(d)
    return exp


def judge(scn, line):
    """returns list of (signature, text) for an observed answer line"""
    bad = []
    if line.startswith("!") or " | " not in line:
        return [("harness:" + line.split()[0][:30], "scenario did not run: " + line[:200])]
    m = re.search(r"heldback=(\d+)", line)
    if m and m.group(1) != "0":
        bad.append(("held-back", "%s report(s)/event(s) sent behind a backlog of unacknowledged keep-alives (reader not reading, "
                    "client's writer blocked) were not published within 1.5 s, before the reader read again" % m.group(1)))
    toks = line.split(" | ")[0].split()[1:]
    exp = collections.Counter(expected_tokens(scn))
    where = {}      # content index -> (device, resource) it must appear under
    for t in exp:
        d, r, i = t.split(":")
        where[i] = (d, r)
    # connection events: exactly those the scripted readers sent (a device may reconnect more
    # often than planned; every connection's event that was received must be published once)
    m = re.search(r"sent=(\S*)", line)
    if m:
        for i in [k for k in where if int(k) >= 2000]:
            del where[i]
        for ds in filter(None, m.group(1).split(",")):
            d, i, r = ds.split(":")
            where[i] = (d, r)
    seen = collections.Counter()
    for t in toks:
        if t.startswith("!unmatched"):
            bad.append(("content-differs", "a published reading (%s) has a content that is the decoding of no message sent" % t))
            continue
        if t.startswith("!resource"):
            bad.append(("wrong-resource", "reading published under the resource name of the other message type (%s)" % t))
            continue
        if t.startswith("!badgen"):
            continue
        if t.startswith("!partial"):
            _, d, r, i, cut = t.split(":")
            bad.append(("published-incomplete-message", "a reading (%s of device %s) was published for message %s although its connection ended "
                        "after %s bytes of its payload: the content is the decoding of the part that had arrived" % (r, d, i, cut)))
            continue
        if t.startswith("!differs"):
            _, d, r, i, fields = t.split(":", 4)
            bad.append(("content-differs", "the reading published for message %s (%s of device %s) differs from the decoding of the bytes the reader sent in %s" % (i, r, d, fields)))
            continue
        if t.startswith("!decoder-vs-source"):
            bad.append(("content-differs", "the library's decoding of a message's bytes differs from the value that was encoded (%s)" % t))
            continue
        if t.startswith("!"):
            bad.append(("odd:" + t.split(":")[0][1:], "irregular value on the channel: " + t))
            continue
        d, r, i = t.split(":")
        seen[i] += 1
        if i not in where:
            bad.append(("unexpected", "reading %s corresponds to nothing that must be published" % t))
            continue
        if d != where[i][0]:
            bad.append(("wrong-device", "message %s sent by device %s was published under device %s" % (i, where[i][0], d)))
        if r != where[i][1] and not any(s == "wrong-resource" for s, _ in bad):
            bad.append(("wrong-resource", "message %s published as %s, must be %s" % (i, r, where[i][1])))
    for i, (d, r) in where.items():
        if seen[i] == 0:
            bad.append(("lost", "message %s (%s of device %s) was never published" % (i, r, d)))
        elif seen[i] > 1:
            bad.append(("duplicated", "message %s (%s of device %s) was published %d times" % (i, r, d, seen[i])))
    return bad


def run(tier, seed, replay=None):
    res = vlib.Result(PID, tier, seed)
    res.assumptions = vlib.TRUSTED_COMMON + [
        "the llrp.Client calls a registered handler once per received message of its type, synchronously in the read loop (C03/C04 are about the client); the model starts from 'device d's handler is called with message m'",
        "message bytes are built with the library's MarshalBinary and the expected content is the library's UnmarshalBinary of those bytes (the codec itself is C01/C02's subject)",
        "the SDK takes every value offered on the asynchronous-values channel (the harness reads it continuously, with small random delays)",
        "content equality is reflect.DeepEqual of the published value with the decoding of the bytes the scripted reader sent, field by field (also for uptime-stamped events and reports: no time of the driver's clock is accepted in place of what the reader sent)",
        "an end of connection is produced over loopback TCP by shutting down the reader's sending side, closing its socket, or resetting it (SO_LINGER 0); before a close/reset the harness waits until what was sent before has been published",
        "undecodable = a TLV length beyond the buffer / wrong first parameter / trailing bytes; TLV lengths 0..3 are excluded here (C11)",
    ]
    vlib.proof_part(res, PID)
    rc, log = vlib.build_oracle("c13")
    if rc != 0:
        res.violation("oracle-build", "oracle for C13 does not build: " + log[-800:], dict(kind="build"), False)
        return res.finish()
    ok, log, exe = vlib.build_harness("driver", PID, ["c15_test.go", "c13_test.go"])
    if not ok:
        res.violation("harness-build", "Go harness does not build against the repository: " + log[-1500:], dict(kind="build"), False)
        return res.finish()

    thorough = tier == "thorough"
    if replay:
        rp = json.load(open(replay))
        scns = rp.get("scenarios") or [rp["scenario"]]
    else:
        rnd = random.Random(seed)
        scns = ["0 2 11 0R1 1E1 0r0 1K 0C0 1E4 0R2 1e1 0E6 1R3",
                "3 2 14 0+s 1+x 0R1 1R1 0T1 0R2 1T4 1E0 0T2 0E2 1T3 1R3 0T0 0R4",
                "4 3 15 0+ys 1+xy 2+sx 0E1 1R3 2R5 0T4 1T1 2T2 0R3 1E6 2E1 0K 1K 2C0 0R1 1R2 2R6",
                "5 2 18 0@aR1 0@aE0 0@bR2 0@cE3 1@ar0 1@aR3 1@cR4 0R5 1R6 0E1 1E2",
                "6 3 19 0R1 0r0 0R2 0U0 0R3 0E1 1R1 1r1 1U1 1R2 1E0 2R1 2r2 2X 2R2 2E3 1Z 0R4 2R5 0X 0R6 0e0 0U0 0E2",
                "9 3 20 0+1 1+2o 2+n4 0R1 1R2 2E0 0E1 1E3 2R4",
                "11 2 22 0R7 1R8 0R7 1R7 0R8 1E0 0E1 1R0 0R1 1R2",
                "12 3 23 0R1 1R2 2R3 0P65 0R4 1R5 2R6 0E0 1E1 2E2 0R7 1R8 2R0 0R2 1R3 2R4 0E5 1E6 2E3 0R1 1R1 2R1",
                "10 2 21 0R1 0F0 0R2 0E1 0K 0R3 0G 0R4 1R1 1F2 1E2 1R5 1G 1E3 0F1 0R6 0e0 0E5 0G 0R0",
                "2 2 13 0R1 1M 0C0 0R2 1L 1R3 0E0 1R4 0K 1E1",
                "1 3 12 " + " ".join("%d%s%d" % (d, k, v) for v in range(7) for k in "RE" for d in range(3)),
                # devices registered DOWN / UP at service start, SDK operating-state calls held back, slow, failing;
                # devices marked DOWN by refused connections; reports and events meanwhile
                "9001 2 31 0~dh 1~df 0R1 0R2 1R3 0E1 1E9 0R4 1R5 0C0 0H 0R6 1Y 1R7 0E8 1E12 1R0",
                "9002 3 32 0~d 1~dl 2~sh 0R1 1R2 2R3 0E0 1E7 2E11 0R4 1R5 2R6 2K 1C1 0Y 0R7 1X 1R8 2Y 2R0 2E13 0E2",
                "9003 2 33 0~dhf 1~hg 0+s 0R1 1R1 0E3 1Y 1R2 1E10 0R3 0X 0R4 1R5 0E4 1H 1R6 0R7",
                "9004 1 34 0~dh 0@aR1 0@cE7 0R2 0R3 0T1 0R4 0E6 0K 0R5 0U1 0R6 0E12 0R7",
                # readers without UTC clock: every kind of event stamped with Uptime, connection events too
                "9005 2 35 0~u 1~du " + " ".join("%dE%d" % (d, v) for v in range(7, 14) for d in range(2)) + " 0X 1Y 0E1 1E6 0R3 1R5 0U1 1E7",
                "9006 2 36 0~uh 1~u 0+2 1+n 0E8 1E13 0R3 1E9 0E11 1E11 0H 0E10 1E12 0R8 1R3"]
        # a message is begun and the connection ends before the rest arrives: every class of offset
        # x end of stream / close / reset, for reports and events
        for n_, (e, kinds) in enumerate((("f", "R6 R7 R8 R2 E13 R0 R5 E9 R3 R1"), ("h", "R7 R6 E8 R8 R2 R5 E10 R4 R6 R7"), ("r", "R8 R7 R6 E13 R3 R2 R0 E12 R6 R8"))):
            ks = kinds.split()
            for half in range(2):
                body = []
                for c in range(5 * half, 5 * half + 5):
                    body += ["0R1", "0Q%s%d%s" % (e, c, ks[c]), "0R2", "1E%d" % c]
                scns.append("%d 2 %d %s 0E0 1R1" % (9010 + 2 * n_ + half, 40 + 2 * n_ + half, " ".join(body)))
        n = 1500 if thorough else 300
        if thorough:
            # the deadlines of the service itself (20 s): a command through the driver whose reply comes
            # in two pieces 21 s apart, and a SetReaderConfig that is never answered
            scns += ["7 2 16 0R1 1R1 0T9 1E0 0R2 0E3 1R4", "8 2 17 0+w 0R1 1R1 0E1 1E2 0R3",
                     # the consumer of the channel stalls for 15 s and 25 s
                     "13 3 24 0R1 1R2 2R3 1P150 0R4 1R5 2R6 0E0 1E1 2E2 0R7 1R8 2R0 0R2 1R3 2R4",
                     "14 2 25 0R1 1R2 0P250 0R4 1R5 0E0 1E1 0R7 1R8 0R2 1R3 0E5 1E6"]
        for sid in range(15, n):
            ndev = rnd.choice([2, 2, 3, 3, 1])
            nsteps = rnd.choice([8, 20, 40, 80] + ([200, 400] if thorough else []))
            scn = gen_scenario(rnd, sid, ndev, nsteps)
            if thorough and sid % 25 == 0:      # a large report now and then
                f = scn.split()
                f.insert(3 + rnd.randrange(len(f) - 2), "%d%s" % (rnd.randrange(ndev), rnd.choice("ML")))
                scn = " ".join(f)
            scns.append(scn)

    crash_budget = [12]
    crashes_pinned = [0]

    def run_proc(batch, tag):
        """one worker process; returns (answers by position or None, positions started but not finished, rc, log)"""
        rc, raw, glog = vlib.run_harness(exe, "TestVerifC13", "\n".join(batch) + "\n", timeout=1500, tag=tag)
        ans, started = [None] * len(batch), set()
        for l in raw:
            if l.startswith("S "):
                started.add(int(l.split()[1]))
            elif l.startswith("R "):
                _, i, a = l.split(" ", 2)
                ans[int(i)] = a
                started.discard(int(i))
        return ans, started, rc, glog

    def crash_report(scn, glog):
        m = re.search(r"(panic: [^\n]*|fatal error: [^\n]*)", glog)
        what = m.group(1) if m else "worker process ended (rc != 0) without an answer"
        fn = re.search(r"\n(?:github.com/edgexfoundry/device-rfid-llrp-go/)?([\w/.()*]+)\(.*\n\t/.*(?:internal|pkg)/", glog)
        sig = "process-crash:" + (fn.group(1).split("/")[-1] if fn else scn[:60])
        res.violation(sig, "scenario '%s' takes the whole service process down: %s" % (scn[:300], what[:300]),
                      dict(kind="scenario", scenario=scn, scenarios=[scn], crash=what, log_tail=glog[-2500:], clause="process-crash"))

    def execute(batch, tag=""):
        """answers for every scenario; a crash of the worker is pinned on the scenario(s) that
        crash when run alone, the others are run again"""
        answers = [None] * len(batch)
        todo = list(range(len(batch)))
        rnd_ = 0
        while todo:
            rnd_ += 1
            ans, inflight, rc, glog = run_proc([batch[i] for i in todo], "%s_p%d" % (tag, rnd_))
            for k, i in enumerate(todo):
                if ans[k] is not None:
                    answers[i] = ans[k]
            left = [i for i in todo if answers[i] is None]
            if not left:
                break
            if rc == 0 and not inflight:
                for i in left:
                    answers[i] = "!noanswer"
                break
            # the process died: try the scenarios that were running, each alone
            culprits = 0
            for k in sorted(inflight):
                i = todo[k]
                if crash_budget[0] <= 0:
                    answers[i] = "!crash-not-examined"
                    continue
                crash_budget[0] -= 1
                a1, _, rc1, glog1 = run_proc([batch[i]], "%s_c%d" % (tag, i))
                if a1[0] is not None:
                    answers[i] = a1[0]
                else:
                    answers[i] = "!crash"
                    culprits += 1
                    crash_report(batch[i], glog1)
            unexamined = [todo[k] for k in inflight if answers[todo[k]] == "!crash-not-examined"]
            if culprits == 0 and inflight and not crashes_pinned[0]:
                # nothing crashes alone (or could be examined): blame the group
                res.violation("process-crash:group", "the worker process died (rc=%s) while running %s; %s: %s"
                              % (rc, [batch[todo[k]][:80] for k in sorted(inflight)][:8],
                                 "not all of them could be run alone" if unexamined else "none of them crashes alone", glog[-600:]),
                              dict(kind="scenario", scenarios=[batch[todo[k]] for k in sorted(inflight)], log_tail=glog[-2500:]), False)
                for k in inflight:
                    answers[todo[k]] = "!crash"
            crashes_pinned[0] += culprits
            if crash_budget[0] <= 0:
                # a tree that keeps crashing: what has been pinned is enough, leave the rest
                for i in todo:
                    if answers[i] is None:
                        answers[i] = "!crash-not-examined"
                break
            todo = [i for i in todo if answers[i] is None]
            if rnd_ > 8:
                for i in todo:
                    answers[i] = "!noanswer"
                break
        orc, oout = vlib.run_oracle("c13", "\n".join(batch) + "\n")
        return 0, answers, "", oout.split("\n")

    # a first part of the scenarios decides whether the rest is worth running: a tree on which
    # many of them already fail is reported from those (each failing scenario costs seconds)
    head = 48 if not replay else len(scns)
    rc, lines, glog, olines = execute(scns[:head], tag="_a")
    early = sum(1 for s_, g_ in zip(scns, lines) if g_.startswith("!crash") or judge(s_, g_))
    if early > 8:
        res.notes.append("%d of the first %d scenarios fail: the remaining %d were not run" % (early, head, len(scns) - head))
        scns = scns[:head]
    elif len(scns) > head:
        rc, l2_, glog, o2_ = execute(scns[head:], tag="_b")
        lines, olines = lines + l2_, olines[:head] + o2_

    def model_differs(g, o):
        # connection events are judged against what the readers really sent (judge); the comparison
        # with the model is about the messages of the script
        conn = re.compile(r"^\d:(REN|RO):[23]\d\d\d$")
        ot = sorted(t for t in o.split(" | ")[0].split()[1:] if not conn.match(t))
        gt = sorted(t for t in g.split(" | ")[0].split()[1:] if not t.startswith("!badgen") and not conn.match(t))
        return gt != ot or "expected_ok=1" not in o or "pending=0" not in o

    evals = msgs = 0
    nontriv = set()
    dist = collections.Counter()
    samples, suspects, notes = [], [], collections.Counter()
    for s, g, o in zip(scns, lines, olines):
        evals += 1
        f = s.split()
        kinds = collections.Counter((st[3] if st[1] == "@" else st[1]) for st in f[3:])
        dist.update({"early": sum(1 for st in f[3:] if st[1] == "@")})
        dist.update({"devices=%s" % f[1]: 1})
        dist.update(kinds)
        msgs += kinds["R"] + kinds["E"] + kinds["r"] + kinds["e"] + kinds["M"] + kinds["L"] + int(f[1]) + sum(len(st) - 2 for st in f[3:] if st[1] == "+")
        if int(f[1]) >= 2 and kinds["R"] + kinds["E"] >= 5 and (kinds["C"] or kinds["K"]):
            nontriv.add(" ".join(f[1:]))
        if len(samples) < 3 and 8 <= len(f) <= 30:
            samples.append(dict(scenario=s, go=g[:600], model=o[:600]))
        for t in re.findall(r"!badgen:\S+", g):
            notes[t] += 1
        m = re.search(r"acks=(\d+)/(\d+) cmds=(\d+)/(\d+)", g)
        if m and (m.group(1) != m.group(2) or m.group(3) != m.group(4)):
            notes["acks-or-commands-incomplete"] += 1
        m = re.search(r"stuck=(\d+) noreconnect=(\d+)", g)
        if m and (m.group(1) != "0" or m.group(2) != "0"):
            notes["update/remove did not return in 3 s or no reconnect in 6 s"] += 1
        if g in ("!crash", "!crash-not-examined"):
            continue
        if judge(s, g) or model_differs(g, o):
            suspects.append(s)

    n_first = len(suspects)
    final = {}
    if suspects:
        suspects = suspects[:20]
        rc2, l2, glog2, o2 = execute(suspects, tag="_r")
        still = []
        for s, g, o in zip(suspects, l2, o2):
            if g in ("!crash", "!crash-not-examined"):
                continue
            j = judge(s, g)
            if j or model_differs(g, o):
                still.append(s)
                final[s] = (g, o, j)
        suspects = still
    shown = set()
    for s in suspects:
        g, o, j = final[s]
        rp = dict(kind="scenario", scenario=s, scenarios=[s], observed=g[:4000], expected=o[:4000],
                  correspondence="C13/async-values-vs-publish-model")
        if j:
            for sig, text in j:
                if sig in shown:
                    continue
                shown.add(sig)
                res.violation(sig, "scenario '%s': %s" % (s[:300], text), dict(rp, clause=sig))
        elif "model-differs" not in shown:
            shown.add("model-differs")
            res.violation("model-differs", "scenario '%s': channel content and model differ though the property holds: %s vs %s" % (s[:200], g[:300], o[:300]),
                          rp, found_input=False)
    for k, v in notes.items():
        res.notes.append("%s x%d" % (k, v))

    res.coverage.update(
        evaluations=evals, distinct_nontrivial=len(nontriv), messages_sent=msgs,
        rule="scenario = 1-3 devices, for a third of them first connections that fail (SetReaderConfig rejected / dropped after the connection event / dropped on SetReaderConfig), "
             "for 45% a state of EdgeX / the reader (registered UP or DOWN at service start; UpdateDeviceOperatingState(Up) held back until released, 25 ms slow, failing; (Down) failing; reader without UTC clock), "
             "x random steps (requests whose deadline passes while the reader answers in pieces, late or never; ROAccessReport 9 content shapes, ReaderEventNotification 14 shapes of which 9 uptime-stamped (every kind of event, two mid-stream "
             "connection successes), 3+3 undecodable payloads, keep-alives, 5 kinds of commands, outages incl. refused connections until the device is marked DOWN, messages cut off at 10 classes of offset by end of stream / close / reset) "
             "+ the connection event of every connection; devices send concurrently, "
             "commands are answered 8 ms late; distinct by (devices, seed, steps); non-trivial iff >= 2 devices, >= 5 decodable messages and at least one command or keep-alive",
        samples=samples, input_distribution=dict(dist), traces_validated_against_impl=evals,
        differing_on_first_run=n_first, trusted_base=res.assumptions)
    return res.finish()
