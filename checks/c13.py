"""C13 — every tag report and reader event reaches EdgeX exactly once.
proof: coq/Props/C13.v over coq/Driver/Publish.v (handlers decode, one publisher goroutine per
decodable message, publishers complete in any order); tie: 2-3 real LLRPDevices created by the
driver on one asynchronous-values channel, scripted loopback readers sending reports / events /
undecodable messages / keep-alives while commands are in flight; the values read from the channel
are matched (device name, resource name, decoded content) against what was sent, compared with the
extracted model and judged directly."""
import collections, json, random, re
import vlib

PID = "C13"


def gen_scenario(rnd, sid, ndev, nsteps):
    steps = []
    for _ in range(nsteps):
        d = rnd.randrange(ndev)
        x = rnd.random()
        if x < 0.40:
            steps.append("%dR%d" % (d, rnd.randrange(7)))
        elif x < 0.66:
            steps.append("%dE%d" % (d, rnd.randrange(7)))
        elif x < 0.74:
            steps.append("%dr%d" % (d, rnd.randrange(3)))
        elif x < 0.80:
            steps.append("%de%d" % (d, rnd.randrange(3)))
        elif x < 0.88:
            steps.append("%dK" % d)
        else:
            steps.append("%dC%d" % (d, rnd.randrange(5)))
    return "%d %d %d %s" % (sid, ndev, rnd.getrandbits(30), " ".join(steps))


def expected_tokens(scn):
    """the property, from the script alone: one reading per decodable report/event, under the
    sending device's name and the type's resource, plus each device's connection event"""
    f = scn.split()
    ndev = int(f[1])
    exp = ["%d:REN:%d" % (d, 1000 + d) for d in range(ndev)]
    for i, st in enumerate(f[3:]):
        if st[1] in "RM":
            exp.append("%s:RO:%d" % (st[0], i))
        elif st[1] == "E":
            exp.append("%s:REN:%d" % (st[0], i))
    return exp


def judge(scn, line):
    """returns list of (signature, text) for an observed answer line"""
    bad = []
    if line.startswith("!") or " | " not in line:
        return [("harness:" + line.split()[0][:30], "scenario did not run: " + line[:200])]
    toks = line.split(" | ")[0].split()[1:]
    exp = collections.Counter(expected_tokens(scn))
    where = {}      # content index -> (device, resource) it must appear under
    for t in exp:
        d, r, i = t.split(":")
        where[i] = (d, r)
    seen = collections.Counter()
    for t in toks:
        if t.startswith("!unmatched"):
            bad.append(("content-differs", "a published reading (%s) has a content that is the decoding of no message sent" % t))
            continue
        if t.startswith("!resource"):
            bad.append(("wrong-resource", "reading published under the resource name of the other message type (%s)" % t))
            continue
        if t.startswith("!badgen"):
            continue
        if t.startswith("!"):
            bad.append(("odd:" + t.split(":")[0][1:], "irregular value on the channel: " + t))
            continue
        d, r, i = t.split(":")
        seen[i] += 1
        if i not in where:
            bad.append(("unexpected", "reading %s corresponds to nothing that must be published" % t))
            continue
        if d != where[i][0]:
            bad.append(("wrong-device", "message %s sent by device %s was published under device %s" % (i, where[i][0], d)))
        if r != where[i][1] and not any(s == "wrong-resource" for s, _ in bad):
            bad.append(("wrong-resource", "message %s published as %s, must be %s" % (i, r, where[i][1])))
    for i, (d, r) in where.items():
        if seen[i] == 0:
            bad.append(("lost", "message %s (%s of device %s) was never published" % (i, r, d)))
        elif seen[i] > 1:
            bad.append(("duplicated", "message %s (%s of device %s) was published %d times" % (i, r, d, seen[i])))
    return bad


def run(tier, seed, replay=None):
    res = vlib.Result(PID, tier, seed)
    res.assumptions = vlib.TRUSTED_COMMON + [
        "the llrp.Client calls a registered handler once per received message of its type, synchronously in the read loop (C03/C04 are about the client); the model starts from 'device d's handler is called with message m'",
        "message bytes are built with the library's MarshalBinary and the expected content is the library's UnmarshalBinary of those bytes (the codec itself is C01/C02's subject)",
        "the SDK takes every value offered on the asynchronous-values channel (the harness reads it continuously, with small random delays)",
        "content equality is reflect.DeepEqual on the published value; for an uptime-stamped event a UTC time within the run's wall-clock window is accepted as well as the unchanged 0 (device.go computes such a time but on a copy, see notes/C13.md)",
        "undecodable = a TLV length beyond the buffer / wrong first parameter / trailing bytes; TLV lengths 0..3 are excluded here (C11)",
    ]
    vlib.proof_part(res, PID)
    rc, log = vlib.build_oracle("c13")
    if rc != 0:
        res.violation("oracle-build", "oracle for C13 does not build: " + log[-800:], dict(kind="build"), False)
        return res.finish()
    ok, log, exe = vlib.build_harness("driver", PID, ["c15_test.go", "c13_test.go"])
    if not ok:
        res.violation("harness-build", "Go harness does not build against the repository: " + log[-1500:], dict(kind="build"), False)
        return res.finish()

    thorough = tier == "thorough"
    if replay:
        rp = json.load(open(replay))
        scns = rp.get("scenarios") or [rp["scenario"]]
    else:
        rnd = random.Random(seed)
        scns = ["0 2 11 0R1 1E1 0r0 1K 0C0 1E4 0R2 1e1 0E6 1R3",
                "2 2 13 0R1 1M 0C0 0R2 1L 1R3 0E0 1R4 0K 1E1",
                "1 3 12 " + " ".join("%d%s%d" % (d, k, v) for v in range(7) for k in "RE" for d in range(3))]
        n = 1500 if thorough else 300
        for sid in range(3, n):
            ndev = rnd.choice([2, 2, 3, 3, 1])
            nsteps = rnd.choice([8, 20, 40, 80] + ([200, 400] if thorough else []))
            scn = gen_scenario(rnd, sid, ndev, nsteps)
            if thorough and sid % 25 == 0:      # a large report now and then
                f = scn.split()
                f.insert(3 + rnd.randrange(len(f) - 2), "%d%s" % (rnd.randrange(ndev), rnd.choice("ML")))
                scn = " ".join(f)
            scns.append(scn)

    def execute(batch, tag=""):
        text = "\n".join(batch) + "\n"
        rc, lines, glog = vlib.run_harness(exe, "TestVerifC13", text, timeout=1500, tag=tag)
        orc, oout = vlib.run_oracle("c13", text)
        return rc, lines, glog, oout.split("\n")

    rc, lines, glog, olines = execute(scns)
    if rc != 0 or len(lines) != len(scns):
        res.violation("harness-run", "Go harness failed (rc=%s, %d/%d answers): %s" % (rc, len(lines), len(scns), glog[-1500:]),
                      dict(kind="harness", log=glog[-3000:]), False)
        return res.finish()

    def model_differs(g, o):
        gt = sorted(t for t in g.split(" | ")[0].split()[1:] if not t.startswith("!badgen"))
        ot = sorted(o.split(" | ")[0].split()[1:])
        return gt != ot or "expected_ok=1" not in o or "pending=0" not in o

    evals = msgs = 0
    nontriv = set()
    dist = collections.Counter()
    samples, suspects, notes = [], [], collections.Counter()
    for s, g, o in zip(scns, lines, olines):
        evals += 1
        f = s.split()
        kinds = collections.Counter(st[1] for st in f[3:])
        dist.update({"devices=%s" % f[1]: 1})
        dist.update(kinds)
        msgs += kinds["R"] + kinds["E"] + kinds["r"] + kinds["e"] + kinds["M"] + kinds["L"] + int(f[1])
        if int(f[1]) >= 2 and kinds["R"] + kinds["E"] >= 5 and (kinds["C"] or kinds["K"]):
            nontriv.add(" ".join(f[1:]))
        if len(samples) < 3 and 8 <= len(f) <= 30:
            samples.append(dict(scenario=s, go=g[:600], model=o[:600]))
        for t in re.findall(r"!badgen:\S+", g):
            notes[t] += 1
        m = re.search(r"acks=(\d+)/(\d+) cmds=(\d+)/(\d+)", g)
        if m and (m.group(1) != m.group(2) or m.group(3) != m.group(4)):
            notes["acks-or-commands-incomplete"] += 1
        if judge(s, g) or model_differs(g, o):
            suspects.append(s)

    n_first = len(suspects)
    final = {}
    if suspects:
        suspects = suspects[:20]
        rc2, l2, glog2, o2 = execute(suspects, tag="_r")
        still = []
        for s, g, o in zip(suspects, l2, o2):
            j = judge(s, g)
            if j or model_differs(g, o):
                still.append(s)
                final[s] = (g, o, j)
        suspects = still
    shown = set()
    for s in suspects:
        g, o, j = final[s]
        rp = dict(kind="scenario", scenario=s, scenarios=[s], observed=g[:4000], expected=o[:4000],
                  correspondence="C13/async-values-vs-publish-model")
        if j:
            for sig, text in j:
                if sig in shown:
                    continue
                shown.add(sig)
                res.violation(sig, "scenario '%s': %s" % (s[:300], text), dict(rp, clause=sig))
        elif "model-differs" not in shown:
            shown.add("model-differs")
            res.violation("model-differs", "scenario '%s': channel content and model differ though the property holds: %s vs %s" % (s[:200], g[:300], o[:300]),
                          rp, found_input=False)
    for k, v in notes.items():
        res.notes.append("%s x%d" % (k, v))

    res.coverage.update(
        evaluations=evals, distinct_nontrivial=len(nontriv), messages_sent=msgs,
        rule="scenario = 1-3 devices x random steps (ROAccessReport 7 content shapes, ReaderEventNotification 7 shapes incl. uptime-stamped and a mid-stream "
             "connection success, 3+3 undecodable payloads, keep-alives, 5 kinds of commands) + each device's connection event; devices send concurrently, "
             "commands are answered 8 ms late; distinct by (devices, seed, steps); non-trivial iff >= 2 devices, >= 5 decodable messages and at least one command or keep-alive",
        samples=samples, input_distribution=dict(dist), traces_validated_against_impl=evals,
        differing_on_first_run=n_first, trusted_base=res.assumptions)
    return res.finish()
