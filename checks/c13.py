"""C13 — every tag report and reader event reaches EdgeX exactly once.
proof: coq/Props/C13.v over coq/Driver/Publish.v (handlers decode, one publisher goroutine per
decodable message, publishers complete in any order); tie: 2-3 real LLRPDevices created by the
driver on one asynchronous-values channel, scripted loopback readers sending reports / events /
undecodable messages / keep-alives while commands are in flight; the values read from the channel
are matched (device name, resource name, decoded content) against what was sent, compared with the
extracted model and judged directly."""
import collections, json, random, re
import vlib

PID = "C13"


CONN_MODES = ["s", "x", "y", "sx", "xs", "ys", "xy", "ss", "yx",
              "1", "2", "3", "4", "n", "o", "1s", "2x", "o3", "n4", "s2", "y1", "4o"]


def gen_scenario(rnd, sid, ndev, nsteps):
    steps = []
    for d in range(ndev):
        # some devices' first connections go wrong (SetReaderConfig rejected, connection dropped
        # after the connection event / on SetReaderConfig) before the one that works
        if rnd.random() < 0.35:
            steps.append("%d+%s" % (d, rnd.choice(CONN_MODES)))
        # some readers start talking before the connection is set up: reports/events before the
        # answer to GetSupportedVersion (a), between the two negotiation answers (b), before the
        # answer to the device's own SetReaderConfig (c)
        if rnd.random() < 0.35:
            for _ in range(rnd.randrange(1, 4)):
                steps.append("%d@%s%s%d" % (d, rnd.choice("abc"), rnd.choice("RRREEre"), rnd.randrange(7)))
    removed, reconnects, floods = None, 0, 0
    for k in range(nsteps):
        d = rnd.randrange(ndev)
        if d == removed:
            continue
        x = rnd.random()
        if x < 0.38:
            steps.append("%dR%d" % (d, rnd.randrange(9)))
        elif x < 0.62:
            steps.append("%dE%d" % (d, rnd.randrange(7)))
        elif x < 0.70:
            steps.append("%dr%d" % (d, rnd.randrange(3)))
        elif x < 0.76:
            steps.append("%de%d" % (d, rnd.randrange(3)))
        elif x < 0.82:
            steps.append("%dK" % d)
        elif x < 0.87:
            # a request whose deadline passes while the reader answers slowly / in pieces / never
            steps.append("%dT%d" % (d, rnd.randrange(5)))
        elif x < 0.93:
            steps.append("%dC%d" % (d, rnd.randrange(5)))
        elif x < 0.97:
            # EdgeX updates the device: same address, or (a few times) the other address
            if rnd.random() < 0.4 and reconnects < 3:
                reconnects += 1
                steps.append("%dU1" % d)
            else:
                steps.append("%dU0" % d)
        elif x < 0.985:
            if reconnects < 3:          # outage: the connection goes away, the device reconnects
                reconnects += 1
                steps.append("%dX" % d)
        elif x < 0.993:
            if floods < 2:
                # the reader's receive side stalls while a large request is under way (the client's
                # writer blocks), 7 / 20 / 100 keep-alives pile up, reports and events follow, and
                # only then does the reader read again (G): they must have been published by then
                floods += 1
                steps.append("%dF%d" % (d, rnd.randrange(3)))
                for _ in range(rnd.randrange(2, 7)):
                    kind = rnd.choice("RRREEreK")
                    v = rnd.randrange(9 if kind == "R" else 7)
                    if kind == "E" and v == 4:
                        v = 5   # (a mid-stream connection success waits for its SetReaderConfig exchange)
                    steps.append("%d%s%d" % (d, kind, v))
                steps.append("%dG" % d)
        elif ndev >= 2 and removed is None and k > nsteps // 3:
            removed = d                 # one device is removed while the others go on
            steps.append("%dZ" % d)
    return "%d %d %d %s" % (sid, ndev, rnd.getrandbits(30), " ".join(steps))


def expected_tokens(scn):
    """the property, from the script alone: one reading per decodable report/event, under the
    sending device's name and the type's resource, plus the connection event of every planned connection"""
    f = scn.split()
    ndev = int(f[1])
    exp = []
    nconn = {}
    for d in range(ndev):
        modes = ""
        for st in f[3:]:
            if st[1] == "+" and int(st[0]) == d:
                modes = st[2:]
        nconn[d] = len(modes) + 1
        exp += ["%d:%s:%d" % (d, "RO" if n < len(modes) and modes[n] == "o" else "REN", 2000 + 100 * d + n) for n in range(nconn[d])]
    removed = set()
    for i, st in enumerate(f[3:]):
        d = int(st[0])
        if d in removed:
            continue
        kind = st[3] if st[1] == "@" else st[1]
        if kind in "RM":
            exp.append("%d:RO:%d" % (d, i))
        elif kind == "E":
            exp.append("%d:REN:%d" % (d, i))
        elif kind == "X" or (kind == "U" and int(st[2:]) % 2 == 1):
            exp.append("%d:REN:%d" % (d, 2000 + 100 * d + nconn[d]))
            nconn[d] += 1
        elif kind == "Z":
            removed.add(d)
    return exp


def judge(scn, line):
    """returns list of (signature, text) for an observed answer line"""
    bad = []
    if line.startswith("!") or " | " not in line:
        return [("harness:" + line.split()[0][:30], "scenario did not run: " + line[:200])]
    m = re.search(r"heldback=(\d+)", line)
    if m and m.group(1) != "0":
        bad.append(("held-back", "%s report(s)/event(s) sent behind a backlog of unacknowledged keep-alives (reader not reading, "
                    "client's writer blocked) were not published within 1.5 s, before the reader read again" % m.group(1)))
    toks = line.split(" | ")[0].split()[1:]
    exp = collections.Counter(expected_tokens(scn))
    where = {}      # content index -> (device, resource) it must appear under
    for t in exp:
        d, r, i = t.split(":")
        where[i] = (d, r)
    # connection events: exactly those the scripted readers sent (a device may reconnect more
    # often than planned; every connection's event that was received must be published once)
    m = re.search(r"sent=(\S*)", line)
    if m:
        for i in [k for k in where if int(k) >= 2000]:
            del where[i]
        for ds in filter(None, m.group(1).split(",")):
            d, i, r = ds.split(":")
            where[i] = (d, r)
    seen = collections.Counter()
    for t in toks:
        if t.startswith("!unmatched"):
            bad.append(("content-differs", "a published reading (%s) has a content that is the decoding of no message sent" % t))
            continue
        if t.startswith("!resource"):
            bad.append(("wrong-resource", "reading published under the resource name of the other message type (%s)" % t))
            continue
        if t.startswith("!badgen"):
            continue
        if t.startswith("!decoder-vs-source"):
            bad.append(("content-differs", "the library's decoding of a message's bytes differs from the value that was encoded (%s)" % t))
            continue
        if t.startswith("!"):
            bad.append(("odd:" + t.split(":")[0][1:], "irregular value on the channel: " + t))
            continue
        d, r, i = t.split(":")
        seen[i] += 1
        if i not in where:
            bad.append(("unexpected", "reading %s corresponds to nothing that must be published" % t))
            continue
        if d != where[i][0]:
            bad.append(("wrong-device", "message %s sent by device %s was published under device %s" % (i, where[i][0], d)))
        if r != where[i][1] and not any(s == "wrong-resource" for s, _ in bad):
            bad.append(("wrong-resource", "message %s published as %s, must be %s" % (i, r, where[i][1])))
    for i, (d, r) in where.items():
        if seen[i] == 0:
            bad.append(("lost", "message %s (%s of device %s) was never published" % (i, r, d)))
        elif seen[i] > 1:
            bad.append(("duplicated", "message %s (%s of device %s) was published %d times" % (i, r, d, seen[i])))
    return bad


def run(tier, seed, replay=None):
    res = vlib.Result(PID, tier, seed)
    res.assumptions = vlib.TRUSTED_COMMON + [
        "the llrp.Client calls a registered handler once per received message of its type, synchronously in the read loop (C03/C04 are about the client); the model starts from 'device d's handler is called with message m'",
        "message bytes are built with the library's MarshalBinary and the expected content is the library's UnmarshalBinary of those bytes (the codec itself is C01/C02's subject)",
        "the SDK takes every value offered on the asynchronous-values channel (the harness reads it continuously, with small random delays)",
        "content equality is reflect.DeepEqual on the published value; for an uptime-stamped event a UTC time within the run's wall-clock window is accepted as well as the unchanged 0 (device.go computes such a time but on a copy, see notes/C13.md)",
        "undecodable = a TLV length beyond the buffer / wrong first parameter / trailing bytes; TLV lengths 0..3 are excluded here (C11)",
    ]
    vlib.proof_part(res, PID)
    rc, log = vlib.build_oracle("c13")
    if rc != 0:
        res.violation("oracle-build", "oracle for C13 does not build: " + log[-800:], dict(kind="build"), False)
        return res.finish()
    ok, log, exe = vlib.build_harness("driver", PID, ["c15_test.go", "c13_test.go"])
    if not ok:
        res.violation("harness-build", "Go harness does not build against the repository: " + log[-1500:], dict(kind="build"), False)
        return res.finish()

    thorough = tier == "thorough"
    if replay:
        rp = json.load(open(replay))
        scns = rp.get("scenarios") or [rp["scenario"]]
    else:
        rnd = random.Random(seed)
        scns = ["0 2 11 0R1 1E1 0r0 1K 0C0 1E4 0R2 1e1 0E6 1R3",
                "3 2 14 0+s 1+x 0R1 1R1 0T1 0R2 1T4 1E0 0T2 0E2 1T3 1R3 0T0 0R4",
                "4 3 15 0+ys 1+xy 2+sx 0E1 1R3 2R5 0T4 1T1 2T2 0R3 1E6 2E1 0K 1K 2C0 0R1 1R2 2R6",
                "5 2 18 0@aR1 0@aE0 0@bR2 0@cE3 1@ar0 1@aR3 1@cR4 0R5 1R6 0E1 1E2",
                "6 3 19 0R1 0r0 0R2 0U0 0R3 0E1 1R1 1r1 1U1 1R2 1E0 2R1 2r2 2X 2R2 2E3 1Z 0R4 2R5 0X 0R6 0e0 0U0 0E2",
                "9 3 20 0+1 1+2o 2+n4 0R1 1R2 2E0 0E1 1E3 2R4",
                "11 2 22 0R7 1R8 0R7 1R7 0R8 1E0 0E1 1R0 0R1 1R2",
                "12 3 23 0R1 1R2 2R3 0P65 0R4 1R5 2R6 0E0 1E1 2E2 0R7 1R8 2R0 0R2 1R3 2R4 0E5 1E6 2E3 0R1 1R1 2R1",
                "10 2 21 0R1 0F0 0R2 0E1 0K 0R3 0G 0R4 1R1 1F2 1E2 1R5 1G 1E3 0F1 0R6 0e0 0E5 0G 0R0",
                "2 2 13 0R1 1M 0C0 0R2 1L 1R3 0E0 1R4 0K 1E1",
                "1 3 12 " + " ".join("%d%s%d" % (d, k, v) for v in range(7) for k in "RE" for d in range(3))]
        n = 1500 if thorough else 300
        if thorough:
            # the deadlines of the service itself (20 s): a command through the driver whose reply comes
            # in two pieces 21 s apart, and a SetReaderConfig that is never answered
            scns += ["7 2 16 0R1 1R1 0T9 1E0 0R2 0E3 1R4", "8 2 17 0+w 0R1 1R1 0E1 1E2 0R3",
                     # the consumer of the channel stalls for 15 s and 25 s
                     "13 3 24 0R1 1R2 2R3 1P150 0R4 1R5 2R6 0E0 1E1 2E2 0R7 1R8 2R0 0R2 1R3 2R4",
                     "14 2 25 0R1 1R2 0P250 0R4 1R5 0E0 1E1 0R7 1R8 0R2 1R3 0E5 1E6"]
        for sid in range(15, n):
            ndev = rnd.choice([2, 2, 3, 3, 1])
            nsteps = rnd.choice([8, 20, 40, 80] + ([200, 400] if thorough else []))
            scn = gen_scenario(rnd, sid, ndev, nsteps)
            if thorough and sid % 25 == 0:      # a large report now and then
                f = scn.split()
                f.insert(3 + rnd.randrange(len(f) - 2), "%d%s" % (rnd.randrange(ndev), rnd.choice("ML")))
                scn = " ".join(f)
            scns.append(scn)

    crash_budget = [12]
    crashes_pinned = [0]

    def run_proc(batch, tag):
        """one worker process; returns (answers by position or None, positions started but not finished, rc, log)"""
        rc, raw, glog = vlib.run_harness(exe, "TestVerifC13", "\n".join(batch) + "\n", timeout=1500, tag=tag)
        ans, started = [None] * len(batch), set()
        for l in raw:
            if l.startswith("S "):
                started.add(int(l.split()[1]))
            elif l.startswith("R "):
                _, i, a = l.split(" ", 2)
                ans[int(i)] = a
                started.discard(int(i))
        return ans, started, rc, glog

    def crash_report(scn, glog):
        m = re.search(r"(panic: [^\n]*|fatal error: [^\n]*)", glog)
        what = m.group(1) if m else "worker process ended (rc != 0) without an answer"
        fn = re.search(r"\n(?:github.com/edgexfoundry/device-rfid-llrp-go/)?([\w/.()*]+)\(.*\n\t/.*(?:internal|pkg)/", glog)
        sig = "process-crash:" + (fn.group(1).split("/")[-1] if fn else scn[:60])
        res.violation(sig, "scenario '%s' takes the whole service process down: %s" % (scn[:300], what[:300]),
                      dict(kind="scenario", scenario=scn, scenarios=[scn], crash=what, log_tail=glog[-2500:], clause="process-crash"))

    def execute(batch, tag=""):
        """answers for every scenario; a crash of the worker is pinned on the scenario(s) that
        crash when run alone, the others are run again"""
        answers = [None] * len(batch)
        todo = list(range(len(batch)))
        rnd_ = 0
        while todo:
            rnd_ += 1
            ans, inflight, rc, glog = run_proc([batch[i] for i in todo], "%s_p%d" % (tag, rnd_))
            for k, i in enumerate(todo):
                if ans[k] is not None:
                    answers[i] = ans[k]
            left = [i for i in todo if answers[i] is None]
            if not left:
                break
            if rc == 0 and not inflight:
                for i in left:
                    answers[i] = "!noanswer"
                break
            # the process died: try the scenarios that were running, each alone
            culprits = 0
            for k in sorted(inflight):
                i = todo[k]
                if crash_budget[0] <= 0:
                    answers[i] = "!crash-not-examined"
                    continue
                crash_budget[0] -= 1
                a1, _, rc1, glog1 = run_proc([batch[i]], "%s_c%d" % (tag, i))
                if a1[0] is not None:
                    answers[i] = a1[0]
                else:
                    answers[i] = "!crash"
                    culprits += 1
                    crash_report(batch[i], glog1)
            unexamined = [todo[k] for k in inflight if answers[todo[k]] == "!crash-not-examined"]
            if culprits == 0 and inflight and not crashes_pinned[0]:
                # nothing crashes alone (or could be examined): blame the group
                res.violation("process-crash:group", "the worker process died (rc=%s) while running %s; %s: %s"
                              % (rc, [batch[todo[k]][:80] for k in sorted(inflight)][:8],
                                 "not all of them could be run alone" if unexamined else "none of them crashes alone", glog[-600:]),
                              dict(kind="scenario", scenarios=[batch[todo[k]] for k in sorted(inflight)], log_tail=glog[-2500:]), False)
                for k in inflight:
                    answers[todo[k]] = "!crash"
            crashes_pinned[0] += culprits
            if crash_budget[0] <= 0:
                # a tree that keeps crashing: what has been pinned is enough, leave the rest
                for i in todo:
                    if answers[i] is None:
                        answers[i] = "!crash-not-examined"
                break
            todo = [i for i in todo if answers[i] is None]
            if rnd_ > 8:
                for i in todo:
                    answers[i] = "!noanswer"
                break
        orc, oout = vlib.run_oracle("c13", "\n".join(batch) + "\n")
        return 0, answers, "", oout.split("\n")

    # a first part of the scenarios decides whether the rest is worth running: a tree on which
    # many of them already fail is reported from those (each failing scenario costs seconds)
    head = 48 if not replay else len(scns)
    rc, lines, glog, olines = execute(scns[:head], tag="_a")
    early = sum(1 for s_, g_ in zip(scns, lines) if g_.startswith("!crash") or judge(s_, g_))
    if early > 8:
        res.notes.append("%d of the first %d scenarios fail: the remaining %d were not run" % (early, head, len(scns) - head))
        scns = scns[:head]
    elif len(scns) > head:
        rc, l2_, glog, o2_ = execute(scns[head:], tag="_b")
        lines, olines = lines + l2_, olines[:head] + o2_

    def model_differs(g, o):
        # connection events are judged against what the readers really sent (judge); the comparison
        # with the model is about the messages of the script
        conn = re.compile(r"^\d:(REN|RO):[23]\d\d\d$")
        ot = sorted(t for t in o.split(" | ")[0].split()[1:] if not conn.match(t))
        gt = sorted(t for t in g.split(" | ")[0].split()[1:] if not t.startswith("!badgen") and not conn.match(t))
        return gt != ot or "expected_ok=1" not in o or "pending=0" not in o

    evals = msgs = 0
    nontriv = set()
    dist = collections.Counter()
    samples, suspects, notes = [], [], collections.Counter()
    for s, g, o in zip(scns, lines, olines):
        evals += 1
        f = s.split()
        kinds = collections.Counter((st[3] if st[1] == "@" else st[1]) for st in f[3:])
        dist.update({"early": sum(1 for st in f[3:] if st[1] == "@")})
        dist.update({"devices=%s" % f[1]: 1})
        dist.update(kinds)
        msgs += kinds["R"] + kinds["E"] + kinds["r"] + kinds["e"] + kinds["M"] + kinds["L"] + int(f[1]) + sum(len(st) - 2 for st in f[3:] if st[1] == "+")
        if int(f[1]) >= 2 and kinds["R"] + kinds["E"] >= 5 and (kinds["C"] or kinds["K"]):
            nontriv.add(" ".join(f[1:]))
        if len(samples) < 3 and 8 <= len(f) <= 30:
            samples.append(dict(scenario=s, go=g[:600], model=o[:600]))
        for t in re.findall(r"!badgen:\S+", g):
            notes[t] += 1
        m = re.search(r"acks=(\d+)/(\d+) cmds=(\d+)/(\d+)", g)
        if m and (m.group(1) != m.group(2) or m.group(3) != m.group(4)):
            notes["acks-or-commands-incomplete"] += 1
        m = re.search(r"stuck=(\d+) noreconnect=(\d+)", g)
        if m and (m.group(1) != "0" or m.group(2) != "0"):
            notes["update/remove did not return in 3 s or no reconnect in 6 s"] += 1
        if g in ("!crash", "!crash-not-examined"):
            continue
        if judge(s, g) or model_differs(g, o):
            suspects.append(s)

    n_first = len(suspects)
    final = {}
    if suspects:
        suspects = suspects[:20]
        rc2, l2, glog2, o2 = execute(suspects, tag="_r")
        still = []
        for s, g, o in zip(suspects, l2, o2):
            if g in ("!crash", "!crash-not-examined"):
                continue
            j = judge(s, g)
            if j or model_differs(g, o):
                still.append(s)
                final[s] = (g, o, j)
        suspects = still
    shown = set()
    for s in suspects:
        g, o, j = final[s]
        rp = dict(kind="scenario", scenario=s, scenarios=[s], observed=g[:4000], expected=o[:4000],
                  correspondence="C13/async-values-vs-publish-model")
        if j:
            for sig, text in j:
                if sig in shown:
                    continue
                shown.add(sig)
                res.violation(sig, "scenario '%s': %s" % (s[:300], text), dict(rp, clause=sig))
        elif "model-differs" not in shown:
            shown.add("model-differs")
            res.violation("model-differs", "scenario '%s': channel content and model differ though the property holds: %s vs %s" % (s[:200], g[:300], o[:300]),
                          rp, found_input=False)
    for k, v in notes.items():
        res.notes.append("%s x%d" % (k, v))

    res.coverage.update(
        evaluations=evals, distinct_nontrivial=len(nontriv), messages_sent=msgs,
        rule="scenario = 1-3 devices, for a third of them first connections that fail (SetReaderConfig rejected / dropped after the connection event / dropped on SetReaderConfig), "
             "x random steps (requests whose deadline passes while the reader answers in pieces, late or never; ROAccessReport 7 content shapes, ReaderEventNotification 7 shapes incl. uptime-stamped and a mid-stream "
             "connection success, 3+3 undecodable payloads, keep-alives, 5 kinds of commands) + the connection event of every connection; devices send concurrently, "
             "commands are answered 8 ms late; distinct by (devices, seed, steps); non-trivial iff >= 2 devices, >= 5 decodable messages and at least one command or keep-alive",
        samples=samples, input_distribution=dict(dist), traces_validated_against_impl=evals,
        differing_on_first_run=n_first, trusted_base=res.assumptions)
    return res.finish()
