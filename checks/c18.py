"""C18 — retry and back-off obey their limits for all inputs.
proof: coq/Props/C18.v over coq/Retry/{NextWait,RetryLoop}.v;
tie: Go nextWait / RetryWithCtx / RetrySome / Retry vs the extracted model, on a boundary grid
and on all outcome sequences of length <= 6 x retry limits x KeepErrs x context events."""
import itertools, json, random
import vlib
import c18_code

PID = "C18"
I64MAX = 2 ** 63 - 1
N0, NCNT = -2, 73                      # n in [-2, 70]
TARGETS = ["retries", "waitdl", "canceled", "deadline", "unrelated"] + ["u%d" % i for i in range(8)]
MS = 10 ** 6


# ------------------------------------------------------------------ nextWait grid
def grid_values(thorough):
    ks = range(1, 63) if thorough else [1, 2, 3, 7, 10, 20, 30, 31, 32, 33, 40, 50, 60, 61, 62]
    v = {0, 1, 10 ** 6, 10 ** 9, 60 * 10 ** 9, 50 * 10 ** 6, 5 * 10 ** 9, 30 * 10 ** 9, 1800 * 10 ** 9,
         2 ** 62, 2 ** 63 - 1, 2 ** 63 - 2, 3, 1000}
    for k in ks:
        v |= {2 ** k - 1, 2 ** k, 2 ** k + 1}
    v = sorted(x for x in v if 0 <= x <= I64MAX)
    return v, [-1, -1000]


def nw_spec(jit, base, mx, n, w):
    """the property on one observed value; None if fine or not constrained, else (signature, text)"""
    if w == "panic":
        return ("nextwait-panic", "nextWait panicked")
    w = int(w)
    if base < 1 or mx < 1:
        return None                      # outside what RetryWithCtx passes after normalising (DESIGN §7)
    if n <= 0:
        exp_lo = exp_hi = 0
    elif not jit:
        exp_lo = exp_hi = mx if n >= 63 else min(mx, base * 2 ** (n - 1))
    else:
        exp_lo, exp_hi = 0, min(mx, base * (2 ** n - 1))
    if exp_lo <= w <= exp_hi:
        return None
    if jit:
        return ("nextwait-range:jitter", "jittered pause %d outside [0, %d]" % (w, exp_hi))
    return ("nextwait-formula:nojitter", "pause %d, min(max, base*2^(n-1)) is %d" % (w, exp_hi))


def pause_py(jit, base, mx, n, r):
    """the pause the property states, through the normalisation (BackOff<=0 -> 1, Max<=0 -> none);
    returns (exact or None, upper bound)"""
    b = 1 if base <= 0 else base
    m = I64MAX if mx <= 0 else mx
    if n <= 0:
        return 0, 0
    if n >= 63:
        return m, m
    if not jit:
        v = min(m, b * 2 ** (n - 1))
        return v, v
    return min(m, b * r), min(m, b * (2 ** n - 1))


# ------------------------------------------------------------------ RetryWithCtx scenarios
def scn(api, retries, keep, outs, kind="none", k=0, p=0, backoff=1, mx=1, jit=0, pool=False, flavour=""):
    return dict(type="run", api=api, retries=retries, keep=keep, outs=list(outs), kind=kind, k=k, p=p,
                backoff=backoff, max=mx, jit=jit, pool=pool, flavour=flavour)


def expand(outs):
    """ "r*N" = N recoverable failures with ids 0..7 cycling (as the harness expands it)"""
    out = []
    for t in outs:
        if t.startswith("r*"):
            for _ in range(int(t[2:])):
                out.append("r%d" % (len(out) % 8))
        else:
            out.append(t)
    return out


def go_req(s):
    return "%s %s %d %d %d %d %d %s %d %d %s" % (
        "prun" if s["pool"] else "run", s["api"], s["retries"], s["keep"], s["backoff"], s["max"], s["jit"],
        s["kind"] + ("/" + s["flavour"] if s.get("flavour") else ""), s["k"], s["p"], " ".join(s["outs"]))


EXOTIC_IS = ["canceled", "deadline", "deadline", "canceled", "retries", "waitdl", "retries", "canceled", "retries", "retries"]   # the sentinel exotic failure value k is or wraps (8, 9: the *FError of an inner retry holding 5 / 2 collected errors)


def plain(outs):
    """exotic failure values (R<k>/F<k>: context errors, wrapped ones, the package's sentinels, an inner *FError) are ordinary
    recoverable / unrecoverable failures for the model and for the property: only the bool the operation returns decides"""
    return [("r" if o[0] == "R" else "f") + o[1:] if o[0] in "RF" else o for o in outs]


def model_req(s):
    outs, kind, k = plain(expand(s["outs"])), s["kind"], s["k"]
    if s["api"] == "retry":              # Retry marks every error recoverable
        outs = [("r" + o[1:]) if o[0] == "f" else o for o in outs]
    pre = {"precancel": "C", "predeadline": "D"}.get(kind, "-")
    if kind == "dl":                     # the model decides the deadline pre-check from the configured BackOff/Max
        dr = s.get("draws") or []
        steps = ["%d:%s" % (dr[i - 1] if i - 1 < len(dr) else 0, outs[i]) for i in range(1, len(outs))]
        return "cfgrun %d %d %d %d %d %d - %s %s" % (s["retries"], s["keep"], s["backoff"], s["max"], s["jit"], s["p"],
                                                     outs[0], " ".join(steps))
    steps = []
    for i in range(1, len(outs) + 1):    # event of the wait after run i
        if k == i and kind in ("inF", "midwait", "sigF"):
            steps.append("C"); break
        if k == i and kind == "midwaitDL":
            steps.append("D"); break
        if k == i and kind == "deadline":
            steps.append("X"); break
        if i < len(outs):
            steps.append(outs[i])
    return "run %d %d %s %s %s" % (s["retries"], s["keep"], pre, outs[0], " ".join(steps))


def run_spec(s, ans):
    """the property, evaluated on what Go did (independently of the Coq model).
    returns list of (signature, text)"""
    raw = expand(s["outs"])
    exotic = any(o[0] in "RF" for o in raw)
    outs, kind, k, retries, keep = plain(raw), s["kind"], s["k"], s["retries"], s["keep"]
    if s["api"] == "retry":
        outs = [("r" + o[1:]) if o[0] == "f" else o for o in outs]
    f = ans.split()
    bad = []
    if ans == "skipped":
        return []
    if ans == "panic":
        return [("panic", "the call panicked")]
    if ans == "hang":
        return [("no-return", "the call had not returned after 5 s (all pauses of this scenario add up to well under 0.2 s)")]
    if len(f) < 2 or f[1] == "nonferror":
        return [("failure-not-ferror", "the failure returned is not an *FError: %s" % ans)]
    calls, status = int(f[0]), f[1]
    if status == "more":
        calls += 1                       # f was called beyond the script (the harness ends the call there)
    # expected
    exp_calls, exp_status, reason, ctx_stop = None, None, None, False
    if kind == "precancel":
        exp_calls, exp_status, reason, ctx_stop = 0, "err", "canceled", True
    elif kind == "predeadline":
        exp_calls, exp_status, reason, ctx_stop = 0, "err", "deadline", True
    else:
        limit = None if retries == -1 else max(1, retries)
        i = 0
        dl_elapsed = 0
        while True:
            if i >= len(outs):
                exp_calls, exp_status = i + 1, "more"; break
            o = outs[i]; i += 1
            if o == "o":
                exp_calls, exp_status = i, "nil"; break
            if o[0] == "f":
                exp_calls, exp_status, reason = i, "err", "u%d" % (int(o[1:]) % 8); break
            if limit is not None and i >= limit:
                exp_calls, exp_status, reason = i, "err", "retries"; break
            if kind == "dl":
                # deadline pre-check of iteration i, by the pause the PROPERTY states for the configured values
                exact, upper = pause_py(s["jit"], s["backoff"], s["max"], i, 0)
                rem = s["p"] - dl_elapsed
                if not s["jit"]:
                    if rem < exact:
                        exp_calls, exp_status, reason = i, "err", "waitdl"; break
                    dl_elapsed += exact
                elif rem - upper >= DELTA:
                    dl_elapsed += upper          # whatever the draw, the pause fits
                else:
                    return []                    # a jittered pause may or may not fit: not constrained
            if k == i and kind in ("inF", "midwait", "sigF"):
                exp_calls, exp_status, reason, ctx_stop = i, "err", "canceled", True; break
            if k == i and kind == "midwaitDL":
                exp_calls, exp_status, reason, ctx_stop = i, "err", "deadline", True; break
            if k == i and kind == "deadline":
                exp_calls, exp_status, reason = i, "err", "waitdl"; break
    if kind == "dl" and status == "err" and f[2] == "waitdl" and (calls != exp_calls or exp_status != "err" or reason != "waitdl"):
        bad.append(("pause-vs-deadline", "stopped with ErrWaitExceedsDeadline after %d run(s) although every pause the property allows for "
                    "BackOff=%d Max=%d (jitter %d) fits before a deadline %d ns away" % (calls, s["backoff"], s["max"], s["jit"], s["p"])))
    elif calls != exp_calls:
        if ctx_stop and calls > exp_calls:
            bad.append(("rerun-after-ctx-end", "the operation ran %d times, the context had ended after run %d" % (calls, exp_calls)))
        else:
            bad.append(("runs-count", "the operation ran %d times, expected %d" % (calls, exp_calls)))
    if (status == "nil") != (exp_status == "nil") and not bad:
        bad.append(("success-mismatch", "returned %s, last run %s" % (status, "succeeded" if exp_status == "nil" else "failed")))
    if exotic and status == "err" and exp_status == "err" and not bad:
        # the failure VALUES are context errors / sentinels themselves, so the errors.Is vector says little; judged: the main
        # error is the unrecoverable failure itself when that is why it stopped, and the number of errors kept
        bits = f[3]
        if reason and reason[0] == "u" and raw[calls - 1][0] == "F":
            # the unrecoverable failure is why it stopped: the failure returned must match it (errors.Is), i.e. the sentinel it is or wraps
            want = EXOTIC_IS[int(raw[calls - 1][1:]) % len(EXOTIC_IS)]
            if bits[TARGETS.index(want)] != "1":
                bad.append(("reason-not-matched:user", "stopped on an unrecoverable failure that is/wraps %s but errors.Is(failure, %s) is false" % (want, want)))
        elif reason and reason[0] == "u":
            if bits[TARGETS.index(reason)] != "1":
                bad.append(("reason-not-matched:user", "errors.Is(failure, %s) is false although that is why it stopped" % reason))
        elif reason == "retries" and bits[TARGETS.index("retries")] != "1":
            bad.append(("reason-not-matched:retries", "retries exhausted but errors.Is(failure, ErrRetriesExceeded) is false"))
        if int(f[4]) > max(1, keep):
            bad.append(("kept-too-many", "%d errors retained, KeepErrs=%d" % (int(f[4]), keep)))
        return bad
    if status == "err" and exp_status == "err" and not bad:
        bits = f[3]
        # a deadline scenario may end with either of the two reasons the property names for it
        alt = "deadline" if reason == "waitdl" else reason
        if bits[TARGETS.index(reason)] != "1" and bits[TARGETS.index(alt)] != "1":
            bad.append(("reason-not-matched:" + ("user" if reason[0] == "u" else reason),
                        "errors.Is(failure, %s) is false although that is why it stopped" % reason))
        if reason in ("canceled", "deadline") and len(bits) > 13 and bits[13] == "0":
            bad.append(("reason-not-matched:ctx-err", "errors.Is(failure, ctx.Err()) is false although the context's end is why it stopped"))
        if int(f[4]) > max(1, keep):
            bad.append(("kept-too-many", "%d errors retained, KeepErrs=%d" % (int(f[4]), keep)))
    return bad


def same_run(go, model, exotic=False):
    g, m = go.split(), model.split(" ;")[0].split()
    if go in ("skipped", "hang", "panic"):
        return True
    if g[:2] != m[:2]:
        return False
    if g[1] in ("nil", "more"):
        return True
    if exotic:                       # failure values differ by construction: number of runs, outcome and number of kept errors
        return g[4] == m[4]
    return g[2] == m[2] and g[3][:13] == m[3][:13] and g[4] == m[4] and sorted(g[5:]) == sorted(m[5:])


def sequences(maxlen):
    for n in range(1, maxlen + 1):
        for t in itertools.product("orf", repeat=n):
            yield t


def with_ids(t, mode):
    out = []
    for i, c in enumerate(t):
        if c == "o":
            out.append("o")
        else:
            out.append("%s%d" % (c, i if mode == "distinct" else (0 if mode == "same" else i % 2)))
    return out


RETRIES = [-3, -1, 0, 1, 2, 3, 7]
KEEPS = [-1, 0, 1, 2, 10]
CANCEL_FLAVOURS = ["", "cause", "child", "childcause", "value", "detached", "timeoutchild", "own"]
DEADLINE_FLAVOURS = ["", "timeout", "deadlinecause", "timeoutcause", "child"]
W = 40 * MS          # the wait in which a timed context event is placed
DELTA = 25 * MS      # distance kept between a deadline and every pause boundary of a deadline sweep
HOUR = 3600 * 10 ** 9
DL_CONFIGS = [(2 * HOUR, 2 * MS), (3 * 10 ** 9, 5 * MS), (2 * HOUR, 2 * HOUR), (HOUR, 2 * HOUR), (5 * MS, 5 * MS),
              (MS, 0), (MS, -1), (2 * HOUR, 0), (2 * HOUR, -7), (0, 0), (0, 3 * MS), (-5, 2 * MS), (2 ** 62, MS),
              (I64MAX, 1), (MS, 3 * MS), (I64MAX, I64MAX), (10 * HOUR, 1), (3 * MS, 2 * MS), (50 * MS, 30 * 10 ** 9),
              (60 * MS, 20 * MS), (20 * MS, 60 * MS), (30 * MS, 0)]


def dl_cases(seed, draws_of):
    """deadline sweeps: RetryWithCtx under a context whose deadline lies D ns ahead, D swept across the boundaries of the
    pauses predicted for the CONFIGURED BackOff/Max (ideal clock), kept DELTA away from every boundary; the pause is observed
    through the deadline pre-check, real waiting is limited to 80 ms per case (8 ms with jitter)"""
    out = []
    for ci, (b, m) in enumerate(DL_CONFIGS):
        for jit in (0, 1):
            sd = (seed + 7919 * ci) % 1000003 + 1
            draws = draws_of(sd) if jit else [0] * 6
            for retries, outs in ((3, ["r0", "r1", "r2", "o"]), (4, ["r0", "r1", "r2", "r3", "o"]), (-1, ["r0", "r1", "r2", "o"])):
                n_it = len(outs) - 1 if retries == -1 else min(len(outs) - 1, retries - 1)
                ps = [pause_py(jit, b, m, n, draws[n - 1])[0] for n in range(1, n_it + 1)]
                cands = {HOUR, 10 ** 10, 100 * MS}
                e = 0
                for pk in ps:
                    cands |= {e + pk - 2 * DELTA, e + pk + 2 * DELTA, (e + pk) // 2, e + pk + HOUR}
                    e += pk
                for d in sorted(c for c in cands if 2 * DELTA <= c <= I64MAX // 2):
                    e, ok = 0, True
                    for pk in ps:
                        rem = d - e
                        if abs(rem - pk) < DELTA:
                            ok = False; break
                        if rem < pk:
                            break
                        e += pk
                        if e > (8 if jit else 80) * MS:      # jitter cases run one after the other (seeded math/rand)
                            ok = False; break
                    if ok:
                        c = scn("ctx", retries, 2, outs, kind="dl", k=sd, p=d, backoff=b, mx=m, jit=jit, pool=not jit)
                        c["draws"] = draws[:len(outs)]
                        out.append(c)
    return out


def build_cases(tier, seed, rnd):
    thorough = tier == "thorough"
    cases = []
    # --- bulk: every outcome sequence, no context event
    for t in sequences(6):
        for r in RETRIES:
            for kp in KEEPS:
                cases.append(scn("ctx", r, kp, with_ids(t, "distinct")))
            for kp in ((0, 2, 10) if thorough else (2,)):
                cases.append(scn("ctx", r, kp, with_ids(t, "same")))
            if thorough:
                cases.append(scn("ctx", r, 3, with_ids(t, "alt"), backoff=0, mx=0))
    # KeepErrs far below zero is documented as legal ("if KeepErrs is <= 0 ..."): one error kept, whatever the history
    for t in sequences(5):
        for kp in (-2, -5, -1000, -2 ** 31, -2 ** 62):
            cases.append(scn("ctx", 7, kp, with_ids(t, "distinct")))
        cases.append(scn("ctx", -1, -3, with_ids(t, "alt")))
    for t in sequences(4):
        for r in RETRIES:
            cases.append(scn("some", r, 2, with_ids(t, "distinct")))
            if "f" not in t:
                cases.append(scn("retry", r, 2, with_ids(t, "distinct")))
    # zero value / negative configuration, jitter
    for t in sequences(3):
        for r in (-1, 0, 3, 7):
            cases.append(scn("ctx", r, 1, with_ids(t, "distinct"), backoff=0, mx=0))
            cases.append(scn("ctx", r, 1, with_ids(t, "distinct"), backoff=-5, mx=-7, jit=1))
            cases.append(scn("ctx", r, 1, with_ids(t, "distinct"), backoff=3, mx=50, jit=1))
    # --- failure VALUES that mean something to the retry package (errors of other contexts, bare and wrapped, its own sentinels,
    #     the *FError of an inner retry): recoverable ones must be re-run up to the limit, unrecoverable ones end the call and are its reason
    for x in range(len(EXOTIC_IS)):
        for r in (-1, 1, 2, 4, 7):
            for kp in (0, 2):
                cases.append(scn("ctx", r, kp, ["R%d" % x, "R%d" % x, "R%d" % ((x + 3) % len(EXOTIC_IS)), "o"]))
                cases.append(scn("ctx", r, kp, ["R%d" % x] * 9))
                cases.append(scn("ctx", r, kp, ["r1", "R%d" % x, "F%d" % x, "o"]))
                cases.append(scn("ctx", r, kp, ["F%d" % x, "o"]))
            cases.append(scn("some", r, 2, ["R%d" % x, "R%d" % x, "o"]))
            cases.append(scn("retry", r, 2, ["R%d" % x, "R%d" % x, "o"]))
        for fl in CANCEL_FLAVOURS[:2]:
            cases.append(scn("ctx", 5, 2, ["R%d" % x, "R%d" % x, "R%d" % x, "o"], kind="inF", k=2, backoff=1, mx=1, flavour=fl))
    # --- SIGINT / SIGTERM while RetrySome / Retry is under way ends THAT call like a cancelled context (after the run it arrives in,
    #     no further run); the operations started afterwards run once and are re-run up to their limit as ever
    for sg in ("INT", "TERM"):
        for api in ("some", "retry"):
            for k in (1, 2, 3):
                cases.append(scn(api, 7, 2, with_ids(("r",) * k + ("r", "o"), "distinct"), kind="sigF", k=k, backoff=100 * MS, mx=0, flavour=sg))
                cases.append(dict(scn(api, 4, 2, with_ids(("r", "r", "o"), "distinct")), after=1))
                cases.append(dict(scn("retry" if api == "some" else "some", -1, 0, ["r1", "r2", "r3", "r4", "o"]), after=2))
                cases.append(dict(scn("ctx", 3, 2, ["r1", "r2", "r3", "o"]), after=3))
    # --- context already ended on entry, over the kinds of context Go offers
    for kind, flavours in (("precancel", CANCEL_FLAVOURS), ("predeadline", DEADLINE_FLAVOURS)):
        for fl in flavours:
            for t in (("o",), ("r", "o"), ("f",)):
                for r in RETRIES:
                    for kp in (0, 2):
                        cases.append(scn("ctx", r, kp, with_ids(t, "distinct"), kind=kind, flavour=fl))
    # --- retry limits beyond every small constant (1 ns pauses): the limit must be reached exactly, success / an unrecoverable
    #     error anywhere up to the last allowed run must end the call there
    big = [62, 63, 64, 65, 66, 100, 1000, 5000] + ([20000] if thorough else [])
    for R in big:
        for kp in ((0, 2, 100) if R <= 5000 else (2,)):
            for (b, m, j) in (((1, 1, 0), (0, 1, 0), (-3, 1, 1)) if R <= 1000 else ((1, 1, 0),)):
                cases.append(scn("ctx", R, kp, ["r*%d" % (R + 2)], backoff=b, mx=m, jit=j))      # stops at R by the limit
                cases.append(scn("ctx", R, kp, ["r*%d" % (R - 1), "o"], backoff=b, mx=m, jit=j))   # succeeds in the last allowed run
                cases.append(scn("ctx", R, kp, ["r*%d" % (R - 1), "f3", "o"], backoff=b, mx=m, jit=j))
        if R <= 1000:
            cases.append(scn("some", R, 2, ["r*%d" % (R + 2)]))
            cases.append(scn("retry", R, 2, ["r*%d" % (R + 2)]))
            cases.append(scn("ctx", -1, 2, ["r*%d" % R]))                                          # Forever: still going after R runs
    for pos in (61, 62, 63, 64, 65, 66, 67):
        for R in (63, 64, 65, 66, 100, -1):
            for last in ("o", "f5"):
                cases.append(scn("ctx", R, 2, ["r*%d" % (pos - 1), last, "r1", "o"]))
            cases.append(scn("ctx", R, 3, ["r*%d" % pos, "r1", "o"], kind="inF", k=pos, backoff=1, mx=1))  # cancelled inside run pos
    # --- context events at run/wait k (timed; run concurrently)
    for k in range(1, 6):
        b = W // 2 ** (k - 1)
        for r in RETRIES:
            for kp in (0, 2):
                for last in "orf":
                    outs = with_ids(("r",) * (k - 1) + (last, "r", "o"), "distinct")
                    cases.append(scn("ctx", r, kp, outs, kind="inF", k=k, backoff=b, mx=0, pool=True))
                outs = with_ids(("r",) * k + ("r", "o"), "distinct")
                cases.append(scn("ctx", r, kp, outs, kind="midwait", k=k, p=W // 4, backoff=b, mx=0, pool=True))
                cases.append(scn("ctx", r, kp, outs, kind="midwaitDL", k=k, p=W // 4, backoff=b, mx=0, pool=True))
        # the same context events over the kinds of context Go offers (the reason must match ctx.Err() in each)
        for r in ((-1, 2, 7) if not thorough else RETRIES):
            outs = with_ids(("r",) * k + ("r", "o"), "distinct")
            for fl in CANCEL_FLAVOURS[1:]:
                cases.append(scn("ctx", r, 2, outs, kind="inF", k=k, backoff=b, mx=0, pool=True, flavour=fl))
                cases.append(scn("ctx", r, 2, outs, kind="midwait", k=k, p=W // 4, backoff=b, mx=0, pool=True, flavour=fl))
            for fl in ("hidden-deadline", "hidden-timeout", "hidden-timeoutcause", "hidden-deadlinecause", "hidden-child"):
                # a real deadline in the middle of wait k which Deadline() does not report
                cases.append(scn("ctx", r, 2, outs, kind="midwaitDL", k=k, p=(W - b) + W // 4, backoff=b, mx=0, pool=True, flavour=fl))
            for fl in DEADLINE_FLAVOURS[1:]:
                cases.append(scn("ctx", r, 2, outs, kind="deadline", k=k, p=b * (2 ** (k - 1) - 1) + W // 2,
                                 backoff=b, mx=0, pool=True, flavour=fl))
                # deadline half way through wait k: every earlier pre-check passes with W/2 to spare
                cases.append(scn("ctx", r, kp, outs, kind="deadline", k=k, p=b * (2 ** (k - 1) - 1) + W // 2,
                                 backoff=b, mx=0, pool=True))
    return cases


def timing_cases(seed):
    return [dict(type="timing", backoff=2 * MS, max=5 * MS, jit=0, seed=seed, retries=5),
            dict(type="timing", backoff=1 * MS, max=0, jit=0, seed=seed, retries=5),
            dict(type="timing", backoff=0, max=0, jit=0, seed=seed, retries=6),
            dict(type="timing", backoff=0, max=3 * MS, jit=0, seed=seed, retries=6),
            dict(type="timing", backoff=3 * MS, max=2 * MS, jit=0, seed=seed, retries=4),
            dict(type="timing", backoff=-5, max=-7, jit=0, seed=seed, retries=6),
            dict(type="timing", backoff=3 * 10 ** 9, max=5 * MS, jit=0, seed=seed, retries=3),
            dict(type="timing", backoff=1 * MS, max=6 * MS, jit=1, seed=seed, retries=5),
            dict(type="timing", backoff=1 * MS, max=6 * MS, jit=1, seed=seed + 1, retries=5),
            # an operation that takes time to fail (a dial or send timing out): the pause is counted from the END of a run
            dict(type="timing", backoff=2 * MS, max=5 * MS, jit=0, seed=seed, retries=5, opdur=3 * MS),
            dict(type="timing", backoff=4 * MS, max=0, jit=0, seed=seed, retries=4, opdur=1 * MS),
            dict(type="timing", backoff=3 * MS, max=3 * MS, jit=0, seed=seed, retries=4, opdur=10 * MS)]


_HARNESS = {}


def _go_nextwait_factory():
    """confirm a draw-free nextWait value on the real Go function (used by the directed search of c18_code)"""
    exe = _HARNESS.get("exe")
    if not exe:
        return None

    def f(base, mx, n):
        rc, lines, _ = vlib.run_harness(exe, "TestVerifC18", "nw 0 %d %d %d 1 1\n" % (base, mx, n), timeout=60, tag="_code")
        if rc != 0 or len(lines) != 1 or ":" not in lines[0]:
            return None
        w = lines[0].split(":")[1]
        return w if w == "panic" else int(w)
    return f


def run(tier, seed, replay=None):
    # Way 1 for the arithmetic (checks/c18_code.py, every run): the Go text of nextWait and of the normalisation in RetryWithCtx,
    # translated on this run, is proved equal to the model for all int64 inputs
    with c18_code.attached(nw_spec, _go_nextwait_factory):
        return _run(tier, seed, replay)


def _run(tier, seed, replay=None):
    res = vlib.Result(PID, tier, seed)
    res.assumptions = vlib.TRUSTED_COMMON + [
        "the operation f, the context and the timer are the environment of the model: a history is (ctx ended on entry?, "
        "outcome of the first call, one event per loop iteration: wait-exceeds-deadline | ctx.Done taken | timer taken and f's outcome | "
        "ctx ended and timer due, timer taken and f's outcome); Go's select picks among ready cases at random",
        "rand.Int63n(k) returns a value in [0,k) (argument r with hypothesis 0 <= r < 2^n); the harness learns the draw by seeding math/rand "
        "identically before a mirror draw and before the call",
        "errors.Is between errors.New values is identity; context.Context.Err/Done/Deadline behave as documented",
        "time: timers do not fire early; elapsed pauses are compared with a lower bound and a 250 ms upper slack only",
        "int attempt counter and FError.Attempts do not reach 2^63 (no history is that long)",
    ]
    vlib.proof_part(res, PID)
    rc, log = vlib.build_oracle("c18")
    if rc != 0:
        res.violation("oracle-build", "oracle for C18 does not build: " + log[-800:], dict(kind="build"), False)
        return res.finish()
    ok, log, exe = vlib.build_harness("retry", PID, ["c18_test.go"])
    if not ok:
        res.violation("harness-build", "Go harness does not build against the repository: " + log[-1500:], dict(kind="build"), False)
        return res.finish()
    _HARNESS["exe"] = exe

    thorough = tier == "thorough"
    rnd = random.Random(seed)
    if replay:
        items = json.load(open(replay)).get("cases", [])
    else:
        items = []
        vals, negs = grid_values(thorough)
        for jit in (0, 1):
            for b in vals:
                for m in vals:
                    items.append(dict(type="nw", jit=jit, base=b, max=m, seed=rnd.getrandbits(40)))
            for b in negs + [1, 1000]:
                for m in negs + [0, 1, 10 ** 9]:
                    if b < 0 or m < 0:
                        items.append(dict(type="nw", jit=jit, base=b, max=m, seed=rnd.getrandbits(40)))
        items += build_cases(tier, seed, rnd)
        # jitter draws for the deadline sweeps (math/rand seeded in the harness), learnt in a first small harness run
        seeds = [(seed + 7919 * ci) % 1000003 + 1 for ci in range(len(DL_CONFIGS))]
        rc0, dl_lines, glog0 = vlib.run_harness(exe, "TestVerifC18", "".join("draws %d 6\n" % sd for sd in seeds), timeout=120, tag="_draws")
        if rc0 != 0 or len(dl_lines) != len(seeds):
            res.violation("harness-run", "Go harness failed on the draws request: " + glog0[-800:], dict(kind="harness"), False)
            return res.finish()
        dmap = {sd: [int(x) for x in l.split()] for sd, l in zip(seeds, dl_lines)}
        items += dl_cases(seed, lambda sd: dmap[sd])
        items += timing_cases(seed % 1000003)
        items += [dict(type="tie", trials=256, mode=1), dict(type="tie", trials=64, mode=0)]

    def go_line(it):
        if it["type"] == "nw":
            return "nw %d %d %d %d %d %d" % (it["jit"], it["base"], it["max"], N0, NCNT, it["seed"])
        if it["type"] == "run":
            return go_req(it)
        if it["type"] == "tie":
            return "tie %d %d" % (it["trials"], it["mode"])
        return "timing %d %d %d %d %d %d" % (it["backoff"], it["max"], it["jit"], it["seed"], it["retries"], it.get("opdur", 0))

    def harness(its, tag=""):
        rc, lines, glog = vlib.run_harness(exe, "TestVerifC18", "\n".join(go_line(i) for i in its) + "\n",
                                           timeout=1500, tag=tag)
        if rc != 0 or len(lines) != len(its):
            res.violation("harness-run", "Go harness failed (rc=%s, %d/%d answers): %s" % (rc, len(lines), len(its), glog[-1500:]),
                          dict(kind="harness", log=glog[-3000:]), False)
            return None
        return lines

    def oracle(its, go):
        reqs = []
        for it, g in zip(its, go):
            if it["type"] == "nw":
                reqs.append("nw %d %d %d %d %s" % (it["jit"], it["base"], it["max"], N0, " ".join(x.split(":")[0] for x in g.split())))
            elif it["type"] == "run":
                reqs.append(model_req(it))
            elif it["type"] == "timing":
                rs = [x.split(":")[0] for x in g.split()[1:]]
                reqs.append("pause %d %d %d 1 %s" % (it["jit"], it["backoff"], it["max"], " ".join(rs + ["0"] * (it["retries"] - 1 - len(rs)))))
            else:
                reqs.append("run 4 0 - r0 tC:r0 tC:r0 tC:r0")
        orc, oout = vlib.run_oracle("c18", "\n".join(reqs) + "\n", timeout=1500)
        ol = oout.split("\n")
        if orc != 0 or len(ol) < len(reqs):
            res.violation("oracle-run", "oracle failed rc=%s" % orc, dict(kind="oracle", log=oout[-2000:]), False)
            return None
        return ol[:len(reqs)]

    go = harness(items)
    if go is None:
        return res.finish()
    model = oracle(items, go)
    if model is None:
        return res.finish()

    # timed scenarios that disagree are repeated alone, slower, before they are judged
    def disagree(it, g, m):
        return it["type"] == "run" and (not same_run(g, m, any(o[0] in "RF" for o in it["outs"])) or run_spec(it, g))
    redo = [i for i, it in enumerate(items) if it["type"] == "run" and (it.get("pool") or it["kind"] in ("dl", "sigF")) and disagree(it, go[i], model[i])]
    retried = 0
    for attempt in range(2):
        if not redo:
            break
        slow = []
        for i in redo:
            it = dict(items[i]); it["pool"] = False
            if it["kind"] != "dl":           # a deadline sweep is repeated as it is, alone
                it["backoff"] *= 4; it["p"] *= 4
            slow.append(it)
        g2 = harness(slow, tag="_redo%d" % attempt)
        if g2 is None:
            return res.finish()
        retried += len(redo)
        still = []
        for i, it, g in zip(redo, slow, g2):
            if disagree(it, g, model[i]):
                still.append(i)
            else:
                go[i] = g
        redo = still

    evals, dist, nontriv, samples = 0, {}, set(), []
    n_nw_vals = 0
    for idx, (it, g, m) in enumerate(zip(items, go, model)):
        evals += 1
        ty = it["type"]
        key = ty if ty != "run" else "run:" + it["api"] + ":" + it["kind"] + (":after-signal" if it.get("after") else "")
        dist[key] = dist.get(key, 0) + 1
        # an operation started after a signal scenario is replayed together with that scenario
        rp = dict(kind="correspondence", cases=items[max(0, idx - it.get("after", 0)):idx + 1] if ty == "run" else [it], observed=g[:1500], expected=m[:1500])
        if ty == "nw":
            gp = [x.split(":") for x in g.split()]
            mv = m.split()
            for j, (r, w) in enumerate(gp):
                n = N0 + j
                n_nw_vals += 1
                sp = nw_spec(it["jit"], it["base"], it["max"], n, w)
                d = dict(rp, n=n, draw=r, observed=w, expected=mv[j] if j < len(mv) else None,
                         correspondence="C18/nextWait-vs-next_wait")
                if sp:
                    res.violation(sp[0], "nextWait(n=%d) with BackOff=%d Max=%d Jitter=%s draw=%s: %s" % (
                        n, it["base"], it["max"], bool(it["jit"]), r, sp[1]), d)
                elif j >= len(mv) or w != mv[j]:
                    inside = it["base"] >= 1 and it["max"] >= 1
                    res.violation("nextwait-model-differs:" + ("jitter" if it["jit"] else "nojitter") + ("" if inside else ":raw"),
                                  "nextWait(n=%d) BackOff=%d Max=%d Jitter=%s draw=%s returns %s, the model gives %s (the stated bounds hold)" % (
                                      n, it["base"], it["max"], bool(it["jit"]), r, w, mv[j] if j < len(mv) else "?"), d, False)
            if it["base"] >= 1 and it["max"] >= 1:
                nontriv.add(("nw", it["jit"], it["base"], it["max"]))
            if len(samples) < 3 and it["base"] == 5 * 10 ** 9 and it["max"] in (1800 * 10 ** 9, I64MAX):
                samples.append(dict(request=go_line(it), go=" ".join(g.split()[58:68]), model=" ".join(mv[58:68]), n_shown="56..65"))
        elif ty == "run":
            rp["correspondence"] = "C18/RetryWithCtx-vs-retry_run"
            rp["model_request"] = model_req(it)
            sp = run_spec(it, g)
            for sig, text in sp:
                res.violation(sig, "%s(retries=%d, KeepErrs=%d, outcomes=%s, ctx=%s@%d): %s; Go: %s" % (
                    {"ctx": "RetryWithCtx", "some": "RetrySome", "retry": "Retry"}[it["api"]], it["retries"], it["keep"],
                    " ".join(it["outs"]), it["kind"] + ("/" + it["flavour"] if it.get("flavour") else ""), it["k"], text, g), rp)
            if not sp and not same_run(g, m, any(o[0] in "RF" for o in it["outs"])):
                res.violation("run-model-differs", "RetryWithCtx(retries=%d, KeepErrs=%d, outcomes=%s, ctx=%s@%d): Go %s, model %s" % (
                    it["retries"], it["keep"], " ".join(it["outs"]), it["kind"] + ("/" + it["flavour"] if it.get("flavour") else ""), it["k"], g, m), rp, False)
            if len(it["outs"]) >= 2 and it["outs"][0] != "o":
                nontriv.add(("run", it["api"], it["retries"], it["keep"], tuple(it["outs"]), it["kind"], it["k"], it["backoff"], it["jit"]))
            if it["kind"] == "dl" and it["backoff"] == 2 * HOUR and it["max"] == 2 * MS and it["retries"] == 3 and it["p"] in (HOUR, 100 * MS):
                samples.append(dict(request=go_line(it), model_request=model_req(it), go=g, model=m))
            if len(samples) < 8 and ((it["kind"] == "midwait" and it["k"] == 3 and it["retries"] == 7 and it["keep"] == 2)
                                     or (it["kind"] == "none" and it["outs"] == ["r0", "r1", "r2", "r3", "f4"] and it["retries"] == 7 and it["keep"] == 2)
                                     or (it["kind"] == "deadline" and it["k"] == 2 and it["retries"] == -1 and it["keep"] == 0)):
                samples.append(dict(request=go_line(it), model_request=model_req(it), go=g, model=m))
        elif ty == "tie":
            f = g.split()
            trials, reran, mx = int(f[0]), int(f[1]), int(f[2])
            nontriv.add(("tie", it["mode"]))
            samples.append(dict(request=go_line(it), go=g, meaning="trials, trials in which f ran again after the context had ended, max calls"))
            if reran > 0:
                cfg = "BackOff=Max=1ns" if it["mode"] == 0 else "retry.Quick (50ms, jitter)"
                res.violation("ctx-ended-timer-due-reran",
                              "RetryWithCtx with %s: the context is cancelled during the first call of f, which fails recoverably; "
                              "in %d of %d trials f was called again (up to %d calls) although the context had ended — the loop waits 0/1 ns, "
                              "the select has both ctx.Done() and the timer ready, picks at random and ctx.Err() is not looked at after <-delay.C "
                              "(model: event StRunCtxEnded, theorem C18_no_run_after_ctx_end_refuted)" % (cfg, reran, trials, mx),
                              dict(kind="property", cases=[it], observed=g))
        else:
            f = g.split()
            calls = int(f[0])
            pauses = [int(x) for x in m.split()]
            nontriv.add(("timing", it["backoff"], it["max"], it["jit"], it["seed"]))
            samples.append(dict(request=go_line(it), go=g, model_pauses=m))
            if calls != it["retries"]:
                res.violation("runs-count", "timing run BackOff=%d Max=%d: %d calls, expected %d (3 s budget)" % (
                    it["backoff"], it["max"], calls, it["retries"]), rp)
                continue
            for a, x in enumerate(f[1:]):
                gap = int(x.split(":")[1])
                if gap < pauses[a]:
                    res.violation("pause-too-short", "BackOff=%d Max=%d Jitter=%d: pause before re-run %d was %d ns, must be %d" % (
                        it["backoff"], it["max"], it["jit"], a + 1, gap, pauses[a]), rp)
                elif gap > pauses[a] + 250 * MS:
                    res.violation("pause-too-long", "BackOff=%d Max=%d Jitter=%d: pause before re-run %d was %d ns, must be %d" % (
                        it["backoff"], it["max"], it["jit"], a + 1, gap, pauses[a]), rp)

    res.coverage.update(
        evaluations=evals, distinct_nontrivial=len(nontriv), nextwait_values_compared=n_nw_vals,
        rule="cases = nextWait lines (BackOff, Max, jitter) each evaluated for n in [-2,70] with the jitter draw mirrored by seeding math/rand "
             "+ RetryWithCtx/RetrySome/Retry scenarios (every outcome sequence over {ok, recoverable, fatal} of length <= 6 x retries in "
             "{-3,-1,0,1,2,3,7} x KeepErrs in {-1,0,1,2,10} x error identities; context ended on entry; cancel inside call k, cancel / deadline-"
             "exceeded in the middle of wait k, deadline before wait k, k = 1..5; deadline sweeps: 22 configurations incl. 0 < Max < BackOff, "
             "Max = BackOff, Max <= 0, huge BackOff with tiny Max, jitter on/off, deadline swept across the boundaries of the pauses the model "
             "predicts from the CONFIGURED values, observed through the deadline pre-check) + elapsed-pause runs + select-tie trials. "
             "non-trivial: nextWait line with BackOff >= 1 and Max >= 1; scenario whose first call fails and that has >= 2 scripted outcomes; "
             "distinct by all parameters",
        samples=samples[:12], input_distribution=dist, traces_validated_against_impl=evals,
        timed_scenarios_repeated=retried, exhaustive=False, trusted_base=res.assumptions)
    return res.finish()
